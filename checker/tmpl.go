package main

// Abstract instantiation of lox's Jet templates (DESIGN.md 2.3).
//
// The templates are Go programs with holes, stored as string constants in internal/codegen. They
// are read from the type-checked constant values, their variable bindings are read from the
// vars.Set(...) calls that feed them, and they are then *abstractly executed* on a small synthetic
// model (three terminals, two lexer modes, one production of every helper-rule kind and arity) to
// obtain ordinary Go packages which are type-checked and analysed like any other code. Nothing of
// /repo is executed: this is syntactic specialisation of program text.

import (
	"fmt"
	"go/ast"
	"go/constant"
	"go/importer"
	"go/parser"
	"go/token"
	"go/types"
	"path/filepath"
	"sort"
	"strings"

	"golang.org/x/tools/go/packages"
	"golang.org/x/tools/go/ssa"
	"golang.org/x/tools/go/ssa/ssautil"
)

// TemplateUse is one template constant together with the Go-side bindings that feed it.
type TemplateUse struct {
	Name     string // constant name, e.g. parserTemplate
	Src      string
	Const    *types.Const
	CallSite *ast.CallExpr       // the renderTemplate(...) call
	Func     *ast.FuncDecl       // function containing the call site
	Binds    map[string]ast.Expr // vars.Set(name, expr) in Func and in the render function
	BindPos  map[string]token.Pos
	Direct   bool // template constant passed directly (false: through a local variable)
	Tree     []jNode
}

type TemplateSet struct {
	Pkg        *packages.Package // internal/codegen
	RenderFunc *ast.FuncDecl     // the function handing a template string to Jet
	Uses       []*TemplateUse    // main templates (direct uses), in file order base, lexer, parser
	Alternates []*TemplateUse    // templates only reachable through a variable (the placeholder)
	Flags      []string          // names of bool-valued non-constant bindings (feature switches)
	Errors     []string
}

type RenderedHole struct {
	Tmpl       string
	Src        string // Jet expression source
	Expr       jExpr
	Text       string // rendered Go text
	Start, End int    // byte offsets in the rendered file
	Value      any
	TmplOff    int
	ProdIndex  int     // model production being rendered (-1 outside the production range)
	Range      *jRange // innermost enclosing {{range}} (nil at top level)
	Iter       int     // iteration number of that range
}

type modelProd struct {
	Index  int
	Kind   string // value of the `generated` constant
	NTerms int
	Method string // action method name for user productions
	// Variadic: the model action method's last parameter is variadic (…T); the term at that position
	// has the slice type _TtermV
	Variadic bool
}

type FlagRegion struct {
	Tmpl       string
	Flag       string
	Start, End int
}

type TmplInstance struct {
	PType    string // name of the user's parser type ("_P" in the synthetic prelude)
	Regions  []FlagRegion
	Flags    map[string]bool
	Fset     *token.FileSet
	Files    map[string]*ast.File // template constant name => rendered file ("" => prelude)
	Sources  map[string]string
	AllFiles []*ast.File
	Pkg      *types.Package
	Info     *types.Info
	Holes    []*RenderedHole
	Prods    []*modelProd
	NumFuncs int
	ssaPkg   *ssa.Package
	ssaProg  *ssa.Program
	norm     map[*ast.FuncDecl]*ast.FuncDecl // inlined normal forms (inline.go)
	Inlined  int                             // helper call sites expanded so far
	posMap   []posPair                       // synthetic positions of normal forms => source positions
}

func (ti *TmplInstance) FlagString() string {
	var ks []string
	for k := range ti.Flags {
		ks = append(ks, k)
	}
	sort.Strings(ks)
	var parts []string
	for _, k := range ks {
		parts = append(parts, fmt.Sprintf("%s=%v", k, ti.Flags[k]))
	}
	return strings.Join(parts, ",")
}

// Pos renders a position inside a rendered template file.
func (ti *TmplInstance) Pos(p token.Pos) string {
	if !p.IsValid() {
		return "-"
	}
	ps := ti.Fset.Position(ti.OrigPos(p))
	return fmt.Sprintf("%s:%d", ps.Filename, ps.Line)
}

// HoleAt finds the rendered hole that produced the source range of node n in template file tmpl.
func (ti *TmplInstance) HoleAt(tmpl string, n ast.Node) *RenderedHole {
	t2, s, e, ok := ti.span(n)
	if !ok || t2 != tmpl {
		return nil
	}
	var best *RenderedHole
	for _, h := range ti.Holes {
		if h.Tmpl != tmpl {
			continue
		}
		if h.Start < e && s < h.End { // overlap
			if best == nil || (h.End-h.Start) > (best.End-best.Start) {
				best = h
			}
		}
	}
	return best
}

// TmplOf returns the template constant name whose rendered file contains pos.
func (ti *TmplInstance) TmplOf(pos token.Pos) string {
	pos = ti.OrigPos(pos)
	for name, f := range ti.Files {
		tf := ti.Fset.File(f.Pos())
		if tf != nil && tf == ti.Fset.File(pos) {
			return name
		}
	}
	return ""
}

func (ti *TmplInstance) FuncDecl(name string) (*ast.FuncDecl, string) {
	if strings.HasPrefix(name, "_P.") && ti.PType != "" {
		name = ti.PType + name[2:]
	}
	recv, meth := "", name
	if i := strings.Index(name, "."); i >= 0 {
		recv, meth = name[:i], name[i+1:]
	}
	for tn, f := range ti.Files {
		for _, d := range f.Decls {
			fd, ok := d.(*ast.FuncDecl)
			if !ok || fd.Name.Name != meth {
				continue
			}
			if (recv == "" && fd.Recv == nil) || (recv != "" && recvTypeName(fd) == recv) {
				return ti.Normalized(fd), tn
			}
		}
	}
	return nil, ""
}

func (ti *TmplInstance) SSA() *ssa.Package {
	if ti.ssaPkg != nil {
		return ti.ssaPkg
	}
	pkg, _, err := ssautil.BuildPackage(&types.Config{Importer: importer.Default()}, ti.Fset, types.NewPackage("tmpl", "tmpl"), ti.AllFiles, ssa.InstantiateGenerics)
	if err != nil {
		panic(fmt.Sprintf("template instance SSA build: %v", err))
	}
	ti.ssaPkg = pkg
	ti.ssaProg = pkg.Prog
	return pkg
}

// ---------- discovery of templates and bindings ----------

const jetPath = "github.com/CloudyKit/jet/v6"

func discoverTemplates(p *Program) (*TemplateSet, error) {
	pk := p.Pkg("internal/codegen")
	if pk == nil {
		return nil, fmt.Errorf("package internal/codegen not found")
	}
	ts := &TemplateSet{Pkg: pk}
	info := pk.TypesInfo
	// 1. the render function: hands one of its string parameters to (*jet.InMemLoader).Set
	var renderFn *types.Func
	tmplParam := -1
	for _, f := range pk.Syntax {
		if isTestFile(p.Fset, f) {
			continue
		}
		for _, d := range f.Decls {
			fd, ok := d.(*ast.FuncDecl)
			if !ok || fd.Body == nil || fd.Recv != nil {
				continue
			}
			ast.Inspect(fd.Body, func(n ast.Node) bool {
				call, ok := n.(*ast.CallExpr)
				if !ok {
					return true
				}
				fn := calleeFunc(info, call)
				if fn == nil || fn.Pkg() == nil || fn.Pkg().Path() != jetPath || fn.Name() != "Set" || len(call.Args) != 2 {
					return true
				}
				if !strings.Contains(fullName(fn), "InMemLoader") {
					return true
				}
				obj := usesObj(info, call.Args[1])
				if obj == nil {
					return true
				}
				k := 0
				for _, fld := range fd.Type.Params.List {
					for _, nm := range fld.Names {
						if info.Defs[nm] == obj {
							renderFn, _ = info.Defs[fd.Name].(*types.Func)
							tmplParam = k
							ts.RenderFunc = fd
						}
						k++
					}
				}
				return true
			})
		}
	}
	if renderFn == nil {
		return nil, fmt.Errorf("no function in internal/codegen passes a parameter to jet.InMemLoader.Set (template render function not found)")
	}
	// which parameter of the render function is the VarMap
	varsParam := -1
	{
		k := 0
		for _, fld := range ts.RenderFunc.Type.Params.List {
			for range fld.Names {
				if typeIs(info.TypeOf(fld.Type), "jet/v6", "VarMap") {
					varsParam = k
				}
				k++
			}
		}
	}
	if varsParam < 0 {
		return nil, fmt.Errorf("render function %s has no jet.VarMap parameter", renderFn.Name())
	}
	// bindings made inside the render function itself (imp, go_type)
	common := map[string]ast.Expr{}
	commonPos := map[string]token.Pos{}
	{
		var varsObj types.Object
		k := 0
		for _, fld := range ts.RenderFunc.Type.Params.List {
			for _, nm := range fld.Names {
				if k == varsParam {
					varsObj = info.Defs[nm]
				}
				k++
			}
		}
		collectVarSets(info, ts.RenderFunc.Body, varsObj, common, commonPos)
	}
	// 2. call sites
	seen := map[string]*TemplateUse{}
	for _, f := range pk.Syntax {
		if isTestFile(p.Fset, f) {
			continue
		}
		for _, d := range f.Decls {
			fd, ok := d.(*ast.FuncDecl)
			if !ok || fd.Body == nil {
				continue
			}
			ast.Inspect(fd.Body, func(n ast.Node) bool {
				call, ok := n.(*ast.CallExpr)
				if !ok || calleeFunc(info, call) != renderFn || len(call.Args) <= tmplParam || len(call.Args) <= varsParam {
					return true
				}
				var consts []*types.Const
				direct := false
				targ := ast.Unparen(call.Args[tmplParam])
				switch o := usesObj(info, targ).(type) {
				case *types.Const:
					consts = append(consts, o)
					direct = true
				case *types.Var:
					// local variable: collect every constant assigned to it in this function
					ast.Inspect(fd.Body, func(m ast.Node) bool {
						as, ok := m.(*ast.AssignStmt)
						if !ok {
							return true
						}
						for i, lhs := range as.Lhs {
							if i < len(as.Rhs) && usesObj(info, lhs) == o {
								if c, ok := usesObj(info, as.Rhs[i]).(*types.Const); ok {
									consts = append(consts, c)
								} else {
									ts.Errors = append(ts.Errors, fmt.Sprintf("%s: template variable %s assigned a non-constant", p.Pos(as.Pos()), o.Name()))
								}
							}
						}
						return true
					})
				default:
					ts.Errors = append(ts.Errors, fmt.Sprintf("%s: template argument of %s is not a constant", p.Pos(call.Pos()), renderFn.Name()))
				}
				binds := map[string]ast.Expr{}
				bpos := map[string]token.Pos{}
				for k, v := range common {
					binds[k] = v
					bpos[k] = commonPos[k]
				}
				if vo := usesObj(info, call.Args[varsParam]); vo != nil {
					collectVarSets(info, fd.Body, vo, binds, bpos)
				}
				for _, c := range consts {
					if c.Val().Kind() != constant.String {
						continue
					}
					u := &TemplateUse{Name: c.Name(), Src: constant.StringVal(c.Val()), Const: c, CallSite: call, Func: fd, Binds: binds, BindPos: bpos, Direct: direct}
					if prev := seen[c.Name()]; prev != nil {
						if direct && !prev.Direct {
							*prev = *u
						}
						continue
					}
					seen[c.Name()] = u
				}
				return true
			})
		}
	}
	var names []string
	for n := range seen {
		names = append(names, n)
	}
	sort.Slice(names, func(i, j int) bool { return seen[names[i]].Const.Pos() < seen[names[j]].Const.Pos() })
	for _, n := range names {
		u := seen[n]
		tree, err := parseJet(u.Src)
		if err != nil {
			ts.Errors = append(ts.Errors, fmt.Sprintf("template %s: %v", n, err))
			continue
		}
		u.Tree = tree
		if u.Direct {
			ts.Uses = append(ts.Uses, u)
		} else {
			ts.Alternates = append(ts.Alternates, u)
		}
	}
	flagSet := map[string]bool{}
	for _, u := range ts.Uses {
		for name, e := range u.Binds {
			tv := info.Types[e]
			if tv.Value == nil {
				if b, ok := tv.Type.Underlying().(*types.Basic); ok && b.Kind() == types.Bool {
					flagSet[name] = true
				}
			}
		}
	}
	for n := range flagSet {
		ts.Flags = append(ts.Flags, n)
	}
	sort.Strings(ts.Flags)
	return ts, nil
}

func collectVarSets(info *types.Info, body ast.Node, varsObj types.Object, out map[string]ast.Expr, pos map[string]token.Pos) {
	if varsObj == nil || body == nil {
		return
	}
	ast.Inspect(body, func(n ast.Node) bool {
		call, ok := n.(*ast.CallExpr)
		if !ok || len(call.Args) != 2 {
			return true
		}
		sel, ok := call.Fun.(*ast.SelectorExpr)
		if !ok || sel.Sel.Name != "Set" || usesObj(info, sel.X) != varsObj {
			return true
		}
		fn := calleeFunc(info, call)
		if fn == nil || fn.Pkg() == nil || fn.Pkg().Path() != jetPath {
			return true
		}
		if name, ok := constString(info, call.Args[0]); ok {
			out[name] = call.Args[1]
			pos[name] = call.Pos()
		}
		return true
	})
}

// ---------- the synthetic model ----------

// shapes of the productions of each helper-rule kind (number of terms per production). ACT-3
// cross-checks this table against ast.ParserTerm.normalize on every run.
var kindShapes = map[string][]int{
	"not_generated":  {0, 1, 3},
	"sprime":         {1},
	"one_or_more":    {2, 1},
	"one_or_more_f":  {2, 1},
	"list":           {3, 1},
	"zero_or_one":    {1, 0},
	"zero_or_more":   {1, 0},
	"zero_or_more_f": {1, 0},
}

type model struct {
	prog      *Program
	terminals *jList
	modes     *jList
	grammar   *jObj
	prods     []*modelProd
	prodObjs  []*jObj
	// imports requested through the template function imp("path") while rendering the current
	// template: path => alias (the real function hands out _i<n>; the alias only has to be stable)
	imports map[string]string
}

func buildModel(p *Program, ts *TemplateSet) (*model, error) {
	m := &model{prog: p}
	mkTerm := func(i int, name, alias string) *jObj {
		return &jObj{Kind: "terminal", GoType: "lr1.Terminal", Fields: map[string]any{"Name": name, "Alias": alias, "Index": int64(i)}}
	}
	m.terminals = &jList{Elems: []any{mkTerm(0, "EOF", ""), mkTerm(1, "ERROR", ""), mkTerm(2, "_TOK2", "+")}}
	m.modes = &jList{Elems: []any{
		&jObj{Kind: "mode", GoType: "mode.Mode", Fields: map[string]any{"Index": int64(0), "Name": "$default"}},
		&jObj{Kind: "mode", GoType: "mode.Mode", Fields: map[string]any{"Index": int64(1), "Name": "M"}},
	}}
	// kinds: every constant of the named string type returned by the rule-kind function
	kinds, err := generatedKinds(p)
	if err != nil {
		return nil, err
	}
	var prodList []any
	add := func(kind string, n int) {
		idx := len(m.prods)
		mp := &modelProd{Index: idx, Kind: kind, NTerms: n}
		rule := &jObj{Kind: "rule", GoType: "lr1.Rule", Fields: map[string]any{"Name": fmt.Sprintf("r%d", idx), "Index": int64(idx)}, Tag: mp}
		terms := &jList{}
		for i := 0; i < n; i++ {
			terms.Elems = append(terms.Elems, &jObj{Kind: "term", Fields: map[string]any{}, Tag: i})
		}
		po := &jObj{Kind: "prod", GoType: "lr1.Prod", Fields: map[string]any{"Rule": rule, "Terms": terms, "Index": int64(idx)}, Tag: mp}
		if kind == "not_generated" {
			mp.Method = fmt.Sprintf("on_action%d", idx)
		}
		m.prods = append(m.prods, mp)
		m.prodObjs = append(m.prodObjs, po)
		prodList = append(prodList, po)
	}
	add("sprime", 1)
	for _, k := range kinds {
		if k == "sprime" {
			continue
		}
		shapes, ok := kindShapes[k]
		if !ok {
			return nil, fmt.Errorf("helper-rule kind %q is declared in internal/codegen but unknown to the checker's model (shapes of its productions)", k)
		}
		for _, n := range shapes {
			add(k, n)
		}
	}
	// one more user production whose action method is variadic in its last parameter
	add("not_generated", 2)
	vp := m.prods[len(m.prods)-1]
	vp.Variadic = true
	vterms := m.prodObjs[len(m.prodObjs)-1].Fields["Terms"].(*jList)
	vterms.Elems[1].(*jObj).Tag = variadicTermTag
	m.grammar = &jObj{Kind: "grammar", GoType: "lr1.Grammar", Fields: map[string]any{
		"Prods": &jList{Elems: prodList}, "Terminals": m.terminals,
	}}
	return m, nil
}

// generatedKinds lists the values of all constants of the named string type `generated`
// (the result type of the function bound as rule_generated), in declaration order.
func generatedKinds(p *Program) ([]string, error) {
	pk := p.Pkg("internal/codegen")
	var tn *types.TypeName
	if o, ok := pk.Types.Scope().Lookup("RuleGenerated").(*types.Func); ok {
		sig := o.Type().(*types.Signature)
		if sig.Results().Len() == 1 {
			if n, ok := sig.Results().At(0).Type().(*types.Named); ok {
				tn = n.Obj()
			}
		}
	}
	if tn == nil {
		return nil, fmt.Errorf("codegen.RuleGenerated (func(*lr1.Rule) <named string>) not found")
	}
	type kc struct {
		v   string
		pos token.Pos
	}
	var ks []kc
	for _, name := range pk.Types.Scope().Names() {
		if c, ok := pk.Types.Scope().Lookup(name).(*types.Const); ok && types.Identical(c.Type(), tn.Type()) && c.Val().Kind() == constant.String {
			ks = append(ks, kc{constant.StringVal(c.Val()), c.Pos()})
		}
	}
	sort.Slice(ks, func(i, j int) bool { return ks[i].pos < ks[j].pos })
	var out []string
	for _, k := range ks {
		out = append(out, k.v)
	}
	if len(out) == 0 {
		return nil, fmt.Errorf("no constants of type codegen.%s", tn.Name())
	}
	return out, nil
}

// variadicTermTag is the term index of the slice-typed term bound to a variadic parameter (_Tterm9).
const variadicTermTag = 9

var typePlaceholder = map[string]string{"term": "_Tterm", "rule": "_Trule", "param": "_Tparam"}

// abstractValue maps the Go value bound to a template variable to a model value, by its Go type.
func (m *model) abstractValue(info *types.Info, name string, e ast.Expr, flags map[string]bool) (any, error) {
	tv := info.Types[e]
	if tv.Value != nil {
		switch tv.Value.Kind() {
		case constant.Int:
			n, _ := constant.Int64Val(tv.Value)
			return n, nil
		case constant.String:
			return constant.StringVal(tv.Value), nil
		case constant.Bool:
			return constant.BoolVal(tv.Value), nil
		}
		return nil, fmt.Errorf("binding %s: unsupported constant kind", name)
	}
	t := tv.Type
	if t == nil {
		return nil, fmt.Errorf("binding %s: no type", name)
	}
	switch u := t.Underlying().(type) {
	case *types.Basic:
		switch {
		case u.Kind() == types.Bool:
			return flags[name], nil
		case u.Info()&types.IsString != 0:
			return jGoText{Text: "_P", Cat: "ident"}, nil
		}
	case *types.Slice:
		if typeIs(u.Elem(), "parsergen/lr1", "Terminal") {
			return m.terminals, nil
		}
	case *types.Pointer:
		if typeIs(t, "parsergen/lr1", "Grammar") {
			return m.grammar, nil
		}
	case *types.Map:
		switch {
		case typeIs(u.Key(), "parsergen/lr1", "Prod") && typeIs(u.Elem(), "internal/codegen", "actionMethod"):
			return &jMap{Name: name, Get: func(k any) (any, error) {
				o, ok := k.(*jObj)
				if !ok || o.Kind != "prod" {
					return nil, fmt.Errorf("%s indexed by %T", name, k)
				}
				mp := o.Tag.(*modelProd)
				params := &jList{}
				for i := 0; i < mp.NTerms; i++ {
					params.Elems = append(params.Elems, jTypeVal{Origin: "param"})
				}
				return &jObj{Kind: "method", GoType: "codegen.actionMethod", Fields: map[string]any{"Params": params},
					Methods: map[string]func([]any) (any, error){"Name": func([]any) (any, error) {
						return jGoText{Text: mp.Method, Cat: "ident"}, nil
					}, "Variadic": func([]any) (any, error) {
						return mp.Variadic, nil
					}}}, nil
			}}, nil
		case typeIs(u.Key(), "parsergen/lr1", "Rule") && isGoTypesType(u.Elem()):
			return &jMap{Name: name, Get: func(k any) (any, error) {
				if o, ok := k.(*jObj); !ok || o.Kind != "rule" {
					return nil, fmt.Errorf("%s indexed by %T", name, k)
				}
				return jTypeVal{Origin: "rule"}, nil
			}}, nil
		}
	case *types.Signature:
		ps, rs := u.Params(), u.Results()
		if rs.Len() == 1 {
			r := rs.At(0).Type()
			switch {
			case ps.Len() == 1 && typeIs(ps.At(0).Type(), "parsergen/lr1", "Rule") && isNamedString(r):
				return &jFunc{Name: name, Call: func(a []any) (any, error) {
					o, ok := a[0].(*jObj)
					if len(a) != 1 || !ok || o.Kind != "rule" {
						return nil, fmt.Errorf("%s applied to a non-rule", name)
					}
					return o.Tag.(*modelProd).Kind, nil
				}}, nil
			case ps.Len() == 1 && typeIs(ps.At(0).Type(), "parsergen/lr1", "Term") && isGoTypesType(r):
				return &jFunc{Name: name, Call: func(a []any) (any, error) {
					o, ok := a[0].(*jObj)
					if len(a) != 1 || !ok || (o.Kind != "term" && o.Kind != "rule" && o.Kind != "terminal") {
						return nil, fmt.Errorf("%s applied to a non-term", name)
					}
					idx, _ := o.Tag.(int)
					return jTypeVal{Origin: "term", Index: idx}, nil
				}}, nil
			case ps.Len() == 1 && isGoTypesType(ps.At(0).Type()) && isString(r):
				return &jFunc{Name: name, Call: func(a []any) (any, error) {
					tvv, ok := a[0].(jTypeVal)
					if len(a) != 1 || !ok {
						return nil, fmt.Errorf("%s applied to %T, not a Go type", name, a[0])
					}
					txt := typePlaceholder[tvv.Origin]
					if tvv.Origin == "term" {
						txt = fmt.Sprintf("_Tterm%d", tvv.Index)
					}
					return jGoText{Text: txt, Cat: "type"}, nil
				}}, nil
			case ps.Len() == 1 && typeIs(ps.At(0).Type(), "lexergen/mode", "Mode") && isIntegerType(r):
				// a number derived from a mode (a count, a size): the model value is 1
				return &jFunc{Name: name, Call: func(a []any) (any, error) {
					if o, ok := a[0].(*jObj); !ok || o.Kind != "mode" {
						return nil, fmt.Errorf("%s applied to %T, not a mode", name, a[0])
					}
					return int64(1), nil
				}}, nil
			case ps.Len() == 0 && isIntSlice(r):
				return &jFunc{Name: name, Call: func(a []any) (any, error) { return &jObj{Kind: "table"}, nil }}, nil
			case ps.Len() == 1 && isIntSlice(ps.At(0).Type()) && isString(r):
				return &jFunc{Name: name, Call: func(a []any) (any, error) {
					if o, ok := a[0].(*jObj); !ok || o.Kind != "table" {
						return nil, fmt.Errorf("%s applied to %T, not an integer table", name, a[0])
					}
					return jGoText{Text: "0, 0, 0,", Cat: "array"}, nil
				}}, nil
			case ps.Len() == 1 && typeIs(ps.At(0).Type(), "lexergen/mode", "Mode") && isString(r):
				return &jFunc{Name: name, Call: func(a []any) (any, error) {
					if o, ok := a[0].(*jObj); !ok || o.Kind != "mode" {
						return nil, fmt.Errorf("%s applied to %T, not a mode", name, a[0])
					}
					return jGoText{Text: "0, 0, 0,", Cat: "array"}, nil
				}}, nil
			case ps.Len() == 0 && isSliceOf(r, "lexergen/mode", "Mode"):
				return &jFunc{Name: name, Call: func(a []any) (any, error) { return m.modes, nil }}, nil
			case ps.Len() == 1 && isString(ps.At(0).Type()) && isString(r):
				return &jFunc{Name: name, Call: func(a []any) (any, error) {
					path, ok := a[0].(string)
					if len(a) != 1 || !ok {
						return jGoText{Text: "_imp", Cat: "ident"}, nil
					}
					if m.imports == nil {
						m.imports = map[string]string{}
					}
					alias, ok := m.imports[path]
					if !ok {
						alias = fmt.Sprintf("_i%d", len(m.imports))
						m.imports[path] = alias
					}
					return jGoText{Text: alias, Cat: "ident"}, nil
				}}, nil
			}
		}
	}
	return nil, fmt.Errorf("binding %q has Go type %s, for which the checker has no abstract model", name, t)
}

func isGoTypesType(t types.Type) bool { return typeIs(t, "go/types", "Type") }
func isString(t types.Type) bool {
	b, ok := t.Underlying().(*types.Basic)
	return ok && b.Info()&types.IsString != 0
}
func isNamedString(t types.Type) bool {
	_, named := types.Unalias(t).(*types.Named)
	return named && isString(t)
}
func isIntSlice(t types.Type) bool {
	s, ok := t.Underlying().(*types.Slice)
	if !ok {
		return false
	}
	b, ok := s.Elem().Underlying().(*types.Basic)
	return ok && b.Info()&types.IsInteger != 0
}
func isSliceOf(t types.Type, pkg, name string) bool {
	s, ok := t.Underlying().(*types.Slice)
	return ok && typeIs(s.Elem(), pkg, name)
}

// ---------- rendering ----------

type renderer struct {
	ti      *TmplInstance
	tmpl    string
	buf     strings.Builder
	fc      fieldChecker
	prodIdx int
	ranges  []*jRange
	iters   []int
}

func (r *renderer) nodes(ns []jNode, env *jEnv) error {
	for _, n := range ns {
		switch x := n.(type) {
		case *jText:
			r.buf.WriteString(x.Text)
		case *jHole:
			v, err := jEval(x.Expr, env, r.fc)
			if err != nil {
				return fmt.Errorf("hole {{ %s }}: %v", x.Src, err)
			}
			s, err := jRender(v)
			if err != nil {
				return fmt.Errorf("hole {{ %s }}: %v", x.Src, err)
			}
			start := r.buf.Len()
			r.buf.WriteString(s)
			h := &RenderedHole{Tmpl: r.tmpl, Src: x.Src, Expr: x.Expr, Text: s, Start: start, End: r.buf.Len(), Value: v, TmplOff: x.Off, ProdIndex: r.prodIdx}
			if len(r.ranges) > 0 {
				h.Range = r.ranges[len(r.ranges)-1]
				h.Iter = r.iters[len(r.iters)-1]
			}
			r.ti.Holes = append(r.ti.Holes, h)
		case *jSet:
			v, err := jEval(x.Expr, env, r.fc)
			if err != nil {
				return fmt.Errorf("{{ %s := %s }}: %v", x.Name, x.Src, err)
			}
			env.vars[x.Name] = v
		case *jIf:
			taken := false
			for _, br := range x.Branches {
				v, err := jEval(br.Cond, env, r.fc)
				if err != nil {
					return fmt.Errorf("{{ if %s }}: %v", br.Src, err)
				}
				b, ok := v.(bool)
				if !ok {
					return fmt.Errorf("{{ if %s }}: condition is %T, not bool", br.Src, v)
				}
				if b {
					start := r.buf.Len()
					if err := r.nodes(br.Body, env.child()); err != nil {
						return err
					}
					if id, ok := br.Cond.(*eIdent); ok {
						if _, isFlag := r.ti.Flags[id.Name]; isFlag {
							r.ti.Regions = append(r.ti.Regions, FlagRegion{Tmpl: r.tmpl, Flag: id.Name, Start: start, End: r.buf.Len()})
						}
					}
					taken = true
					break
				}
			}
			if !taken && x.HasElse {
				if err := r.nodes(x.Else, env.child()); err != nil {
					return err
				}
			}
		case *jRange:
			v, err := jEval(x.Expr, env, r.fc)
			if err != nil {
				return fmt.Errorf("{{ range %s }}: %v", x.Src, err)
			}
			l, ok := v.(*jList)
			if !ok {
				return fmt.Errorf("{{ range %s }}: ranges over %T, not a slice-typed value", x.Src, v)
			}
			for i, el := range l.Elems {
				ce := env.child()
				if x.Key != "" && x.Key != "_" {
					ce.vars[x.Key] = int64(i)
				}
				if x.Val != "" && x.Val != "_" {
					ce.vars[x.Val] = el
				}
				saved := r.prodIdx
				if o, ok := el.(*jObj); ok && o.Kind == "prod" {
					r.prodIdx = o.Tag.(*modelProd).Index
				}
				r.ranges = append(r.ranges, x)
				r.iters = append(r.iters, i)
				err := r.nodes(x.Body, ce)
				r.ranges = r.ranges[:len(r.ranges)-1]
				r.iters = r.iters[:len(r.iters)-1]
				if err != nil {
					return err
				}
				r.prodIdx = saved
			}
		}
	}
	return nil
}

const preludeSrc = `package tmpl

// synthetic prelude: what the user's package provides to the generated files
type Token struct {
	Type int
	Str  []byte
}

type _Tterm0 struct{ v int }

func (_Tterm0) Discard() bool { return false }

type _Tterm1 struct{ v int }

func (_Tterm1) Discard() bool { return false }

type _Tterm2 struct{ v int }

func (_Tterm2) Discard() bool { return false }

// the type of a term bound to a variadic parameter (…any)
type _Tterm9 []any

type _Trule struct{ v int }

func (_Trule) Discard() bool { return false }

type _Tparam struct{ v int }

func (_Tparam) Discard() bool { return false }

type _P struct {
	lox
}

func (p *_P) _onBounds(r any, begin, end Token) {}
`

// instantiate renders every main template under the given flag assignment and type-checks the
// result as one package.
func instantiate(p *Program, ts *TemplateSet, flags map[string]bool) (*TmplInstance, error) {
	m, err := buildModel(p, ts)
	if err != nil {
		return nil, err
	}
	ti := &TmplInstance{PType: "_P", Flags: flags, Fset: token.NewFileSet(), Files: map[string]*ast.File{}, Sources: map[string]string{}, Prods: m.prods}
	fc := func(goType, field string) error {
		i := strings.Index(goType, ".")
		pkgName, typName := goType[:i], goType[i+1:]
		for _, pk := range p.Prod {
			if pk.Name != pkgName {
				continue
			}
			if tn, ok := pk.Types.Scope().Lookup(typName).(*types.TypeName); ok {
				obj, _, _ := types.LookupFieldOrMethod(types.NewPointer(tn.Type()), true, pk.Types, field)
				if obj == nil {
					return fmt.Errorf("template reads %s.%s, which %s does not have", goType, field, goType)
				}
				return nil
			}
		}
		return fmt.Errorf("type %s not found in the repository", goType)
	}
	// prelude with one action method per user production of the model
	var pre strings.Builder
	pre.WriteString(preludeSrc)
	for _, mp := range m.prods {
		if mp.Method == "" {
			continue
		}
		var ps []string
		for i := 0; i < mp.NTerms; i++ {
			if mp.Variadic && i == mp.NTerms-1 {
				ps = append(ps, fmt.Sprintf("a%d ...any", i))
				continue
			}
			ps = append(ps, fmt.Sprintf("a%d any", i))
		}
		fmt.Fprintf(&pre, "\nfunc (p *_P) %s(%s) any { return nil }\n", mp.Method, strings.Join(ps, ", "))
	}
	addFile := func(name, fname, src string) error {
		f, err := parser.ParseFile(ti.Fset, fname, src, parser.ParseComments|parser.SkipObjectResolution)
		if err != nil {
			return fmt.Errorf("rendered %s does not parse as Go: %v", fname, err)
		}
		ti.Files[name] = f
		ti.Sources[name] = src
		ti.AllFiles = append(ti.AllFiles, f)
		return nil
	}
	if err := addFile("", "tmpl/prelude.go", pre.String()); err != nil {
		return nil, err
	}
	info := ts.Pkg.TypesInfo
	for _, u := range ts.Uses {
		env := &jEnv{vars: map[string]any{}}
		var names []string
		for n := range u.Binds {
			names = append(names, n)
		}
		sort.Strings(names)
		for _, n := range names {
			// only bindings the template actually mentions need a model
			if !treeMentions(u.Tree, n) {
				continue
			}
			v, err := m.abstractValue(info, n, u.Binds[n], flags)
			if err != nil {
				return nil, fmt.Errorf("template %s: %v", u.Name, err)
			}
			env.vars[n] = v
		}
		m.imports = nil
		nHoles, nRegions := len(ti.Holes), len(ti.Regions)
		r := &renderer{ti: ti, tmpl: u.Name, fc: fc, prodIdx: -1}
		r.buf.WriteString("package tmpl\n\n")
		if err := r.nodes(u.Tree, env); err != nil {
			return nil, fmt.Errorf("template %s: %v", u.Name, err)
		}
		if len(m.imports) > 0 {
			// the template asked for imports (imp("path")): render again behind the import block,
			// as the real render function prepends it (aliases are already assigned, so the second
			// pass renders the same text)
			ti.Holes, ti.Regions = ti.Holes[:nHoles], ti.Regions[:nRegions]
			var paths []string
			for pth := range m.imports {
				paths = append(paths, pth)
			}
			sort.Strings(paths)
			r = &renderer{ti: ti, tmpl: u.Name, fc: fc, prodIdx: -1}
			r.buf.WriteString("package tmpl\n\nimport (\n")
			for _, pth := range paths {
				fmt.Fprintf(&r.buf, "\t%s %q\n", m.imports[pth], pth)
			}
			r.buf.WriteString(")\n\n")
			if err := r.nodes(u.Tree, env); err != nil {
				return nil, fmt.Errorf("template %s: %v", u.Name, err)
			}
		}
		if err := addFile(u.Name, "tmpl/"+u.Name+".go", r.buf.String()); err != nil {
			return nil, err
		}
	}
	conf := types.Config{Importer: importer.Default(), Error: nil}
	ti.Info = &types.Info{
		Types: map[ast.Expr]types.TypeAndValue{}, Defs: map[*ast.Ident]types.Object{}, Uses: map[*ast.Ident]types.Object{},
		Selections: map[*ast.SelectorExpr]*types.Selection{}, Implicits: map[ast.Node]types.Object{}, Scopes: map[ast.Node]*types.Scope{},
		Instances: map[*ast.Ident]types.Instance{},
	}
	pkg, err := conf.Check("tmpl", ti.Fset, ti.AllFiles, ti.Info)
	if err != nil {
		return nil, fmt.Errorf("instantiated templates (%s) do not type-check: %v", ti.FlagString(), err)
	}
	ti.Pkg = pkg
	for _, f := range ti.AllFiles {
		desugarFile(ti.Info, pkg, f)
	}
	for _, f := range ti.AllFiles {
		for _, d := range f.Decls {
			if _, ok := d.(*ast.FuncDecl); ok {
				ti.NumFuncs++
			}
		}
	}
	return ti, nil
}

func treeMentions(ns []jNode, name string) bool {
	for _, n := range ns {
		switch x := n.(type) {
		case *jHole:
			if exprMentions(x.Expr, name) {
				return true
			}
		case *jSet:
			if exprMentions(x.Expr, name) {
				return true
			}
		case *jIf:
			for _, b := range x.Branches {
				if exprMentions(b.Cond, name) || treeMentions(b.Body, name) {
					return true
				}
			}
			if treeMentions(x.Else, name) {
				return true
			}
		case *jRange:
			if exprMentions(x.Expr, name) || treeMentions(x.Body, name) {
				return true
			}
		}
	}
	return false
}

// ---------- access from rules ----------

type TmplAll struct {
	Set      *TemplateSet
	Variants []*TmplInstance
	Err      error
}

func (c *Ctx) Templates() *TmplAll {
	if c.tmplAll != nil {
		return c.tmplAll
	}
	ta := &TmplAll{}
	c.tmplAll = ta
	ts, err := discoverTemplates(c.Prog)
	if err != nil {
		ta.Err = err
		return ta
	}
	ta.Set = ts
	if len(ts.Errors) > 0 {
		ta.Err = fmt.Errorf("%s", strings.Join(ts.Errors, "; "))
		return ta
	}
	n := len(ts.Flags)
	for mask := 0; mask < 1<<n; mask++ {
		flags := map[string]bool{}
		for i, f := range ts.Flags {
			flags[f] = mask&(1<<i) != 0
		}
		ti, err := instantiate(c.Prog, ts, flags)
		if err != nil {
			ta.Err = err
			return ta
		}
		ta.Variants = append(ta.Variants, ti)
	}
	return ta
}

// tmplOrUnres returns the template variants, or records an unresolved obligation for rule.
func (c *Ctx) tmplOrUnres(rule string) *TmplAll {
	ta := c.Templates()
	if ta.Err != nil {
		c.unres(rule, "template-instantiation", "internal/codegen", "templates could not be instantiated: %v", ta.Err)
		return nil
	}
	return ta
}

// Variant returns the instance with the given value of a flag (any instance if the flag does not exist).
func (ta *TmplAll) Variant(flag string, val bool) *TmplInstance {
	for _, v := range ta.Variants {
		if fv, ok := v.Flags[flag]; ok && fv == val {
			return v
		}
	}
	return nil
}

// instanceView presents a checked-in generated package as if it were a template instance, so that
// the reader-side rules can be applied to the concrete files too (thorough tier).
func instanceView(c *Ctx, dir string) (*TmplInstance, error) {
	p := c.Prog
	pk := p.Pkg(dir)
	if pk == nil {
		return nil, fmt.Errorf("package %s not loaded", dir)
	}
	pname, onBounds := parserTypeOf(pk)
	if pname == "" {
		return nil, fmt.Errorf("no parser type in %s", dir)
	}
	ta := c.Templates()
	if ta.Err != nil {
		return nil, ta.Err
	}
	flags := map[string]bool{}
	for _, f := range ta.Set.Flags {
		flags[f] = onBounds
	}
	ti := &TmplInstance{PType: pname, Flags: flags, Fset: p.Fset, Files: map[string]*ast.File{}, Sources: map[string]string{}, Pkg: pk.Types, Info: pk.TypesInfo}
	for _, f := range pk.Syntax {
		if !isGenFile(p, f) {
			continue
		}
		ti.AllFiles = append(ti.AllFiles, f)
		base := filepath.Base(p.Fset.Position(f.Pos()).Filename)
		ti.Files[base] = f
	}
	if len(ti.AllFiles) < 3 {
		return nil, fmt.Errorf("%s: %d generated files", dir, len(ti.AllFiles))
	}
	return ti, nil
}

// onInstances runs fn once per checked-in generated package, with the template variants replaced
// by that package and construct keys prefixed by its directory.
func onInstances(c *Ctx, fn func(c *Ctx)) {
	ta := c.Templates()
	if ta.Err != nil {
		c.unres("INSTANCES", "templates", "", "%v", ta.Err)
		return
	}
	saved := c.tmplAll
	for _, dir := range instanceDirs {
		ti, err := instanceView(c, dir)
		if err != nil {
			c.unres("INSTANCES", dir, "", "%v", err)
			continue
		}
		c.tmplAll = &TmplAll{Set: saved.Set, Variants: []*TmplInstance{ti}}
		c.prefix = dir + ":"
		fn(c)
		c.prefix = ""
		c.tmplAll = saved
	}
}


func isIntegerType(t types.Type) bool {
	b, ok := t.Underlying().(*types.Basic)
	return ok && b.Info()&types.IsInteger != 0
}
