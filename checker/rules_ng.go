package main

// C08 — non-greedy repetitions.

import (
	"fmt"
	"go/ast"
	"go/token"
	"go/types"
	"strings"

	"golang.org/x/tools/go/packages"
)

// ruleContradiction: inside `case K1, K2:` of a switch on tag T, a comparison T == K with K a
// declared constant not among the labels is constantly false (T != K constantly true).
// Applied to every switch of the production packages.
func ruleContradiction(c *Ctx, rule string) {
	p := c.Prog
	nSwitch := 0
	p.ProdFiles(func(pk *packages.Package, f *ast.File) {
		info := pk.TypesInfo
		var fdName string
		for _, d := range f.Decls {
			fd, ok := d.(*ast.FuncDecl)
			if !ok || fd.Body == nil {
				continue
			}
			fdName = funcKey(pk, fd)
			ast.Inspect(fd.Body, func(n ast.Node) bool {
				sw, ok := n.(*ast.SwitchStmt)
				if !ok || sw.Tag == nil {
					return true
				}
				if _, isCall := ast.Unparen(sw.Tag).(*ast.CallExpr); isCall {
					return true
				}
				tag := exprString(ast.Unparen(sw.Tag))
				nSwitch++
				for _, cl := range sw.Body.List {
					cc := cl.(*ast.CaseClause)
					labels := map[types.Object]bool{}
					allConst := len(cc.List) > 0
					for _, l := range cc.List {
						if k, ok := usesObj(info, l).(*types.Const); ok {
							labels[k] = true
						} else {
							allConst = false
						}
					}
					if !allConst {
						continue
					}
					// the tag must not be reassigned inside the clause
					reassigned := false
					for _, s := range cc.Body {
						ast.Inspect(s, func(m ast.Node) bool {
							if as, ok := m.(*ast.AssignStmt); ok {
								for _, l := range as.Lhs {
									if exprString(ast.Unparen(l)) == tag {
										reassigned = true
									}
								}
							}
							return true
						})
					}
					if reassigned {
						continue
					}
					for _, s := range cc.Body {
						inspectNoLit(s, func(m ast.Node) bool {
							be, ok := m.(*ast.BinaryExpr)
							if !ok || (be.Op != token.EQL && be.Op != token.NEQ) {
								return true
							}
							var other ast.Expr
							if exprString(ast.Unparen(be.X)) == tag {
								other = be.Y
							} else if exprString(ast.Unparen(be.Y)) == tag {
								other = be.X
							} else {
								return true
							}
							k, ok := usesObj(info, other).(*types.Const)
							if !ok || labels[k] {
								return true
							}
							var ls []string
							for l := range labels {
								ls = append(ls, l.Name())
							}
							verdict := "false"
							if be.Op == token.NEQ {
								verdict = "true"
							}
							c.bad(rule, fmt.Sprintf("%s/case(%s)/%s", fdName, strings.Join(sortedStrings(ls), ","), exprString(be)), p.Pos(be.Pos()),
								"`%s` is constantly %s inside `case %s`: the arm tests for a constant it can never see", exprString(be), verdict, strings.Join(sortedStrings(ls), ", "))
							return true
						})
					}
				}
				return true
			})
		}
	})
	c.ok(rule, "switch-arm-contradictions", "", "%d switch statements of the production packages scanned for comparisons of the tag with a constant outside the enclosing case list", nSwitch)
}

func sortedStrings(xs []string) []string {
	out := append([]string(nil), xs...)
	for i := range out {
		for j := i + 1; j < len(out); j++ {
			if out[j] < out[i] {
				out[i], out[j] = out[j], out[i]
			}
		}
	}
	return out
}

// ngCards finds the ast.Card constants the front end produces for the tokens spelled "*?" and "+?".
func ngCards(c *Ctx) (map[string]*types.Const, string) {
	p := c.Prog
	pk := p.Pkg("internal/parser")
	if pk == nil {
		return nil, "package internal/parser not found"
	}
	info := pk.TypesInfo
	// token constant => spelling, from the grammar the front end is generated from
	spell := tokenSpellings(pk)
	_, fd := p.FuncDecl("internal/parser", "parser.on_lexer_card")
	if fd == nil {
		return nil, "parser.on_lexer_card not found"
	}
	out := map[string]*types.Const{}
	ast.Inspect(fd.Body, func(n ast.Node) bool {
		cc, ok := n.(*ast.CaseClause)
		if !ok || len(cc.List) != 1 || len(cc.Body) != 1 {
			return true
		}
		s := spell[usesObj(info, cc.List[0])]
		if s != "*?" && s != "+?" {
			return true
		}
		if rs, ok := cc.Body[0].(*ast.ReturnStmt); ok && len(rs.Results) == 1 {
			if k, ok := usesObj(info, rs.Results[0]).(*types.Const); ok {
				out[s] = k
			}
		}
		return true
	})
	if len(out) != 2 {
		all := map[string]*types.Const{}
		cardsFromTable(p, pk, fd, spell, all)
		for _, s := range []string{"*?", "+?"} {
			if k := all[s]; k != nil {
				out[s] = k
			}
		}
	}
	if len(out) != 2 {
		return nil, fmt.Sprintf("on_lexer_card maps %d of the two non-greedy tokens ('*?', '+?') to Card constants", len(out))
	}
	return out, ""
}

func ruleNG1(c *Ctx) {
	const rule = "NG-1"
	p := c.Prog
	ruleContradiction(c, rule)
	ng, why := ngCards(c)
	if ng == nil {
		c.unres(rule, "parser.on_lexer_card/non-greedy-cards", "", "%s", why)
		return
	}
	c.ok(rule, "parser.on_lexer_card/non-greedy-cards", "", "'*?' => %s, '+?' => %s", ng["*?"].Name(), ng["+?"].Name())
	pk, fd := p.FuncDecl("internal/ast", "LexerTermCard.NFACons")
	if fd == nil {
		c.unres(rule, "ast.LexerTermCard.NFACons", "", "function not found")
		return
	}
	info := pk.TypesInfo
	var sw *ast.SwitchStmt
	ast.Inspect(fd.Body, func(n ast.Node) bool {
		if s, ok := n.(*ast.SwitchStmt); ok && sw == nil && s.Tag != nil && isField(info, s.Tag, "internal/ast", "LexerTermCard", "Card") {
			sw = s
		}
		return true
	})
	if sw == nil {
		c.unres(rule, "ast.LexerTermCard.NFACons/switch", p.Pos(fd.Pos()), "no switch over LexerTermCard.Card")
		return
	}
	tag := exprString(sw.Tag)
	for spelling, k := range ng {
		construct := fmt.Sprintf("ast.LexerTermCard.NFACons/mark(%s)", k.Name())
		var arm *ast.CaseClause
		for _, cl := range sw.Body.List {
			cc := cl.(*ast.CaseClause)
			for _, l := range cc.List {
				if usesObj(info, l) == types.Object(k) {
					arm = cc
				}
			}
		}
		if arm == nil {
			c.bad(rule, construct, p.Pos(sw.Pos()), "no arm handles %s ('%s')", k.Name(), spelling)
			continue
		}
		// an assignment X.NonGreedy = (tag == k)  or  = true under `if tag == k`
		marked := false
		for _, s := range arm.Body {
			ast.Inspect(s, func(n ast.Node) bool {
				as, ok := n.(*ast.AssignStmt)
				if !ok || len(as.Lhs) != 1 || !isField(info, as.Lhs[0], "lexergen/nfa", "State", "NonGreedy") {
					return true
				}
				if be, ok := ast.Unparen(as.Rhs[0]).(*ast.BinaryExpr); ok && be.Op == token.EQL {
					if (exprString(be.X) == tag && usesObj(info, be.Y) == types.Object(k)) || (exprString(be.Y) == tag && usesObj(info, be.X) == types.Object(k)) {
						marked = true
					}
				}
				if id, ok := as.Rhs[0].(*ast.Ident); ok && id.Name == "true" && len(arm.List) == 1 {
					marked = true
				}
				return true
			})
		}
		c.check(marked, rule, construct, p.Pos(arm.Pos()),
			fmt.Sprintf("the arm for %s marks the loop exit state NonGreedy exactly when the cardinality is %s", k.Name(), k.Name()),
			fmt.Sprintf("the arm handling %s ('%s') never sets NonGreedy for it: the operator behaves greedily", k.Name(), spelling))
	}
	// no other arm may set NonGreedy unconditionally
	for _, cl := range sw.Body.List {
		cc := cl.(*ast.CaseClause)
		hasNG := false
		for _, l := range cc.List {
			for _, k := range ng {
				if usesObj(info, l) == types.Object(k) {
					hasNG = true
				}
			}
		}
		if hasNG {
			continue
		}
		for _, s := range cc.Body {
			ast.Inspect(s, func(n ast.Node) bool {
				if as, ok := n.(*ast.AssignStmt); ok && len(as.Lhs) == 1 && isField(info, as.Lhs[0], "lexergen/nfa", "State", "NonGreedy") {
					c.bad(rule, "ast.LexerTermCard.NFACons/greedy-arm-marks", p.Pos(as.Pos()), "a greedy cardinality arm writes NonGreedy")
				}
				return true
			})
		}
	}
	// the mark goes on the loop exit (the composite's E), not on its entry
	okExit := true
	ast.Inspect(sw, func(n ast.Node) bool {
		if as, ok := n.(*ast.AssignStmt); ok && len(as.Lhs) == 1 && isField(info, as.Lhs[0], "lexergen/nfa", "State", "NonGreedy") {
			sel := as.Lhs[0].(*ast.SelectorExpr)
			if !isField(info, sel.X, "lexergen/mode", "NFAComposite", "E") {
				okExit = false
			}
		}
		return true
	})
	c.check(okExit, rule, "ast.LexerTermCard.NFACons/mark-on-exit", p.Pos(sw.Pos()), "NonGreedy is written on the composite's exit state (E)", "NonGreedy is written on a state other than the loop's exit")
}

func ruleNG2(c *Ctx) {
	const rule = "NG-2"
	p := c.Prog
	c.floor(rule, 3)
	p.ProdFiles(func(pk *packages.Package, f *ast.File) {
		info := pk.TypesInfo
		for _, d := range f.Decls {
			fd, ok := d.(*ast.FuncDecl)
			if !ok || fd.Body == nil {
				continue
			}
			ast.Inspect(fd.Body, func(n ast.Node) bool {
				var list []ast.Stmt
				switch x := n.(type) {
				case *ast.BlockStmt:
					list = x.List
				case *ast.CaseClause:
					list = x.Body
				default:
					return true
				}
				// an accumulation of field F of a DFA state from a constituent state:
				//   DST.F = DST.F || SRC.F      or      if SRC.F { DST.F = true }
				type accum struct {
					field            string
					dstBase, srcBase ast.Expr
					at               ast.Stmt
				}
				var accs []accum
				for _, s := range list {
					switch x := s.(type) {
					case *ast.AssignStmt:
						if len(x.Lhs) != 1 || len(x.Rhs) != 1 {
							continue
						}
						fvD, dstBase := selField(info, x.Lhs[0])
						if fvD == nil || !isField(info, x.Lhs[0], "lexergen/dfa", "State", fvD.Name()) {
							continue
						}
						be, ok := ast.Unparen(x.Rhs[0]).(*ast.BinaryExpr)
						if !ok || be.Op != token.LOR {
							continue
						}
						var src ast.Expr
						if sameExpr(be.X, x.Lhs[0]) {
							src = be.Y
						} else if sameExpr(be.Y, x.Lhs[0]) {
							src = be.X
						} else {
							continue
						}
						if fvS, srcBase := selField(info, src); fvS != nil && fvS.Name() == fvD.Name() {
							accs = append(accs, accum{fvD.Name(), dstBase, srcBase, s})
						}
					case *ast.IfStmt:
						if x.Init != nil || x.Else != nil || len(x.Body.List) != 1 {
							continue
						}
						fvS, srcBase := selField(info, x.Cond)
						as, ok := x.Body.List[0].(*ast.AssignStmt)
						if fvS == nil || !ok || len(as.Lhs) != 1 || len(as.Rhs) != 1 || exprString(as.Rhs[0]) != "true" {
							continue
						}
						fvD, dstBase := selField(info, as.Lhs[0])
						if fvD != nil && fvD.Name() == fvS.Name() && isField(info, as.Lhs[0], "lexergen/dfa", "State", fvD.Name()) {
							accs = append(accs, accum{fvD.Name(), dstBase, srcBase, s})
						}
					}
				}
				for _, a := range accs {
					if a.field != "Accept" {
						continue
					}
					construct := fmt.Sprintf("%s/accumulate(%s <- %s)", funcKey(pk, fd), exprString(a.dstBase), exprString(a.srcBase))
					found := false
					for _, b := range accs {
						if b.field == "NonGreedy" && sameExpr(b.dstBase, a.dstBase) && sameExpr(b.srcBase, a.srcBase) {
							found = true
						}
					}
					c.check(found, rule, construct, p.Pos(a.at.Pos()),
						"NonGreedy is accumulated from the same constituent state next to Accept",
						"Accept is accumulated from a constituent state but NonGreedy is not: the mark is lost when states are combined")
				}
				return true
			})
		}
	})
}

// ruleNG2b: Accept and NonGreedy of a DFA state are only ever OR-accumulated (monotone): a later
// assignment that clears the mark loses it for every rule combined into the state.
func ruleNG2b(c *Ctx) {
	const rule = "NG-2"
	p := c.Prog
	n := 0
	p.ProdFiles(func(pk *packages.Package, f *ast.File) {
		info := pk.TypesInfo
		for _, d := range f.Decls {
			fd, ok := d.(*ast.FuncDecl)
			if !ok || fd.Body == nil {
				continue
			}
			ast.Inspect(fd.Body, func(m ast.Node) bool {
				as, ok := m.(*ast.AssignStmt)
				if !ok || len(as.Lhs) != 1 {
					return true
				}
				for _, fld := range []string{"NonGreedy", "Accept"} {
					if !isField(info, as.Lhs[0], "lexergen/dfa", "State", fld) {
						continue
					}
					n++
					mono := false
					if be, ok := ast.Unparen(as.Rhs[0]).(*ast.BinaryExpr); ok && be.Op == token.LOR && (sameExpr(be.X, as.Lhs[0]) || sameExpr(be.Y, as.Lhs[0])) {
						mono = true
					}
					if exprString(as.Rhs[0]) == "true" {
						mono = true // can only set the mark
					}
					if !mono {
						c.bad(rule, fmt.Sprintf("%s/write(State.%s)", funcKey(pk, fd), fld), p.Pos(as.Pos()),
							"`%s`: a DFA state's %s is overwritten instead of OR-accumulated from its constituent NFA states; the mark of a rule combined into the state can be lost", nodeText(as), fld)
					}
				}
				return true
			})
		}
	})
	c.ok(rule, "dfa.State/monotone-marks", "", "%d writes of dfa.State.Accept/NonGreedy: all of the form x = x || y", n)
}

func ruleNG3(c *Ctx) {
	const rule = "NG-3"
	ta := c.tmplOrUnres(rule)
	if ta == nil {
		return
	}
	ti := ta.Variants[0]
	r := findLexerReader(ti)
	if r == nil {
		c.unres(rule, "template/PushRune/skip-search", "", "reader not found")
		return
	}
	consume, _ := ti.Pkg.Scope().Lookup("_lexerConsume").(*types.Const)
	// every `return _lexerConsume` must sit inside `if flags & FLAG == 0 { ... }`
	n := 0
	par := parents(r.fd)
	ast.Inspect(r.fd.Body, func(m ast.Node) bool {
		rs, ok := m.(*ast.ReturnStmt)
		if !ok || len(rs.Results) != 1 || consume == nil || usesObj(ti.Info, rs.Results[0]) != types.Object(consume) {
			return true
		}
		n++
		// a path fact `flags & FLAG == 0` (if arm, guard that left, loop condition, through a
		// boolean local)
		_, _, guarded := bitClearFact(ti.Info, localDefs(ti.Info, r.fd), pathConds(ti.Info, par, rs))
		c.check(guarded, rule, "template/PushRune/skip-search", ti.Pos(rs.Pos()),
			"input is consumed only inside `if flags & _stateNonGreedyAccepting == 0`: a flagged accepting row goes straight to its actions",
			"a `return _lexerConsume` is reachable for a row whose non-greedy flag is set: the token would not end at the first complete match")
		return true
	})
	if n == 0 {
		c.unres(rule, "template/PushRune/skip-search", ti.Pos(r.fd.Pos()), "no `return _lexerConsume` in PushRune")
	}
}

// ---- NG-4: the non-greedy mark stops only the rule it belongs to ----
//
// A DFA state is written to the table as "non-greedy accepting" when it is accepting and carries
// the mark. The mark comes from the exit state of a `*?`/`+?` loop, the acceptance possibly from a
// different rule whose accepting state happens to be in the same subset. If the mark is OR-ed in
// from any constituent NFA state without asking whether the accepting state of *that* loop's rule
// is in the subset too, a greedy rule is cut short while another rule's non-greedy loop is running
// (ID = [a-z]+ next to C = 'a' .+? ';' lexes "abc" as ID(ab), ID(c)): the last sentence of C08.
// Decided where the subset's mark is computed from NFA states: the contribution of an NFA state's
// NonGreedy must be conditioned on something that relates it to an accepting state of the subset
// (a lookup in the closure, a comparison of rule identities, an Accept test of a related state).
func ruleNG4(c *Ctx) {
	const rule = "NG-4"
	p := c.Prog
	n := 0
	p.ProdFiles(func(pk *packages.Package, f *ast.File) {
		if !strings.HasSuffix(pk.PkgPath, "/lexergen/dfa") {
			return
		}
		info := pk.TypesInfo
		for _, d := range f.Decls {
			fd, ok := d.(*ast.FuncDecl)
			if !ok || fd.Body == nil {
				continue
			}
			par := parents(fd)
			ast.Inspect(fd.Body, func(m ast.Node) bool {
				e, ok := m.(ast.Expr)
				if !ok || !isField(info, e, "lexergen/nfa", "State", "NonGreedy") {
					return true
				}
				// is this read a contribution to a dfa.State.NonGreedy?
				var sink ast.Node
				for q := par[e]; q != nil; q = par[q] {
					if as, ok := q.(*ast.AssignStmt); ok {
						for _, l := range as.Lhs {
							if isField(info, l, "lexergen/dfa", "State", "NonGreedy") {
								sink = as
							}
						}
						break
					}
					if ifs, ok := q.(*ast.IfStmt); ok && containsNode(ifs.Cond, e) {
						ast.Inspect(ifs.Body, func(k ast.Node) bool {
							if as, ok := k.(*ast.AssignStmt); ok {
								for _, l := range as.Lhs {
									if isField(info, l, "lexergen/dfa", "State", "NonGreedy") {
										sink = ifs
									}
								}
							}
							return true
						})
						break
					}
					if _, ok := q.(ast.Stmt); ok {
						break
					}
				}
				if sink == nil {
					return true
				}
				n++
				construct := fmt.Sprintf("%s/mark-from(%s)", funcKey(pk, fd), exprString(e))
				// anything that ties the contribution to an accepting state of the subset?
				tied := false
				relates := func(x ast.Node) {
					ast.Inspect(x, func(k ast.Node) bool {
						switch y := k.(type) {
						case *ast.IndexExpr: // closure[...]
							if _, isMap := info.TypeOf(y.X).Underlying().(*types.Map); isMap {
								tied = true
							}
						case *ast.CallExpr:
							if fn := calleeFunc(info, y); fn != nil && (fn.Name() == "Has" || fn.Name() == "Contains" || fn.Name() == "Get") {
								tied = true
							}
						case ast.Expr:
							if isField(info, y, "lexergen/nfa", "State", "Accept") && !sameExpr(y, e) {
								// an Accept test in the same condition as the mark
								tied = true
							}
						}
						return true
					})
				}
				switch s := sink.(type) {
				case *ast.IfStmt:
					for _, cj := range conjuncts(s.Cond) {
						if !containsNode(cj, e) {
							relates(cj)
						}
					}
				case *ast.AssignStmt:
					for _, r := range s.Rhs {
						for _, dj := range disjuncts(r) {
							if containsNode(dj, e) {
								for _, cj := range conjuncts(dj) {
									if !containsNode(cj, e) {
										relates(cj)
									}
								}
							}
						}
					}
				}
				for _, fct := range pathConds(info, par, sink) {
					relates(fct.e)
				}
				c.check(tied, rule, construct, p.Pos(e.Pos()),
					"the mark of an NFA state contributes to the subset's mark only together with a test relating it to an accepting state of the subset",
					"the subset's non-greedy mark is taken from any constituent NFA state, whichever rule its loop belongs to: a state that is accepting for another (greedy) rule while this loop is running is written as non-greedy accepting and the greedy rule stops early (ID = [a-z]+ next to C = 'a' .+? ';' lexes \"abc\" as ID(ab), ID(c))")
				return true
			})
		}
	})
	if n < 1 {
		c.unres(rule, "dfa/mark-sources", "", "no place where a DFA state's NonGreedy is computed from NFA states was found")
	}
}
