package main

// Static typing of Jet expressions against the Go types of the values bound with vars.Set.

import (
	"fmt"
	"go/types"
)

type jtEnv struct {
	vars   map[string]types.Type
	parent *jtEnv
}

func (e *jtEnv) child() *jtEnv { return &jtEnv{vars: map[string]types.Type{}, parent: e} }
func (e *jtEnv) lookup(n string) (types.Type, bool) {
	for ; e != nil; e = e.parent {
		if t, ok := e.vars[n]; ok {
			return t, true
		}
	}
	return nil, false
}

type jetTyper struct {
	prog *Program
	ts   *TemplateSet
	use  *TemplateUse
}

func newJetTyper(p *Program, ts *TemplateSet, u *TemplateUse) *jetTyper {
	return &jetTyper{prog: p, ts: ts, use: u}
}

func (jt *jetTyper) rootEnv() *jtEnv {
	env := &jtEnv{vars: map[string]types.Type{}}
	info := jt.ts.Pkg.TypesInfo
	for name, e := range jt.use.Binds {
		if t := info.TypeOf(e); t != nil {
			env.vars[name] = t
		}
	}
	return env
}

func (jt *jetTyper) typeOf(e jExpr, env *jtEnv) (types.Type, error) {
	switch x := e.(type) {
	case *eIdent:
		if x.Name == "true" || x.Name == "false" {
			return types.Typ[types.Bool], nil
		}
		t, ok := env.lookup(x.Name)
		if !ok {
			return nil, fmt.Errorf("unbound template variable %q", x.Name)
		}
		return t, nil
	case *eInt:
		return types.Typ[types.Int], nil
	case *eStr:
		return types.Typ[types.String], nil
	case *eField:
		t, err := jt.typeOf(x.X, env)
		if err != nil {
			return nil, err
		}
		obj, _, _ := types.LookupFieldOrMethod(t, true, jt.ts.Pkg.Types, x.Name)
		if obj == nil {
			return nil, fmt.Errorf("%s has no field or method %s", t, x.Name)
		}
		return obj.Type(), nil
	case *eIndex:
		t, err := jt.typeOf(x.X, env)
		if err != nil {
			return nil, err
		}
		switch u := t.Underlying().(type) {
		case *types.Slice:
			return u.Elem(), nil
		case *types.Array:
			return u.Elem(), nil
		case *types.Map:
			return u.Elem(), nil
		}
		return nil, fmt.Errorf("cannot index %s", t)
	case *eCall:
		if id, ok := x.Fun.(*eIdent); ok && id.Name == "len" {
			return types.Typ[types.Int], nil
		}
		t, err := jt.typeOf(x.Fun, env)
		if err != nil {
			return nil, err
		}
		sig, ok := t.Underlying().(*types.Signature)
		if !ok {
			return nil, fmt.Errorf("call of non-function %s", t)
		}
		if sig.Results().Len() < 1 {
			return nil, fmt.Errorf("function without result")
		}
		return sig.Results().At(0).Type(), nil
	case *eUn:
		return jt.typeOf(x.X, env)
	case *eTern:
		return jt.typeOf(x.A, env)
	case *eBin:
		switch x.Op {
		case "==", "!=", "<", "<=", ">", ">=", "&&", "||":
			return types.Typ[types.Bool], nil
		}
		return jt.typeOf(x.L, env)
	}
	return nil, fmt.Errorf("unsupported expression %T", e)
}
