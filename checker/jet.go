package main

// A structural parser and abstract evaluator for the subset of the Jet template language that
// lox's four templates use: expression holes (with {{- -}} trimming and | filters),
// if / else if / else / end, range k, v := e / end, and x := e bindings. Anything else is an error
// (reported as "unresolved" by the callers, never silently accepted).

import (
	"fmt"
	"strconv"
	"strings"
	"unicode"
)

// ---------- template tree ----------

type jNode interface{}

type jText struct {
	Text string
	Off  int
}
type jHole struct {
	Expr jExpr
	Src  string
	Off  int
}
type jSet struct {
	Name string
	Expr jExpr
	Src  string
	Off  int
}
type jBranch struct {
	Cond jExpr
	Src  string
	Body []jNode
}
type jIf struct {
	Branches []jBranch
	Else     []jNode
	HasElse  bool
	Off      int
}
type jRange struct {
	Key, Val string
	Expr     jExpr
	Src      string
	Body     []jNode
	Off      int
}

type jAction struct {
	src       string
	off       int
	trimLeft  bool
	trimRight bool
}

func parseJet(src string) ([]jNode, error) {
	// 1. split into text and actions
	type piece struct {
		text string
		act  *jAction
		off  int
	}
	var pieces []piece
	i := 0
	for i < len(src) {
		j := strings.Index(src[i:], "{{")
		// {* ... *} is a template comment: it renders as nothing (Jet does not trim around it)
		if cm := strings.Index(src[i:], "{*"); cm >= 0 && (j < 0 || cm < j) {
			if cm > 0 {
				pieces = append(pieces, piece{text: src[i : i+cm], off: i})
			}
			e := strings.Index(src[i+cm:], "*}")
			if e < 0 {
				return nil, fmt.Errorf("unterminated {* at offset %d", i+cm)
			}
			i = i + cm + e + 2
			continue
		}
		if j < 0 {
			pieces = append(pieces, piece{text: src[i:], off: i})
			break
		}
		if j > 0 {
			pieces = append(pieces, piece{text: src[i : i+j], off: i})
		}
		start := i + j
		k := strings.Index(src[start:], "}}")
		if k < 0 {
			return nil, fmt.Errorf("unterminated {{ at offset %d", start)
		}
		body := src[start+2 : start+k]
		a := &jAction{off: start}
		if strings.HasPrefix(body, "-") {
			a.trimLeft = true
			body = body[1:]
		}
		if strings.HasSuffix(body, "-") {
			a.trimRight = true
			body = body[:len(body)-1]
		}
		a.src = strings.TrimSpace(body)
		pieces = append(pieces, piece{act: a, off: start})
		i = start + k + 2
	}
	// apply trimming
	for idx := range pieces {
		if pieces[idx].act == nil {
			continue
		}
		if pieces[idx].act.trimLeft && idx > 0 && pieces[idx-1].act == nil {
			pieces[idx-1].text = strings.TrimRightFunc(pieces[idx-1].text, unicode.IsSpace)
		}
		if pieces[idx].act.trimRight && idx+1 < len(pieces) && pieces[idx+1].act == nil {
			t := pieces[idx+1].text
			t2 := strings.TrimLeftFunc(t, unicode.IsSpace)
			pieces[idx+1].off += len(t) - len(t2)
			pieces[idx+1].text = t2
		}
	}
	// 2. build tree
	type frame struct {
		nodes *[]jNode
		ifn   *jIf
		rng   *jRange
	}
	var root []jNode
	stack := []frame{{nodes: &root}}
	cur := func() *[]jNode { return stack[len(stack)-1].nodes }
	for _, p := range pieces {
		if p.act == nil {
			if p.text != "" {
				*cur() = append(*cur(), &jText{Text: p.text, Off: p.off})
			}
			continue
		}
		s := p.act.src
		switch {
		case strings.HasPrefix(s, "{*") || strings.HasPrefix(s, "/*"):
			return nil, fmt.Errorf("template comments are not supported (offset %d)", p.off)
		case s == "end":
			if len(stack) == 1 {
				return nil, fmt.Errorf("unexpected end at offset %d", p.off)
			}
			stack = stack[:len(stack)-1]
		case s == "else":
			top := stack[len(stack)-1]
			if top.ifn == nil {
				return nil, fmt.Errorf("else outside if at offset %d", p.off)
			}
			top.ifn.HasElse = true
			stack[len(stack)-1] = frame{nodes: &top.ifn.Else, ifn: top.ifn}
		case strings.HasPrefix(s, "else if "):
			top := stack[len(stack)-1]
			if top.ifn == nil {
				return nil, fmt.Errorf("else if outside if at offset %d", p.off)
			}
			condSrc := strings.TrimSpace(s[len("else if "):])
			e, err := parseJetExpr(condSrc)
			if err != nil {
				return nil, fmt.Errorf("offset %d: %v", p.off, err)
			}
			top.ifn.Branches = append(top.ifn.Branches, jBranch{Cond: e, Src: condSrc})
			stack[len(stack)-1] = frame{nodes: &top.ifn.Branches[len(top.ifn.Branches)-1].Body, ifn: top.ifn}
		case strings.HasPrefix(s, "if "):
			condSrc := strings.TrimSpace(s[3:])
			e, err := parseJetExpr(condSrc)
			if err != nil {
				return nil, fmt.Errorf("offset %d: %v", p.off, err)
			}
			n := &jIf{Off: p.off}
			n.Branches = append(n.Branches, jBranch{Cond: e, Src: condSrc})
			*cur() = append(*cur(), n)
			stack = append(stack, frame{nodes: &n.Branches[0].Body, ifn: n})
		case strings.HasPrefix(s, "range "):
			rest := strings.TrimSpace(s[6:])
			n := &jRange{Off: p.off}
			if k := strings.Index(rest, ":="); k >= 0 {
				vars := strings.Split(rest[:k], ",")
				if len(vars) == 1 {
					n.Val = strings.TrimSpace(vars[0])
				} else if len(vars) == 2 {
					n.Key, n.Val = strings.TrimSpace(vars[0]), strings.TrimSpace(vars[1])
				} else {
					return nil, fmt.Errorf("bad range at offset %d", p.off)
				}
				rest = strings.TrimSpace(rest[k+2:])
			}
			e, err := parseJetExpr(rest)
			if err != nil {
				return nil, fmt.Errorf("offset %d: %v", p.off, err)
			}
			n.Expr, n.Src = e, rest
			*cur() = append(*cur(), n)
			stack = append(stack, frame{nodes: &n.Body, rng: n})
		case isJetKeyword(s):
			return nil, fmt.Errorf("unsupported template statement %q at offset %d", s, p.off)
		default:
			if k := strings.Index(s, ":="); k > 0 && isIdent(strings.TrimSpace(s[:k])) {
				esrc := strings.TrimSpace(s[k+2:])
				e, err := parseJetExpr(esrc)
				if err != nil {
					return nil, fmt.Errorf("offset %d: %v", p.off, err)
				}
				*cur() = append(*cur(), &jSet{Name: strings.TrimSpace(s[:k]), Expr: e, Src: esrc, Off: p.off})
				continue
			}
			e, err := parseJetExpr(s)
			if err != nil {
				return nil, fmt.Errorf("offset %d: %v", p.off, err)
			}
			*cur() = append(*cur(), &jHole{Expr: e, Src: s, Off: p.off})
		}
	}
	if len(stack) != 1 {
		return nil, fmt.Errorf("missing {{end}}")
	}
	return root, nil
}

func isJetKeyword(s string) bool {
	w := s
	if i := strings.IndexAny(s, " \t("); i >= 0 {
		w = s[:i]
	}
	switch w {
	case "block", "yield", "include", "extends", "import", "return", "try", "catch", "content":
		return true
	}
	return false
}

func isIdent(s string) bool {
	if s == "" {
		return false
	}
	for i, r := range s {
		if !(r == '_' || unicode.IsLetter(r) || (i > 0 && unicode.IsDigit(r))) {
			return false
		}
	}
	return true
}

// ---------- expressions ----------

type jExpr interface{}
type eIdent struct{ Name string }
type eInt struct{ V int64 }
type eStr struct{ V string }
type eField struct {
	X    jExpr
	Name string
}
type eIndex struct{ X, I jExpr }
type eCall struct {
	Fun  jExpr
	Args []jExpr
}
type eBin struct {
	Op   string
	L, R jExpr
}
type eUn struct {
	Op string
	X  jExpr
}
type eTern struct{ C, A, B jExpr }

type jTok struct {
	kind string // id int str op eof
	s    string
}

func lexJetExpr(s string) ([]jTok, error) {
	var toks []jTok
	i := 0
	for i < len(s) {
		c := s[i]
		switch {
		case c == ' ' || c == '\t' || c == '\n' || c == '\r':
			i++
		case c == '_' || unicode.IsLetter(rune(c)):
			j := i
			for j < len(s) && (s[j] == '_' || unicode.IsLetter(rune(s[j])) || unicode.IsDigit(rune(s[j]))) {
				j++
			}
			toks = append(toks, jTok{"id", s[i:j]})
			i = j
		case unicode.IsDigit(rune(c)):
			j := i
			for j < len(s) && unicode.IsDigit(rune(s[j])) {
				j++
			}
			toks = append(toks, jTok{"int", s[i:j]})
			i = j
		case c == '"':
			j := i + 1
			for j < len(s) && s[j] != '"' {
				if s[j] == '\\' {
					j++
				}
				j++
			}
			if j >= len(s) {
				return nil, fmt.Errorf("unterminated string in %q", s)
			}
			v, err := strconv.Unquote(s[i : j+1])
			if err != nil {
				return nil, err
			}
			toks = append(toks, jTok{"str", v})
			i = j + 1
		default:
			two := ""
			if i+1 < len(s) {
				two = s[i : i+2]
			}
			switch two {
			case "==", "!=", "<=", ">=", "&&", "||":
				toks = append(toks, jTok{"op", two})
				i += 2
				continue
			}
			if strings.ContainsRune("+-*/%<>!?:|.,()[]", rune(c)) {
				toks = append(toks, jTok{"op", string(c)})
				i++
				continue
			}
			return nil, fmt.Errorf("unexpected character %q in template expression %q", c, s)
		}
	}
	toks = append(toks, jTok{"eof", ""})
	return toks, nil
}

type jParser struct {
	toks []jTok
	pos  int
	src  string
}

func parseJetExpr(s string) (jExpr, error) {
	toks, err := lexJetExpr(s)
	if err != nil {
		return nil, err
	}
	p := &jParser{toks: toks, src: s}
	e, err := p.pipe()
	if err != nil {
		return nil, err
	}
	if p.peek().kind != "eof" {
		return nil, fmt.Errorf("unexpected %q in template expression %q", p.peek().s, s)
	}
	return e, nil
}

func (p *jParser) peek() jTok { return p.toks[p.pos] }
func (p *jParser) next() jTok { t := p.toks[p.pos]; p.pos++; return t }
func (p *jParser) isOp(s string) bool {
	return p.peek().kind == "op" && p.peek().s == s
}

func (p *jParser) pipe() (jExpr, error) {
	e, err := p.ternary()
	if err != nil {
		return nil, err
	}
	for p.isOp("|") {
		p.next()
		f, err := p.postfix()
		if err != nil {
			return nil, err
		}
		if c, ok := f.(*eCall); ok {
			c.Args = append([]jExpr{e}, c.Args...)
			e = c
		} else {
			e = &eCall{Fun: f, Args: []jExpr{e}}
		}
	}
	return e, nil
}

func (p *jParser) ternary() (jExpr, error) {
	c, err := p.binary(0)
	if err != nil {
		return nil, err
	}
	if p.isOp("?") {
		p.next()
		a, err := p.ternary()
		if err != nil {
			return nil, err
		}
		if !p.isOp(":") {
			return nil, fmt.Errorf("expected ':' in %q", p.src)
		}
		p.next()
		b, err := p.ternary()
		if err != nil {
			return nil, err
		}
		return &eTern{c, a, b}, nil
	}
	return c, nil
}

var jPrec = map[string]int{"||": 1, "&&": 2, "==": 3, "!=": 3, "<": 3, "<=": 3, ">": 3, ">=": 3, "+": 4, "-": 4, "*": 5, "/": 5, "%": 5}

func (p *jParser) binary(min int) (jExpr, error) {
	l, err := p.unary()
	if err != nil {
		return nil, err
	}
	for {
		t := p.peek()
		pr, ok := jPrec[t.s]
		if t.kind != "op" || !ok || pr <= min {
			return l, nil
		}
		p.next()
		r, err := p.binary(pr)
		if err != nil {
			return nil, err
		}
		l = &eBin{t.s, l, r}
	}
}

func (p *jParser) unary() (jExpr, error) {
	if p.isOp("!") || p.isOp("-") {
		op := p.next().s
		x, err := p.unary()
		if err != nil {
			return nil, err
		}
		return &eUn{op, x}, nil
	}
	return p.postfix()
}

func (p *jParser) postfix() (jExpr, error) {
	var e jExpr
	t := p.next()
	switch t.kind {
	case "id":
		e = &eIdent{t.s}
	case "int":
		v, _ := strconv.ParseInt(t.s, 10, 64)
		e = &eInt{v}
	case "str":
		e = &eStr{t.s}
	case "op":
		if t.s == "(" {
			x, err := p.pipe()
			if err != nil {
				return nil, err
			}
			if !p.isOp(")") {
				return nil, fmt.Errorf("expected ')' in %q", p.src)
			}
			p.next()
			e = x
			break
		}
		fallthrough
	default:
		return nil, fmt.Errorf("unexpected %q in template expression %q", t.s, p.src)
	}
	for {
		switch {
		case p.isOp("."):
			p.next()
			n := p.next()
			if n.kind != "id" {
				return nil, fmt.Errorf("expected field name in %q", p.src)
			}
			e = &eField{e, n.s}
		case p.isOp("["):
			p.next()
			i, err := p.pipe()
			if err != nil {
				return nil, err
			}
			if !p.isOp("]") {
				return nil, fmt.Errorf("expected ']' in %q", p.src)
			}
			p.next()
			e = &eIndex{e, i}
		case p.isOp("("):
			p.next()
			var args []jExpr
			for !p.isOp(")") {
				a, err := p.ternary()
				if err != nil {
					return nil, err
				}
				args = append(args, a)
				if p.isOp(",") {
					p.next()
				} else if !p.isOp(")") {
					return nil, fmt.Errorf("expected ',' or ')' in %q", p.src)
				}
			}
			p.next()
			e = &eCall{e, args}
		default:
			return e, nil
		}
	}
}

// exprMentions reports whether the expression mentions identifier name.
func exprMentions(e jExpr, name string) bool {
	switch x := e.(type) {
	case *eIdent:
		return x.Name == name
	case *eField:
		return exprMentions(x.X, name)
	case *eIndex:
		return exprMentions(x.X, name) || exprMentions(x.I, name)
	case *eCall:
		if exprMentions(x.Fun, name) {
			return true
		}
		for _, a := range x.Args {
			if exprMentions(a, name) {
				return true
			}
		}
	case *eBin:
		return exprMentions(x.L, name) || exprMentions(x.R, name)
	case *eUn:
		return exprMentions(x.X, name)
	case *eTern:
		return exprMentions(x.C, name) || exprMentions(x.A, name) || exprMentions(x.B, name)
	}
	return false
}

// ---------- abstract values ----------

type jObj struct {
	Kind    string         // model kind: terminal, mode, grammar, prod, rule, term, method
	GoType  string         // "pkgsuffix.TypeName" used to validate field names against the repo's types
	Fields  map[string]any // field values
	Methods map[string]func(args []any) (any, error)
	Tag     any
}
type jList struct{ Elems []any }
type jMap struct {
	Name string
	Get  func(k any) (any, error)
}
type jFunc struct {
	Name string
	Call func(args []any) (any, error)
}

// jTypeVal is an abstract go/types.Type value; Origin tells what it was computed from.
type jTypeVal struct {
	Origin string // "term", "rule", "param"
	Index  int    // position of the term in its production (Origin "term")
}

// jGoText is rendered Go text with its syntactic category.
type jGoText struct {
	Text string
	Cat  string // "type", "array", "ident"
}

type jEnv struct {
	vars   map[string]any
	parent *jEnv
}

func (e *jEnv) lookup(n string) (any, bool) {
	for ; e != nil; e = e.parent {
		if v, ok := e.vars[n]; ok {
			return v, true
		}
	}
	return nil, false
}
func (e *jEnv) child() *jEnv { return &jEnv{vars: map[string]any{}, parent: e} }

type fieldChecker func(goType, field string) error

func jEval(e jExpr, env *jEnv, fc fieldChecker) (any, error) {
	switch x := e.(type) {
	case *eIdent:
		if x.Name == "true" {
			return true, nil
		}
		if x.Name == "false" {
			return false, nil
		}
		if x.Name == "nil" {
			return nil, nil
		}
		v, ok := env.lookup(x.Name)
		if !ok {
			return nil, fmt.Errorf("template variable %q is not bound by any vars.Set/range/:= in scope", x.Name)
		}
		return v, nil
	case *eInt:
		return x.V, nil
	case *eStr:
		return x.V, nil
	case *eField:
		v, err := jEval(x.X, env, fc)
		if err != nil {
			return nil, err
		}
		o, ok := v.(*jObj)
		if !ok {
			return nil, fmt.Errorf("field %s of non-object %T", x.Name, v)
		}
		if fc != nil && o.GoType != "" {
			if err := fc(o.GoType, x.Name); err != nil {
				return nil, err
			}
		}
		if f, ok := o.Fields[x.Name]; ok {
			return f, nil
		}
		if m, ok := o.Methods[x.Name]; ok {
			return &jFunc{Name: x.Name, Call: m}, nil
		}
		return nil, fmt.Errorf("model object %s has no field %s", o.Kind, x.Name)
	case *eIndex:
		v, err := jEval(x.X, env, fc)
		if err != nil {
			return nil, err
		}
		i, err := jEval(x.I, env, fc)
		if err != nil {
			return nil, err
		}
		switch c := v.(type) {
		case *jList:
			n, ok := i.(int64)
			if !ok {
				return nil, fmt.Errorf("list index is %T", i)
			}
			if n < 0 || int(n) >= len(c.Elems) {
				return nil, fmt.Errorf("index %d out of range (len %d)", n, len(c.Elems))
			}
			return c.Elems[n], nil
		case *jMap:
			return c.Get(i)
		}
		return nil, fmt.Errorf("cannot index %T", v)
	case *eCall:
		if id, ok := x.Fun.(*eIdent); ok && id.Name == "len" {
			if len(x.Args) != 1 {
				return nil, fmt.Errorf("len takes one argument")
			}
			v, err := jEval(x.Args[0], env, fc)
			if err != nil {
				return nil, err
			}
			switch c := v.(type) {
			case *jList:
				return int64(len(c.Elems)), nil
			case string:
				return int64(len(c)), nil
			}
			return nil, fmt.Errorf("len of %T", v)
		}
		f, err := jEval(x.Fun, env, fc)
		if err != nil {
			return nil, err
		}
		fn, ok := f.(*jFunc)
		if !ok {
			return nil, fmt.Errorf("call of non-function %T", f)
		}
		var args []any
		for _, a := range x.Args {
			v, err := jEval(a, env, fc)
			if err != nil {
				return nil, err
			}
			args = append(args, v)
		}
		return fn.Call(args)
	case *eUn:
		v, err := jEval(x.X, env, fc)
		if err != nil {
			return nil, err
		}
		switch x.Op {
		case "!":
			b, ok := v.(bool)
			if !ok {
				return nil, fmt.Errorf("! of %T", v)
			}
			return !b, nil
		case "-":
			n, ok := v.(int64)
			if !ok {
				return nil, fmt.Errorf("- of %T", v)
			}
			return -n, nil
		}
	case *eTern:
		c, err := jEval(x.C, env, fc)
		if err != nil {
			return nil, err
		}
		b, ok := c.(bool)
		if !ok {
			return nil, fmt.Errorf("ternary condition is %T", c)
		}
		if b {
			return jEval(x.A, env, fc)
		}
		return jEval(x.B, env, fc)
	case *eBin:
		l, err := jEval(x.L, env, fc)
		if err != nil {
			return nil, err
		}
		if x.Op == "||" || x.Op == "&&" {
			lb, ok := l.(bool)
			if !ok {
				return nil, fmt.Errorf("%s of %T", x.Op, l)
			}
			if (x.Op == "||" && lb) || (x.Op == "&&" && !lb) {
				return lb, nil
			}
			r, err := jEval(x.R, env, fc)
			if err != nil {
				return nil, err
			}
			rb, ok := r.(bool)
			if !ok {
				return nil, fmt.Errorf("%s of %T", x.Op, r)
			}
			return rb, nil
		}
		r, err := jEval(x.R, env, fc)
		if err != nil {
			return nil, err
		}
		switch lv := l.(type) {
		case int64:
			rv, ok := r.(int64)
			if !ok {
				return nil, fmt.Errorf("%s of int and %T", x.Op, r)
			}
			switch x.Op {
			case "+":
				return lv + rv, nil
			case "-":
				return lv - rv, nil
			case "*":
				return lv * rv, nil
			case "/":
				if rv == 0 {
					return nil, fmt.Errorf("division by zero")
				}
				return lv / rv, nil
			case "%":
				if rv == 0 {
					return nil, fmt.Errorf("division by zero")
				}
				return lv % rv, nil
			case "==":
				return lv == rv, nil
			case "!=":
				return lv != rv, nil
			case "<":
				return lv < rv, nil
			case "<=":
				return lv <= rv, nil
			case ">":
				return lv > rv, nil
			case ">=":
				return lv >= rv, nil
			}
		case string:
			rv, ok := r.(string)
			if !ok {
				return nil, fmt.Errorf("%s of string and %T", x.Op, r)
			}
			switch x.Op {
			case "==":
				return lv == rv, nil
			case "!=":
				return lv != rv, nil
			case "+":
				return lv + rv, nil
			}
		case bool:
			rv, ok := r.(bool)
			if ok {
				switch x.Op {
				case "==":
					return lv == rv, nil
				case "!=":
					return lv != rv, nil
				}
			}
		}
		return nil, fmt.Errorf("unsupported operation %T %s %T", l, x.Op, r)
	}
	return nil, fmt.Errorf("unsupported expression %T", e)
}

func jRender(v any) (string, error) {
	switch x := v.(type) {
	case int64:
		return strconv.FormatInt(x, 10), nil
	case string:
		return x, nil
	case bool:
		return strconv.FormatBool(x), nil
	case jGoText:
		return x.Text, nil
	}
	return "", fmt.Errorf("value of kind %T cannot be written into Go source by a template hole", v)
}
