package main

// C09 (error recovery of the generated parser) and C16 (_onBounds).

import (
	"fmt"
	"go/ast"
	"go/token"
	"go/types"
	"strings"
)

func fieldNamed(info *types.Info, e ast.Expr, name string) bool {
	fv, _ := selField(info, e)
	return fv != nil && fv.Name() == name
}

// ---- REC-1: lookahead typestate ----

func ruleREC1(c *Ctx) {
	const rule = "REC-1"
	ta := c.tmplOrUnres(rule)
	if ta == nil {
		return
	}
	for _, ti := range ta.Variants {
		variant := "template[" + ti.FlagString() + "]"
		info := ti.Info
		tokT := ti.Pkg.Scope().Lookup("Token")
		errT := ti.Pkg.Scope().Lookup("Error")
		if tokT == nil || errT == nil {
			c.unres(rule, variant+"/types", "", "Token/Error types not found")
			continue
		}
		// every store to _lasym / _qlasym
		nStores := 0
		for _, f := range ti.AllFiles {
			for _, d := range f.Decls {
				fd, ok := d.(*ast.FuncDecl)
				if !ok || fd.Body == nil {
					continue
				}
				ast.Inspect(fd.Body, func(n ast.Node) bool {
					as, ok := n.(*ast.AssignStmt)
					if !ok {
						return true
					}
					for i, l := range as.Lhs {
						fv, _ := selField(info, l)
						if fv == nil || (fv.Name() != "_lasym" && fv.Name() != "_qlasym") {
							continue
						}
						nStores++
						construct := fmt.Sprintf("%s/%s/store(%s)", variant, fd.Name.Name, fv.Name())
						var vt types.Type
						var rhs ast.Expr
						if len(as.Rhs) == len(as.Lhs) {
							rhs = as.Rhs[i]
							vt = info.TypeOf(rhs)
						} else if tup, ok := info.TypeOf(as.Rhs[0]).(*types.Tuple); ok && i < tup.Len() {
							rhs = as.Rhs[0]
							vt = tup.At(i).Type()
						}
						ok := false
						why := ""
						switch {
						case vt == nil:
							why = "untyped"
						case types.Identical(vt, tokT.Type()) || types.Identical(vt, errT.Type()):
							ok = true
							why = "a " + vt.String()
						case fieldNamed(info, rhs, "_lasym") || fieldNamed(info, rhs, "_qlasym"):
							ok = true
							why = "the sibling lookahead field"
						case exprString(rhs) == "nil" && fv.Name() == "_qlasym":
							ok = true
							why = "nil (queued slot only)"
						case paramIndex(info, fd, rhs) >= 0:
							// a parameter: every call site must bind it to a Token or an Error
							pi := paramIndex(info, fd, rhs)
							fnObj, _ := info.Defs[fd.Name].(*types.Func)
							nSites, badSite := 0, ""
							for _, f2 := range ti.AllFiles {
								ast.Inspect(f2, func(m ast.Node) bool {
									call, isCall := m.(*ast.CallExpr)
									if !isCall || fnObj == nil || calleeFunc(info, call) != fnObj || pi >= len(call.Args) {
										return true
									}
									nSites++
									at := info.TypeOf(call.Args[pi])
									if at == nil || !(types.Identical(at, tokT.Type()) || types.Identical(at, errT.Type()) || fieldNamed(info, call.Args[pi], "_lasym") || fieldNamed(info, call.Args[pi], "_qlasym")) {
										badSite = fmt.Sprintf("%s passes `%s`", ti.Pos(call.Pos()), exprString(call.Args[pi]))
									}
									return true
								})
							}
							if nSites > 0 && badSite == "" {
								ok = true
								why = fmt.Sprintf("parameter `%s`, bound to a Token or an Error at all %d call sites", exprString(rhs), nSites)
							} else {
								why = "parameter `" + exprString(rhs) + "` of type " + vt.String() + " (" + badSite + ")"
							}
						default:
							why = "`" + exprString(rhs) + "` of type " + vt.String()
						}
						c.check(ok, rule, construct, ti.Pos(as.Pos()), "stores "+why+": the lookahead symbol is always a Token or an Error",
							"stores "+why+" into the lookahead symbol: the unchecked assertions in _makeError / the shift arm can panic")
					}
					return true
				})
			}
		}
		if nStores < 6 {
			c.unres(rule, variant+"/stores", "", "only %d stores to the lookahead symbol found", nStores)
		}
		// unchecked assertions on _lasym
		for _, f := range ti.AllFiles {
			for _, d := range f.Decls {
				fd, ok := d.(*ast.FuncDecl)
				if !ok || fd.Body == nil {
					continue
				}
				par := parents(fd)
				ast.Inspect(fd.Body, func(n ast.Node) bool {
					ta2, ok := n.(*ast.TypeAssertExpr)
					if !ok || !fieldNamed(info, ta2.X, "_lasym") || ta2.Type == nil {
						return true
					}
					// comma-ok form?
					if as, ok := par[ta2].(*ast.AssignStmt); ok && len(as.Lhs) == 2 && len(as.Rhs) == 1 {
						return true
					}
					want := exprString(ta2.Type)
					construct := fmt.Sprintf("%s/%s/assert(_lasym.(%s))", variant, fd.Name.Name, want)
					other := "Error"
					if want == "Error" {
						other = "Token"
					}
					guarded := false
					// (a) inside `if !ok` of a comma-ok assertion to the other type
					for q := par[ta2]; q != nil; q = par[q] {
						ifs, isIf := q.(*ast.IfStmt)
						if !isIf || !containsNode(ifs.Body, ta2) {
							continue
						}
						if u, isU := ifs.Cond.(*ast.UnaryExpr); isU && u.Op == token.NOT {
							okVar := usesObj(info, u.X)
							ast.Inspect(fd.Body, func(m ast.Node) bool {
								as, isAs := m.(*ast.AssignStmt)
								if !isAs || len(as.Lhs) != 2 || len(as.Rhs) != 1 || usesObj(info, as.Lhs[1]) != okVar || as.End() > ifs.Pos() {
									return true
								}
								if t2, isTA := as.Rhs[0].(*ast.TypeAssertExpr); isTA && fieldNamed(info, t2.X, "_lasym") && exprString(t2.Type) == other {
									guarded = true
								}
								return true
							})
						}
					}
					if guarded {
						c.ok(rule, construct, ti.Pos(ta2.Pos()), "reached only after the comma-ok assertion to %s failed: the dynamic type is %s", other, want)
						return true
					}
					// (b) the enclosing function is only called where _lasym was just read from the lexer or failed .(Error)
					fnObj, _ := info.Defs[fd.Name].(*types.Func)
					okSites, nSites := true, 0
					whyBad := ""
					for _, f2 := range ti.AllFiles {
						for _, d2 := range f2.Decls {
							fd2, ok := d2.(*ast.FuncDecl)
							if !ok || fd2.Body == nil {
								continue
							}
							par2 := parents(fd2)
							ast.Inspect(fd2.Body, func(m ast.Node) bool {
								call, ok := m.(*ast.CallExpr)
								if !ok || calleeFunc(info, call) != fnObj {
									return true
								}
								nSites++
								siteOK := false
								for q := par2[call]; q != nil; q = par2[q] {
									ifs, isIf := q.(*ast.IfStmt)
									if !isIf || !containsNode(ifs.Body, call) {
										continue
									}
									// if !ok (failed .(Error))
									if u, isU := ifs.Cond.(*ast.UnaryExpr); isU && u.Op == token.NOT {
										okVar := usesObj(info, u.X)
										ast.Inspect(fd2.Body, func(k ast.Node) bool {
											as, isAs := k.(*ast.AssignStmt)
											if isAs && len(as.Lhs) == 2 && len(as.Rhs) == 1 && usesObj(info, as.Lhs[1]) == okVar && as.End() <= ifs.Pos() {
												if t2, isTA := as.Rhs[0].(*ast.TypeAssertExpr); isTA && fieldNamed(info, t2.X, "_lasym") && exprString(t2.Type) == other {
													siteOK = true
												}
											}
											return true
										})
									}
									// if p._la == ERROR directly after `p._lasym, p._la = lexer.ReadToken()`
									if be, isBE := ifs.Cond.(*ast.BinaryExpr); isBE && be.Op == token.EQL && fieldNamed(info, be.X, "_la") {
										if blk, isBlk := par2[ifs].(*ast.BlockStmt); isBlk {
											for k, s := range blk.List {
												if s == ast.Stmt(ifs) && k > 0 {
													if as, isAs := blk.List[k-1].(*ast.AssignStmt); isAs && len(as.Lhs) == 2 && fieldNamed(info, as.Lhs[0], "_lasym") {
														if rc, isCall := as.Rhs[0].(*ast.CallExpr); isCall && strings.HasSuffix(exprString(rc.Fun), ".ReadToken") {
															siteOK = true
														}
													}
												}
											}
										}
									}
								}
								if !siteOK {
									okSites = false
									whyBad = fmt.Sprintf("%s calls it at %s where the lookahead may hold an %s (e.g. restored from the queued slot)", fd2.Name.Name, ti.Pos(call.Pos()), other)
								}
								return true
							})
						}
					}
					c.check(okSites && nSites > 0, rule, construct, ti.Pos(ta2.Pos()),
						fmt.Sprintf("all %d call sites of %s run right after ReadToken stored a Token or after .(%s) failed", nSites, fd.Name.Name, other),
						"unchecked assertion can panic: "+whyBad)
					return true
				})
			}
		}
		// parse reads a token before using the lookahead
		if fd, _ := ti.FuncDecl("_P.parse"); fd != nil {
			first := -1
			use := -1
			for i, s := range fd.Body.List {
				if es, ok := s.(*ast.ExprStmt); ok && callNamed(info, es, "_readToken") != nil && first == -1 {
					first = i
				}
				if use == -1 {
					ast.Inspect(s, func(n ast.Node) bool {
						if e, ok := n.(ast.Expr); ok && (fieldNamed(info, e, "_la") || fieldNamed(info, e, "_lasym")) {
							use = i
						}
						return true
					})
				}
			}
			c.check(first >= 0 && (use == -1 || first < use), rule, variant+"/parse/read-before-use", ti.Pos(fd.Pos()), "parse reads the first token before the lookahead is used", "the lookahead is used before the first token is read")
		}
	}
}

// ---- REC-2 / REC-3 / REC-4 ----

func ruleREC234(c *Ctx) {
	ta := c.tmplOrUnres("REC-2")
	if ta == nil {
		return
	}
	for _, ti := range ta.Variants {
		variant := "template[" + ti.FlagString() + "]"
		info := ti.Info
		fd, _, _, _ := parseArms(ti)
		rec, _ := ti.FuncDecl("_P._recover")
		if fd == nil || rec == nil {
			c.unres("REC-2", variant+"/parse,_recover", "", "functions not found")
			continue
		}
		// REC-2: the parse loop is left with success only through the accept branch
		var loop *ast.ForStmt
		for _, s := range fd.Body.List {
			if fs, ok := s.(*ast.ForStmt); ok {
				loop = fs
			}
		}
		okAccept := false
		if loop != nil && loop.Cond == nil {
			par := parents(fd)
			isAcceptFact := func(e ast.Expr, pos bool) bool {
				l, op, r, ok := cmpFact(e, pos)
				if !ok || op != token.EQL {
					return false
				}
				k1, _ := usesObj(info, r).(*types.Const)
				k2, _ := usesObj(info, l).(*types.Const)
				return (k1 != nil && k1.Name() == "accept") || (k2 != nil && k2.Name() == "accept")
			}
			// breaks that leave the main loop
			okBreaks, nBreaks := true, 0
			var walk func(n ast.Node)
			walk = func(n ast.Node) {
				ast.Inspect(n, func(m ast.Node) bool {
					switch x := m.(type) {
					case *ast.ForStmt, *ast.RangeStmt, *ast.FuncLit:
						if m != n {
							return false
						}
					case *ast.SwitchStmt:
						// an unlabeled break inside a switch leaves the switch, not the loop
						for _, cl := range x.Body.List {
							for _, st := range cl.(*ast.CaseClause).Body {
								ast.Inspect(st, func(k ast.Node) bool {
									switch y := k.(type) {
									case *ast.ForStmt, *ast.RangeStmt, *ast.FuncLit, *ast.SwitchStmt:
										return false
									case *ast.BranchStmt:
										if y.Tok == token.BREAK && y.Label != nil {
											nBreaks++
											if !holds(pathConds(info, par, y), isAcceptFact) {
												okBreaks = false
											}
										}
									}
									return true
								})
							}
						}
						return false
					case *ast.BranchStmt:
						if x.Tok == token.BREAK {
							nBreaks++
							if !holds(pathConds(info, par, x), isAcceptFact) {
								okBreaks = false
							}
						}
					}
					return true
				})
			}
			walk(loop.Body)
			// every `return true`: inside the loop under the accept condition, or right after the loop
			okReturns, nTrue := true, 0
			ast.Inspect(fd.Body, func(m ast.Node) bool {
				rs, ok := m.(*ast.ReturnStmt)
				if !ok || len(rs.Results) != 1 || exprString(rs.Results[0]) != "true" {
					return true
				}
				nTrue++
				if containsNode(loop, rs) {
					if !holds(pathConds(info, par, rs), isAcceptFact) {
						okReturns = false
					}
				} else if rs.Pos() < loop.End() {
					okReturns = false
				} else if nBreaks == 0 {
					okReturns = false // unreachable or reached otherwise
				}
				return true
			})
			okAccept = okBreaks && okReturns && nTrue >= 1
		}
		c.check(okAccept, "REC-2", variant+"/parse/success-only-by-accept", ti.Pos(fd.Pos()),
			"the only `return true` of parse follows the loop, and the loop is left only by the break of the `action == accept` branch", "parse can return true without having taken the accept action")
		// parse returns false exactly when recovery fails
		okFalse := false
		ast.Inspect(fd.Body, func(m ast.Node) bool {
			if ifs, ok := m.(*ast.IfStmt); ok {
				if u, ok := ifs.Cond.(*ast.UnaryExpr); ok && u.Op == token.NOT && callNamed(info, u.X, "_recover") != nil && len(ifs.Body.List) == 1 {
					if rs, ok := ifs.Body.List[0].(*ast.ReturnStmt); ok && exprString(rs.Results[0]) == "false" {
						okFalse = true
					}
				}
			}
			return true
		})
		c.check(okFalse, "REC-2", variant+"/parse/no-action=>recover", ti.Pos(fd.Pos()), "a missing action invokes _recover; its failure makes parse return false", "a missing action is not routed through _recover with failure => return false")
		// _recover: return true only after installing ERROR/errSym as the lookahead and queuing the real one
		nT, okT := 0, true
		ast.Inspect(rec.Body, func(m ast.Node) bool {
			rs, ok := m.(*ast.ReturnStmt)
			if !ok || len(rs.Results) != 1 || exprString(rs.Results[0]) != "true" {
				return true
			}
			nT++
			blk := enclosingList(parents(rec), rs)
			var before []ast.Stmt
			for _, s := range blk {
				if s.Pos() >= rs.Pos() {
					break
				}
				before = append(before, s)
			}
			setLa, setSym, qLa, qSym := false, false, false, false
			for _, pa := range straightLineAssigns(ti, before) {
				switch {
				case fieldNamed(info, pa.lhs, "_la") && exprString(pa.rhs) == "ERROR":
					setLa = true
				case fieldNamed(info, pa.lhs, "_lasym") && info.TypeOf(pa.rhs) != nil && namedTypeName(info.TypeOf(pa.rhs)) == "Error":
					setSym = true
				case fieldNamed(info, pa.lhs, "_qla") && fieldNamed(info, pa.rhs, "_la"):
					qLa = !pa.afterLa
				case fieldNamed(info, pa.lhs, "_qlasym") && fieldNamed(info, pa.rhs, "_lasym"):
					qSym = !pa.afterSym
				}
			}
			if !(setLa && setSym && qLa && qSym) {
				okT = false
			}
			return true
		})
		// ... and only where the state reached by shifting ERROR has an action on the real
		// lookahead (otherwise the parser is handed a configuration it rejects at once, and the
		// loop in parse repeats without consuming input)
		{
			decls := tiFuncDecls(ti)
			// lookaheadOK: e is known true at position pos in fn only if _Find(_actions, s, la) found an action
			var lookaheadOK func(fn *ast.FuncDecl, e ast.Expr, pos token.Pos, depth int) bool
			closestDef := func(fn *ast.FuncDecl, o types.Object, before token.Pos) ast.Expr {
				var best ast.Expr
				var bestPos token.Pos
				ast.Inspect(fn.Body, func(m ast.Node) bool {
					as, ok := m.(*ast.AssignStmt)
					if !ok || as.End() > before {
						return true
					}
					for i, l := range as.Lhs {
						if usesObj(info, l) == o && as.Pos() >= bestPos {
							bestPos = as.Pos()
							if len(as.Rhs) == len(as.Lhs) {
								best = as.Rhs[i]
							} else {
								best = as.Rhs[0]
							}
						}
					}
					return true
				})
				return best
			}
			isLookaheadFind := func(e ast.Expr) bool {
				call := callNamed(info, e, "_Find")
				if call == nil || len(call.Args) != 3 || exprString(call.Args[0]) != "_actions" {
					return false
				}
				mentionsLa := false
				ast.Inspect(call.Args[2], func(k ast.Node) bool {
					if ke, ok := k.(ast.Expr); ok && (fieldNamed(info, ke, "_la") || (fieldNamed(info, ke, "Type") && strings.Contains(exprString(ke), "_la"))) {
						mentionsLa = true
					}
					return true
				})
				return mentionsLa
			}
			lookaheadOK = func(fn *ast.FuncDecl, e ast.Expr, pos token.Pos, depth int) bool {
				e = ast.Unparen(e)
				if id, ok := e.(*ast.Ident); ok {
					if d := closestDef(fn, usesObj(info, id), pos); d != nil {
						return isLookaheadFind(d)
					}
					return false
				}
				call, ok := e.(*ast.CallExpr)
				if !ok || depth >= 2 {
					return false
				}
				hf := calleeFunc(info, call)
				if hf == nil {
					return false
				}
				h := decls[hf.Origin()]
				if h == nil {
					return false
				}
				hpar := parents(h)
				all, n := true, 0
				inspectNoLit(h.Body, func(m ast.Node) bool {
					rs, ok := m.(*ast.ReturnStmt)
					if !ok || len(rs.Results) != 1 || exprString(rs.Results[0]) == "false" {
						return true
					}
					n++
					if exprString(rs.Results[0]) != "true" {
						if !lookaheadOK(h, rs.Results[0], rs.Pos(), depth+1) {
							all = false
						}
						return true
					}
					okFact := false
					for _, f := range pathConds(info, hpar, rs) {
						if !f.neg && lookaheadOK(h, f.e, f.e.Pos()+1, depth+1) {
							okFact = true
						}
					}
					if !okFact {
						all = false
					}
					return true
				})
				return all && n > 0
			}
			okLa, nLa := true, 0
			rpar := parents(rec)
			ast.Inspect(rec.Body, func(m ast.Node) bool {
				rs, ok := m.(*ast.ReturnStmt)
				if !ok || len(rs.Results) != 1 || exprString(rs.Results[0]) != "true" {
					return true
				}
				nLa++
				found := false
				for _, f := range pathConds(info, rpar, rs) {
					if !f.neg && lookaheadOK(rec, f.e, f.e.Pos()+1, 0) {
						found = true
					}
				}
				if !found {
					okLa = false
				}
				return true
			})
			c.check(okLa && nLa >= 1, "REC-2", variant+"/_recover/success-requires-lookahead-action", ti.Pos(rec.Pos()),
				"_recover succeeds only if the state reached by shifting the error terminal has an action on the real lookahead",
				"_recover can succeed although the state after the error terminal has no action on the lookahead: parse fails again at once without consuming input (endless retry at end of input)")
		}
		c.check(okT && nT >= 1, "REC-2", variant+"/_recover/success-installs-error", ti.Pos(rec.Pos()),
			"_recover returns true only after queuing the real lookahead and installing (ERROR, Error) in its place: the next action is taken on the error terminal", "_recover can return true without installing the error terminal as lookahead (or clobbers the real lookahead)")
		nF, okF := 0, true
		ast.Inspect(rec.Body, func(m ast.Node) bool {
			rs, ok := m.(*ast.ReturnStmt)
			if !ok || len(rs.Results) != 1 || exprString(rs.Results[0]) != "false" {
				return true
			}
			nF++
			ifs, ok := parents(rec)[parents(rec)[rs]].(*ast.IfStmt)
			if !ok {
				okF = false
				return true
			}
			be, ok := ifs.Cond.(*ast.BinaryExpr)
			if !ok || be.Op != token.EQL || !fieldNamed(info, be.X, "_la") || exprString(be.Y) != "EOF" {
				okF = false
			}
			return true
		})
		c.check(okF && nF >= 1, "REC-2", variant+"/_recover/fails-only-at-EOF", ti.Pos(rec.Pos()), "_recover gives up only when the lookahead is EOF", "_recover can give up before the input is exhausted, or never gives up")

		// REC-3: blame
		iErr, iRead := -1, -1
		for i, s := range rec.Body.List {
			if iErr == -1 {
				if as, ok := s.(*ast.AssignStmt); ok && len(as.Rhs) == 1 {
					if t2, ok := as.Rhs[0].(*ast.TypeAssertExpr); ok && fieldNamed(info, t2.X, "_lasym") && exprString(t2.Type) == "Error" {
						iErr = i
					}
				}
			}
			if iRead == -1 && callNamed(info, s, "_readToken") != nil {
				iRead = i
			}
		}
		mk := -1
		for i, s := range rec.Body.List {
			if callNamed(info, s, "_makeError") != nil && mk == -1 {
				mk = i
			}
		}
		c.check(iErr == 0 && mk == 1 && (iRead == -1 || iRead > mk), "REC-3", variant+"/_recover/error-before-skipping", ti.Pos(rec.Pos()),
			"the Error delivered to @error is taken from the offending lookahead (an existing Error, else _makeError()) before any token is skipped",
			"the Error is not built from the offending lookahead before tokens are skipped: a later token would be blamed")
		if me, _ := ti.FuncDecl("_P._makeError"); me != nil {
			okTok, okRow := false, false
			meDefs := localDefs(info, me)
			var expectedVal ast.Expr // what ends up in the Expected field, when set through a literal
			ast.Inspect(me.Body, func(m ast.Node) bool {
				switch x := m.(type) {
				case *ast.KeyValueExpr:
					if exprString(x.Key) == "Token" {
						if t2, ok := ast.Unparen(resolveVia(info, meDefs, x.Value)).(*ast.TypeAssertExpr); ok && fieldNamed(info, t2.X, "_lasym") {
							okTok = true
						}
					}
					if exprString(x.Key) == "Expected" {
						expectedVal = x.Value
					}
				case *ast.SelectorExpr:
					// the row is that of the state on top of the stack
					if x.Sel.Name == "State" && strings.HasSuffix(exprString(x), "Peek(0).State") {
						okRow = true
					}
				}
				return true
			})
			okExp := false
			if rowReaderOK(info, me.Body, "_actions") {
				expObj := usesObj(info, expectedVal)
				fromTable := func(e ast.Expr) bool {
					ix, ok := stripConv(info, e).(*ast.IndexExpr)
					if !ok {
						return false
					}
					src := ast.Unparen(resolveVia(info, meDefs, ix.X))
					if sl, ok := src.(*ast.SliceExpr); ok {
						src = ast.Unparen(sl.X)
					}
					return exprString(src) == "_actions"
				}
				ast.Inspect(me.Body, func(m ast.Node) bool {
					if call, ok := m.(*ast.CallExpr); ok && builtinName(info, call) == "append" && len(call.Args) == 2 {
						toField := strings.HasSuffix(exprString(call.Args[0]), ".Expected")
						toLocal := expObj != nil && usesObj(info, call.Args[0]) == expObj
						if (toField || toLocal) && fromTable(call.Args[1]) {
							okExp = true
						}
					}
					return true
				})
			}
			c.check(okTok && okRow && okExp, "REC-3", variant+"/_makeError", ti.Pos(me.Pos()),
				"the Error carries the current lookahead token and the terminal column of the current state's action row", "the Error does not carry the current lookahead token and the terminals of the current state's row")
		}

		// REC-4: progress of the recovery loops
		var outer *ast.ForStmt
		for _, s := range rec.Body.List {
			if fs, ok := s.(*ast.ForStmt); ok && fs.Cond == nil {
				outer = fs
			}
		}
		if outer == nil {
			c.bad("REC-4", variant+"/_recover/retry-loop", ti.Pos(rec.Pos()), "no retry loop in _recover")
			continue
		}
		n := len(outer.Body.List)
		okSave := false
		if n > 0 {
			if as, ok := outer.Body.List[0].(*ast.AssignStmt); ok && as.Tok == token.DEFINE && fieldNamed(info, as.Rhs[0], "_stack") {
				saveVar := exprString(as.Lhs[0])
				// ... ; if la == EOF {return false}; p._stack = save; p._readToken()
				if n >= 3 {
					rd, ok1 := outer.Body.List[n-1].(*ast.ExprStmt)
					rs, ok2 := outer.Body.List[n-2].(*ast.AssignStmt)
					if ok1 && ok2 && callNamed(info, rd, "_readToken") != nil && fieldNamed(info, rs.Lhs[0], "_stack") && exprString(rs.Rhs[0]) == saveVar {
						okSave = true
					}
				}
			}
		}
		c.check(okSave, "REC-4", variant+"/_recover/retry-loop", ti.Pos(outer.Pos()),
			"each retry saves the stack first, and after an unsuccessful search restores it and reads exactly one more token: the loop consumes input and ends at EOF",
			"the retry loop does not save the stack at the start of each attempt and restore it before dropping a token: the search would run on a popped (possibly empty) stack")
		// search loop pops one state per iteration
		okPop := false
		ast.Inspect(outer.Body, func(m ast.Node) bool {
			fs, ok := m.(*ast.ForStmt)
			if !ok || fs.Cond == nil || !strings.HasPrefix(exprString(fs.Cond), "len(") {
				return true
			}
			k := len(fs.Body.List)
			if k > 0 {
				if es, ok := fs.Body.List[k-1].(*ast.ExprStmt); ok {
					if call := callNamed(info, es, "Pop"); call != nil {
						if v, ok := constInt(info, call.Args[0]); ok && v == 1 {
							okPop = true
						}
					}
				}
			}
			// the loop must stop before the stack is empty for Peek(0)
			if be, ok := fs.Cond.(*ast.BinaryExpr); ok {
				if v, ok2 := constInt(info, be.Y); !ok2 || !((be.Op == token.GEQ && v >= 1) || (be.Op == token.GTR && v >= 0)) {
					okPop = false
				}
			}
			return true
		})
		c.check(okPop, "REC-4", variant+"/_recover/stack-search", ti.Pos(outer.Pos()), "the stack search pops exactly one state per iteration and never peeks an empty stack", "the stack search does not pop one state per iteration while the stack is non-empty")
		// ERROR tokens are skipped before searching
		okSkip := false
		for _, s := range rec.Body.List {
			if fs, ok := s.(*ast.ForStmt); ok && fs.Cond != nil && s.Pos() < outer.Pos() {
				if be, ok := fs.Cond.(*ast.BinaryExpr); ok && be.Op == token.EQL && fieldNamed(info, be.X, "_la") && exprString(be.Y) == "ERROR" && callNamed(info, fs.Body, "_readToken") != nil {
					okSkip = true
				}
			}
		}
		c.check(okSkip, "REC-4", variant+"/_recover/skip-lexer-errors", ti.Pos(rec.Pos()), "lexer ERROR tokens are skipped before the search, so the queued lookahead is never ERROR", "lexer ERROR tokens are not skipped before the search")
		// parse loop: every iteration shifts, reduces, recovers, accepts or fails (no bare continue)
		okIter := true
		ast.Inspect(loop.Body, func(m ast.Node) bool {
			if b, ok := m.(*ast.BranchStmt); ok && b.Tok == token.CONTINUE {
				// must directly follow the `if !p._recover() { return false }`
				blk := enclosingList(parents(loop), b)
				idx := -1
				for i, s := range blk {
					if s == ast.Stmt(b) {
						idx = i
					}
				}
				if idx < 1 || callNamed(info, blk[idx-1], "_recover") == nil {
					okIter = false
				}
			}
			return true
		})
		c.check(okIter, "REC-4", variant+"/parse/iteration", ti.Pos(loop.Pos()), "an iteration of the parse loop that takes no action has run _recover", "the parse loop can iterate without shifting, reducing or recovering")
		// REC-5: simulated reductions compose. The search simulates the automaton on the error
		// terminal without touching the stack; a reduce step continues the simulation, so the
		// state it takes the goto from must reflect the steps simulated so far: the simulated
		// state itself, or a stack the same arm keeps up to date. Reading the untouched parse
		// stack there ignores every earlier simulated step (the second reduction of a chain
		// starts from a state the simulation has already left).
		nGoto := 0
		for _, rec := range tiScope(ti, rec, 2) {
			recDefs := localDefs(info, rec)
			recPar := parents(rec)
			ast.Inspect(rec.Body, func(m ast.Node) bool {
				as, ok := m.(*ast.AssignStmt)
				if !ok || len(as.Rhs) != 1 {
					return true
				}
				call := callNamed(info, as.Rhs[0], "_Find")
				if call == nil || len(call.Args) != 3 || exprString(call.Args[0]) != "_goto" {
					return true
				}
				inLoop := false
				for q := recPar[as]; q != nil; q = recPar[q] {
					if _, isFor := q.(*ast.ForStmt); isFor {
						inLoop = true
					}
				}
				if !inLoop {
					return true
				}
				nGoto++
				construct := variant + "/_recover/simulated-reduce-source"
				target := usesObj(info, as.Lhs[0])
				src := resolveVia(info, recDefs, call.Args[1])
				readsStack, readsTarget := false, false
				ast.Inspect(src, func(k ast.Node) bool {
					if e, ok := k.(ast.Expr); ok {
						if fieldNamed(info, e, "_stack") {
							readsStack = true
						}
						if id, ok := e.(*ast.Ident); ok && target != nil && usesObj(info, id) == target {
							readsTarget = true
						}
					}
					return true
				})
				switch {
				case readsTarget && !readsStack:
					c.ok("REC-5", construct, ti.Pos(as.Pos()), "the goto of a simulated reduction starts from the simulated state")
				case readsStack:
					// acceptable only if the arm itself keeps the stack in step with the simulation
					arm := enclosingBlock(recPar, as)
					mutates := false
					if arm != nil {
						ast.Inspect(arm, func(k ast.Node) bool {
							switch x := k.(type) {
							case *ast.CallExpr:
								if sel, ok := x.Fun.(*ast.SelectorExpr); ok && fieldNamed(info, sel.X, "_stack") && (sel.Sel.Name == "Pop" || sel.Sel.Name == "Push") {
									mutates = true
								}
							case *ast.AssignStmt:
								for _, l := range x.Lhs {
									if fieldNamed(info, l, "_stack") {
										mutates = true
									}
								}
							}
							return true
						})
					}
					c.check(mutates, "REC-5", construct, ti.Pos(as.Pos()), "the goto source is read from a stack that the same arm pops/pushes in step with the simulation",
						"the goto of a simulated reduction is taken from `"+exprString(src)+"`: the parse stack is not updated by the simulation, so a second simulated step starts from a state that ignores the first (recovery can announce success from a configuration the parser is not in, and parse() retries forever)")
				default:
					c.unres("REC-5", construct, ti.Pos(as.Pos()), "the goto source `%s` is neither the simulated state nor a stack read", exprString(src))
				}
				return true
			})
		}
		if nGoto == 0 {
			c.unres("REC-5", variant+"/_recover/simulated-reduce-source", ti.Pos(rec.Pos()), "no simulated reduction (goto lookup inside the search loop) found in _recover")
		}
	}
}

func enclosingList(par map[ast.Node]ast.Node, n ast.Node) []ast.Stmt {
	for q := par[n]; q != nil; q = par[q] {
		switch x := q.(type) {
		case *ast.BlockStmt:
			return x.List
		case *ast.CaseClause:
			return x.Body
		}
	}
	return nil
}

// ---- BND ----

func ruleBND1(c *Ctx) {
	const rule = "BND-1"
	p := c.Prog
	pk := p.Pkg("internal/codegen")
	info := pk.TypesInfo
	// writes of context.EmitBounds
	n := 0
	okSet := false
	for _, f := range pk.Syntax {
		if isTestFile(p.Fset, f) {
			continue
		}
		par := parents(f)
		ast.Inspect(f, func(m ast.Node) bool {
			as, ok := m.(*ast.AssignStmt)
			if !ok || len(as.Lhs) != 1 || !isField(info, as.Lhs[0], "internal/codegen", "context", "EmitBounds") {
				return true
			}
			n++
			if exprString(as.Rhs[0]) != "true" {
				return true
			}
			for q := par[as]; q != nil; q = par[q] {
				if ifs, ok := q.(*ast.IfStmt); ok && containsNode(ifs.Body, as) {
					if be, ok := ifs.Cond.(*ast.BinaryExpr); ok && be.Op == token.EQL && strings.HasSuffix(exprString(be.X), ".Name()") {
						if k, ok := usesObj(info, be.Y).(*types.Const); ok && k.Name() == "OnBoundsMethodName" {
							okSet = true
						}
					}
					break
				}
			}
			return true
		})
	}
	c.check(n == 1 && okSet, rule, "codegen.getActionMethods/EmitBounds", "", "EmitBounds is set (only) when a method of the parser type is named OnBoundsMethodName", fmt.Sprintf("EmitBounds is not set exactly when the parser type has the _onBounds method (%d writes)", n))
	ta := c.tmplOrUnres(rule)
	if ta == nil {
		return
	}
	okFlag, okName := false, false
	for _, u := range ta.Set.Uses {
		for name, e := range u.Binds {
			if isField(info, e, "internal/codegen", "context", "EmitBounds") {
				for _, fl := range ta.Set.Flags {
					if fl == name {
						okFlag = true
					}
				}
			}
			if k, ok := usesObj(info, e).(*types.Const); ok && k.Name() == "OnBoundsMethodName" {
				// the hole calling the method uses this binding
				for _, ti := range ta.Variants {
					for _, h := range ti.Holes {
						if id, ok := h.Expr.(*eIdent); ok && id.Name == name {
							okName = true
						}
					}
				}
			}
		}
	}
	c.check(okFlag, rule, "codegen.EmitParser/flag-binding", "", "the template's feature switch is bound to context.EmitBounds", "no template flag is bound to context.EmitBounds")
	c.check(okName, rule, "codegen.EmitParser/method-name-binding", "", "the method the template calls is the constant the detection compares with", "the method name called by the template is not bound to OnBoundsMethodName")
}

func ruleBND2(c *Ctx) {
	const rule = "BND-2"
	ta := c.tmplOrUnres(rule)
	if ta == nil {
		return
	}
	var ti *TmplInstance
	for _, v := range ta.Variants {
		for _, on := range v.Flags {
			if on {
				ti = v
			}
		}
	}
	if ti == nil {
		if c.prefix != "" {
			return // a checked-in package whose parser type has no _onBounds
		}
		c.unres(rule, "template/bounds-variant", "", "no variant with the feature switch on")
		return
	}
	info := ti.Info
	_, shift, reduce, _ := parseArms(ti)
	if reduce == nil {
		c.unres(rule, "template/parse", "", "reduce arm not found")
		return
	}
	idx := func(pred func(s ast.Stmt) bool) int { return stmtIndex(reduce, pred) }
	iAct := idx(func(s ast.Stmt) bool { return callNamed(info, s, "_act") != nil })
	iSlice := idx(func(s ast.Stmt) bool { return callNamed(info, s, "PeekSlice") != nil })
	iPop := idx(func(s ast.Stmt) bool { es, ok := s.(*ast.ExprStmt); return ok && callNamed(info, es, "Pop") != nil })
	iPush := idx(func(s ast.Stmt) bool { es, ok := s.(*ast.ExprStmt); return ok && callNamed(info, es, "Push") != nil })
	if iSlice < 0 || iPop < 0 || iAct < 0 {
		c.bad(rule, "template/parse/reduce/bounds", ti.Pos(reduce.Pos()), "the bounds computation (PeekSlice before Pop) is missing from the reduce arm")
		return
	}
	sl := callNamed(info, reduce.List[iSlice], "PeekSlice")
	pop := callNamed(info, reduce.List[iPop], "Pop")
	sliceVar := ""
	if as, ok := reduce.List[iSlice].(*ast.AssignStmt); ok {
		sliceVar = exprString(as.Lhs[0])
	}
	c.check(iSlice < iPop && sameExpr(sl.Args[0], pop.Args[0]) && sliceVar != "", rule, "template/parse/reduce/children-before-pop", ti.Pos(sl.Pos()),
		"the children's bounds are taken with PeekSlice(termCount) before the same number of items is popped", "the children's bounds are not taken from the top termCount items before they are popped")
	// two equivalent idioms for "the children that survive trimming":
	//   re-slicing: the slice itself shrinks; survivors are S[0] .. S[len(S)-1], non-empty iff len(S) > 0
	//   window:     lo, hi := 0, len(S); survivors are S[lo] .. S[hi-1], non-empty iff lo < hi
	firstIdx, lastIdx := "0", "len("+sliceVar+") - 1"
	nonEmpty := "len(" + sliceVar + ") > 0"
	frontStep, backStep := sliceVar+" = "+sliceVar+"[1:]", sliceVar+" = "+sliceVar+"[:len("+sliceVar+") - 1]"
	for _, s := range reduce.List {
		as, ok := s.(*ast.AssignStmt)
		if !ok || as.Tok != token.DEFINE || len(as.Lhs) != 2 || len(as.Rhs) != 2 {
			continue
		}
		if v, isC := constInt(info, as.Rhs[0]); isC && v == 0 && exprString(as.Rhs[1]) == "len("+sliceVar+")" && s.Pos() > reduce.List[iSlice].Pos() {
			lo, hi := exprString(as.Lhs[0]), exprString(as.Lhs[1])
			// the window variables are only moved inwards: lo++ / hi-- are their only writes
			okOnly := true
			ast.Inspect(reduce, func(m ast.Node) bool {
				switch x := m.(type) {
				case *ast.AssignStmt:
					if x != as {
						for _, l := range x.Lhs {
							if exprString(l) == lo || exprString(l) == hi {
								okOnly = false
							}
						}
					}
				case *ast.IncDecStmt:
					if (exprString(x.X) == lo && x.Tok != token.INC) || (exprString(x.X) == hi && x.Tok != token.DEC) {
						okOnly = false
					}
				}
				return true
			})
			if okOnly {
				firstIdx, lastIdx = lo, hi+" - 1"
				nonEmpty = lo + " < " + hi
				frontStep, backStep = lo+"++", hi+"--"
			}
		}
	}
	firstEl, lastEl := sliceVar+"["+firstIdx+"]", sliceVar+"["+lastIdx+"]"
	// trimming loops
	front, back := false, false
	for _, s := range reduce.List {
		fs, ok := s.(*ast.ForStmt)
		if !ok || fs.Cond == nil || len(fs.Body.List) != 1 || fs.Init != nil || fs.Post != nil {
			continue
		}
		cs := exprString(fs.Cond)
		body := strings.Join(strings.Fields(nodeText(fs.Body.List[0])), " ")
		if cs == nonEmpty+" && "+firstEl+".Bounds.Empty" && body == frontStep {
			front = true
		}
		if cs == nonEmpty+" && "+lastEl+".Bounds.Empty" && body == backStep {
			back = true
		}
	}
	c.check(front && back, rule, "template/parse/reduce/trim-empty-children", ti.Pos(reduce.Pos()), "empty children are trimmed from the front and from the back", fmt.Sprintf("empty children are not trimmed at both ends (front: %v, back: %v)", front, back))
	// begin / end / empty
	okBE, okEmpty := false, false
	var boundsVar string
	for _, s := range reduce.List {
		ifs, ok := s.(*ast.IfStmt)
		if !ok || exprString(ifs.Cond) != nonEmpty {
			continue
		}
		b, e := false, false
		for _, st := range ifs.Body.List {
			if as, ok := st.(*ast.AssignStmt); ok && len(as.Lhs) == 1 {
				l, r := exprString(as.Lhs[0]), exprString(as.Rhs[0])
				if strings.HasSuffix(l, ".Begin") && r == firstEl+".Bounds.Begin" {
					b = true
					boundsVar = strings.TrimSuffix(l, ".Begin")
				}
				if strings.HasSuffix(l, ".End") && r == lastEl+".Bounds.End" {
					e = true
				}
			}
		}
		okBE = b && e
		if blk, ok := ifs.Else.(*ast.BlockStmt); ok && len(blk.List) == 1 {
			if as, ok := blk.List[0].(*ast.AssignStmt); ok && exprString(as.Lhs[0]) == boundsVar+".Empty" && exprString(as.Rhs[0]) == "true" {
				okEmpty = true
			}
		}
	}
	c.check(okBE, rule, "template/parse/reduce/begin-end", ti.Pos(reduce.Pos()), "Begin comes from the first and End from the last non-empty child", "Begin/End are not taken from the first/last surviving child")
	c.check(okEmpty, rule, "template/parse/reduce/empty-iff-none", ti.Pos(reduce.Pos()), "the reduction is marked Empty exactly when no non-empty child survives", "a reduction whose children are all empty is not marked Empty (zero bounds would be reported and would propagate to the parent)")
	// the callback
	var cb *ast.CallExpr
	var cbIf *ast.IfStmt
	nCb := 0
	for i, s := range reduce.List {
		ast.Inspect(s, func(m ast.Node) bool {
			if call, ok := m.(*ast.CallExpr); ok && strings.HasSuffix(exprString(call.Fun), "._onBounds") {
				nCb++
				cb = call
				cbIf, _ = s.(*ast.IfStmt)
				if i < iAct || i > iPop {
					nCb += 100
				}
			}
			return true
		})
	}
	okCb := false
	if cb != nil && nCb == 1 && len(cb.Args) == 3 {
		resVar := ""
		if as, ok := reduce.List[iAct].(*ast.AssignStmt); ok {
			resVar = exprString(as.Lhs[0])
		}
		facts := pathConds(info, parents(reduce), cb)
		isNonEmpty := holds(facts, func(e ast.Expr, pos bool) bool {
			if !pos && exprString(e) == boundsVar+".Empty" {
				return true
			}
			return pos && exprString(e) == nonEmpty
		})
		okCb = isNonEmpty && exprString(cb.Args[0]) == resVar && exprString(cb.Args[1]) == boundsVar+".Begin" && exprString(cb.Args[2]) == boundsVar+".End"
	}
	_ = cbIf
	c.check(okCb, rule, "template/parse/reduce/callback", ti.Pos(reduce.Pos()), "_onBounds(res, Begin, End) is called exactly once, after the action, only when the span is non-empty", "_onBounds is not called exactly once after the action under `!bounds.Empty` with (result, Begin, End)")
	// pushed item carries the bounds
	okPush := false
	if iPush >= 0 {
		if cl, ok := callNamed(info, reduce.List[iPush], "Push").Args[0].(*ast.CompositeLit); ok {
			if b := kvOf(cl, "Bounds"); b != nil && exprString(b) == boundsVar {
				okPush = true
			}
		}
	}
	c.check(okPush, rule, "template/parse/reduce/push-bounds", ti.Pos(reduce.Pos()), "the pushed item carries the computed bounds (so parents see them)", "the pushed item does not carry the computed bounds")
	// shift arm: Begin = End = token of the current lookahead symbol
	okShift := false
	if shift != nil {
		var tokVar string
		for _, s := range shift.List {
			if as, ok := s.(*ast.AssignStmt); ok && len(as.Lhs) == 2 {
				if t2, ok := as.Rhs[0].(*ast.TypeAssertExpr); ok && fieldNamed(info, t2.X, "_lasym") && exprString(t2.Type) == "Token" {
					tokVar = exprString(as.Lhs[0])
				}
			}
		}
		if push := callNamed(info, shift, "Push"); push != nil && tokVar != "" {
			if cl, ok := push.Args[0].(*ast.CompositeLit); ok {
				if b := kvOf(cl, "Bounds"); b != nil {
					if bl, ok := b.(*ast.CompositeLit); ok {
						bg, en := kvOf(bl, "Begin"), kvOf(bl, "End")
						okShift = bg != nil && en != nil && exprString(bg) == tokVar && exprString(en) == tokVar
					}
				}
			}
		}
		// the fallback for an Error lookahead
		fb := false
		ast.Inspect(shift, func(m ast.Node) bool {
			if as, ok := m.(*ast.AssignStmt); ok && len(as.Lhs) == 1 && exprString(as.Lhs[0]) == tokVar {
				if sel, ok := as.Rhs[0].(*ast.SelectorExpr); ok && sel.Sel.Name == "Token" {
					if t2, ok := sel.X.(*ast.TypeAssertExpr); ok && fieldNamed(info, t2.X, "_lasym") {
						fb = true
					}
				}
			}
			return true
		})
		okShift = okShift && fb
	}
	c.check(okShift, rule, "template/parse/shift/bounds", ti.Pos(shift.Pos()), "a shifted symbol's Begin and End are the token of the symbol being shifted (the Error's token for @error)", "a shifted symbol's bounds are not taken from the symbol being shifted")
}

func ruleBND3(c *Ctx) {
	const rule = "BND-3"
	ta := c.tmplOrUnres(rule)
	if ta == nil {
		return
	}
	var ti *TmplInstance
	for _, v := range ta.Variants {
		for _, on := range v.Flags {
			if on {
				ti = v
			}
		}
	}
	if ti == nil || len(ti.Regions) == 0 {
		c.unres(rule, "template/flag-regions", "", "no feature-switched regions rendered")
		return
	}
	info := ti.Info
	inRegion := func(n ast.Node) bool {
		tmpl, s, e, ok := ti.span(n)
		if !ok {
			return false
		}
		for _, r := range ti.Regions {
			if r.Tmpl == tmpl && r.Start <= s && e <= r.End {
				return true
			}
		}
		return false
	}
	declared := map[types.Object]bool{}
	nStmts := 0
	for _, f := range ti.AllFiles {
		ast.Inspect(f, func(n ast.Node) bool {
			if id, ok := n.(*ast.Ident); ok && inRegion(id) {
				if o := info.Defs[id]; o != nil {
					declared[o] = true
				}
			}
			return true
		})
	}
	// functions that exist only with the feature (declared wholly inside a region): their bodies
	// are region code, a `return` in them leaves only themselves, and region code may call them
	regionFuncs := map[types.Object]bool{}
	for _, f := range ti.AllFiles {
		for _, d := range f.Decls {
			if fd, ok := d.(*ast.FuncDecl); ok && fd.Body != nil && inRegion(fd) {
				regionFuncs[info.Defs[fd.Name]] = true
			}
		}
	}
	for _, f := range ti.AllFiles {
		for _, d := range f.Decls {
			fd, ok := d.(*ast.FuncDecl)
			if !ok || fd.Body == nil {
				continue
			}
			wholeFn := regionFuncs[info.Defs[fd.Name]]
			ast.Inspect(fd.Body, func(n ast.Node) bool {
				st, ok := n.(ast.Stmt)
				if !ok || !inRegion(st) {
					return true
				}
				nStmts++
				if _, isRet := st.(*ast.ReturnStmt); isRet && wholeFn {
					return true
				}
				construct := fmt.Sprintf("template/%s/bounds-block", fd.Name.Name)
				switch x := st.(type) {
				case *ast.ReturnStmt:
					c.bad(rule, construct, ti.Pos(x.Pos()), "a `return` inside a bounds-only block changes control flow when _onBounds is present")
				case *ast.BranchStmt:
					c.bad(rule, construct, ti.Pos(x.Pos()), "`%s` inside a bounds-only block changes control flow when _onBounds is present", x.Tok)
				case *ast.AssignStmt:
					for _, l := range x.Lhs {
						root := selRootIdent(l)
						o := usesObj(info, root)
						if o == nil || declared[o] {
							continue
						}
						c.bad(rule, construct, ti.Pos(x.Pos()), "a bounds-only block assigns to `%s`, which exists without _onBounds too: the feature would change the parse", exprString(l))
					}
				case *ast.IncDecStmt:
					if o := usesObj(info, selRootIdent(x.X)); o == nil || !declared[o] {
						c.bad(rule, construct, ti.Pos(x.Pos()), "a bounds-only block modifies `%s`", exprString(x.X))
					}
				case *ast.ExprStmt:
					if call, ok := x.X.(*ast.CallExpr); ok {
						name := exprString(call.Fun)
						if !strings.HasSuffix(name, "._onBounds") {
							c.bad(rule, construct, ti.Pos(x.Pos()), "a bounds-only block calls %s", name)
						}
					}
				}
				return true
			})
			// calls inside regions (in expressions)
			ast.Inspect(fd.Body, func(n ast.Node) bool {
				call, ok := n.(*ast.CallExpr)
				if !ok || !inRegion(call) {
					return true
				}
				name := exprString(call.Fun)
				if builtinName(info, call) == "len" || strings.HasSuffix(name, ".PeekSlice") || strings.HasSuffix(name, "._onBounds") {
					return true
				}
				if tv, ok := info.Types[call.Fun]; ok && tv.IsType() {
					return true
				}
				if fn := calleeFunc(info, call); fn != nil && regionFuncs[fn.Origin()] {
					return true
				}
				c.bad(rule, fmt.Sprintf("template/%s/bounds-block/call(%s)", fd.Name.Name, name), ti.Pos(call.Pos()), "a bounds-only block calls %s, which may have effects beyond the bounds", name)
				return true
			})
			// variables declared in regions are not read outside them
			ast.Inspect(fd.Body, func(n ast.Node) bool {
				id, ok := n.(*ast.Ident)
				if !ok || inRegion(id) {
					return true
				}
				if o := info.Uses[id]; o != nil && declared[o] {
					if _, isField := o.(*types.Var); isField && o.(*types.Var).IsField() {
						return true
					}
					c.bad(rule, fmt.Sprintf("template/%s/uses-bounds-var(%s)", fd.Name.Name, id.Name), ti.Pos(id.Pos()), "code outside the bounds-only blocks reads %s, which only exists when _onBounds is present", id.Name)
				}
				return true
			})
		}
	}
	c.ok(rule, "template/bounds-blocks", "", "%d feature-switched regions, %d statements inside them: they only write variables they declare (and the Bounds field of pushed items), call only len/PeekSlice/_onBounds, and contain no return/break/continue/goto", len(ti.Regions), nStmts)
	if nStmts < 8 {
		c.unres(rule, "template/bounds-blocks/floor", "", "only %d statements found inside the feature-switched regions", nStmts)
	}
}

// enclosingBlock returns the innermost block statement containing n.
func enclosingBlock(par map[ast.Node]ast.Node, n ast.Node) *ast.BlockStmt {
	for q := par[n]; q != nil; q = par[q] {
		if b, ok := q.(*ast.BlockStmt); ok {
			return b
		}
	}
	return nil
}

// paramIndex: e names a parameter of fd; returns its position, or -1.
func paramIndex(info *types.Info, fd *ast.FuncDecl, e ast.Expr) int {
	id, ok := ast.Unparen(e).(*ast.Ident)
	if !ok || fd.Type.Params == nil {
		return -1
	}
	o := info.Uses[id]
	i := 0
	for _, f := range fd.Type.Params.List {
		for _, nm := range f.Names {
			if info.Defs[nm] == o && o != nil {
				return i
			}
			i++
		}
		if len(f.Names) == 0 {
			i++
		}
	}
	return -1
}

// tiFuncDecls maps the functions declared in the template instance to their declarations.
func tiFuncDecls(ti *TmplInstance) map[*types.Func]*ast.FuncDecl {
	out := map[*types.Func]*ast.FuncDecl{}
	for _, f := range ti.AllFiles {
		for _, d := range f.Decls {
			if fd, ok := d.(*ast.FuncDecl); ok && fd.Body != nil {
				if fn, ok := ti.Info.Defs[fd.Name].(*types.Func); ok {
					out[fn] = fd
				}
			}
		}
	}
	return out
}

// tiScope returns fd and, up to depth, the template functions it calls.
func tiScope(ti *TmplInstance, fd *ast.FuncDecl, depth int) []*ast.FuncDecl {
	decls := tiFuncDecls(ti)
	out := []*ast.FuncDecl{fd}
	seen := map[*ast.FuncDecl]bool{fd: true}
	level := []*ast.FuncDecl{fd}
	for d := 0; d < depth; d++ {
		var next []*ast.FuncDecl
		for _, cur := range level {
			ast.Inspect(cur.Body, func(n ast.Node) bool {
				if call, ok := n.(*ast.CallExpr); ok {
					if fn := calleeFunc(ti.Info, call); fn != nil {
						if h := decls[fn.Origin()]; h != nil && !seen[h] {
							seen[h] = true
							out = append(out, h)
							next = append(next, h)
						}
					}
				}
				return true
			})
		}
		level = next
	}
	return out
}

// pairAssign is one `lhs = rhs` of a straight-line statement list, with calls to straight-line
// template helpers expanded (their parameters replaced by the actual arguments). afterLa/afterSym
// tell whether _la/_lasym had already been overwritten when the right-hand side was evaluated
// (the operands of one tuple assignment are all evaluated before any of its stores).
type pairAssign struct {
	lhs, rhs          ast.Expr
	afterLa, afterSym bool
}

func straightLineAssigns(ti *TmplInstance, stmts []ast.Stmt) []pairAssign {
	info := ti.Info
	decls := tiFuncDecls(ti)
	var out []pairAssign
	wroteLa, wroteSym := false, false
	var walk func(list []ast.Stmt, subst map[types.Object]ast.Expr, depth int)
	sub := func(e ast.Expr, subst map[types.Object]ast.Expr) ast.Expr {
		if id, ok := ast.Unparen(e).(*ast.Ident); ok && subst != nil {
			if a, ok := subst[info.Uses[id]]; ok {
				return a
			}
		}
		return e
	}
	walk = func(list []ast.Stmt, subst map[types.Object]ast.Expr, depth int) {
		for _, st := range list {
			switch x := st.(type) {
			case *ast.AssignStmt:
				if len(x.Lhs) != len(x.Rhs) {
					continue
				}
				preLa, preSym := wroteLa, wroteSym
				for i := range x.Lhs {
					out = append(out, pairAssign{x.Lhs[i], sub(x.Rhs[i], subst), preLa, preSym})
					if fieldNamed(info, x.Lhs[i], "_la") {
						wroteLa = true
					}
					if fieldNamed(info, x.Lhs[i], "_lasym") {
						wroteSym = true
					}
				}
			case *ast.ExprStmt:
				call, ok := x.X.(*ast.CallExpr)
				if !ok || depth >= 2 {
					continue
				}
				fn := calleeFunc(info, call)
				if fn == nil {
					continue
				}
				h := decls[fn.Origin()]
				if h == nil {
					continue
				}
				straight := true
				for _, hs := range h.Body.List {
					switch hs.(type) {
					case *ast.AssignStmt, *ast.ExprStmt:
					default:
						straight = false
					}
				}
				if !straight {
					continue
				}
				m := map[types.Object]ast.Expr{}
				i := 0
				for _, f := range h.Type.Params.List {
					for _, nm := range f.Names {
						if i < len(call.Args) {
							m[info.Defs[nm]] = sub(call.Args[i], subst)
						}
						i++
					}
				}
				walk(h.Body.List, m, depth+1)
			}
		}
	}
	walk(stmts, nil, 0)
	return out
}
