#!/bin/bash
# runs every registered check (quick by default); prints one line per property
cd /verif
tier=${1:-quick}
fail=0
for p in $(python3 -c "import json;print(' '.join(c['property_id'] for c in json.load(open('MANIFEST.json'))['checks']))"); do
  s=$(date +%s.%N)
  out=$(bin/loxcheck -prop $p -tier $tier 2>&1); rc=$?
  e=$(date +%s.%N)
  printf "%s rc=%d %.1fs %s\n" $p $rc $(echo "$e - $s" | bc) "$(echo "$out" | head -1 | sed 's/loxcheck property=[A-Z0-9]* tier=[a-z]*: //')"
  [ $rc -ne 0 ] && { fail=1; echo "$out" | grep -E "VIOLATION|^  " | head -5; }
  echo "$out" | grep "^KNOWN-FINDING" | cut -c1-140
done
exit $fail
