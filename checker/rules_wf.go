package main

// C17 — ill-formed specifications are rejected at the right place.

import (
	"fmt"
	"go/ast"
	"go/token"
	"go/types"
	"sort"
	"strings"

	"golang.org/x/tools/go/packages"
)

func bodyLogsError(info *types.Info, n ast.Node) *ast.CallExpr {
	var out *ast.CallExpr
	ast.Inspect(n, func(m ast.Node) bool {
		if call, ok := m.(*ast.CallExpr); ok && out == nil {
			fn := calleeFunc(info, call)
			if isErrLoggerMethod(fn) && (fn.Name() == "Errorf" || fn.Name() == "GeneralError" || fn.Name() == "GeneralErrorf" || fn.Name() == "Errorpf") {
				out = call
			}
		}
		return out == nil
	})
	return out
}

// guardedError finds an error-logging call in fd that is reached only under a condition
// satisfying pred. The conditions are the path facts of the call (enclosing if/else arms, switch
// cases, earlier guards that leave the block, short-circuit operands), each offered to pred in its
// positive surface form: `c`, `!c`, the comparison with its operator flipped when the fact is a
// negated comparison, and the label alone for `switch tag { case label: }`.
func guardedError(pk *packages.Package, fd *ast.FuncDecl, pred func(cond ast.Expr) bool) *ast.CallExpr {
	for _, g := range errorGuards(pk, fd) {
		for _, cnd := range g.conds {
			if pred(ast.Unparen(cnd)) {
				return g.call
			}
		}
	}
	return nil
}

// errGuard: an error-logging call and the surface forms of the conditions under which it runs.
type errGuard struct {
	call  *ast.CallExpr
	conds []ast.Expr
}

func errorGuards(pk *packages.Package, fd *ast.FuncDecl) []errGuard {
	info := pk.TypesInfo
	par := parents(fd)
	var calls []*ast.CallExpr
	ast.Inspect(fd.Body, func(m ast.Node) bool {
		if call, ok := m.(*ast.CallExpr); ok {
			fn := calleeFunc(info, call)
			if isErrLoggerMethod(fn) && (fn.Name() == "Errorf" || fn.Name() == "GeneralError" || fn.Name() == "GeneralErrorf" || fn.Name() == "Errorpf") {
				calls = append(calls, call)
			}
		}
		return true
	})
	var out []errGuard
	for _, call := range calls {
		g := errGuard{call: call}
		// the raw (unsplit) conditions first: some predicates look at a whole conjunction
		for q, child := par[ast.Node(call)], ast.Node(call); q != nil; child, q = q, par[q] {
			if ifs, ok := q.(*ast.IfStmt); ok && child == ast.Node(ifs.Body) {
				g.conds = append(g.conds, ifs.Cond)
			}
			if cc, ok := q.(*ast.CaseClause); ok {
				g.conds = append(g.conds, cc.List...)
			}
		}
		// "for every element of X" implies "X is not empty"
		for q, child := par[ast.Node(call)], ast.Node(call); q != nil; child, q = q, par[q] {
			switch x := q.(type) {
			case *ast.FuncLit:
				if fc, ok := par[x].(*ast.CallExpr); ok {
					if sel, ok := fc.Fun.(*ast.SelectorExpr); ok && sel.Sel.Name == "ForEach" {
						g.conds = append(g.conds, &ast.UnaryExpr{Op: token.NOT, X: &ast.CallExpr{Fun: &ast.SelectorExpr{X: sel.X, Sel: ast.NewIdent("Empty")}}})
					}
				}
			case *ast.RangeStmt:
				if child == ast.Node(x.Body) {
					g.conds = append(g.conds, &ast.BinaryExpr{X: &ast.CallExpr{Fun: ast.NewIdent("len"), Args: []ast.Expr{x.X}}, Op: token.GTR, Y: &ast.BasicLit{Kind: token.INT, Value: "0"}})
				}
			}
		}
		for _, f := range pathConds(info, par, call) {
			if !f.neg {
				g.conds = append(g.conds, f.e)
			} else {
				g.conds = append(g.conds, &ast.UnaryExpr{Op: token.NOT, X: f.e})
			}
			// the call runs for any of several values (a lookup in a constant table that hit, an
			// `a == K1 || a == K2` guard): each value is one of the conditions it runs under
			if ds := disjuncts(f.e); !f.neg && len(ds) > 1 {
				for _, dj := range ds {
					if _, op, r, ok := cmpFact(dj, true); ok && op == token.EQL {
						g.conds = append(g.conds, r)
					}
				}
			}
			if l, op, r, ok := cmpFact(f.e, !f.neg); ok {
				g.conds = append(g.conds, &ast.BinaryExpr{X: l, Op: op, Y: r})
				if orig, isBE := ast.Unparen(f.e).(*ast.BinaryExpr); isBE && orig.OpPos == token.NoPos && !f.neg {
					g.conds = append(g.conds, r) // switch tag { case label: }
				}
			}
		}
		out = append(out, g)
	}
	return out
}

func isNilCmp(e ast.Expr, op token.Token) (ast.Expr, bool) {
	be, ok := e.(*ast.BinaryExpr)
	if !ok || be.Op != op {
		return nil, false
	}
	if exprString(be.Y) == "nil" {
		return be.X, true
	}
	if exprString(be.X) == "nil" {
		return be.Y, true
	}
	return nil, false
}

// commaOK classifies the boolean results of comma-ok forms in fn: the object of `ok` in
// `v, ok := m[k]` maps to "index" and in `v, ok := x.(T)` to "assert".
func commaOK(info *types.Info, fn ast.Node) map[types.Object]string {
	out := map[types.Object]string{}
	ast.Inspect(fn, func(n ast.Node) bool {
		as, ok := n.(*ast.AssignStmt)
		if !ok || len(as.Lhs) != 2 || len(as.Rhs) != 1 {
			return true
		}
		o := usesObj(info, as.Lhs[1])
		if o == nil {
			return true
		}
		switch ast.Unparen(as.Rhs[0]).(type) {
		case *ast.IndexExpr:
			out[o] = "index"
		case *ast.TypeAssertExpr:
			out[o] = "assert"
		}
		return true
	})
	return out
}

// isNotOK: the condition is the negation of a type assertion's ok result.
func isNotOK(info *types.Info, fn ast.Node, e ast.Expr) bool {
	u, ok := e.(*ast.UnaryExpr)
	if !ok || u.Op != token.NOT {
		return false
	}
	o := usesObj(info, u.X)
	return o != nil && commaOK(info, fn)[o] == "assert"
}

// actionFlags finds the boolean locals that record "an action of this kind was seen": the ones
// set to true in the case arm of the named mode.ActionType constant.
func actionFlags(info *types.Info, fn ast.Node) map[string]types.Object {
	out := map[string]types.Object{}
	ast.Inspect(fn, func(n ast.Node) bool {
		cc, ok := n.(*ast.CaseClause)
		if !ok {
			return true
		}
		for _, l := range cc.List {
			k := usesObj(info, l)
			if _, isConst := k.(*types.Const); !isConst {
				continue
			}
			for _, st := range cc.Body {
				ast.Inspect(st, func(m ast.Node) bool {
					if as, ok := m.(*ast.AssignStmt); ok && len(as.Lhs) == 1 && len(as.Rhs) == 1 && as.Tok == token.ASSIGN {
						if tv, ok := info.Types[as.Rhs[0]]; ok && tv.Value != nil && tv.Value.String() == "true" {
							if o := usesObj(info, as.Lhs[0]); o != nil {
								out[k.Name()] = o
							}
						}
					}
					return true
				})
			}
		}
		return true
	})
	return out
}

// termTypeNotSimple: some conjunct/disjunct of e is `<x>.<field>.Type != ParserTermSimple`.
func termTypeNotSimple(info *types.Info, e ast.Expr, field string) bool {
	found := false
	ast.Inspect(e, func(n ast.Node) bool {
		be, ok := n.(*ast.BinaryExpr)
		if !ok || be.Op != token.NEQ {
			return true
		}
		for _, pr := range [][2]ast.Expr{{be.X, be.Y}, {be.Y, be.X}} {
			k := usesObj(info, pr[1])
			if k == nil || k.Name() != "ParserTermSimple" || !isField(info, pr[0], "internal/ast", "ParserTerm", "Type") {
				continue
			}
			if sel, ok := ast.Unparen(pr[0]).(*ast.SelectorExpr); ok && isField(info, sel.X, "internal/ast", "ParserTerm", field) {
				found = true
			}
		}
		return true
	})
	return found
}

// resultOfCall: x is (a local holding) the result of a call to a method/function of that name.
func resultOfCall(info *types.Info, fn ast.Node, x ast.Expr, name string) bool {
	def := ast.Unparen(resolveVia(info, localDefs(info, fn), x))
	if ta, ok := def.(*ast.TypeAssertExpr); ok {
		def = ast.Unparen(resolveVia(info, localDefs(info, fn), ta.X))
	}
	call, ok := def.(*ast.CallExpr)
	if !ok {
		return false
	}
	f := calleeFunc(info, call)
	return f != nil && f.Name() == name
}

type wfSite struct {
	constraint string
	fn         string // "Type.Method" in internal/ast
	pred       func(info *types.Info, fn ast.Node, cond ast.Expr) bool
	what       string
}

func ruleWF1(c *Ctx) {
	const rule = "WF-1"
	p := c.Prog
	pk := p.Pkg("internal/ast")
	if pk == nil {
		c.unres(rule, "internal/ast", "", "package not found")
		return
	}
	info := pk.TypesInfo
	sites := []wfSite{
		{"names-unique", "Context.RegisterName", func(i *types.Info, fn ast.Node, e ast.Expr) bool {
			// the presence result of looking the name up in the name table
			if o := usesObj(i, e); o != nil && commaOK(i, fn)[o] == "index" {
				return true
			}
			_, nn := isNilCmp(e, token.NEQ)
			return nn
		}, "a name already in the single name table is reported"},
		{"undefined-reference(parser term)", "ParserTerm.preCheck", func(i *types.Info, fn ast.Node, e ast.Expr) bool {
			x, ok := isNilCmp(e, token.EQL)
			return ok && resultOfCall(i, fn, x, "Lookup")
		}, "an undefined name in a production is reported"},
		{"unknown-literal(parser term)", "ParserTerm.preCheck", func(i *types.Info, fn ast.Node, e ast.Expr) bool {
			x, ok := isNilCmp(e, token.EQL)
			return ok && resultOfCall(i, fn, x, "LookupAlias")
		}, "a literal that is no token's alias is reported"},
		{"ambiguous-literal(parser term)", "ParserTerm.preCheck", func(i *types.Info, _ ast.Node, e ast.Expr) bool {
			if o := usesObj(i, e); o != nil && o.Name() == "AmbiguousAlias" {
				return true
			}
			if be, ok := e.(*ast.BinaryExpr); ok && be.Op == token.EQL {
				for _, side := range []ast.Expr{be.X, be.Y} {
					if o := usesObj(i, side); o != nil && o.Name() == "AmbiguousAlias" {
						return true
					}
				}
			}
			return false
		}, "a literal shared by several tokens is reported"},
		{"empty-literal(parser term)", "ParserTerm.preCheck", func(i *types.Info, _ ast.Node, e ast.Expr) bool {
			be, ok := e.(*ast.BinaryExpr)
			if !ok || be.Op != token.EQL || !isField(i, be.X, "internal/ast", "ParserTerm", "Type") {
				return false
			}
			o := usesObj(i, be.Y)
			return o != nil && o.Name() == "ParserTermSimple"
		}, "an empty literal in a production is reported"},
		{"undefined-reference(macro ref)", "LexerTermRef.RunPass", func(_ *types.Info, _ ast.Node, e ast.Expr) bool { _, ok := isNilCmp(e, token.EQL); return ok }, "an undefined macro name is reported"},
		{"wrong-kind(macro ref)", "LexerTermRef.RunPass", func(i *types.Info, fn ast.Node, e ast.Expr) bool { return isNotOK(i, fn, e) }, "a reference to something that is not a macro is reported"},
		{"undefined-reference(@emit)", "ActionEmit.RunPass", func(_ *types.Info, _ ast.Node, e ast.Expr) bool { _, ok := isNilCmp(e, token.EQL); return ok }, "@emit of an undefined name is reported"},
		{"wrong-kind(@emit)", "ActionEmit.RunPass", func(i *types.Info, fn ast.Node, e ast.Expr) bool { return isNotOK(i, fn, e) }, "@emit of something that is not a token is reported"},
		{"undefined-mode(@push_mode)", "ActionPushMode.RunPass", func(_ *types.Info, _ ast.Node, e ast.Expr) bool {
			x, ok := isNilCmp(e, token.EQL)
			return ok && strings.Contains(exprString(x), "LexerModes[")
		}, "@push_mode of an undefined mode is reported"},
		{"macro-cycle", "MacroRule.NFACons", func(i *types.Info, _ ast.Node, e ast.Expr) bool {
			return isField(i, e, "internal/ast", "MacroRule", "cycleDetect")
		}, "re-entering a macro that is being expanded is reported"},
		{"start-redefined", "ParserRule.RunPass", func(i *types.Info, fn ast.Node, e ast.Expr) bool {
			x, ok := isNilCmp(e, token.NEQ)
			return ok && isField(i, resolveVia(i, localDefs(i, fn), x), "internal/ast", "Context", "StartParserRule")
		}, "a second @start is reported"},
		{"start-missing", "Spec.RunPass", func(i *types.Info, fn ast.Node, e ast.Expr) bool {
			x, ok := isNilCmp(e, token.EQL)
			return ok && isField(i, resolveVia(i, localDefs(i, fn), x), "internal/ast", "Context", "StartParserRule")
		}, "a missing @start is reported"},
		{"discard-on-token", "TokenRule.RunPass", func(i *types.Info, _ ast.Node, e ast.Expr) bool {
			o := usesObj(i, e)
			return o != nil && o.Name() == "ActionDiscard"
		}, "@discard on a token is reported"},
		{"emit-on-token", "TokenRule.RunPass", func(i *types.Info, _ ast.Node, e ast.Expr) bool {
			o := usesObj(i, e)
			return o != nil && o.Name() == "ActionAccept"
		}, "@emit on a token is reported"},
		{"two-discards-on-fragment", "FragRule.RunPass", func(i *types.Info, fn ast.Node, e ast.Expr) bool {
			o := usesObj(i, e)
			return o != nil && actionFlags(i, fn)["ActionDiscard"] == o
		}, "a second @discard on a fragment is reported"},
		{"two-emits-on-fragment", "FragRule.RunPass", func(i *types.Info, fn ast.Node, e ast.Expr) bool {
			o := usesObj(i, e)
			return o != nil && actionFlags(i, fn)["ActionAccept"] == o
		}, "a second @emit on a fragment is reported"},
		{"discard-and-emit-on-fragment", "FragRule.RunPass", func(i *types.Info, fn ast.Node, e ast.Expr) bool {
			be, ok := e.(*ast.BinaryExpr)
			if !ok || be.Op != token.LAND {
				return false
			}
			fl := actionFlags(i, fn)
			d, a := fl["ActionDiscard"], fl["ActionAccept"]
			x, y := usesObj(i, be.X), usesObj(i, be.Y)
			return d != nil && a != nil && ((x == d && y == a) || (x == a && y == d))
		}, "@discard together with @emit is reported"},
		{"empty-literal(lexer)", "LexerTermLiteral.RunPass", func(i *types.Info, _ ast.Node, e ast.Expr) bool {
			be, ok := e.(*ast.BinaryExpr)
			if !ok || be.Op != token.EQL {
				return false
			}
			v, ok := constInt(i, be.Y)
			return ok && v == 0 && strings.HasPrefix(exprString(be.X), "len(")
		}, "an empty literal in a lexer rule is reported"},
		{"class-range-order", "CharClass.RunPass", func(i *types.Info, _ ast.Node, e ast.Expr) bool {
			be, ok := e.(*ast.BinaryExpr)
			if !ok {
				return false
			}
			f, t := isField(i, be.X, "internal/ast", "CharClassItem", "From") && isField(i, be.Y, "internal/ast", "CharClassItem", "To"),
				isField(i, be.X, "internal/ast", "CharClassItem", "To") && isField(i, be.Y, "internal/ast", "CharClassItem", "From")
			return (f && be.Op == token.GTR) || (t && be.Op == token.LSS)
		}, "a class range whose lower bound is above its upper bound is reported"},
		{"list-entry-simple", "ParserTerm.postCheck", func(i *types.Info, _ ast.Node, e ast.Expr) bool {
			return termTypeNotSimple(i, e, "Child")
		}, "a non-simple @list entry is reported"},
		{"list-separator-simple", "ParserTerm.postCheck", func(i *types.Info, _ ast.Node, e ast.Expr) bool {
			return termTypeNotSimple(i, e, "Sep")
		}, "a non-simple @list separator is reported"},
	}
	for _, s := range sites {
		_, fd := p.FuncDecl("internal/ast", s.fn)
		construct := "ast." + s.fn + "/" + s.constraint
		if fd == nil {
			c.bad(rule, construct, "", "the function that enforced this constraint (%s) no longer exists", s.fn)
			continue
		}
		call := guardedError(pk, fd, func(e ast.Expr) bool { return s.pred(info, fd, e) })
		if call == nil {
			// the enforcing code may have been moved into a function this one calls
			for _, sc := range funcScope(p, pk, fd, 2) {
				if hd, isDecl := sc.node.(*ast.FuncDecl); isDecl && hd != fd && call == nil {
					call = guardedError(pk, hd, func(e ast.Expr) bool { return s.pred(info, hd, e) })
				}
			}
		}
		if call == nil {
			c.bad(rule, construct, p.Pos(fd.Pos()), "no error is logged under the condition that detects this fault: %s no longer holds", s.what)
			continue
		}
		c.ok(rule, construct, p.Pos(call.Pos()), "%s", s.what)
	}
	// wrong-kind reference in a production: type switch with an error in its default arm
	if _, fd := p.FuncDecl("internal/ast", "ParserTerm.preCheck"); fd != nil {
		ok := false
		ast.Inspect(fd.Body, func(n ast.Node) bool {
			if ts, isTS := n.(*ast.TypeSwitchStmt); isTS {
				for _, cl := range ts.Body.List {
					cc := cl.(*ast.CaseClause)
					if cc.List == nil {
						for _, st := range cc.Body {
							if bodyLogsError(info, st) != nil {
								ok = true
							}
						}
					}
				}
			}
			return true
		})
		if !ok {
			// the same decision spelled with comma-ok assertions: the error is reached only after
			// the assertions to *ParserRule and to *TokenRule both failed
			assertedType := map[types.Object]string{}
			ast.Inspect(fd.Body, func(n ast.Node) bool {
				as, isAs := n.(*ast.AssignStmt)
				if !isAs || len(as.Lhs) != 2 || len(as.Rhs) != 1 {
					return true
				}
				if ta, isTA := ast.Unparen(as.Rhs[0]).(*ast.TypeAssertExpr); isTA && ta.Type != nil {
					if o := usesObj(info, as.Lhs[1]); o != nil {
						assertedType[o] = namedTypeName(info.TypeOf(ta.Type))
					}
				}
				return true
			})
			par := parents(fd)
			ast.Inspect(fd.Body, func(n ast.Node) bool {
				call, isCall := n.(*ast.CallExpr)
				if !isCall || bodyLogsError(info, &ast.ExprStmt{X: call}) != call {
					return true
				}
				failed := map[string]bool{}
				for _, f := range pathConds(info, par, call) {
					if o := usesObj(info, f.e); o != nil && f.neg && assertedType[o] != "" {
						failed[assertedType[o]] = true
					}
				}
				if failed["ParserRule"] && failed["TokenRule"] {
					ok = true
				}
				return true
			})
		}
		c.check(ok, rule, "ast.ParserTerm.preCheck/wrong-kind(parser term)", p.Pos(fd.Pos()), "a name that is neither a rule nor a token is reported", "a production can name a macro/mode/@external without an error")
	}
	// naming rules: validateTokenName before RegisterName in the three token-like declarations;
	// RegisterName in all five declaring node types, in the CreateNames arm
	for _, tn := range []string{"TokenRule", "MacroRule", "ExternalName", "Mode", "ParserRule"} {
		_, fd := p.FuncDecl("internal/ast", tn+".RunPass")
		construct := "ast." + tn + ".RunPass/registers-name"
		if fd == nil {
			c.bad(rule, construct, "", "RunPass not found")
			continue
		}
		regs := findCalls(info, fd.Body, false, func(fn *types.Func, _ *ast.CallExpr) bool { return fn != nil && fn.Name() == "RegisterName" })
		okReg := len(regs) == 1
		if okReg {
			// the registered node is the declaration itself, under its own name
			recv := fd.Recv.List[0].Names[0].Name
			if len(regs[0].Args) != 2 || exprString(regs[0].Args[1]) != recv || exprString(regs[0].Args[0]) != recv+".Name" {
				okReg = false
			}
			// the result is not discarded: it controls what follows
			if _, discarded := parents(fd)[regs[0]].(*ast.ExprStmt); discarded {
				okReg = false
			}
		}
		c.check(okReg, rule, construct, p.Pos(fd.Pos()), "the declaration registers its own name in the single name table and stops when that fails", "the declaration does not register (exactly) its own name with RegisterName, or ignores a failure")
		if tn == "Mode" || tn == "ParserRule" {
			continue
		}
		vals := findCalls(info, fd.Body, false, func(fn *types.Func, _ *ast.CallExpr) bool { return fn != nil && fn.Name() == "validateTokenName" })
		okVal := len(vals) == 1 && len(regs) == 1 && vals[0].End() <= regs[0].Pos()
		if okVal {
			// RegisterName is only reached when validation returned no error
			okVal = false
			var errObj types.Object
			ast.Inspect(fd.Body, func(n ast.Node) bool {
				if as, isAs := n.(*ast.AssignStmt); isAs && len(as.Rhs) == 1 && as.Rhs[0] == ast.Expr(vals[0]) {
					errObj = usesObj(info, as.Lhs[0])
				}
				return true
			})
			facts := pathConds(info, parents(fd), regs[0])
			okVal = errObj != nil && holds(facts, func(e ast.Expr, pos bool) bool {
				l, op, r, ok := cmpFact(e, pos)
				return ok && op == token.EQL && ((usesObj(info, l) == errObj && exprString(r) == "nil") || (usesObj(info, r) == errObj && exprString(l) == "nil"))
			})
			// and the failure is reported
			if okVal {
				okVal = false
				for _, cb := range condBodiesOf(fd.Body) {
					if l, op, r, ok := cmpFact(cb.cond, true); ok && op == token.NEQ && (usesObj(info, l) == errObj || usesObj(info, r) == errObj) {
						for _, st := range cb.body {
							if bodyLogsError(info, st) != nil {
								okVal = true
							}
						}
					}
				}
			}
		}
		c.check(okVal, rule, "ast."+tn+".RunPass/naming-rules", p.Pos(fd.Pos()), "the name is validated (upper case, digits, single underscores, not reserved) before it is registered", "the naming rules are not enforced before the name is registered")
	}
	// validateTokenName itself
	if _, fd := p.FuncDecl("internal/ast", "validateTokenName"); fd != nil {
		src := ""
		for _, e := range allConds(fd.Body) {
			src += exprString(e) + ";"
		}
		prm := fd.Type.Params.List[0].Names[0].Name
		ok := strings.Contains(src, "MatchString("+prm+")") && strings.Contains(src, "HasSuffix("+prm+`, "_")`) && strings.Contains(src, "Contains("+prm+`, "__")`) && (strings.Contains(src, "reservedTokenNames["+prm+"]") || strings.Contains(src, "eserved"))
		c.check(ok, rule, "ast.validateTokenName/rules", p.Pos(fd.Pos()), "pattern, trailing underscore, double underscore and reserved names are all tested", "validateTokenName no longer tests all documented naming rules ("+src+")")
	}
	// alias only for single-literal tokens without a cardinality operator
	checkAliasCondition(c, rule)
	// ambiguity is recorded when a second token has the same literal
	if _, fd := p.FuncDecl("internal/ast", "Context.CreateAlias"); fd != nil {
		ok := false
		ast.Inspect(fd.Body, func(n ast.Node) bool {
			if ifs, isIf := n.(*ast.IfStmt); isIf {
				if _, isNN := isNilCmp(ast.Unparen(ifs.Cond), token.NEQ); isNN {
					ast.Inspect(ifs.Body, func(m ast.Node) bool {
						if as, isAs := m.(*ast.AssignStmt); isAs {
							if o := usesObj(info, as.Rhs[0]); o != nil && o.Name() == "AmbiguousAlias" {
								ok = true
							}
						}
						return true
					})
				}
			}
			return true
		})
		c.check(ok, rule, "ast.Context.CreateAlias/ambiguity", p.Pos(fd.Pos()), "a literal claimed by a second token is marked ambiguous", "a literal claimed by a second token silently keeps or replaces the first")
	}
	// macro cycle flag is set around the recursive expansion
	if _, fd := p.FuncDecl("internal/ast", "MacroRule.NFACons"); fd != nil {
		var set, rec, clr token.Pos
		ast.Inspect(fd.Body, func(n ast.Node) bool {
			switch x := n.(type) {
			case *ast.AssignStmt:
				if len(x.Lhs) == 1 && isField(info, x.Lhs[0], "internal/ast", "MacroRule", "cycleDetect") {
					if exprString(x.Rhs[0]) == "true" {
						set = x.Pos()
					} else if exprString(x.Rhs[0]) == "false" {
						clr = x.Pos()
					}
				}
			case *ast.CallExpr:
				if sel, ok := x.Fun.(*ast.SelectorExpr); ok && sel.Sel.Name == "NFACons" {
					rec = x.Pos()
				}
			}
			return true
		})
		c.check(set.IsValid() && rec.IsValid() && clr.IsValid() && set < rec && rec < clr, rule, "ast.MacroRule.NFACons/cycle-flag", p.Pos(fd.Pos()),
			"the in-expansion flag is set before and cleared after the recursive expansion", "the macro cycle flag is not set before and cleared after the recursive expansion")
	}
	// the reserved terminal names (EOF, ERROR) cannot name a parser rule either: its sugar helper rules
	// are named after it and would coincide with those of '@error'
	if rpk, rfd := p.FuncDecl("internal/ast", "ParserRule.RunPass"); rfd != nil {
		okRes := false
		for _, g := range errorGuards(rpk, rfd) {
			for _, cnd := range g.conds {
				ast.Inspect(cnd, func(m ast.Node) bool {
					switch x := m.(type) {
					case *ast.IndexExpr:
						if o := usesObj(rpk.TypesInfo, x.X); o != nil && strings.Contains(strings.ToLower(o.Name()), "reserved") {
							okRes = true
						}
					case *ast.CallExpr:
						if fn := calleeFunc(rpk.TypesInfo, x); fn != nil && (fn.Name() == "validateTokenName" || strings.Contains(strings.ToLower(fn.Name()), "reserved")) {
							okRes = true
						}
					case *ast.BasicLit:
						if x.Value == `"ERROR"` {
							okRes = true
						}
					}
					return true
				})
			}
		}
		c.check(okRes, rule, "ast.ParserRule.RunPass/reserved-names", p.Pos(rfd.Pos()),
			"a parser rule named like a reserved terminal (EOF, ERROR) is rejected",
			"a parser rule may be named ERROR or EOF: its helper rules (ERROR?, ERROR+, ...) coincide with those of @error, so one term silently stands for the other")
	}
	// ... and a cycle is looked for at every macro *declaration*: NFACons only runs for macros some
	// rule uses, so a cycle among unused macros would be accepted. Wanted: an error logged from the
	// declaration's own pass (MacroRule.RunPass or a helper it calls) under a condition that walks
	// the resolved references (reads LexerTermRef's macro field).
	if mpk, mfd := p.FuncDecl("internal/ast", "MacroRule.RunPass"); mfd != nil {
		minfo := mpk.TypesInfo
		readsRefs := func(fn ast.Node, depth int) bool { return false }
		var seenFn map[ast.Node]bool
		readsRefs = func(fn ast.Node, depth int) bool {
			if fn == nil || depth > 4 || seenFn[fn] {
				return false
			}
			seenFn[fn] = true
			found := false
			ast.Inspect(fn, func(m ast.Node) bool {
				if found {
					return false
				}
				switch x := m.(type) {
				case *ast.SelectorExpr:
					if fv, _ := selField(minfo, x); fv != nil && typeIs(fv.Type(), "internal/ast", "MacroRule") {
						if owner, _ := minfo.Selections[x]; owner != nil && typeIs(owner.Recv(), "internal/ast", "LexerTermRef") {
							found = true
						}
					}
				case *ast.CallExpr:
					if callee := calleeFunc(minfo, x); callee != nil && callee.Pkg() == mpk.Types {
						if hd := p.funcDecls[callee.Origin()]; hd != nil && readsRefs(hd, depth+1) {
							found = true
						}
					}
				}
				return true
			})
			return found
		}
		okDecl := false
		for _, sc := range funcScope(p, mpk, mfd, 2) {
			spar := parents(sc.node)
			ast.Inspect(sc.node, func(m ast.Node) bool {
				call, ok := m.(*ast.CallExpr)
				if !ok || !isErrLoggerMethod(calleeFunc(minfo, call)) {
					return true
				}
				for _, fct := range pathConds(minfo, spar, call) {
					seenFn = map[ast.Node]bool{}
					if readsRefs(fct.e, 0) {
						okDecl = true
					}
				}
				return true
			})
		}
		c.check(okDecl, rule, "ast.MacroRule.RunPass/cycle-checked-at-declaration", p.Pos(mfd.Pos()),
			"every macro declaration is checked for a reference cycle in its own pass (an error is logged under a condition that walks the resolved macro references)",
			"a macro cycle is only detected while a macro is expanded for a rule (NFACons): a cycle among macros no token or fragment uses is accepted ('@macro A = B  @macro B = A')")
	}
}

func checkAliasCondition(c *Ctx, rule string) {
	p := c.Prog
	pk, fd := p.FuncDecl("internal/ast", "TokenRule.RunPass")
	construct := "ast.TokenRule.RunPass/alias-condition"
	if fd == nil {
		c.unres(rule, construct, "", "function not found")
		return
	}
	info := pk.TypesInfo
	calls := findCalls(info, fd.Body, false, func(fn *types.Func, _ *ast.CallExpr) bool { return fn != nil && fn.Name() == "CreateAlias" })
	if len(calls) != 1 {
		c.bad(rule, construct, p.Pos(fd.Pos()), "CreateAlias is not called exactly once for a token rule")
		return
	}
	// gather all conditions guarding the call, following one helper call if the condition uses one
	type ownedCond struct {
		e    ast.Expr
		defs map[types.Object]ast.Expr
	}
	var conds []ownedCond
	hasAssert := false
	par := parents(fd)
	fdDefs := localDefs(info, fd)
	noteAsserts := func(n ast.Node) {
		ast.Inspect(n, func(m ast.Node) bool {
			if ta, ok := m.(*ast.TypeAssertExpr); ok && ta.Type != nil && typeIs(info.TypeOf(ta.Type), "internal/ast", "LexerTermLiteral") {
				hasAssert = true
			}
			return true
		})
	}
	var collect func(e ast.Expr, defs map[types.Object]ast.Expr, depth int)
	collect = func(e ast.Expr, defs map[types.Object]ast.Expr, depth int) {
		noteAsserts(e)
		for _, cj := range conjuncts(e) {
			for _, dj := range disjuncts(cj) {
				conds = append(conds, ownedCond{dj, defs})
			}
			if depth >= 2 {
				continue
			}
			// helper call: inline the conditions of its body
			ast.Inspect(cj, func(n ast.Node) bool {
				call, ok := n.(*ast.CallExpr)
				if !ok {
					return true
				}
				if fn := calleeFunc(info, call); fn != nil && fn.Pkg() == pk.Types {
					if hd := p.funcDecls[fn.Origin()]; hd != nil && hd.Body != nil {
						hdefs := localDefs(info, hd)
						noteAsserts(hd.Body)
						for _, hc := range allConds(hd.Body) {
							collect(hc, hdefs, depth+1)
						}
					}
				}
				return true
			})
		}
	}
	for q := par[calls[0]]; q != nil; q = par[q] {
		if ifs, ok := q.(*ast.IfStmt); ok && containsNode(ifs.Body, calls[0]) {
			collect(ifs.Cond, fdDefs, 0)
			if ifs.Init != nil {
				if as, ok := ifs.Init.(*ast.AssignStmt); ok {
					collect(as.Rhs[0], fdDefs, 0)
				}
			}
		}
	}
	// also the early-exit guards before the call (negated facts)
	for _, f := range pathConds(info, par, calls[0]) {
		collect(f.e, fdDefs, 0)
	}
	lenOfField := func(oc ownedCond, field string) bool {
		be, ok := ast.Unparen(oc.e).(*ast.BinaryExpr)
		if !ok || (be.Op != token.EQL && be.Op != token.NEQ) {
			return false
		}
		for _, pr := range [][2]ast.Expr{{be.X, be.Y}, {be.Y, be.X}} {
			v, isC := constInt(info, pr[1])
			lc, isCall := ast.Unparen(pr[0]).(*ast.CallExpr)
			if !isC || v != 1 || !isCall || builtinName(info, lc) != "len" || len(lc.Args) != 1 {
				continue
			}
			if fv, _ := selField(info, resolveVia(info, oc.defs, lc.Args[0])); fv != nil && fv.Name() == field {
				return true
			}
		}
		return false
	}
	cardOne := func(oc ownedCond) bool {
		be, ok := ast.Unparen(oc.e).(*ast.BinaryExpr)
		if !ok || (be.Op != token.EQL && be.Op != token.NEQ) {
			return false
		}
		for _, pr := range [][2]ast.Expr{{be.X, be.Y}, {be.Y, be.X}} {
			fv, _ := selField(info, resolveVia(info, oc.defs, pr[0]))
			k, _ := usesObj(info, pr[1]).(*types.Const)
			if fv != nil && fv.Name() == "Card" && k != nil && k.Name() == "One" {
				return true
			}
		}
		return false
	}
	need := map[string]bool{"one factor": false, "one term": false, "no cardinality (One)": false, "a literal": hasAssert}
	for _, oc := range conds {
		if lenOfField(oc, "Factors") {
			need["one factor"] = true
		}
		if lenOfField(oc, "Terms") {
			need["one term"] = true
		}
		if cardOne(oc) {
			need["no cardinality (One)"] = true
		}
	}
	var missing []string
	for k, v := range need {
		if !v {
			missing = append(missing, k)
		}
	}
	sort.Strings(missing)
	c.check(len(missing) == 0, rule, construct, p.Pos(calls[0].Pos()),
		"a literal becomes a token's alias only if the rule is exactly one literal without a cardinality operator",
		fmt.Sprintf("the alias condition no longer requires %v: e.g. PLUSES = '+'+ would claim the alias '+', making ADD = '+' ambiguous (a valid specification rejected) or accepting an undefined literal", missing))
}

// ---- WF-2: positions ----

func ruleWF2(c *Ctx) {
	const rule = "WF-2"
	p := c.Prog
	// types that receive bounds: results of the front end's action methods
	ppk := p.Pkg("internal/parser")
	apk := p.Pkg("internal/ast")
	if ppk == nil || apk == nil {
		c.unres(rule, "packages", "", "internal/parser or internal/ast not found")
		return
	}
	bounded := map[string]bool{}
	for _, f := range ppk.Syntax {
		if isGenFile(p, f) || isTestFile(p.Fset, f) {
			continue
		}
		for _, d := range f.Decls {
			fd, ok := d.(*ast.FuncDecl)
			if !ok || fd.Body == nil || !strings.HasPrefix(fd.Name.Name, "on_") || fd.Type.Results == nil {
				continue
			}
			if n := namedTypeName(ppk.TypesInfo.TypeOf(fd.Type.Results.List[0].Type)); n != "" {
				bounded[n] = true
			}
			ast.Inspect(fd.Body, func(n ast.Node) bool {
				if rs, ok := n.(*ast.ReturnStmt); ok && len(rs.Results) == 1 {
					if cl := compositeOf(rs.Results[0]); cl != nil {
						bounded[namedTypeName(ppk.TypesInfo.TypeOf(cl))] = true
					}
				}
				return true
			})
		}
	}
	n := 0
	for _, pk := range []*packages.Package{apk, ppk} {
		info := pk.TypesInfo
		for _, f := range pk.Syntax {
			if isGenFile(p, f) || isTestFile(p.Fset, f) {
				continue
			}
			for _, d := range f.Decls {
				fd, ok := d.(*ast.FuncDecl)
				if !ok || fd.Body == nil {
					continue
				}
				recvObj := types.Object(nil)
				if fd.Recv != nil && len(fd.Recv.List[0].Names) == 1 {
					recvObj = info.Defs[fd.Recv.List[0].Names[0]]
				}
				params := map[types.Object]bool{}
				for _, fld := range fd.Type.Params.List {
					for _, nm := range fld.Names {
						params[info.Defs[nm]] = true
					}
				}
				ast.Inspect(fd.Body, func(m ast.Node) bool {
					call, ok := m.(*ast.CallExpr)
					if !ok {
						return true
					}
					fn := calleeFunc(info, call)
					if !isErrLoggerMethod(fn) || fn.Name() != "Errorf" {
						return true
					}
					n++
					construct := fmt.Sprintf("%s/Errorf(%s)", funcKey(pk, fd), truncate(exprString(call.Args[1]), 40))
					pos := ast.Unparen(call.Args[0])
					if v, isConst := constInt(info, pos); isConst {
						// only the final "Failed to parse" may have no position
						allow := pk == ppk && fd.Name.Name == "Parse" && v == 0
						c.check(allow, rule, construct, p.Pos(call.Pos()), "the summary diagnostic after a failed parse has no position by design", "a diagnostic is logged at the constant position "+fmt.Sprint(v))
						return true
					}
					// the node the position is taken from
					var node ast.Expr
					switch x := pos.(type) {
					case *ast.CallExpr: // ctx.Position(X) / X.Bounds().Begin handled below
						if sel, ok := x.Fun.(*ast.SelectorExpr); ok && sel.Sel.Name == "Position" && len(x.Args) == 1 {
							node = x.Args[0]
						}
					case *ast.SelectorExpr: // X.bounds.Begin, X.Bounds().Begin, tok.Pos
						node = x.X
						if s2, ok := ast.Unparen(node).(*ast.SelectorExpr); ok && s2.Sel.Name == "bounds" {
							node = s2.X
						}
						if c2, ok := ast.Unparen(node).(*ast.CallExpr); ok {
							if s2, ok := c2.Fun.(*ast.SelectorExpr); ok && s2.Sel.Name == "Bounds" {
								node = s2.X
							}
						}
					}
					if node == nil {
						c.unres(rule, construct, p.Pos(call.Pos()), "cannot tell which node the position `%s` is taken from", exprString(pos))
						return true
					}
					root := usesObj(info, selRootIdent(node))
					switch {
					case root != nil && (root == recvObj || params[root]):
						// the declaration under check (receiver, or the node/token handed in)
						tn := namedTypeName(info.TypeOf(node))
						if pk == apk && tn != "" && tn != "Token" && !bounded[tn] && !isInterfaceType(info.TypeOf(node)) {
							c.bad(rule, construct, p.Pos(call.Pos()), "the position is taken from a %s, which no front-end action returns: it never receives bounds and the diagnostic has no position", tn)
						} else {
							c.ok(rule, construct, p.Pos(call.Pos()), "positioned at `%s`, the declaration under check", exprString(node))
						}
					default:
						c.bad(rule, construct, p.Pos(call.Pos()), "the error is positioned at `%s`, which is not the declaration being checked (a looked-up or unrelated node): the diagnostic names the wrong place", exprString(node))
					}
					return true
				})
			}
		}
	}
	if n < 25 {
		c.unres(rule, "Errorf-sites", "", "only %d Errorf sites found in internal/ast and internal/parser", n)
	}
	// _onBounds gives every AST artifact its bounds
	_, ob := p.FuncDecl("internal/parser", "parser._onBounds")
	okB := false
	if ob != nil {
		info := ppk.TypesInfo
		var astVar types.Object
		ast.Inspect(ob.Body, func(m ast.Node) bool {
			switch x := m.(type) {
			case *ast.AssignStmt:
				if len(x.Rhs) == 1 {
					if ta, ok := x.Rhs[0].(*ast.TypeAssertExpr); ok && typeIs(info.TypeOf(ta.Type), "internal/ast", "AST") && usesObj(info, ta.X) == paramObj(info, ob, 0) {
						astVar = usesObj(info, x.Lhs[0])
					}
				}
			case *ast.CallExpr:
				if sel, ok := x.Fun.(*ast.SelectorExpr); ok && sel.Sel.Name == "SetBounds" && usesObj(info, sel.X) == astVar && astVar != nil {
					if cl := compositeOf(x.Args[0]); cl != nil {
						b := kvOf(cl, "Begin")
						if b != nil && exprString(b) == exprString(ob.Type.Params.List[1].Names[0])+".Pos" {
							okB = true
						}
					}
				}
			}
			return true
		})
	}
	c.check(okB, rule, "parser.parser._onBounds/SetBounds", "", "every artifact implementing ast.AST receives Bounds{Begin: first token's position, ...}", "_onBounds does not set the bounds of every ast.AST artifact from the first token")
}

func isInterfaceType(t types.Type) bool {
	if t == nil {
		return false
	}
	_, ok := t.Underlying().(*types.Interface)
	return ok
}

// ---- WF-3: gating ----

func ruleWF3(c *Ctx) {
	const rule = "WF-3"
	p := c.Prog
	pk, fd := p.FuncDecl("internal/ast", "Context.Analyze")
	if fd == nil {
		c.unres(rule, "ast.Context.Analyze", "", "function not found")
	} else {
		info := pk.TypesInfo
		ok := false
		ast.Inspect(fd.Body, func(n ast.Node) bool {
			var loopBody *ast.BlockStmt
			switch x := n.(type) {
			case *ast.RangeStmt:
				loopBody = x.Body
			case *ast.ForStmt:
				loopBody = x.Body
			}
			if loopBody == nil {
				return true
			}
			iRun, iChk := -1, -1
			for i, s := range loopBody.List {
				if es, isES := s.(*ast.ExprStmt); isES && callNamed(info, es, "RunPass") != nil && iRun == -1 {
					iRun = i
				}
				if ifs, isIf := s.(*ast.IfStmt); isIf && strings.HasSuffix(exprString(ifs.Cond), ".HasError()") && endsInReturn(ifs.Body) {
					iChk = i
				}
			}
			if iRun >= 0 && iChk == iRun+1 {
				ok = true
			}
			return true
		})
		c.check(ok, rule, "ast.Context.Analyze/stop-after-failing-pass", p.Pos(fd.Pos()), "errors are tested right after every pass and stop the analysis", "a pass with errors does not stop the analysis: later passes run on an ill-formed specification")
		// pass order
		// the table Analyze walks: a package-level slice of Pass that is never written
		var order []string
		ast.Inspect(fd.Body, func(n ast.Node) bool {
			var tbl ast.Expr
			switch x := n.(type) {
			case *ast.RangeStmt:
				tbl = x.X
			case *ast.IndexExpr:
				tbl = x.X
			}
			if tbl == nil || len(order) > 0 {
				return true
			}
			if sl, ok := info.TypeOf(tbl).Underlying().(*types.Slice); ok && typeIs(sl.Elem(), "internal/ast", "Pass") {
				if cl, isCL := ast.Unparen(pkgVarInit(p, pk, usesObj(info, tbl))).(*ast.CompositeLit); isCL {
					for _, el := range cl.Elts {
						order = append(order, exprString(el))
					}
				}
			}
			return true
		})
		c.check(strings.Join(order, ",") == "CreateNames,Check,Normalize,GenerateGrammar", rule, "ast.passes/order", "", "passes run as CreateNames, Check, Normalize, GenerateGrammar", "pass order is "+strings.Join(order, ","))
	}
	pk2, pl := p.FuncDecl("internal/codegen", "context.ParseLox")
	if pl == nil {
		c.unres(rule, "codegen.context.ParseLox", "", "function not found")
		return
	}
	info2 := pk2.TypesInfo
	okFile, okAn := false, false
	ast.Inspect(pl.Body, func(n ast.Node) bool {
		switch x := n.(type) {
		case *ast.RangeStmt:
			iParse, iChk := -1, -1
			for i, s := range x.Body.List {
				if callNamed(info2, s, "Parse") != nil && iParse == -1 {
					iParse = i
				}
				if ifs, isIf := s.(*ast.IfStmt); isIf && strings.HasSuffix(exprString(ifs.Cond), ".HasError()") && endsInReturn(ifs.Body) && iParse >= 0 {
					iChk = i
				}
			}
			if iParse >= 0 && iChk == iParse+1 {
				okFile = true
			}
		case *ast.BlockStmt:
			for i, s := range x.List {
				if es, isES := s.(*ast.ExprStmt); isES && callNamed(info2, es, "Analyze") != nil && i+1 < len(x.List) {
					if ifs, isIf := x.List[i+1].(*ast.IfStmt); isIf && strings.HasSuffix(exprString(ifs.Cond), ".HasError()") && endsInReturn(ifs.Body) {
						okAn = true
					}
				}
			}
		}
		return true
	})
	c.check(okFile, rule, "codegen.context.ParseLox/stop-after-failing-file", p.Pos(pl.Pos()), "a file that fails to parse stops the run", "a file that failed to parse does not stop the run")
	c.check(okAn, rule, "codegen.context.ParseLox/stop-after-analysis", p.Pos(pl.Pos()), "errors of the analysis stop the run before tables are built", "analysis errors do not stop the run before tables are built")
}
