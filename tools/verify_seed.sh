#!/bin/bash
# usage: tools/verify_seed.sh <seed-out-dir> (contains patch.diff, demo/run.sh, meta.json)
# Confirms, in a fresh scratch worktree of /repo: demo passes clean; patch applies, builds, suite passes; demo fails patched.
export GOFLAGS=-mod=mod GOPROXY=off GOSUMDB=off GOTOOLCHAIN=local GOWORK=off
d=$(realpath $1); id=$(basename $d); wt=/tmp/vs/$id
rm -rf $wt; mkdir -p /tmp/vs; git -C /repo worktree add -q --detach $wt HEAD || exit 2
( cd $wt
  timeout 900 bash $d/demo/run.sh $wt > /tmp/vs/$id.clean.log 2>&1; dc=$?
  git status --porcelain | grep -q . && { echo "demo left files behind"; git checkout -- . ; git clean -fdq; }
  git apply $d/patch.diff; ap=$?
  go build ./... > /tmp/vs/$id.build.log 2>&1; b=$?
  go vet ./... >> /tmp/vs/$id.build.log 2>&1; v=$?
  go test -count=1 -timeout 40m ./... > /tmp/vs/$id.test.log 2>&1; t=$?
  timeout 900 bash $d/demo/run.sh $wt > /tmp/vs/$id.patched.log 2>&1; dp=$?
  echo "RESULT $id demo_clean=$dc apply=$ap build=$b vet=$v tests=$t demo_patched=$dp"
)
git -C /repo worktree remove --force $wt
