#!/usr/bin/env python3
"""Regenerates /verif/MANIFEST.json from the table below (kept in one place so it stays valid)."""
import json, os, sys

ENV = "GOFLAGS=-mod=mod GOPROXY=off GOSUMDB=off GOTOOLCHAIN=local GOWORK=off"
BASELINE = json.load(open('/root/.vp/BASELINE.json'))['cmd'] if os.path.exists('/root/.vp/BASELINE.json') else "cd /repo && go test -vet=off -count=1 ./..."

# id -> (level category, level text, level note, technique, design_ref)
CHECKS = {}
NA = {}

def check(id, cat, text, note, technique, ref):
    CHECKS[id] = dict(cat=cat, text=text, note=note, technique=technique, ref=ref)

def na(id, reason):
    NA[id] = reason

exec(open(os.path.join(os.path.dirname(__file__), 'manifest_table.py')).read())

m = {
    "version": 1,
    "setup_cmd": "cd /verif/checker && env %s go build -o /verif/bin/loxcheck ." % ENV,
    "hooks": {
        "guard": "verif",
        "enable": "none needed: the checks analyse /repo's source as it is; no instrumentation is compiled in",
        "baseline_off_cmd": BASELINE,
        "source_commits": [],
        "add_only": True,
    },
    "engines": [{
        "name": "loxcheck",
        "path": "/verif/checker",
        "serves_properties": sorted(CHECKS),
        "kind_free_text": "repository-specific static analyser (go/packages + go/types + go/cfg + go/ssa of x/tools v0.29.0): typed-AST, CFG and SSA rules over lox's generator, and over abstract instantiations of its Jet templates; nothing of /repo is executed",
    }],
    "checks": [],
    "not_applicable": [{"property_id": k, "reason": v} for k, v in sorted(NA.items())],
    "notes": "Technique family: static analysis only. Every check re-loads /repo's working tree (go/packages), so it sees any edit; a type-check failure, a missing anchor or an idiom the rule cannot classify is reported as a VIOLATION (kind=unresolved), never as a pass. Genuine defects of the pinned tree were repaired in /repo by separate 'fix:' commits or are listed in /verif/known_findings.json. See DESIGN.md.",
}
for id in sorted(CHECKS):
    c = CHECKS[id]
    m["checks"].append({
        "property_id": id,
        "quick_cmd": "bin/loxcheck -prop %s -tier quick" % id,
        "thorough_cmd": "bin/loxcheck -prop %s -tier thorough" % id,
        "evidence_file": "/verif/evidence/%s.json" % id,
        "replay_cmd_template": "bin/loxcheck -replay {path}",
        "engine": "loxcheck",
        "level_claimed": {"category": c["cat"], "text": c["text"], "design_ref": c["ref"]},
        "level_note": c["note"],
        "technique": c["technique"],
    })
json.dump(m, open('/verif/MANIFEST.json', 'w'), indent=1)
print("wrote MANIFEST.json with", len(m["checks"]), "checks,", len(m["not_applicable"]), "not applicable")
