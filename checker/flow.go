package main

// Idiom-independent helpers: path conditions (if / switch / early-return forms are equivalent),
// search scopes that follow calls into same-package helpers, and condition collection.

import (
	"go/ast"
	"go/token"
	"go/types"

	"golang.org/x/tools/go/packages"
)

// condFact: on the way to a node, expression e is known to hold (neg=false) or not to hold.
type condFact struct {
	e   ast.Expr
	neg bool
}

// stmtTerminates: the statement list always leaves the enclosing block (return, continue, break,
// goto, panic) at its end.
func stmtsTerminate(info *types.Info, list []ast.Stmt) bool {
	if len(list) == 0 {
		return false
	}
	switch x := list[len(list)-1].(type) {
	case *ast.ReturnStmt:
		return true
	case *ast.BranchStmt:
		return x.Tok == token.CONTINUE || x.Tok == token.BREAK || x.Tok == token.GOTO
	case *ast.ExprStmt:
		if call, ok := x.X.(*ast.CallExpr); ok {
			if info != nil && (isPanicCall(info, call)) {
				return true
			}
			if id, ok := call.Fun.(*ast.Ident); ok && id.Name == "panic" {
				return true
			}
		}
	case *ast.BlockStmt:
		return stmtsTerminate(info, x.List)
	case *ast.IfStmt:
		if x.Else == nil {
			return false
		}
		var elseList []ast.Stmt
		switch e := x.Else.(type) {
		case *ast.BlockStmt:
			elseList = e.List
		case *ast.IfStmt:
			elseList = []ast.Stmt{e}
		}
		return stmtsTerminate(info, x.Body.List) && stmtsTerminate(info, elseList)
	}
	return false
}

// pathConds returns what is known to hold when control reaches n inside root: conditions of the
// enclosing if/else arms and switch cases, and the negations of earlier guards of the form
// `if c { ...leave }` in the enclosing statement lists.
func pathConds(info *types.Info, par map[ast.Node]ast.Node, n ast.Node) []condFact {
	var out []condFact
	child := n
	for q := par[n]; q != nil; child, q = q, par[q] {
		switch x := q.(type) {
		case *ast.IfStmt:
			if child == ast.Node(x.Body) {
				out = append(out, condFact{x.Cond, false})
			} else if x.Else != nil && child == ast.Node(x.Else) {
				out = append(out, condFact{x.Cond, true})
			}
		case *ast.CaseClause:
			sw, _ := par[par[x]].(*ast.SwitchStmt)
			if sw == nil {
				break
			}
			if sw.Tag == nil {
				// own condition(s): a disjunction; record when single
				if len(x.List) == 1 {
					out = append(out, condFact{x.List[0], false})
				}
				// all earlier cases are false
				for _, cl := range sw.Body.List {
					cc := cl.(*ast.CaseClause)
					if cc == x {
						break
					}
					for _, e := range cc.List {
						out = append(out, condFact{e, true})
					}
				}
				if x.List == nil { // default: every case is false
					for _, cl := range sw.Body.List {
						for _, e := range cl.(*ast.CaseClause).List {
							out = append(out, condFact{e, true})
						}
					}
				}
			} else if len(x.List) == 1 {
				out = append(out, condFact{&ast.BinaryExpr{X: sw.Tag, Op: token.EQL, Y: x.List[0]}, false})
			} else if x.List == nil {
				// default of a tagged switch: the tag equals none of the labels
				for _, cl := range sw.Body.List {
					for _, e := range cl.(*ast.CaseClause).List {
						out = append(out, condFact{&ast.BinaryExpr{X: sw.Tag, Op: token.EQL, Y: e}, true})
					}
				}
			}
		case *ast.ForStmt:
			// inside the body the loop condition held when the iteration started; the conjuncts
			// whose variables the loop never assigns still hold
			if child == ast.Node(x.Body) && x.Cond != nil {
				assigned := map[types.Object]bool{}
				mark := func(n ast.Node) {
					if n == nil {
						return
					}
					ast.Inspect(n, func(m ast.Node) bool {
						switch y := m.(type) {
						case *ast.AssignStmt:
							for _, l := range y.Lhs {
								if id, ok := ast.Unparen(l).(*ast.Ident); ok {
									assigned[usesObj(info, id)] = true
								}
							}
						case *ast.IncDecStmt:
							if id, ok := ast.Unparen(y.X).(*ast.Ident); ok {
								assigned[usesObj(info, id)] = true
							}
						case *ast.UnaryExpr:
							if y.Op == token.AND {
								if id, ok := ast.Unparen(y.X).(*ast.Ident); ok {
									assigned[usesObj(info, id)] = true
								}
							}
						}
						return true
					})
				}
				mark(x.Body)
				if x.Post != nil {
					mark(x.Post)
				}
				for _, cj := range conjuncts(x.Cond) {
					stable := true
					ast.Inspect(cj, func(m ast.Node) bool {
						switch y := m.(type) {
						case *ast.Ident:
							if o := usesObj(info, y); o != nil && assigned[o] {
								stable = false
							}
						case *ast.CallExpr:
							if builtinName(info, y) != "len" {
								if tv, ok := info.Types[y.Fun]; !ok || !tv.IsType() {
									stable = false // a call may observe state the loop changes
								}
							}
						case *ast.SelectorExpr, *ast.IndexExpr:
							// fields and elements can be written through other names
							if _, isSel := m.(*ast.SelectorExpr); isSel {
								if info.Selections[m.(*ast.SelectorExpr)] != nil {
									stable = false
								}
							} else {
								stable = false
							}
						}
						return true
					})
					if stable {
						out = append(out, condFact{cj, false})
					}
				}
			}
		case *ast.BinaryExpr:
			// short-circuit evaluation: the right operand runs only if the left one allowed it
			if child == ast.Node(x.Y) {
				switch x.Op {
				case token.LOR:
					out = append(out, condFact{x.X, true})
				case token.LAND:
					out = append(out, condFact{x.X, false})
				}
			}
		case *ast.FuncLit, *ast.FuncDecl:
			// stop at the function boundary
			var list []ast.Stmt
			_ = list
		}
		// earlier siblings that leave the block when their condition holds
		var list []ast.Stmt
		switch b := q.(type) {
		case *ast.BlockStmt:
			list = b.List
		case *ast.CaseClause:
			list = b.Body
		}
		for _, s := range list {
			if s == child || s.Pos() >= child.Pos() {
				break
			}
			if ifs, ok := s.(*ast.IfStmt); ok && ifs.Else == nil && stmtsTerminate(info, ifs.Body.List) {
				out = append(out, condFact{ifs.Cond, true})
			}
			// switch whose arms leave the block: their labels cannot hold afterwards
			if sw, ok := s.(*ast.SwitchStmt); ok {
				for _, cl := range sw.Body.List {
					cc := cl.(*ast.CaseClause)
					if cc.List == nil || !stmtsTerminate(info, cc.Body) {
						continue
					}
					for _, e := range cc.List {
						if sw.Tag == nil {
							out = append(out, condFact{e, true})
						} else {
							out = append(out, condFact{&ast.BinaryExpr{X: sw.Tag, Op: token.EQL, Y: e}, true})
						}
					}
				}
			}
		}
		if _, ok := q.(*ast.FuncLit); ok {
			break
		}
		if _, ok := q.(*ast.FuncDecl); ok {
			break
		}
	}
	return splitFacts(tableFacts(info, par, n, out))
}

// factProgram is the program being analysed (set once per run); pathConds uses it to resolve
// constant lookup tables.
var factProgram *Program

// tableFacts rewrites facts about the `ok` of a comma-ok lookup in a constant table into what they
// say about the key: `v, ok := T[k]` with T = {K1: …, K2: …} makes `ok` equivalent to
// `k == K1 || k == K2`. Rules that ask "under which values of k is this reached" then see the same
// thing for a table as for a switch or an if-chain.
func tableFacts(info *types.Info, par map[ast.Node]ast.Node, n ast.Node, facts []condFact) []condFact {
	if factProgram == nil || len(facts) == 0 {
		return facts
	}
	var root ast.Node
	for q := n; q != nil; q = par[q] {
		root = q
	}
	var pk *packages.Package
	for _, cand := range factProgram.All {
		if cand.TypesInfo == info {
			pk = cand
		}
	}
	if pk == nil || root == nil {
		return facts
	}
	out := make([]condFact, 0, len(facts))
	for _, f := range facts {
		g := flattenNot(f)
		id, isId := ast.Unparen(g.e).(*ast.Ident)
		if !isId {
			out = append(out, f)
			continue
		}
		okObj := info.Uses[id]
		var repl ast.Expr
		ast.Inspect(root, func(m ast.Node) bool {
			as, isAs := m.(*ast.AssignStmt)
			if !isAs || repl != nil || len(as.Lhs) != 2 || len(as.Rhs) != 1 || okObj == nil || usesObj(info, as.Lhs[1]) != okObj {
				return true
			}
			key, entries, isTbl := constTable(factProgram, pk, as.Rhs[0])
			if !isTbl {
				return true
			}
			// ok must not be reassigned elsewhere
			for _, en := range entries {
				if en.Key == nil {
					return true
				}
			}
			var disj ast.Expr
			for _, en := range entries {
				keyIdent := tableKeyExpr(info, pk, en)
				if keyIdent == nil {
					return true
				}
				eq := &ast.BinaryExpr{X: key, Op: token.EQL, Y: keyIdent}
				if disj == nil {
					disj = eq
				} else {
					disj = &ast.BinaryExpr{X: disj, Op: token.LOR, Y: eq}
				}
			}
			repl = disj
			return true
		})
		if repl == nil {
			out = append(out, f)
			continue
		}
		out = append(out, condFact{repl, g.neg})
	}
	return out
}

// tableKeyExpr returns the key expression of a table entry as written in the table's literal (so
// that types.Info knows it).
func tableKeyExpr(info *types.Info, pk *packages.Package, en tableEntry) ast.Expr {
	var found ast.Expr
	for _, f := range pk.Syntax {
		if found != nil {
			break
		}
		ast.Inspect(f, func(m ast.Node) bool {
			if kv, ok := m.(*ast.KeyValueExpr); ok && kv.Value == en.Val {
				found = kv.Key
			}
			return found == nil
		})
	}
	return found
}

// splitFacts expands conjunctions of positive facts and disjunctions of negative facts, then
// applies unit resolution: from ¬(A && B) and A follows ¬B; from (A || B) and ¬A follows B.
func splitFacts(in []condFact) []condFact {
	var flat []condFact
	var add func(f condFact)
	add = func(f condFact) {
		f = flattenNot(f)
		if !f.neg {
			if cs := conjuncts(f.e); len(cs) > 1 {
				for _, c := range cs {
					add(condFact{c, false})
				}
				return
			}
		} else {
			if ds := disjuncts(f.e); len(ds) > 1 {
				for _, d := range ds {
					add(condFact{d, true})
				}
				return
			}
		}
		flat = append(flat, f)
	}
	for _, f := range in {
		add(f)
	}
	known := func(e ast.Expr, neg bool) bool {
		g := flattenNot(condFact{e, neg})
		for _, f := range flat {
			if f.neg == g.neg && sameExpr(f.e, g.e) {
				return true
			}
		}
		return false
	}
	for changed, rounds := true, 0; changed && rounds < 4; rounds++ {
		changed = false
		for _, f := range append([]condFact(nil), flat...) {
			var parts []ast.Expr
			if f.neg {
				parts = conjuncts(f.e) // ¬(A && B ...)
			} else {
				parts = disjuncts(f.e) // A || B ...
			}
			if len(parts) < 2 {
				continue
			}
			var rest []ast.Expr
			for _, pt := range parts {
				// a part is settled if its opposite outcome is excluded by what is known
				if f.neg && known(pt, false) {
					continue
				}
				if !f.neg && known(pt, true) {
					continue
				}
				rest = append(rest, pt)
			}
			if len(rest) == 1 && !known(rest[0], f.neg) {
				n0 := len(flat)
				add(condFact{rest[0], f.neg})
				if len(flat) > n0 {
					changed = true
				}
			}
		}
	}
	return flat
}

// expandFacts replaces facts about single-assignment boolean locals by their defining
// expressions (kept alongside the originals) and re-splits.
func expandFacts(info *types.Info, defs map[types.Object]ast.Expr, facts []condFact) []condFact {
	out := append([]condFact(nil), facts...)
	for _, f := range facts {
		if id, ok := ast.Unparen(f.e).(*ast.Ident); ok {
			if o := usesObj(info, id); o != nil {
				if def, ok := defs[o]; ok && def != nil {
					if t := info.TypeOf(def); t != nil && isBool(t) {
						out = append(out, condFact{def, f.neg})
					}
				}
			}
		}
	}
	// definitions can hide inside compound facts too: substitute idents in ¬(a && b) / (a || b)
	var subst func(e ast.Expr) ast.Expr
	subst = func(e ast.Expr) ast.Expr {
		switch x := ast.Unparen(e).(type) {
		case *ast.Ident:
			if o := usesObj(info, x); o != nil {
				if def, ok := defs[o]; ok && def != nil {
					if t := info.TypeOf(def); t != nil && isBool(t) {
						return def
					}
				}
			}
		case *ast.BinaryExpr:
			if x.Op == token.LAND || x.Op == token.LOR {
				return &ast.BinaryExpr{X: subst(x.X), Op: x.Op, OpPos: x.OpPos, Y: subst(x.Y)}
			}
		case *ast.UnaryExpr:
			if x.Op == token.NOT {
				return &ast.UnaryExpr{Op: token.NOT, OpPos: x.OpPos, X: subst(x.X)}
			}
		}
		return e
	}
	for _, f := range facts {
		switch ast.Unparen(f.e).(type) {
		case *ast.BinaryExpr, *ast.UnaryExpr:
			out = append(out, condFact{subst(f.e), f.neg})
		}
	}
	return splitFacts(out)
}

// flattenNot turns (¬(!x)) into x.
func flattenNot(f condFact) condFact {
	for {
		u, ok := ast.Unparen(f.e).(*ast.UnaryExpr)
		if !ok || u.Op != token.NOT {
			return condFact{ast.Unparen(f.e), f.neg}
		}
		f = condFact{u.X, !f.neg}
	}
}

// holds reports whether some path fact satisfies pred (pred receives the expression and whether it
// is known true (pos=true) or known false).
func holds(facts []condFact, pred func(e ast.Expr, pos bool) bool) bool {
	for _, f := range facts {
		if pred(f.e, !f.neg) {
			return true
		}
	}
	return false
}

// cmpFact normalises a comparison fact: returns (left, op, right) such that the fact says
// `left op right` holds, flipping the operator for negated facts.
func cmpFact(e ast.Expr, pos bool) (ast.Expr, token.Token, ast.Expr, bool) {
	be, ok := ast.Unparen(e).(*ast.BinaryExpr)
	if !ok {
		return nil, 0, nil, false
	}
	op := be.Op
	if !pos {
		switch op {
		case token.EQL:
			op = token.NEQ
		case token.NEQ:
			op = token.EQL
		case token.LSS:
			op = token.GEQ
		case token.GEQ:
			op = token.LSS
		case token.GTR:
			op = token.LEQ
		case token.LEQ:
			op = token.GTR
		default:
			return nil, 0, nil, false
		}
	}
	switch op {
	case token.EQL, token.NEQ, token.LSS, token.GEQ, token.GTR, token.LEQ:
		return ast.Unparen(be.X), op, ast.Unparen(be.Y), true
	}
	return nil, 0, nil, false
}

// ---- search scope: a function together with the same-package helpers it calls ----

type scopeFn struct {
	node  ast.Node // *ast.FuncDecl or *ast.FuncLit
	depth int
}

// funcScope returns fn and, transitively up to maxDepth, the declarations of same-package
// functions and methods it calls (function literals nested in a function belong to it).
func funcScope(p *Program, pk *packages.Package, fn ast.Node, maxDepth int) []scopeFn {
	info := pk.TypesInfo
	seen := map[ast.Node]bool{fn: true}
	out := []scopeFn{{fn, 0}}
	for i := 0; i < len(out); i++ {
		cur := out[i]
		if cur.depth >= maxDepth {
			continue
		}
		ast.Inspect(cur.node, func(n ast.Node) bool {
			call, ok := n.(*ast.CallExpr)
			if !ok {
				return true
			}
			f := calleeFunc(info, call)
			if f == nil || f.Pkg() != pk.Types {
				return true
			}
			fd := p.funcDecls[f.Origin()]
			if fd == nil || fd.Body == nil || seen[fd] {
				return true
			}
			seen[fd] = true
			out = append(out, scopeFn{fd, cur.depth + 1})
			return true
		})
	}
	return out
}

// inspectScope walks fn and the helpers it calls.
func inspectScope(p *Program, pk *packages.Package, fn ast.Node, maxDepth int, f func(owner ast.Node, n ast.Node) bool) {
	for _, s := range funcScope(p, pk, fn, maxDepth) {
		owner := s.node
		ast.Inspect(owner, func(n ast.Node) bool {
			if n == nil {
				return true
			}
			return f(owner, n)
		})
	}
}

// allConds collects every branching condition of a function: if conditions and the case
// expressions of tagless switches.
func allConds(n ast.Node) []ast.Expr {
	var out []ast.Expr
	ast.Inspect(n, func(m ast.Node) bool {
		switch x := m.(type) {
		case *ast.IfStmt:
			out = append(out, x.Cond)
		case *ast.SwitchStmt:
			if x.Tag == nil {
				for _, cl := range x.Body.List {
					out = append(out, cl.(*ast.CaseClause).List...)
				}
			}
		}
		return true
	})
	return out
}

// condBodies pairs each branching condition with the statements executed when it holds.
type condBody struct {
	cond ast.Expr
	body []ast.Stmt
	pos  token.Pos
}

func condBodiesOf(n ast.Node) []condBody {
	var out []condBody
	ast.Inspect(n, func(m ast.Node) bool {
		switch x := m.(type) {
		case *ast.IfStmt:
			out = append(out, condBody{x.Cond, x.Body.List, x.Pos()})
		case *ast.SwitchStmt:
			for _, cl := range x.Body.List {
				cc := cl.(*ast.CaseClause)
				for _, e := range cc.List {
					if x.Tag == nil {
						out = append(out, condBody{e, cc.Body, cc.Pos()})
					} else {
						out = append(out, condBody{&ast.BinaryExpr{X: x.Tag, Op: token.EQL, Y: e}, cc.Body, cc.Pos()})
					}
				}
			}
		}
		return true
	})
	return out
}

// localDefs maps every local variable that is assigned exactly once in n to its defining
// expression (parallel assignments are split).
func localDefs(info *types.Info, n ast.Node) map[types.Object]ast.Expr {
	count := map[types.Object]int{}
	def := map[types.Object]ast.Expr{}
	ast.Inspect(n, func(m ast.Node) bool {
		switch x := m.(type) {
		case *ast.AssignStmt:
			for i, l := range x.Lhs {
				o := usesObj(info, l)
				if o == nil {
					continue
				}
				count[o]++
				if len(x.Lhs) == len(x.Rhs) && (x.Tok == token.DEFINE || x.Tok == token.ASSIGN) {
					def[o] = x.Rhs[i]
				} else {
					count[o]++ // tuple results, op-assign: not a plain definition
				}
			}
		case *ast.IncDecStmt:
			if o := usesObj(info, x.X); o != nil {
				count[o] += 2
			}
		case *ast.RangeStmt:
			for _, e := range []ast.Expr{x.Key, x.Value} {
				if e != nil {
					if o := usesObj(info, e); o != nil {
						count[o] += 2
					}
				}
			}
		}
		return true
	})
	out := map[types.Object]ast.Expr{}
	for o, e := range def {
		if count[o] == 1 {
			out[o] = e
		}
	}
	return out
}

// resolveVia follows single-assignment locals (and conversions) to the defining expression.
func resolveVia(info *types.Info, defs map[types.Object]ast.Expr, e ast.Expr) ast.Expr {
	for depth := 0; depth < 6; depth++ {
		e = stripConv(info, e)
		id, ok := e.(*ast.Ident)
		if !ok {
			return e
		}
		d, ok := defs[info.Uses[id]]
		if !ok {
			return e
		}
		e = d
	}
	return e
}

// rowReaderOK: the function reads T through two levels of indirection - an offset taken from the
// index vector (T[y]) is itself used to index T (the length-prefixed row).
func rowReaderOK(info *types.Info, body ast.Node, tblName string) bool {
	isTbl := func(e ast.Expr) bool { return exprString(ast.Unparen(e)) == tblName }
	// variables assigned (anywhere) from a read of T
	l1 := map[types.Object]bool{}
	ast.Inspect(body, func(n ast.Node) bool {
		as, ok := n.(*ast.AssignStmt)
		if !ok || len(as.Lhs) != len(as.Rhs) {
			return true
		}
		for i, r := range as.Rhs {
			if ix, ok := stripConv(info, r).(*ast.IndexExpr); ok && isTbl(ix.X) {
				if o := usesObj(info, as.Lhs[i]); o != nil {
					l1[o] = true
				}
			}
		}
		return true
	})
	found := false
	ast.Inspect(body, func(n ast.Node) bool {
		ix, ok := n.(*ast.IndexExpr)
		if !ok || !isTbl(ix.X) {
			return true
		}
		ast.Inspect(ix.Index, func(m ast.Node) bool {
			if id, ok := m.(*ast.Ident); ok && l1[info.Uses[id]] {
				found = true
			}
			if ix2, ok := m.(*ast.IndexExpr); ok && isTbl(ix2.X) {
				found = true
			}
			return true
		})
		return true
	})
	return found
}

// linearForm normalises an integer expression built from +, -, parentheses, conversions, integer
// constants and atoms (anything else, printed) into atom -> coefficient plus a constant, following
// single-assignment locals.
func linearForm(info *types.Info, defs map[types.Object]ast.Expr, e ast.Expr) (map[string]int64, int64) {
	terms := map[string]int64{}
	var k int64
	var walk func(e ast.Expr, sign int64, depth int)
	walk = func(e ast.Expr, sign int64, depth int) {
		e = stripConv(info, e)
		if v, ok := constInt(info, e); ok {
			k += sign * v
			return
		}
		switch x := e.(type) {
		case *ast.BinaryExpr:
			if x.Op == token.ADD {
				walk(x.X, sign, depth)
				walk(x.Y, sign, depth)
				return
			}
			if x.Op == token.SUB {
				walk(x.X, sign, depth)
				walk(x.Y, -sign, depth)
				return
			}
			if x.Op == token.MUL {
				// multiplication by an integer constant distributes over the other operand
				if v, ok := constInt(info, x.Y); ok {
					walk(x.X, sign*v, depth)
					return
				}
				if v, ok := constInt(info, x.X); ok {
					walk(x.Y, sign*v, depth)
					return
				}
			}
		case *ast.UnaryExpr:
			if x.Op == token.SUB {
				walk(x.X, -sign, depth)
				return
			}
		case *ast.Ident:
			if d, ok := defs[info.Uses[x]]; ok && depth < 6 {
				walk(d, sign, depth+1)
				return
			}
		}
		terms[canonExpr(info, defs, e, 0)] += sign
	}
	walk(e, 1, 0)
	for a, c := range terms {
		if c == 0 {
			delete(terms, a)
		}
	}
	return terms, k
}

// canonExpr prints an expression without parentheses and conversions, with single-assignment
// locals replaced by their definitions.
func canonExpr(info *types.Info, defs map[types.Object]ast.Expr, e ast.Expr, depth int) string {
	e = stripConv(info, e)
	switch x := e.(type) {
	case *ast.Ident:
		if d, ok := defs[info.Uses[x]]; ok && depth < 6 {
			return canonExpr(info, defs, d, depth+1)
		}
		return x.Name
	case *ast.StarExpr:
		return "*" + canonExpr(info, defs, x.X, depth)
	case *ast.SelectorExpr:
		return canonExpr(info, defs, x.X, depth) + "." + x.Sel.Name
	case *ast.IndexExpr:
		return canonExpr(info, defs, x.X, depth) + "[" + canonExpr(info, defs, x.Index, depth) + "]"
	case *ast.CallExpr:
		s := canonExpr(info, defs, x.Fun, depth) + "("
		for i, a := range x.Args {
			if i > 0 {
				s += ","
			}
			s += canonExpr(info, defs, a, depth)
		}
		return s + ")"
	case *ast.BinaryExpr:
		return canonExpr(info, defs, x.X, depth) + x.Op.String() + canonExpr(info, defs, x.Y, depth)
	case *ast.UnaryExpr:
		return x.Op.String() + canonExpr(info, defs, x.X, depth)
	case *ast.BasicLit:
		return x.Value
	}
	return exprString(e)
}

func sameLinear(a map[string]int64, ak int64, b map[string]int64, bk int64) bool {
	if ak != bk || len(a) != len(b) {
		return false
	}
	for t, c := range a {
		if b[t] != c {
			return false
		}
	}
	return true
}

// bitClearFact looks among the facts (with boolean locals expanded to their definitions) for one
// that says `X & K == 0` for a named constant K; returns X and K.
func bitClearFact(info *types.Info, defs map[types.Object]ast.Expr, facts []condFact) (ast.Expr, *types.Const, bool) {
	for _, f := range expandFacts(info, defs, facts) {
		l, op, r, ok := cmpFact(f.e, !f.neg)
		if !ok || op != token.EQL {
			continue
		}
		for _, pr := range [][2]ast.Expr{{l, r}, {r, l}} {
			if v, isC := constInt(info, pr[1]); !isC || v != 0 {
				continue
			}
			and, isAnd := ast.Unparen(pr[0]).(*ast.BinaryExpr)
			if !isAnd || and.Op != token.AND {
				continue
			}
			if k, isK := usesObj(info, and.Y).(*types.Const); isK {
				return and.X, k, true
			}
			if k, isK := usesObj(info, and.X).(*types.Const); isK {
				return and.Y, k, true
			}
		}
	}
	return nil, nil, false
}

// ---- constant lookup tables ----
//
// "Table-driven" code replaces `switch k { case K1: … V1 …; case K2: … V2 … }` by `T[k]` with a
// package-level (or local) table `var T = map[K]V{K1: V1, K2: V2}` that is never written. constTable
// resolves such an index expression to the list of (key constant, value expression) pairs, so a
// rule that reads a mapping off switch arms can read it off the table in the same way.

type tableEntry struct {
	Key    types.Object // the constant used as key (nil if the key is a literal)
	KeyVal string       // exact constant value
	Val    ast.Expr
}

func constTable(p *Program, pk *packages.Package, e ast.Expr) (key ast.Expr, entries []tableEntry, ok bool) {
	info := pk.TypesInfo
	ix, isIx := ast.Unparen(e).(*ast.IndexExpr)
	if !isIx {
		return nil, nil, false
	}
	tv, isVar := usesObj(info, ix.X).(*types.Var)
	if !isVar || tv.Pkg() != pk.Types {
		return nil, nil, false
	}
	var lit *ast.CompositeLit
	written := false
	for _, f := range pk.Syntax {
		ast.Inspect(f, func(n ast.Node) bool {
			switch x := n.(type) {
			case *ast.ValueSpec:
				for i, nm := range x.Names {
					if info.Defs[nm] == types.Object(tv) && i < len(x.Values) {
						lit, _ = ast.Unparen(x.Values[i]).(*ast.CompositeLit)
					}
				}
			case *ast.AssignStmt:
				for i, l := range x.Lhs {
					root := l
					if lix, ok := ast.Unparen(l).(*ast.IndexExpr); ok {
						root = lix.X
					}
					if o := usesObj(info, root); o == types.Object(tv) {
						if id, isId := ast.Unparen(l).(*ast.Ident); isId && info.Defs[id] == types.Object(tv) && i < len(x.Rhs) {
							lit, _ = ast.Unparen(x.Rhs[i]).(*ast.CompositeLit) // T := map…{…}
						} else {
							written = true
						}
					}
				}
			case *ast.CallExpr:
				if b := builtinName(info, x); (b == "delete" || b == "clear") && len(x.Args) > 0 && usesObj(info, x.Args[0]) == types.Object(tv) {
					written = true
				}
			case *ast.UnaryExpr:
				if x.Op == token.AND && usesObj(info, x.X) == types.Object(tv) {
					written = true
				}
			}
			return true
		})
	}
	if lit == nil || written {
		return nil, nil, false
	}
	for _, el := range lit.Elts {
		kv, isKV := el.(*ast.KeyValueExpr)
		if !isKV {
			return nil, nil, false
		}
		ktv, has := info.Types[kv.Key]
		if !has || ktv.Value == nil {
			return nil, nil, false
		}
		entries = append(entries, tableEntry{Key: usesObj(info, kv.Key), KeyVal: ktv.Value.ExactString(), Val: kv.Value})
	}
	return ix.Index, entries, len(entries) > 0
}
