#!/usr/bin/env python3
"""Imports seeds verified by /tmp/verify_seed.sh into /verif/seeded/<id>/."""
import json, os, re, shutil, sys
res = {}
for l in open('/tmp/seed-out/verify-all.log'):
    m = re.match(r'RESULT (\S+) demo_clean=(\d+) build=(\d+) tests=(\d+) demo_patched=(\d+)', l)
    if m: res[m.group(1)] = tuple(int(x) for x in m.groups()[1:])
for sid, (dc, b, t, dp) in sorted(res.items()):
    src = '/tmp/seed-out/' + sid
    dst = '/verif/seeded/' + sid
    good = dc == 0 and b == 0 and t == 0 and dp != 0
    if not good:
        print(sid, 'REJECTED', (dc, b, t, dp)); continue
    if os.path.exists(dst): continue
    os.makedirs(dst)
    shutil.copy(src + '/patch.diff', dst)
    shutil.copytree(src + '/demo', dst + '/demo')
    meta = json.load(open(src + '/meta.json'))
    meta['verified_by_me'] = {
        'base_commit': '31b941f', 'worktree': '/tmp/wt/' + sid.split('-')[0],
        'ran': ['bash demo/run.sh <clean worktree> -> exit 0', 'git apply patch.diff; go build ./... -> ok',
                'go test -count=1 ./... -> all pass', 'bash demo/run.sh <patched worktree> -> exit %d' % dp],
    }
    json.dump(meta, open(dst + '/meta.json', 'w'), indent=1)
    print(sid, 'imported')
