#!/bin/bash
# usage: tools/run_refactor.sh <dir-with-patch.diff> [props...]
# Applies a behaviour-preserving patch to /repo, runs all (or the given) checks, reverts.
# Every check must stay silent: any output line is a false alarm to be corrected in the machinery.
set -u
d=$1; shift
props="$*"
[ -z "$props" ] && props=$(python3 -c "import json;print(' '.join(c['property_id'] for c in json.load(open('/verif/MANIFEST.json'))['checks']))")
cd /repo || exit 2
git diff --quiet || { echo "/repo dirty"; exit 2; }
git apply "$d/patch.diff" || { echo "$(basename $d): patch does not apply"; exit 2; }
for p in $props; do
  out=$(cd /verif && bin/loxcheck -prop $p -tier ${TIER:-quick} -verif /tmp/seeded-verif 2>&1); rc=$?
  if [ $rc -ne 0 ]; then
    echo "$(basename $d) $p FALSE-ALARM: $(echo "$out" | grep -B1 '^VIOLATION' | grep -v '^VIOLATION' | grep -v '^--' | head -${NLINES:-3} | cut -c1-260 | tr '\n' '|')"
  fi
done
git checkout -q -- . && git clean -fdq
echo "$(basename $d) done"
