package main

import (
	"fmt"
	"go/ast"
	"go/token"
	"go/types"
	"os"
	"path/filepath"
	"sort"
	"strings"

	"golang.org/x/tools/go/cfg"
	"golang.org/x/tools/go/packages"
	"golang.org/x/tools/go/ssa"
	"golang.org/x/tools/go/ssa/ssautil"
)

const modPath = "github.com/dcaiafa/lox"

// Program is the loaded, type-checked view of /repo's current working tree.
type Program struct {
	Root  string
	Fset  *token.FileSet
	All   []*packages.Package          // every package matched by ./...
	ByID  map[string]*packages.Package // import path => package
	Prod  []*packages.Package          // production packages (reachable from cmd/lox)
	prodS map[string]bool

	ssaProg *ssa.Program
	ssaPartial bool // only the module's own packages have been built
	ssaPkgs map[*packages.Package]*ssa.Package

	funcDecls map[*types.Func]*ast.FuncDecl
	cfgs      map[ast.Node]*cfg.CFG
}

// packages that are never production code
var nonProd = map[string]bool{
	modPath + "/internal/testutil":      true,
	modPath + "/internal/base/baseline": true,
	modPath + "/internal/tests":         true,
}

func loadProgram(root string) (*Program, error) {
	os.Unsetenv("GOWORK")
	cfgp := &packages.Config{
		Mode:  packages.LoadAllSyntax,
		Dir:   root,
		Tests: false,
		Env: append(os.Environ(),
			"GOFLAGS=-mod=mod", "GOPROXY=off", "GOSUMDB=off", "GOTOOLCHAIN=local", "GOWORK=off"),
	}
	pkgs, err := packages.Load(cfgp, "./...")
	if err != nil {
		return nil, fmt.Errorf("packages.Load: %w", err)
	}
	if len(pkgs) == 0 {
		return nil, fmt.Errorf("no packages loaded from %s", root)
	}
	p := &Program{
		Root:      root,
		ByID:      map[string]*packages.Package{},
		prodS:     map[string]bool{},
		funcDecls: map[*types.Func]*ast.FuncDecl{},
		cfgs:      map[ast.Node]*cfg.CFG{},
	}
	var errs []string
	packages.Visit(pkgs, nil, func(pk *packages.Package) {
		p.ByID[pk.PkgPath] = pk
		if strings.HasPrefix(pk.PkgPath, modPath) {
			for _, e := range pk.Errors {
				errs = append(errs, e.Error())
			}
		}
	})
	if len(errs) > 0 {
		sort.Strings(errs)
		return nil, fmt.Errorf("type-check/load errors in %s:\n  %s", root, strings.Join(errs, "\n  "))
	}
	p.All = pkgs
	p.Fset = pkgs[0].Fset
	// one loop form for the rules (see desugar.go)
	packages.Visit(pkgs, nil, func(pk *packages.Package) {
		if strings.HasPrefix(pk.PkgPath, modPath) && pk.TypesInfo != nil {
			for _, f := range pk.Syntax {
				desugarFile(pk.TypesInfo, pk.Types, f)
			}
		}
	})
	mainPkg := p.ByID[modPath+"/cmd/lox"]
	if mainPkg == nil {
		return nil, fmt.Errorf("package %s/cmd/lox not found", modPath)
	}
	var walk func(pk *packages.Package)
	walk = func(pk *packages.Package) {
		if p.prodS[pk.PkgPath] || !strings.HasPrefix(pk.PkgPath, modPath) || nonProd[pk.PkgPath] {
			return
		}
		p.prodS[pk.PkgPath] = true
		p.Prod = append(p.Prod, pk)
		for _, imp := range pk.Imports {
			walk(imp)
		}
	}
	walk(mainPkg)
	sort.Slice(p.Prod, func(i, j int) bool { return p.Prod[i].PkgPath < p.Prod[j].PkgPath })
	for _, pk := range p.Prod {
		for _, f := range pk.Syntax {
			for _, d := range f.Decls {
				if fd, ok := d.(*ast.FuncDecl); ok {
					if fn, ok := pk.TypesInfo.Defs[fd.Name].(*types.Func); ok {
						p.funcDecls[fn] = fd
					}
				}
			}
		}
	}
	// also index func decls of the non-production module packages (examples, generated instances)
	for _, pk := range p.All {
		if p.prodS[pk.PkgPath] {
			continue
		}
		for _, f := range pk.Syntax {
			for _, d := range f.Decls {
				if fd, ok := d.(*ast.FuncDecl); ok {
					if fn, ok := pk.TypesInfo.Defs[fd.Name].(*types.Func); ok {
						p.funcDecls[fn] = fd
					}
				}
			}
		}
	}
	return p, nil
}

// IsProd reports whether the package is production code.
func (p *Program) IsProd(pk *packages.Package) bool { return p.prodS[pk.PkgPath] }

func (p *Program) Pkg(rel string) *packages.Package {
	if rel == "" {
		return p.ByID[modPath]
	}
	return p.ByID[modPath+"/"+rel]
}

// SSA builds (once) the SSA form of the whole program.
func (p *Program) SSA() *ssa.Program {
	if p.ssaProg != nil {
		if p.ssaPartial {
			p.ssaProg.Build()
			p.ssaPartial = false
		}
		return p.ssaProg
	}
	prog, pkgs := ssautil.AllPackages(p.All, ssa.InstantiateGenerics)
	prog.Build()
	p.ssaProg = prog
	p.ssaPkgs = map[*packages.Package]*ssa.Package{}
	for i, pk := range p.All {
		p.ssaPkgs[pk] = pkgs[i]
	}
	return prog
}

// SSAModule creates SSA packages for everything loaded but builds function bodies only for the
// packages of the module under analysis (enough for rules that look at lox's own code; much cheaper
// than building the standard library too). A later SSA() call builds the rest.
func (p *Program) SSAModule() *ssa.Program {
	if p.ssaProg != nil {
		return p.ssaProg
	}
	prog, pkgs := ssautil.AllPackages(p.All, ssa.InstantiateGenerics)
	p.ssaProg = prog
	p.ssaPkgs = map[*packages.Package]*ssa.Package{}
	for i, pk := range p.All {
		p.ssaPkgs[pk] = pkgs[i]
		if pkgs[i] != nil && strings.HasPrefix(pk.PkgPath, modPath) {
			pkgs[i].Build()
		}
	}
	p.ssaPartial = true
	return prog
}

func (p *Program) SSAPkg(pk *packages.Package) *ssa.Package {
	if p.ssaProg == nil {
		p.SSA()
	}
	if sp := p.ssaPkgs[pk]; sp != nil {
		return sp
	}
	return p.ssaProg.Package(pk.Types)
}

// Pos renders a position relative to the repo root.
func (p *Program) Pos(pos token.Pos) string {
	if !pos.IsValid() {
		return "-"
	}
	ps := p.Fset.Position(pos)
	rel, err := filepath.Rel(p.Root, ps.Filename)
	if err != nil {
		rel = ps.Filename
	}
	return fmt.Sprintf("%s:%d", rel, ps.Line)
}

// FuncDecl finds a package-level function or method declaration.
// name is "Func" or "Type.Method".
func (p *Program) FuncDecl(pkgRel, name string) (*packages.Package, *ast.FuncDecl) {
	pk := p.Pkg(pkgRel)
	if pk == nil {
		return nil, nil
	}
	recv, meth := "", name
	if i := strings.Index(name, "."); i >= 0 {
		recv, meth = name[:i], name[i+1:]
	}
	for _, f := range pk.Syntax {
		if isTestFile(p.Fset, f) {
			continue
		}
		for _, d := range f.Decls {
			fd, ok := d.(*ast.FuncDecl)
			if !ok || fd.Name.Name != meth {
				continue
			}
			if recv == "" && fd.Recv == nil {
				return pk, fd
			}
			if recv != "" && fd.Recv != nil && recvTypeName(fd) == recv {
				return pk, fd
			}
		}
	}
	return pk, nil
}

func isTestFile(fset *token.FileSet, f *ast.File) bool {
	return strings.HasSuffix(fset.Position(f.Pos()).Filename, "_test.go")
}

func recvTypeName(fd *ast.FuncDecl) string {
	if fd.Recv == nil || len(fd.Recv.List) == 0 {
		return ""
	}
	t := fd.Recv.List[0].Type
	for {
		switch x := t.(type) {
		case *ast.StarExpr:
			t = x.X
		case *ast.IndexExpr:
			t = x.X
		case *ast.IndexListExpr:
			t = x.X
		case *ast.ParenExpr:
			t = x.X
		case *ast.Ident:
			return x.Name
		default:
			return ""
		}
	}
}

// CFG returns the control-flow graph of a function body (FuncDecl or FuncLit).
func (p *Program) CFG(pk *packages.Package, fn ast.Node) *cfg.CFG {
	if g, ok := p.cfgs[fn]; ok {
		return g
	}
	var body *ast.BlockStmt
	switch f := fn.(type) {
	case *ast.FuncDecl:
		body = f.Body
	case *ast.FuncLit:
		body = f.Body
	}
	if body == nil {
		return nil
	}
	g := cfg.New(body, func(call *ast.CallExpr) bool { return mayReturn(pk.TypesInfo, call) })
	p.cfgs[fn] = g
	return g
}

// mayReturn reports false for calls that never return (panic, os.Exit, assert.Unreachable, log.Fatal*).
func mayReturn(info *types.Info, call *ast.CallExpr) bool {
	if id, ok := call.Fun.(*ast.Ident); ok {
		if b, ok := info.Uses[id].(*types.Builtin); ok && b.Name() == "panic" {
			return false
		}
	}
	if fn := calleeFunc(info, call); fn != nil && fn.Pkg() != nil {
		full := fn.Pkg().Path() + "." + fn.Name()
		switch full {
		case "os.Exit", "log.Fatal", "log.Fatalf", "log.Fatalln", "log.Panic", "log.Panicf",
			modPath + "/internal/base/assert.Unreachable":
			return false
		}
	}
	return true
}

// ProdFiles iterates production (non-test) files of production packages.
func (p *Program) ProdFiles(fn func(pk *packages.Package, f *ast.File)) {
	for _, pk := range p.Prod {
		for _, f := range pk.Syntax {
			if isTestFile(p.Fset, f) {
				continue
			}
			fn(pk, f)
		}
	}
}

// funcName gives "pkgname.Recv.Name" for a declaration, for construct keys.
func funcKey(pk *packages.Package, fd *ast.FuncDecl) string {
	if r := recvTypeName(fd); r != "" {
		return pk.Name + "." + r + "." + fd.Name.Name
	}
	return pk.Name + "." + fd.Name.Name
}
