#!/usr/bin/env python3
"""usage: import_seed2.py <seed-out-dir> <result-line-file>  - imports a seed verified by tools/verify_seed.sh into /verif/seeded/<id>/"""
import json, os, re, shutil, subprocess, sys
src, resf = sys.argv[1].rstrip('/'), sys.argv[2]
sid = os.path.basename(src)
m = re.search(r'RESULT (\S+) demo_clean=(\d+) apply=(\d+) build=(\d+) vet=(\d+) tests=(\d+) demo_patched=(\d+)', open(resf).read())
if not m: sys.exit('no RESULT line')
dc, ap, b, v, t, dp = (int(x) for x in m.groups()[1:])
if not (dc == 0 and ap == 0 and b == 0 and t == 0 and dp != 0):
    sys.exit('%s REJECTED %s' % (sid, m.group(0)))
dst = '/verif/seeded/' + sid
if os.path.exists(dst): shutil.rmtree(dst)
os.makedirs(dst)
shutil.copy(src + '/patch.diff', dst)
shutil.copytree(src + '/demo', dst + '/demo')
meta = json.load(open(src + '/meta.json'))
meta['round'] = 4
meta['property'] = sid[:3]
head = subprocess.check_output(['git', '-C', '/repo', 'rev-parse', '--short', 'HEAD']).decode().strip()
meta['verified_by_me'] = {'base_commit': head, 'worktree': '/tmp/vs/' + sid + ' (removed)', 'ran': [
    'bash demo/run.sh <clean worktree> -> exit 0', 'git apply patch.diff; go build ./... -> ok; go vet ./... -> exit %d' % v,
    'go test -count=1 ./... -> all pass', 'bash demo/run.sh <patched worktree> -> exit %d' % dp]}
json.dump(meta, open(dst + '/meta.json', 'w'), indent=1)
print(sid, 'imported')
