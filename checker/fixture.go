package main

import (
	"go/ast"
	"go/importer"
	"go/parser"
	"go/token"
	"go/types"
	"os"
	"path/filepath"
	"strings"
)

// runFixture loads every Go file of /verif/fixtures/<dir> as its own package and applies the rule's
// matcher: files named bad_* must be flagged (the rule is armed), files named ok_* must stay silent
// (equivalent idioms are accepted).
func runFixture(c *Ctx, rule, dir string, match func(fset *token.FileSet, info *types.Info, files []*ast.File) []string) {
	frule := rule + "-FIXTURE"
	d := filepath.Join(c.Verif, "fixtures", dir)
	ents, err := os.ReadDir(d)
	if err != nil {
		c.unres(frule, "fixtures/"+dir, "", "cannot read fixture directory: %v", err)
		return
	}
	n := 0
	for _, e := range ents {
		if !strings.HasSuffix(e.Name(), ".go") {
			continue
		}
		n++
		fset := token.NewFileSet()
		f, err := parser.ParseFile(fset, filepath.Join(d, e.Name()), nil, parser.SkipObjectResolution)
		if err != nil {
			c.unres(frule, e.Name(), "", "fixture does not parse: %v", err)
			continue
		}
		info := &types.Info{Types: map[ast.Expr]types.TypeAndValue{}, Defs: map[*ast.Ident]types.Object{}, Uses: map[*ast.Ident]types.Object{},
			Selections: map[*ast.SelectorExpr]*types.Selection{}, Implicits: map[ast.Node]types.Object{}, Instances: map[*ast.Ident]types.Instance{}}
		conf := types.Config{Importer: importer.Default()}
		if _, err := conf.Check("fixture", fset, []*ast.File{f}, info); err != nil {
			c.unres(frule, e.Name(), "", "fixture does not type-check: %v", err)
			continue
		}
		found := match(fset, info, []*ast.File{f})
		wantClean := strings.HasPrefix(e.Name(), "ok_")
		switch {
		case wantClean && len(found) == 0:
			c.ok(frule, e.Name(), "", "negative fixture (accepted idiom) stays silent")
		case wantClean:
			c.bad(frule, e.Name(), "", "negative fixture was flagged (%s): the rule rejects an idiom it must accept", found[0])
		case len(found) > 0:
			c.ok(frule, e.Name(), "", "positive fixture flagged as required: %s", truncate(found[0], 160))
		default:
			c.bad(frule, e.Name(), "", "positive fixture was NOT flagged: the rule is disarmed")
		}
	}
	if n == 0 {
		c.unres(frule, "fixtures/"+dir, "", "no fixture files")
	}
}
