package main

func ruleACT1(c *Ctx) {}
func ruleACT3(c *Ctx) {}
