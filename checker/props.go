package main

func init() {
	register(&PropSpec{
		ID:    "C13",
		Level: "proof",
		Explanation: "Order, time, environment and history can reach the generated files and the --report text only through a finite list of language/library constructs. " +
			"Every such construct in the production packages (ranges over built-in maps, maps.*/reflect map iteration, time/rand/env/address sources, goroutines, file writes, the stage order that decides whether stale files are read) is enumerated from the type-checked source and each instance is shown harmless by one of the idioms listed in DESIGN.md 3/C13. " +
			"This is a proof of a sufficient static condition under the trusted base, not an observation of runs.",
		Trusted: []string{
			"Jet, go/format, go/types, go/packages and filepath.Glob are deterministic functions of their inputs",
			"the comparators of the sort calls listed in the DET-1 obligations are injective on the sorted elements (names are unique by Context.RegisterName, indices by construction)",
			"container/heap pops a deduplicated set in an order that depends only on the set (total order rang3.Compare)",
			"go/types, go/cfg of golang.org/x/tools v0.29.0; the checker's own Jet-subset parser",
		},
		Assumptions: []string{"diagnostics written through ErrLogger are outside the property's output set (the property names *.gen.go and --report)"},
		Run: func(c *Ctx) {
			ruleDET1(c)
			ruleDET2(c)
			ruleDET3(c)
			ruleDET4(c)
		},
	})

	register(&PropSpec{
		ID:    "C18",
		Level: "proof",
		Explanation: "All mutable state lives in the instances: proved as an effects property of the template code. The three templates are instantiated abstractly (both emit_bounds variants, every _act branch), compiled to SSA, and a may-alias taint analysis shows that nothing derived from a package-level variable is ever written through, appended to, copied into, cleared, sent on or handed to code outside the templates; package-level variables are initialised by constant literals only. " +
			"Thorough tier repeats the analysis on the four checked-in generated packages. With no shared mutable location, any interleaving of instances equals some sequential run.",
		Trusted: []string{
			"go/ssa of golang.org/x/tools v0.29.0 (SSA construction, generic instantiation)",
			"the checker's abstract instantiation of the Jet templates (DESIGN.md 2.3) covers every template branch: one model production per helper-rule kind and arity",
			"user action methods, the user's _Lexer and the simplelexer driver are outside lox's generated code and outside this claim",
			"Go memory model: goroutines that share no written location do not race",
		},
		Assumptions: []string{"the taint abstraction is type/field keyed and flow-insensitive: it may over-approximate aliasing (reported as a violation), never under-approximate writes through derived references"},
		Run: func(c *Ctx) {
			ruleCONF12(c)
			ruleCONF3(c)
			ruleCONFFixture(c, c.Verif)
		},
		Thorough: func(c *Ctx) { ruleCONF4(c) },
	})
}
