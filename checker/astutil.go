package main

import (
	"go/ast"
	"go/constant"
	"go/token"
	"go/types"
	"strings"

	"golang.org/x/tools/go/cfg"
	"golang.org/x/tools/go/types/typeutil"
)

// calleeFunc resolves the static callee of a call (function, method, method value); nil for
// dynamic calls through function values and for builtins/conversions.
func calleeFunc(info *types.Info, call *ast.CallExpr) *types.Func {
	if fn, ok := typeutil.Callee(info, call).(*types.Func); ok {
		return fn
	}
	return nil
}

func builtinName(info *types.Info, call *ast.CallExpr) string {
	fun := call.Fun
	for {
		if p, ok := fun.(*ast.ParenExpr); ok {
			fun = p.X
			continue
		}
		break
	}
	if id, ok := fun.(*ast.Ident); ok {
		if b, ok := info.Uses[id].(*types.Builtin); ok {
			return b.Name()
		}
	}
	return ""
}

// fullName returns "pkgpath.Name" or "pkgpath.Recv.Name" (origin of generics).
func fullName(fn *types.Func) string {
	if fn == nil {
		return ""
	}
	fn = fn.Origin()
	pkg := ""
	if fn.Pkg() != nil {
		pkg = fn.Pkg().Path()
	}
	sig, _ := fn.Type().(*types.Signature)
	if sig != nil && sig.Recv() != nil {
		return pkg + "." + namedTypeName(sig.Recv().Type()) + "." + fn.Name()
	}
	return pkg + "." + fn.Name()
}

// shortName is fullName with the module prefix and directories dropped: "lr1.ItemSet.Add".
func shortName(fn *types.Func) string {
	if fn == nil {
		return ""
	}
	fn = fn.Origin()
	pkg := ""
	if fn.Pkg() != nil {
		pkg = fn.Pkg().Name()
	}
	sig, _ := fn.Type().(*types.Signature)
	if sig != nil && sig.Recv() != nil {
		return pkg + "." + namedTypeName(sig.Recv().Type()) + "." + fn.Name()
	}
	return pkg + "." + fn.Name()
}

func namedTypeName(t types.Type) string {
	for {
		switch x := t.(type) {
		case *types.Pointer:
			t = x.Elem()
			continue
		case *types.Named:
			return x.Obj().Name()
		case *types.Alias:
			return x.Obj().Name()
		case *types.TypeParam:
			return x.Obj().Name()
		}
		return ""
	}
}

func deref(t types.Type) types.Type {
	if p, ok := t.Underlying().(*types.Pointer); ok {
		return p.Elem()
	}
	return t
}

// typeIs reports whether t (after dereferencing one pointer) is the named type pkgSuffix.Name,
// where pkgSuffix is matched against the end of the package path.
func typeIs(t types.Type, pkgSuffix, name string) bool {
	if t == nil {
		return false
	}
	t = types.Unalias(t)
	if p, ok := t.(*types.Pointer); ok {
		t = types.Unalias(p.Elem())
	}
	n, ok := t.(*types.Named)
	if !ok {
		return false
	}
	if n.Obj().Name() != name {
		return false
	}
	if n.Obj().Pkg() == nil {
		return pkgSuffix == ""
	}
	return strings.HasSuffix(n.Obj().Pkg().Path(), pkgSuffix)
}

// selField: if e is a field selector x.f, returns the field object and x.
func selField(info *types.Info, e ast.Expr) (*types.Var, ast.Expr) {
	e = ast.Unparen(e)
	sel, ok := e.(*ast.SelectorExpr)
	if !ok {
		return nil, nil
	}
	if s, ok := info.Selections[sel]; ok && s.Kind() == types.FieldVal {
		if v, ok := s.Obj().(*types.Var); ok {
			return v, sel.X
		}
	}
	return nil, nil
}

// isField reports whether e selects field `field` of named type `typ` (package suffix pkg).
func isField(info *types.Info, e ast.Expr, pkg, typ, field string) bool {
	v, x := selField(info, e)
	if v == nil || v.Name() != field {
		return false
	}
	// the field must be declared in struct typ: check receiver expression type (through embedding is
	// accepted if the selection's receiver type is typ)
	sel := ast.Unparen(e).(*ast.SelectorExpr)
	s := info.Selections[sel]
	if typeIs(s.Recv(), pkg, typ) {
		return true
	}
	_ = x
	return false
}

func constInt(info *types.Info, e ast.Expr) (int64, bool) {
	tv, ok := info.Types[e]
	if !ok || tv.Value == nil {
		return 0, false
	}
	if tv.Value.Kind() != constant.Int {
		return 0, false
	}
	return constant.Int64Val(tv.Value)
}

func constString(info *types.Info, e ast.Expr) (string, bool) {
	tv, ok := info.Types[e]
	if !ok || tv.Value == nil || tv.Value.Kind() != constant.String {
		return "", false
	}
	return constant.StringVal(tv.Value), true
}

// usesObj: the object an identifier (or the Sel of a selector) refers to.
func usesObj(info *types.Info, e ast.Expr) types.Object {
	switch x := ast.Unparen(e).(type) {
	case *ast.Ident:
		if o := info.Uses[x]; o != nil {
			return o
		}
		return info.Defs[x]
	case *ast.SelectorExpr:
		return info.Uses[x.Sel]
	}
	return nil
}

// inspectNoLit walks n but does not descend into function literals (other than n itself).
func inspectNoLit(n ast.Node, f func(ast.Node) bool) {
	ast.Inspect(n, func(m ast.Node) bool {
		if m == nil {
			return true
		}
		if _, ok := m.(*ast.FuncLit); ok && m != n {
			return false
		}
		return f(m)
	})
}

// parents builds a child -> parent map for the subtree.
func parents(root ast.Node) map[ast.Node]ast.Node {
	m := map[ast.Node]ast.Node{}
	var stack []ast.Node
	ast.Inspect(root, func(n ast.Node) bool {
		if n == nil {
			stack = stack[:len(stack)-1]
			return true
		}
		if len(stack) > 0 {
			m[n] = stack[len(stack)-1]
		}
		stack = append(stack, n)
		return true
	})
	return m
}

func exprString(e ast.Expr) string { return types.ExprString(e) }

// sameExpr compares two expressions structurally by their printed form.
func sameExpr(a, b ast.Expr) bool { return exprString(ast.Unparen(a)) == exprString(ast.Unparen(b)) }

// ---- CFG helpers ----

type cfgPos struct {
	b *cfg.Block
	i int // index into b.Nodes; len(b.Nodes) means "end of block"
}

// cfgLocate finds the CFG node (block, index) whose subtree contains n.
func cfgLocate(g *cfg.CFG, n ast.Node) (cfgPos, bool) {
	for _, b := range g.Blocks {
		if !b.Live {
			continue
		}
		for i, bn := range b.Nodes {
			if bn.Pos() <= n.Pos() && n.End() <= bn.End() {
				// make sure n is not inside a nested FuncLit of bn
				inLit := false
				ast.Inspect(bn, func(m ast.Node) bool {
					if fl, ok := m.(*ast.FuncLit); ok && fl != n {
						if fl.Pos() <= n.Pos() && n.End() <= fl.End() {
							inLit = true
						}
						return false
					}
					return true
				})
				if !inLit {
					return cfgPos{b, i}, true
				}
			}
		}
	}
	return cfgPos{}, false
}

// cfgForward explores forward from the positions *after* each start node. It does not continue
// past a node for which stop returns true (the stop node itself is reported via visit). visit is
// called once for every CFG node reached. Returns whether the function exit was reached (a block
// without successors, i.e. a return/fallthrough-off-the-end) without being stopped.
func cfgForward(g *cfg.CFG, starts []cfgPos, includeStart bool, stop func(ast.Node) bool, visit func(ast.Node)) (reachedExit bool) {
	type key struct {
		b *cfg.Block
		i int
	}
	seen := map[key]bool{}
	var work []cfgPos
	for _, s := range starts {
		if includeStart {
			work = append(work, s)
		} else {
			work = append(work, cfgPos{s.b, s.i + 1})
		}
	}
	for len(work) > 0 {
		p := work[len(work)-1]
		work = work[:len(work)-1]
		k := key{p.b, p.i}
		if seen[k] {
			continue
		}
		seen[k] = true
		stopped := false
		i := p.i
		for ; i < len(p.b.Nodes); i++ {
			if i > p.i {
				if seen[key{p.b, i}] {
					stopped = true
					break
				}
				seen[key{p.b, i}] = true
			}
			n := p.b.Nodes[i]
			if visit != nil {
				visit(n)
			}
			if stop != nil && stop(n) {
				stopped = true
				break
			}
		}
		if stopped {
			continue
		}
		if len(p.b.Succs) == 0 {
			if isExitBlock(p.b) {
				reachedExit = true
			}
			continue
		}
		for _, s := range p.b.Succs {
			work = append(work, cfgPos{s, 0})
		}
	}
	return reachedExit
}

// isExitBlock: a live block with no successors that does not end in a no-return call.
func isExitBlock(b *cfg.Block) bool {
	if len(b.Succs) != 0 || !b.Live {
		return false
	}
	if len(b.Nodes) == 0 {
		return true
	}
	last := b.Nodes[len(b.Nodes)-1]
	if es, ok := last.(*ast.ExprStmt); ok {
		if call, ok := es.X.(*ast.CallExpr); ok {
			if id, ok := call.Fun.(*ast.Ident); ok && id.Name == "panic" {
				return false
			}
		}
	}
	return true
}

// cfgEntry is the position before the first node of the function.
func cfgEntry(g *cfg.CFG) cfgPos { return cfgPos{g.Blocks[0], 0} }

// mustPassBefore reports whether every path from entry to target passes a node satisfying pred
// (i.e. the pred-nodes collectively dominate target).
func mustPassBefore(g *cfg.CFG, target ast.Node, pred func(ast.Node) bool) bool {
	tp, ok := cfgLocate(g, target)
	if !ok {
		return false
	}
	reached := false
	cfgForward(g, []cfgPos{cfgEntry(g)}, true, func(n ast.Node) bool {
		if n == tp.b.Nodes[tp.i] {
			reached = true
			return true
		}
		return pred(n)
	}, nil)
	return !reached
}

// containsNode reports whether outer's subtree contains inner (by position).
func containsNode(outer, inner ast.Node) bool {
	return outer.Pos() <= inner.Pos() && inner.End() <= outer.End()
}

// findCalls returns the call expressions in n (not descending into FuncLits unless lits is true)
// whose static callee satisfies match.
func findCalls(info *types.Info, n ast.Node, lits bool, match func(fn *types.Func, call *ast.CallExpr) bool) []*ast.CallExpr {
	var out []*ast.CallExpr
	walker := func(m ast.Node) bool {
		if call, ok := m.(*ast.CallExpr); ok {
			if match(calleeFunc(info, call), call) {
				out = append(out, call)
			}
		}
		return true
	}
	if lits {
		ast.Inspect(n, func(m ast.Node) bool {
			if m == nil {
				return true
			}
			return walker(m)
		})
	} else {
		inspectNoLit(n, walker)
	}
	return out
}

func posLess(a, b token.Pos) bool { return a < b }

// funcLitOf returns the function a binding expression denotes as a function literal: the literal
// itself, or - for a method value / function name of the module - a literal made of the
// declaration's type and body (same nodes, so positions and type information are the original).
func funcLitOf(p *Program, info *types.Info, e ast.Expr) *ast.FuncLit {
	e = ast.Unparen(e)
	if fl, ok := e.(*ast.FuncLit); ok {
		return fl
	}
	var obj types.Object
	switch x := e.(type) {
	case *ast.Ident:
		obj = info.Uses[x]
	case *ast.SelectorExpr:
		obj = info.Uses[x.Sel]
	}
	if fn, ok := obj.(*types.Func); ok {
		if fd := p.funcDecls[fn.Origin()]; fd != nil && fd.Body != nil {
			return &ast.FuncLit{Type: fd.Type, Body: fd.Body}
		}
	}
	return nil
}
