package fixture

// positive fixture for CONF-2: a package-level memo map.
var _memo = map[int32]int32{}

func find(x int32) int32 {
	if v, ok := _memo[x]; ok {
		return v
	}
	_memo[x] = x * 2
	return x * 2
}
