package fixture

// positive fixture for CONF-2: a package-level scratch buffer reused by every instance.
var _table = []int32{1, 2, 3}

var _scratch []int32

type machine struct{ n int }

func (m *machine) Find(x int32) int32 {
	_scratch = _scratch[:0]
	for _, v := range _table {
		if v >= x {
			_scratch = append(_scratch, v)
		}
	}
	m.n = len(_scratch)
	if m.n == 0 {
		return 0
	}
	return _scratch[0]
}
