check("C13", "proof",
      "Proof of a sufficient static condition: every construct through which map order, time, environment, addresses, goroutines or stale files could reach the generated files or the --report text is enumerated in the production packages and each instance is discharged by an order-independence idiom (collect-then-sort, set-consumer, commutative body), a confinement argument, or a must-precede check on the generation stages. Right level because determinism is a fact about the shape of the code on every path, not about sampled runs.",
      "Trusted: Jet, go/format, go/types, go/packages, filepath.Glob deterministic; sort comparators listed in evidence are injective on the sorted elements; diagnostics (ErrLogger) are outside the output set; x/tools go/types+go/cfg and the checker's Jet-subset parser.",
      "enumerate-and-discharge dataflow/CFG rules over typed AST (go/packages, go/cfg): map-range idiom classification, who-may-call deny list, stage must-precede, file-write ownership",
      "DESIGN.md 3/C13")

check("C18", "proof",
      "Proof of instance confinement: the three templates are abstractly instantiated (both emit_bounds variants, one model production per helper-rule kind and arity), compiled to SSA, and a may-alias taint analysis proves that nothing derived from a package-level variable is written through, appended to, copied into, cleared, sent on, or handed to code outside the templates; package-level variables have constant initialisers, no init/go/sync/unsafe. Thorough repeats it on the four checked-in generated packages. No shared mutable location implies race freedom for every interleaving, which no test can enumerate.",
      "Trusted: go/ssa (x/tools v0.29.0), the checker's Jet-subset instantiation, Go memory model. Outside the claim: user actions, the user's _Lexer, simplelexer. The taint abstraction is type/field keyed and flow-insensitive (may over-approximate aliasing, reported as violation).",
      "SSA may-alias taint (effects) analysis over abstractly instantiated templates and generated instances; compile-time constant-initialiser check; positive/negative fixtures on every run",
      "DESIGN.md 3/C18")

check("C19", "other",
      "Decides the structural chain that makes one numbering reach all three generated files: constants and _TokenToString generated from one range over Grammar.Terminals with value = range key; Terminal.Index = position, list never reordered; EOF/ERROR created first and equal to the reference driver's constants; accept actions carry Terminal.Index through the lexer table into Token(); parser rows keyed by Terminal.Index and looked up by the id ReadToken returned; terminals created only by token/@external declarations after a successful name registration. Each link is a necessary condition; breaking one breaks the numbering for every specification that exercises it.",
      "Not decided: the numbers emitted for a concrete specification; density/declaration order across several .lox files (filepath.Glob order). simplelexer v0.5.0 from the module cache is taken as the reference driver.",
      "writer/reader agreement rules over typed AST of the generator and of the abstractly instantiated templates; who-may-write (field ownership) checks",
      "DESIGN.md 3/C19")
check("C10", "other",
      "Decides that encoder (internal/codegen) and decoder (template runtime code) agree on the table format and that row compression is structurally lossless: header words, transition triple order and strides, action pair stride, codes equal on both sides and to the reference driver's result codes, ranges sorted by the comparator the binary search assumes, non-greedy flag bit, dedup key covering every element with a self-delimiting encoding, index rebase by exactly the index-vector length, one row prologue for all readers, parser action/goto value encoding, index = position for productions, rules and states.",
      "Not decided: equivalence of the emitted DFA with the mode's rules (subset construction, partition refinement, range merging are behavioural), disjointness of emitted ranges, the concrete numbers. The comparison is between two pieces of source text of the same tree, so it holds for every table ever emitted.",
      "sibling cross-check (writer vs reader) by symbolic pattern extraction over typed AST: strides, offsets, codes, constants compared between Go encoder and template decoder",
      "DESIGN.md 3/C10")

check("C01", "other",
      "Decides the structural ways in which a worklist LALR(1) construction loses lookaheads (hence reduce actions, hence sentences): recursion guards that truncate FIRST, change-reporting mutators skipped by short-circuit evaluation or discarded inside fixed-point loops, states not re-queued when a merge adds lookaheads, stale memoised item lists, merge key = LR(0) kernel, closure/goto skeleton, one action per item; plus the parser table encoding and the reduce sequence / sugar shapes of the generated runtime. Each rule is a necessary condition whose violation loses or invents sentences for the grammars that exercise it.",
      "Not decided: that the pieces compute the LALR(1) automaton of every grammar, i.e. parse(w) <=> w in L(G) itself (behavioural, needs running parsers against a reference). Precedence is excluded by the property.",
      "custom typed-AST/CFG lints for worklist and fixed-point code (discarded change reports, short-circuited mutators, re-queue guards, cache coherence) + pattern rules on Closure/Goto/createActions + writer/reader agreement on the parser tables",
      "DESIGN.md 3/C01")
check("C04", "other",
      "A missing lookahead hides a conflict and a spurious one invents it, so the LALR rules of C01 apply; in addition: every candidate action is kept per cell, a cell with more than one action sets HasConflicts unless the precedence rule settled it and the flag is only ever set (never overwritten), precedence is confined to shift/reduce pairs of one rule with explicit levels on both sides, and generation aborts with a diagnostic before any emit stage.",
      "Not decided: the iff over all grammars and isomorphism with a reference LALR(1) automaton.",
      "typed-AST/CFG lints on the conflict pipeline: who-may-delete, flag monotonicity, guard extraction and dominance, must-precede on the generation stages; plus the LALR lints of C01",
      "DESIGN.md 3/C04")
check("C05", "other",
      "The precedence decision of resolveConflicts is abstracted to a table (condition => removed action) and compared with the documented one; the qualifier's transport from grammar text (token spelling, decimal level) to lr1.Prod is checked arm by arm; shift actions remember their productions; the guards confining precedence are present. One row of the table deviates on the pinned tree (equal level, @right) and is a recorded known finding.",
      "Not decided: the grouping of concrete operator chains. Known finding PREC-1 equal-level-arm (cannot be repaired without editing a golden file).",
      "decision-table extraction from the typed AST of resolveConflicts compared with the documented table; enum-to-enum switch checks; grammar-source token spelling lookup",
      "DESIGN.md 3/C05")
check("C08", "other",
      "Decides the three mechanisms that carry the non-greedy mark from grammar to runtime: the loop exit is marked for exactly the cardinalities the front end produces for '*?' and '+?' (with a repo-wide contradiction lint: comparing a switch tag with a constant outside the enclosing case list), NonGreedy is accumulated wherever Accept is, the flag bit agrees between writer and reader and the runtime consumes input only when it is clear; plus the Thompson shapes of the repetition operators (LEX-1).",
      "Not decided: that marking the loop exit yields the first occurrence of the terminator for every body/terminator pair; interaction of the mark with state merging.",
      "contradiction lint (constantly-false comparison inside a case arm), sibling-field accumulation rule, writer/reader flag agreement, graph-shape abstraction of NFACons",
      "DESIGN.md 3/C08")

check("C02", "other",
      "Decides the construction shapes and the two selection mechanisms, each a necessary condition of longest-match / earliest-rule lexing: Thompson shape of every NFACons as a labelled graph compared with the textbook shape, pickAction selects the minimum source position over all candidates, the runtime acts only when the transition search is exhausted (with the bisection steps checked), universe constants for '.' and negation, the Build/NFAToDFA pipeline skeleton (all sources, eps-closure, canonical signature), optimize keeps accepting states of different rules apart; plus the lexer table format agreement (FMT-1..3).",
      "Not decided: correctness of subset construction, partition refinement, range splitting/merging (rang3, normalizeInputs, mergeTransitions compute on run-time values), behaviour on invalid UTF-8 (driver).",
      "graph-shape abstraction of AddTransition calls per operator (guards evaluated per constant), running-minimum idiom recognition, CFG must-precede on the pipeline, writer/reader agreement",
      "DESIGN.md 3/C02")
check("C07", "other",
      "Decides the mechanisms behind mode switching and action lists: the reader's push/pop arms obey a stack discipline on the instance's mode stack; no action list can hold an interpretation-ending action before a falling-through one (classes derived from which reader arms return; element types of every append tracked through switch arms, diversions and local buffers); Mode.Index = position in the sorted name list with no gaps, default mode first, push parameter = Index of the named mode, _lexerModes positional in Index order; implicit last actions; action codes agree.",
      "Not decided: nesting behaviour on concrete inputs; Reset() leaves the mode stack untouched (outside the property's wording).",
      "abstract interpretation of action-list construction (possible action types per append site, program order incl. loops) against reader arm classes; stack-discipline pattern rules on the template instance; index=position rules",
      "DESIGN.md 3/C07")
check("C11", "other",
      "Decides the consumption accounting the runtime relies on: EOF only for the end-of-input rune, after the pending actions, and only when an explicit per-instance flag says nothing was consumed since the last token boundary; every consume sets the flag; every token-ending arm and Reset clear it and return to state 0; actions are unreachable while nothing was consumed (an empty match is never a token); result codes agree with the driver.",
      "Not decided (cannot be, statically): that repeated ReadToken terminates on every input, and conservation of every character. Known limitation: text accumulated by action-less fragments is dropped without error when the input ends inside them (the driver is external).",
      "typestate-style rule on the template instance: flag set on every consume exit, cleared on every boundary exit and in Reset, read by the EOF test; guard recognition for the action loop",
      "DESIGN.md 3/C11")

check("C03", "other",
      "Decided on the abstractly instantiated parser template (one model production per helper-rule kind and arity): the reduce sequence act -> pop(_termCounts[prod]) -> goto(_rules[prod]) from the uncovered state -> push(result) with the data flow between the steps and the action call unconditional; argument j of a user action reads stack slot Peek(n-1-j) for arities 0, 1, 3; the sugar shapes agree across the three siblings normalize() / RuleGenerated (its predicate chain is evaluated on the generated names) / template branches, and getReduceTypeForGeneratedRule reads the production normalize() puts there; every stack value is asserted to the type it was pushed with.",
      "Not decided: uniqueness of the derivation and left-to-right order on concrete inputs (they follow from LR parsing given correct tables: C01/C04), values delivered for concrete sentences.",
      "abstract execution of the Jet template on a synthetic model grammar, then typed-AST pattern/data-flow rules on the resulting Go; sibling cross-check of three implementations of the sugar table",
      "DESIGN.md 3/C03")
check("C06", "other",
      "Decides the binding mechanism's structural conditions: the only go/types predicate deciding a parameter match is AssignableTo(type of term i, type of parameter i) after an arity test, over all candidate methods; each of the seven failure conditions of the statement is tested (return types by types.Identical) and reported with Errorf positioned at the method/production concerned, success only without logged errors; every _cast of a stack slot uses the type that slot was pushed with, never the parameter type; stage order; go_type spells types as given with the qualifier empty exactly for the own package; every import alias is written.",
      "Not decided: that the output compiles for every Go type shape (unexported/internal types of other packages, type parameters, vendoring), and run-time values.",
      "typed-AST rules on assign_actions.go (predicate identity, argument provenance, guard/diagnostic pairing) + provenance-tagged type placeholders in the abstract template instance (term/rule/param) to decide which type every _cast uses",
      "DESIGN.md 3/C06")
check("C09", "other",
      "Decided on the parser template instances (both variants): lookahead typestate (every store to the lookahead symbol is a Token or an Error; unchecked assertions are reached only with the asserted dynamic type, checked per call site of _makeError); parse returns true only through the accept branch; _recover succeeds only after queuing the real lookahead and installing (ERROR, Error), fails only at EOF; the Error is built from the offending lookahead before any token is skipped and carries the current row's terminals; the recovery loops save/restore the stack around each attempt, pop one state per search step, skip lexer errors and consume a token per retry; ERROR is terminal #1.",
      "Not decided: termination of reduce sequences and of the reduce-on-ERROR simulation (table dependent), correctness of that simulation (it follows _goto from the un-popped state and ignores a failed lookup), progress across successive recoveries, and 'first token at which the input stops being a viable prefix'. DESIGN.md section 5 lists three concrete failing inputs of the pinned tree in exactly this undecided part.",
      "typestate rule over stores/assertions of the lookahead fields; CFG/AST shape rules on parse and _recover (single success exit, installed-error-before-return, save/restore/consume ordering)",
      "DESIGN.md 3/C09")
check("C16", "other",
      "Decided on the template instance with the feature switch on: the switch is bound to 'the parser type has a method named _onBounds' and the called name is the same constant; in the reduce arm the children's bounds are taken before the pop, empty children trimmed at both ends, Begin/End from the first/last survivor, Empty iff none survives, _onBounds(res, Begin, End) called exactly once after the action under !Empty, the pushed item carries the bounds; a shifted symbol's bounds are the token of the symbol being shifted; the feature-switched blocks (tracked as rendered regions) only write what they declare, call only len/PeekSlice/_onBounds, contain no control transfer, and nothing outside reads their variables.",
      "Not decided: the spans reported on concrete inputs.",
      "region-tracked abstract template instantiation (which Go text came from {{if emit_bounds}}), effect check of those regions, pattern rules on the bounds computation",
      "DESIGN.md 3/C16")

check("C12", "other",
      "Decides six families of crash / silent failure that are visible in code shape, each exact: panics of front-end actions whose condition depends on grammar text (bounded-conversion exception verified from the callers' slice widths); results of functions with an explicit `return nil` dereferenced before a nil check on some CFG path; the front end's 'validated by the lexer' beliefs checked against the grammar source and the checked-in lexer tables (token-type switches with panicking defaults cover every token the productions can deliver; after a backslash the table admits only the letters unescape handles, each followed by exactly the digits it reads, and never ends the token at the backslash); closed enum / type switches with panicking defaults; loader and scope results used only under a dominating check; exit discipline (non-zero exit iff error, success only after all three emitters wrote, every failing return preceded by a diagnostic); the binding verdicts whose omission ends in an assert.",
      "Not decided: hangs, stack/heap exhaustion, panics inside Jet / go/format / go/packages, index arithmetic in rang3 and on_char_class, i.e. absence of ALL panics for all byte strings.",
      "CFG nil-check-before-deref analysis over call sites of nil-returning functions; exhaustiveness of panicking switches against produced constants / grammar productions; simulation of decoded lexer tables (constants in source) against unescape's case labels; must-precede diagnostics rule",
      "DESIGN.md 3/C12")

check("C17", "other",
      "Every constraint listed in the statement has an enforcing site that is found semantically: an error logged under the condition that detects the fault, in the function responsible (uniqueness through the single name table from all five declaring node types, naming rules before registration, undefined / wrong-kind references, unknown / ambiguous / empty literals on both the lexer and the parser side, the alias condition, macro cycles, exactly one @start, @discard/@emit placement, class range order, @list parameter shape); every Errorf of internal/ast and internal/parser is positioned at the declaration under check, of a type that receives bounds from the front end; analysis stops after a failing pass / file.",
      "Not decided: that well-formed specifications are never rejected (only the alias condition and the reserved names are checked from that side), and exact line:column values.",
      "constraint table -> guarded-diagnostic search over typed AST (condition predicate + ErrLogger call in the responsible function); provenance rule for diagnostic positions (receiver/parameter/token, never a looked-up node)",
      "DESIGN.md 3/C17")

check("C14", "other",
      "Decides whether each checked-in generated file is an instance of the CURRENT templates and whether the three files of each directory agree with each other and with the grammar next to them: each of the 12 files is matched (whitespace-insensitively, every literal segment of code and comments in order, holes constrained by category, the feature switch decided by the package's own parser type) against a matcher derived from the template text; the constant tables are decoded and every index, the _act case set, the token constants (dense, EOF=0, ERROR=1, one per grammar token), mode count, sorted disjoint ranges and the row order the current writer uses are checked; every grammar directory holds the three files and type-checks.",
      "Not decided: byte-for-byte regeneration itself, i.e. that the NUMBERS in the tables are those the current automaton construction would produce. A change to LALR/DFA construction or table-building code that is not followed by regeneration is invisible to this check (seeded change C14-B shows it).",
      "matcher (RE2 regular expression) compiled from the parsed Jet template and applied to the checked-in sources; decoding of table constants from the AST; grammar-source cross-checks",
      "DESIGN.md 3/C14")

for pid in ["C15"]:
    na(pid, "check under construction in this session; see DESIGN.md section 3 for the planned rules")
