package main

// C02 — lexer construction shapes and selection mechanisms.

import (
	"fmt"
	"go/ast"
	"go/constant"
	"go/token"
	"go/types"
	"sort"
	"strings"

	"golang.org/x/tools/go/packages"
)

// ---- LEX-1: Thompson shapes ----

type nfaEdge struct {
	from, to string
	eps      bool
	guard    ast.Expr // innermost enclosing if-condition chain inside the arm (nil = unconditional)
	negated  bool
	node     *ast.CallExpr
}

// classifyComposite names the NFAComposite variable v: "outer" (built here), "child" (result of a
// nested NFACons call), with "*" appended when it is defined inside a loop.
func classifyComposite(info *types.Info, fn ast.Node, v types.Object) string {
	kind := ""
	par := parents(fn)
	ast.Inspect(fn, func(n ast.Node) bool {
		as, ok := n.(*ast.AssignStmt)
		if !ok {
			if vs, ok := n.(*ast.ValueSpec); ok {
				for _, nm := range vs.Names {
					if info.Defs[nm] == v && len(vs.Values) == 0 {
						kind = "outer"
					}
				}
			}
			return true
		}
		for i, l := range as.Lhs {
			id, ok := l.(*ast.Ident)
			if !ok || (info.Defs[id] != v && info.Uses[id] != v) || i >= len(as.Rhs) {
				continue
			}
			rhs := ast.Unparen(as.Rhs[i])
			inLoop := false
			for q := par[as]; q != nil; q = par[q] {
				switch q.(type) {
				case *ast.RangeStmt, *ast.ForStmt:
					inLoop = true
				}
			}
			switch x := rhs.(type) {
			case *ast.UnaryExpr:
				if _, ok := x.X.(*ast.CompositeLit); ok {
					kind = "outer"
				}
			case *ast.CompositeLit:
				kind = "outer"
			case *ast.CallExpr:
				if builtinName(info, x) == "new" {
					kind = "outer"
				} else if sel, ok := x.Fun.(*ast.SelectorExpr); ok && sel.Sel.Name == "NFACons" {
					kind = "child"
				} else if f := calleeFunc(info, x); f != nil && f.Name() != "NFACons" && typeIs(info.TypeOf(x), "lexergen/mode", "NFAComposite") {
					// a same-package constructor helper returning a fresh composite
					kind = "outer"
				}
			}
			if inLoop && kind != "" {
				kind += "*"
			}
		}
		return true
	})
	return kind
}

func nfaNodeName(info *types.Info, fn ast.Node, e ast.Expr) string {
	fv, base := selField(info, e)
	if fv == nil || (fv.Name() != "B" && fv.Name() != "E") {
		return "?" + exprString(e)
	}
	root := ast.Unparen(base)
	if ix, ok := root.(*ast.IndexExpr); ok {
		t, k := linearForm(info, nil, ix.Index)
		return "elem[" + linearString(t, k) + "]." + fv.Name()
	}
	if id, ok := root.(*ast.Ident); ok {
		// value variable of `for i, v := range X[k:]` stands for X[i+k]
		var name string
		ast.Inspect(fn, func(n ast.Node) bool {
			rs, ok := n.(*ast.RangeStmt)
			if !ok || rs.Value == nil || usesObj(info, rs.Value) != info.Uses[id] || rs.Key == nil {
				return true
			}
			if sl, ok := ast.Unparen(rs.X).(*ast.SliceExpr); ok && sl.High == nil && sl.Low != nil {
				if k, ok := constInt(info, sl.Low); ok {
					t, c := linearForm(info, nil, rs.Key)
					name = "elem[" + linearString(t, c+k) + "]." + fv.Name()
				}
			}
			return true
		})
		if name != "" {
			return name
		}
	}
	o := usesObj(info, root)
	if o == nil {
		return "?" + exprString(e)
	}
	k := classifyComposite(info, fn, o)
	if k == "" {
		k = "?" + o.Name()
	}
	return k + "." + fv.Name()
}

func collectEdges(info *types.Info, fn ast.Node, root ast.Node) []nfaEdge {
	var out []nfaEdge
	inspectNoLit(root, func(n ast.Node) bool {
		call, ok := n.(*ast.CallExpr)
		if !ok || len(call.Args) != 2 {
			return true
		}
		f := calleeFunc(info, call)
		if f == nil || f.Name() != "AddTransition" || !strings.HasSuffix(fullName(f), "nfa.State.AddTransition") {
			return true
		}
		sel := call.Fun.(*ast.SelectorExpr)
		e := nfaEdge{from: nfaNodeName(info, fn, sel.X), to: nfaNodeName(info, fn, call.Args[0]), node: call}
		if o := usesObj(info, call.Args[1]); o != nil && o.Name() == "Epsilon" && o.Pkg() != nil && strings.HasSuffix(o.Pkg().Path(), "lexergen/nfa") {
			e.eps = true
		}
		out = append(out, e)
		return true
	})
	return out
}

func edgeSet(es []nfaEdge) string {
	var ss []string
	for _, e := range es {
		l := "range"
		if e.eps {
			l = "eps"
		}
		ss = append(ss, e.from+"->"+e.to+":"+l)
	}
	sort.Strings(ss)
	return strings.Join(dedupe(ss), " ")
}

// evalTagCond evaluates a boolean condition over `tag == K` / `tag != K` atoms with tag = val.
func evalTagCond(info *types.Info, cond ast.Expr, tag string, val *types.Const) (bool, bool) {
	cond = ast.Unparen(cond)
	switch x := cond.(type) {
	case *ast.BinaryExpr:
		switch x.Op {
		case token.LAND, token.LOR:
			a, ok1 := evalTagCond(info, x.X, tag, val)
			b, ok2 := evalTagCond(info, x.Y, tag, val)
			if !ok1 || !ok2 {
				return false, false
			}
			if x.Op == token.LAND {
				return a && b, true
			}
			return a || b, true
		case token.EQL, token.NEQ:
			var other ast.Expr
			if exprString(ast.Unparen(x.X)) == tag {
				other = x.Y
			} else if exprString(ast.Unparen(x.Y)) == tag {
				other = x.X
			} else {
				return false, false
			}
			k, ok := usesObj(info, other).(*types.Const)
			if !ok {
				return false, false
			}
			eq := constant.Compare(k.Val(), token.EQL, val.Val())
			if x.Op == token.NEQ {
				return !eq, true
			}
			return eq, true
		}
	case *ast.UnaryExpr:
		if x.Op == token.NOT {
			v, ok := evalTagCond(info, x.X, tag, val)
			return !v, ok
		}
	}
	return false, false
}

var cardShapes = map[string]string{
	"?":  "child.E->outer.E:eps outer.B->child.B:eps outer.B->outer.E:eps",
	"*":  "child.E->child.B:eps child.E->outer.E:eps outer.B->child.B:eps outer.B->outer.E:eps",
	"*?": "child.E->child.B:eps child.E->outer.E:eps outer.B->child.B:eps outer.B->outer.E:eps",
	"+":  "child.E->child.B:eps child.E->outer.E:eps outer.B->child.B:eps",
	"+?": "child.E->child.B:eps child.E->outer.E:eps outer.B->child.B:eps",
}

func ruleLEX1(c *Ctx) {
	const rule = "LEX-1"
	p := c.Prog
	pk := p.Pkg("internal/ast")
	ppk := p.Pkg("internal/parser")
	if pk == nil || ppk == nil {
		c.unres(rule, "internal/ast", "", "package not found")
		return
	}
	info := pk.TypesInfo
	// spelling => Card constant, through parser.on_lexer_card
	spell := tokenSpellings(ppk)
	cardOf := map[string]*types.Const{}
	if _, fd := p.FuncDecl("internal/parser", "parser.on_lexer_card"); fd != nil {
		ast.Inspect(fd.Body, func(n ast.Node) bool {
			cc, ok := n.(*ast.CaseClause)
			if !ok || len(cc.List) != 1 || len(cc.Body) != 1 {
				return true
			}
			if rs, ok := cc.Body[0].(*ast.ReturnStmt); ok && len(rs.Results) == 1 {
				if k, ok := usesObj(ppk.TypesInfo, rs.Results[0]).(*types.Const); ok {
					cardOf[spell[usesObj(ppk.TypesInfo, cc.List[0])]] = k
				}
			}
			return true
		})
	}
	if _, cfd := p.FuncDecl("internal/parser", "parser.on_lexer_card"); cfd != nil && len(cardOf) < 5 {
		cardsFromTable(p, ppk, cfd, spell, cardOf)
	}
	_, fd := p.FuncDecl("internal/ast", "LexerTermCard.NFACons")
	if fd == nil || len(cardOf) < 5 {
		c.unres(rule, "ast.LexerTermCard.NFACons", "", "NFACons or the cardinality mapping of on_lexer_card (%d of 5 operators) not found", len(cardOf))
	} else {
		var sw *ast.SwitchStmt
		ast.Inspect(fd.Body, func(n ast.Node) bool {
			if s, ok := n.(*ast.SwitchStmt); ok && sw == nil && s.Tag != nil && isField(info, s.Tag, "internal/ast", "LexerTermCard", "Card") {
				sw = s
			}
			return true
		})
		if sw == nil {
			c.unres(rule, "ast.LexerTermCard.NFACons/switch", p.Pos(fd.Pos()), "no switch over Card")
		} else {
			tag := exprString(sw.Tag)
			par := parents(fd)
			for sp, want := range cardShapes {
				k := cardOf[sp]
				construct := fmt.Sprintf("ast.LexerTermCard.NFACons/shape('%s')", sp)
				if k == nil {
					c.unres(rule, construct, "", "no Card constant for operator '%s'", sp)
					continue
				}
				var arm *ast.CaseClause
				for _, cl := range sw.Body.List {
					cc := cl.(*ast.CaseClause)
					for _, l := range cc.List {
						if usesObj(info, l) == types.Object(k) {
							arm = cc
						}
					}
				}
				if arm == nil {
					c.bad(rule, construct, p.Pos(sw.Pos()), "no arm builds the automaton for %s", k.Name())
					continue
				}
				var live []nfaEdge
				undecided := ""
				for _, e := range collectEdges(info, fd, arm) {
					include := true
					for q := par[e.node]; q != nil && q != ast.Node(arm); q = par[q] {
						ifs, ok := q.(*ast.IfStmt)
						if !ok {
							continue
						}
						v, ok := evalTagCond(info, ifs.Cond, tag, k)
						if !ok {
							undecided = exprString(ifs.Cond)
							continue
						}
						inBody := containsNode(ifs.Body, e.node)
						if (inBody && !v) || (!inBody && v) {
							include = false
						}
					}
					if include {
						live = append(live, e)
					}
				}
				if undecided != "" {
					c.unres(rule, construct, p.Pos(arm.Pos()), "an edge is added under condition `%s`, which the rule cannot evaluate", undecided)
					continue
				}
				got := edgeSet(live)
				c.check(got == want, rule, construct, p.Pos(arm.Pos()), "Thompson shape for '"+sp+"': "+got,
					fmt.Sprintf("automaton built for '%s' (%s) has edges {%s}; the textbook shape is {%s}", sp, k.Name(), got, want))
			}
			// the plain cardinality passes the child through
			if one := findConstByValue(pk, "Card", 0); one != nil {
				okOne := false
				for _, cl := range sw.Body.List {
					cc := cl.(*ast.CaseClause)
					for _, l := range cc.List {
						if usesObj(info, l) == types.Object(one) && len(cc.Body) == 1 && len(cc.List) == 1 {
							if rs, ok := cc.Body[0].(*ast.ReturnStmt); ok && strings.HasSuffix(exprString(rs.Results[0]), ".NFACons(ctx)") {
								okOne = true
							}
						}
					}
				}
				c.check(okOne, rule, "ast.LexerTermCard.NFACons/shape(one)", p.Pos(sw.Pos()), "no operator: the term's automaton is used as is", "the arm for a term without operator does not return the term's own automaton")
			}
		}
	}
	// alternation
	if _, fd := p.FuncDecl("internal/ast", "LexerExpr.NFACons"); fd != nil {
		got := edgeSet(collectEdges(info, fd, fd.Body))
		want := "child*.E->outer.E:eps outer.B->child*.B:eps"
		c.check(got == want, rule, "ast.LexerExpr.NFACons/alternation", p.Pos(fd.Pos()), "alternation: for every factor f {B->f.B, f.E->E} (eps)", "alternation has edges {"+got+"}; expected {"+want+"}")
	} else {
		c.unres(rule, "ast.LexerExpr.NFACons", "", "function not found")
	}
	// concatenation
	if _, fd := p.FuncDecl("internal/ast", "LexerFactor.NFACons"); fd != nil {
		es := collectEdges(info, fd, fd.Body)
		// one eps edge X[a].E -> X[a+1].B inside a loop whose index covers 0 .. len(X)-2
		okCat := false
		if len(es) == 1 && es[0].eps && strings.HasPrefix(es[0].from, "elem[") && strings.HasPrefix(es[0].to, "elem[") && strings.HasSuffix(es[0].from, "].E") && strings.HasSuffix(es[0].to, "].B") {
			var fa, ta int64
			var fv, tv string
			if _, err := fmt.Sscanf(strings.TrimSuffix(strings.TrimPrefix(es[0].from, "elem["), "].E"), "%s %d", &fv, &fa); err == nil {
				if _, err := fmt.Sscanf(strings.TrimSuffix(strings.TrimPrefix(es[0].to, "elem["), "].B"), "%s %d", &tv, &ta); err == nil {
					okCat = fv == tv && ta == fa+1
				}
			}
			// loop coverage: the index variable's range must make `from` run over 0..len-2
			if okCat {
				okCat = false
				par := parents(fd)
				for q := par[es[0].node]; q != nil; q = par[q] {
					switch lp := q.(type) {
					case *ast.ForStmt:
						// i from (−fa) while i+fa < len-1  <=>  i < len - 1 - fa
						if as, ok := lp.Init.(*ast.AssignStmt); ok && len(as.Rhs) == 1 {
							start, _ := constInt(info, as.Rhs[0])
							if be, ok := lp.Cond.(*ast.BinaryExpr); ok && be.Op == token.LSS {
								t, k := linearForm(info, nil, be.Y)
								lenTerm := ""
								for a, cf := range t {
									if cf == 1 && strings.HasPrefix(a, "len(") {
										lenTerm = a
									}
								}
								if lenTerm != "" && len(t) == 1 && start+fa == 0 && k == -1-fa {
									okCat = true
								}
							}
						}
					case *ast.RangeStmt:
						// for i := range X[1:]  (i = 0..len-2) with from = X[i]
						if sl, ok := ast.Unparen(lp.X).(*ast.SliceExpr); ok && sl.High == nil && sl.Low != nil {
							if k, ok := constInt(info, sl.Low); ok && k == 1 && fa == 0 {
								okCat = true
							}
						}
					}
				}
			}
		}
		okRet := false
		ast.Inspect(fd.Body, func(n ast.Node) bool {
			if rs, ok := n.(*ast.ReturnStmt); ok && len(rs.Results) == 1 {
				if cl := compositeOf(rs.Results[0]); cl != nil {
					b, e := kvOf(cl, "B"), kvOf(cl, "E")
					if b != nil && e != nil {
						bn, en := nfaNodeName(info, fd, b), nfaNodeName(info, fd, e)
						if bn == "elem[ 0].B" && strings.HasPrefix(en, "elem[len(") && strings.HasSuffix(en, ") -1].E") {
							okRet = true
						}
					}
				}
			}
			return true
		})
		if !(okCat && okRet) && chainByPrevious(info, fd) {
			okCat, okRet = true, true
		}
		c.check(okCat && okRet, rule, "ast.LexerFactor.NFACons/concatenation", p.Pos(fd.Pos()), "concatenation: T[i].E -> T[i+1].B (eps) for all i, result (T[0].B, T[n].E)",
			fmt.Sprintf("concatenation is not the chain T[i].E->T[i+1].B over all i with result (T[0].B, T[n].E) (edges {%s}, chain over all i: %v, result: %v)", edgeSet(es), okCat, okRet))
	} else {
		c.unres(rule, "ast.LexerFactor.NFACons", "", "function not found")
	}
	// literal
	if _, fd := p.FuncDecl("internal/ast", "LexerTermLiteral.NFACons"); fd != nil {
		okLit := false
		ast.Inspect(fd.Body, func(n ast.Node) bool {
			var body []ast.Stmt
			var runeVar types.Object
			switch x := n.(type) {
			case *ast.ForStmt:
				body = x.Body.List
			case *ast.RangeStmt:
				// ranging over a string yields its runes, decoded as DecodeRuneInString does
				if t := info.TypeOf(x.X); t != nil && isString(t) && x.Value != nil {
					body = x.Body.List
					runeVar = usesObj(info, x.Value)
				}
			}
			if body == nil {
				return true
			}
			var edge *ast.CallExpr
			var cur ast.Expr // the state the edge leaves from
			advance := false
			for _, s := range body {
				switch x := s.(type) {
				case *ast.AssignStmt:
					if call, ok := x.Rhs[0].(*ast.CallExpr); ok && fullName(calleeFunc(info, call)) == "unicode/utf8.DecodeRuneInString" {
						runeVar = usesObj(info, x.Lhs[0])
					}
					if edge != nil && len(x.Lhs) == 1 && len(x.Rhs) == 1 && sameExpr(x.Lhs[0], cur) && sameExpr(x.Rhs[0], edge.Args[0]) {
						advance = true
					}
				case *ast.ExprStmt:
					if call, ok := x.X.(*ast.CallExpr); ok {
						if f := calleeFunc(info, call); f != nil && f.Name() == "AddTransition" && len(call.Args) == 2 {
							edge = call
							cur = call.Fun.(*ast.SelectorExpr).X
						}
					}
				}
			}
			if edge == nil || runeVar == nil || !advance {
				return true
			}
			cl, ok := edge.Args[1].(*ast.CompositeLit)
			if !ok || !typeIs(info.TypeOf(cl), "lexergen/rang3", "Range") || len(cl.Elts) != 2 {
				return true
			}
			for _, el := range cl.Elts {
				if kv, ok := el.(*ast.KeyValueExpr); !ok || usesObj(info, kv.Value) != runeVar {
					return true
				}
			}
			// the advancing state is the composite's end: either its E field directly, or a
			// local that starts as the begin state and is returned as E
			if isField(info, cur, "lexergen/mode", "NFAComposite", "E") {
				okLit = true
				return true
			}
			curObj := usesObj(info, cur)
			ast.Inspect(fd.Body, func(m ast.Node) bool {
				rs, ok := m.(*ast.ReturnStmt)
				if !ok || len(rs.Results) != 1 {
					return true
				}
				rcl := compositeOf(rs.Results[0])
				if rcl == nil {
					return true
				}
				bE, eE := kvOf(rcl, "B"), kvOf(rcl, "E")
				if bE == nil || eE == nil || curObj == nil || usesObj(info, eE) != curObj {
					return true
				}
				// cur := <B's variable> before the loop
				ast.Inspect(fd.Body, func(k ast.Node) bool {
					if as, ok := k.(*ast.AssignStmt); ok && as.Tok == token.DEFINE && len(as.Lhs) == 1 && len(as.Rhs) == 1 && usesObj(info, as.Lhs[0]) == curObj && as.End() <= n.Pos() {
						if bo := usesObj(info, bE); bo != nil && usesObj(info, as.Rhs[0]) == bo {
							okLit = true
						}
					}
					return true
				})
				return true
			})
			return true
		})
		c.check(okLit, rule, "ast.LexerTermLiteral.NFACons/chain", p.Pos(fd.Pos()), "literal: a chain with one Range{r,r} edge per decoded rune, the end state advancing with it",
			"a literal is not built as a chain of single-rune edges (Range{B: r, E: r}) from the current end state")
	} else {
		c.unres(rule, "ast.LexerTermLiteral.NFACons", "", "function not found")
	}
	// class
	if _, fd := p.FuncDecl("internal/ast", "LexerTermCharClass.NFACons"); fd != nil {
		got := edgeSet(collectEdges(info, fd, fd.Body))
		want := "outer*.B->outer*.E:range outer*.E->outer.E:eps outer.B->outer*.B:eps"
		okRanges := false
		ast.Inspect(fd.Body, func(n ast.Node) bool {
			if rs, ok := n.(*ast.RangeStmt); ok {
				if def := resolveLocal(info, fd, rs.X); strings.HasSuffix(exprString(def), ".GetRanges()") {
					okRanges = true
				}
			}
			return true
		})
		c.check(got == want && okRanges, rule, "ast.LexerTermCharClass.NFACons/class", p.Pos(fd.Pos()), "class: for every range r of GetRanges() {B->rB (eps), rB->rE (r), rE->E (eps)}",
			"class automaton has edges {"+got+"}; expected {"+want+"} over all of Expr.GetRanges()")
	} else {
		c.unres(rule, "ast.LexerTermCharClass.NFACons", "", "function not found")
	}
}

func findConstByValue(pk *packages.Package, typeName string, val int64) *types.Const {
	for _, name := range pk.Types.Scope().Names() {
		if k, ok := pk.Types.Scope().Lookup(name).(*types.Const); ok && namedTypeName(k.Type()) == typeName {
			if v, ok := constant.Int64Val(k.Val()); ok && v == val {
				return k
			}
		}
	}
	return nil
}

// ---- LEX-2: earliest rule wins ----

func ruleLEX2(c *Ctx) {
	const rule = "LEX-2"
	p := c.Prog
	pk, fd := p.FuncDecl("internal/lexergen/mode", "ModeBuilder.pickAction")
	if fd == nil {
		c.unres(rule, "mode.ModeBuilder.pickAction", "", "function not found")
		return
	}
	info := pk.TypesInfo
	okMin := false
	var winner types.Object
	ast.Inspect(fd.Body, func(n ast.Node) bool {
		switch x := n.(type) {
		case *ast.IfStmt:
			be, ok := ast.Unparen(x.Cond).(*ast.BinaryExpr)
			if !ok || (be.Op != token.LSS && be.Op != token.GTR) || !isField(info, be.X, "lexergen/mode", "Actions", "Pos") || !isField(info, be.Y, "lexergen/mode", "Actions", "Pos") {
				return true
			}
			lo, hi := be.X.(*ast.SelectorExpr).X, be.Y.(*ast.SelectorExpr).X // lo.Pos < hi.Pos
			if be.Op == token.GTR {
				lo, hi = hi, lo
			}
			for _, s := range x.Body.List {
				if as, ok := s.(*ast.AssignStmt); ok && len(as.Lhs) == 1 && sameExpr(as.Lhs[0], hi) && sameExpr(as.Rhs[0], lo) {
					okMin = true
					winner = usesObj(info, hi)
				}
			}
		case *ast.CallExpr:
			if full := fullName(calleeFunc(info, x)); full == "slices.MinFunc" {
				okMin = true
			}
		}
		return true
	})
	c.check(okMin, rule, "mode.ModeBuilder.pickAction/min-by-position", p.Pos(fd.Pos()),
		"among the accepting rules of a DFA state the one with the smallest source position replaces the current candidate",
		"pickAction does not select the candidate with the smallest Actions.Pos (earliest declared rule)")
	if winner != nil {
		okRet, okAll := false, false
		ast.Inspect(fd.Body, func(n ast.Node) bool {
			if rs, ok := n.(*ast.ReturnStmt); ok && len(rs.Results) == 1 && usesObj(info, rs.Results[0]) == winner {
				okRet = true
			}
			if fs, ok := n.(*ast.ForStmt); ok && fs.Cond != nil && strings.Contains(exprString(fs.Cond), "< len(") && mentionsObj(info, fs.Body, winner) {
				okAll = true
			}
			if rs, ok := n.(*ast.RangeStmt); ok && rs.Body != nil && mentionsObj(info, rs.Body, winner) {
				// over the whole candidate list, or over all but the first (the initial winner)
				okAll = true
				if sl, ok := ast.Unparen(rs.X).(*ast.SliceExpr); ok {
					lo, isC := constInt(info, sl.Low)
					okAll = sl.High == nil && (sl.Low == nil || (isC && lo <= 1))
				}
			}
			return true
		})
		c.check(okRet && okAll, rule, "mode.ModeBuilder.pickAction/returns-min", p.Pos(fd.Pos()), "every candidate is compared and the minimum is returned", "pickAction does not compare every candidate or does not return the minimum")
	}
	// candidates are gathered from all NFA states of the DFA state (in pickAction or a helper)
	okCand := false
	inspectScope(p, pk, fd, 2, func(owner, n ast.Node) bool {
		if rs, ok := n.(*ast.RangeStmt); ok && isField(info, rs.X, "lexergen/dfa", "State", "NFAStates") {
			brk := false
			ast.Inspect(rs.Body, func(m ast.Node) bool {
				if b, ok := m.(*ast.BranchStmt); ok && b.Tok == token.BREAK {
					brk = true
				}
				if _, ok := m.(*ast.ReturnStmt); ok {
					brk = true
				}
				return true
			})
			if !brk {
				okCand = true
			}
		}
		return true
	})
	c.check(okCand, rule, "mode.ModeBuilder.pickAction/all-candidates", p.Pos(fd.Pos()), "the candidates are gathered from all NFA states of the DFA state", "candidate gathering stops early")
	// Pos comes from the rule's own position
	n := 0
	p.ProdFiles(func(pk2 *packages.Package, f *ast.File) {
		for _, d := range f.Decls {
			fd2, ok := d.(*ast.FuncDecl)
			if !ok || fd2.Body == nil {
				continue
			}
			ast.Inspect(fd2.Body, func(m ast.Node) bool {
				cl, ok := m.(*ast.CompositeLit)
				if !ok || !typeIs(pk2.TypesInfo.TypeOf(cl), "lexergen/mode", "Actions") {
					return true
				}
				n++
				okPos := false
				for _, el := range cl.Elts {
					if kv, ok := el.(*ast.KeyValueExpr); ok && exprString(kv.Key) == "Pos" {
						recv := ""
						if fd2.Recv != nil && len(fd2.Recv.List[0].Names) == 1 {
							recv = fd2.Recv.List[0].Names[0].Name
						}
						s := exprString(kv.Value)
						if recv != "" && (s == recv+".Bounds().Begin" || s == recv+".bounds.Begin" || s == "ctx.Position("+recv+")") {
							okPos = true
						}
					}
				}
				c.check(okPos, rule, funcKey(pk2, fd2)+"/Actions.Pos", p.Pos(cl.Pos()), "the rule's action list carries the rule's own begin position", "the action list's Pos is not the begin position of the rule being compiled")
				return true
			})
		}
	})
	if n < 2 {
		c.unres(rule, "mode.Actions-literals", "", "only %d mode.Actions literals found (token and fragment rules expected)", n)
	}
}

// ---- LEX-3: act only when stuck ----

func ruleLEX3(c *Ctx) {
	const rule = "LEX-3"
	ta := c.tmplOrUnres(rule)
	if ta == nil {
		return
	}
	ti := ta.Variants[0]
	r := findLexerReader(ti)
	if r == nil || r.loop == nil {
		c.unres(rule, "template/PushRune", "", "reader not found")
		return
	}
	// the search loop: the loop from inside which input is consumed (`return _lexerConsume`); that
	// it is skipped for flagged rows is NG-3's obligation
	consume, _ := ti.Pkg.Scope().Lookup("_lexerConsume").(*types.Const)
	var loop *ast.ForStmt
	rpar := parents(r.fd)
	ast.Inspect(r.fd.Body, func(n ast.Node) bool {
		rs, ok := n.(*ast.ReturnStmt)
		if !ok || len(rs.Results) != 1 || consume == nil || usesObj(ti.Info, rs.Results[0]) != types.Object(consume) {
			return true
		}
		for q := rpar[ast.Node(rs)]; q != nil; q = rpar[q] {
			if fs, ok := q.(*ast.ForStmt); ok {
				loop = fs
				break
			}
		}
		return true
	})
	if loop == nil {
		c.bad(rule, "template/PushRune/search-before-actions", ti.Pos(r.fd.Pos()), "no transition search (a loop from which input is consumed) precedes the actions")
		return
	}
	// it runs while lo < hi (other conjuncts may only stop it earlier)
	var lcond *ast.BinaryExpr
	if loop.Cond != nil {
		for _, cj := range conjuncts(loop.Cond) {
			if be, ok := ast.Unparen(cj).(*ast.BinaryExpr); ok && be.Op == token.LSS {
				lcond = be
			}
		}
	}
	okLoop := lcond != nil
	// no way out of the search other than return or exhausting it
	ast.Inspect(loop.Body, func(n ast.Node) bool {
		if b, ok := n.(*ast.BranchStmt); ok && (b.Tok == token.BREAK || b.Tok == token.GOTO) {
			okLoop = false
		}
		return true
	})
	okOrder := loop.End() <= r.loop.Pos()
	c.check(okLoop && okOrder, rule, "template/PushRune/search-before-actions", ti.Pos(loop.Pos()),
		"the actions of a row run only after the binary search over its transitions was exhausted (or the row is flagged non-greedy): longest match",
		"the action dispatch can be reached before the transition search is exhausted")
	// binary search arithmetic: hi = mid under `r < lower`, lo = mid+1 under `r > upper`
	if loop != nil && lcond != nil {
		info := ti.Info
		lo, hi := exprString(lcond.X), exprString(lcond.Y)
		runeParam := paramObj(info, r.fd, 0)
		defs := localDefs(info, r.fd.Body)
		par := parents(r.fd)
		// the probe: a local defined as lo + (hi-lo)/2 (or (lo+hi)/2)
		mid := ""
		for o, d := range defs {
			ds := exprString(d)
			if ds == lo+" + ("+hi+" - "+lo+") / 2" || ds == "("+lo+" + "+hi+") / 2" {
				mid = o.Name()
			}
		}
		below := func(e ast.Expr, pos bool) bool { // fact: r < X
			l, op, rr, ok := cmpFact(e, pos)
			if !ok {
				return false
			}
			return (op == token.LSS && usesObj(info, l) == runeParam) || (op == token.GTR && usesObj(info, rr) == runeParam)
		}
		above := func(e ast.Expr, pos bool) bool { // fact: r > X
			l, op, rr, ok := cmpFact(e, pos)
			if !ok {
				return false
			}
			return (op == token.GTR && usesObj(info, l) == runeParam) || (op == token.LSS && usesObj(info, rr) == runeParam)
		}
		okHi, okLo, other := false, false, false
		ast.Inspect(loop.Body, func(n ast.Node) bool {
			as, ok := n.(*ast.AssignStmt)
			if !ok || len(as.Lhs) != 1 || as.Tok != token.ASSIGN {
				return true
			}
			lhs, rhs := exprString(as.Lhs[0]), exprString(as.Rhs[0])
			facts := pathConds(info, par, as)
			switch lhs {
			case hi:
				if rhs == mid && holds(facts, below) {
					okHi = true
				} else {
					other = true
				}
			case lo:
				if rhs == mid+" + 1" && holds(facts, above) {
					okLo = true
				} else {
					other = true
				}
			}
			return true
		})
		c.check(mid != "" && okHi && okLo && !other, rule, "template/PushRune/binary-search-steps", ti.Pos(loop.Pos()),
			"the probe is the midpoint; below the range the upper bound becomes the probe, above it the lower bound becomes probe+1",
			"the binary search does not narrow with hi = mid (rune below the range) / lo = mid+1 (rune above the range)")
	}
}

// ---- LEX-4: universe constants ----

func ruleLEX4(c *Ctx) {
	const rule = "LEX-4"
	p := c.Prog
	k := lookupConst(p, "internal/lexergen/rang3", "MaxRune")
	if k == nil {
		c.unres(rule, "rang3.MaxRune", "", "constant not found")
	} else {
		v, _ := constant.Int64Val(k.Val())
		c.check(v == 0x10FFFF, rule, "rang3.MaxRune", "", "MaxRune = 0x10FFFF = unicode.MaxRune", fmt.Sprintf("MaxRune = %#x, not unicode.MaxRune (0x10FFFF)", v))
	}
	// DOT
	pk, fd := p.FuncDecl("internal/parser", "parser.on_lexer_term__tok")
	if fd == nil {
		c.unres(rule, "parser.on_lexer_term__tok", "", "function not found")
	} else {
		info := pk.TypesInfo
		spell := tokenSpellings(pk)
		okDot := false
		ast.Inspect(fd.Body, func(n ast.Node) bool {
			cc, ok := n.(*ast.CaseClause)
			if !ok || len(cc.List) != 1 || spell[usesObj(info, cc.List[0])] != "." {
				return true
			}
			ast.Inspect(cc, func(m ast.Node) bool {
				cl, ok := m.(*ast.CompositeLit)
				if !ok {
					return true
				}
				var from, to int64 = -1, -1
				for _, el := range cl.Elts {
					if kv, ok := el.(*ast.KeyValueExpr); ok {
						if v, ok := constInt(info, kv.Value); ok {
							switch exprString(kv.Key) {
							case "From":
								from = v
							case "To":
								to = v
							}
						}
					}
				}
				if from == 0 && to == 0x10FFFF {
					okDot = true
				}
				return true
			})
			return true
		})
		c.check(okDot, rule, "parser.on_lexer_term__tok/dot", p.Pos(fd.Pos()), "'.' is the class [U+0000-U+10FFFF]", "'.' is not built as the class {From: 0, To: 0x10FFFF}")
	}
	// negation
	pk2, gr := p.FuncDecl("internal/ast", "CharClass.GetRanges")
	if gr == nil {
		c.unres(rule, "ast.CharClass.GetRanges", "", "function not found")
	} else {
		info := pk2.TypesInfo
		okNeg := false
		ast.Inspect(gr.Body, func(n ast.Node) bool {
			call, ok := n.(*ast.CallExpr)
			if !ok || fullName(calleeFunc(info, call)) != modPath+"/internal/lexergen/rang3.Subtract" || len(call.Args) != 2 {
				return true
			}
			if cl, ok := call.Args[0].(*ast.CompositeLit); ok && len(cl.Elts) == 1 {
				innerE := ast.Unparen(cl.Elts[0])
				if id, isId := innerE.(*ast.Ident); isId {
					// a package-level variable holding the literal, never written again
					if def := pkgVarInit(p, pk2, usesObj(info, id)); def != nil {
						innerE = ast.Unparen(def)
					}
				}
				if inner, ok := innerE.(*ast.CompositeLit); ok && len(inner.Elts) == 2 {
					b, e := kvOf(inner, "B"), kvOf(inner, "E")
					if b == nil || e == nil {
						b, e = inner.Elts[0], inner.Elts[1]
					}
					bv, bok := constInt(info, b)
					ev, eok := constInt(info, e)
					if bok && eok && bv == 0 && ev == 0x10FFFF {
						okNeg = true
					}
				}
			}
			return true
		})
		c.check(okNeg, rule, "ast.CharClass.GetRanges/negation", p.Pos(gr.Pos()), "negation = [0, MaxRune] minus the set", "negation does not subtract the set from exactly [0, rang3.MaxRune]")
	}
}

// ---- LEX-5: pipeline skeleton ----

func ruleLEX5(c *Ctx) {
	const rule = "LEX-5"
	p := c.Prog
	pk, fd := p.FuncDecl("internal/lexergen/mode", "ModeBuilder.Build")
	if fd == nil {
		c.unres(rule, "mode.ModeBuilder.Build", "", "function not found")
		return
	}
	info := pk.TypesInfo
	g := p.CFG(pk, fd)
	find := func(name string) *ast.CallExpr {
		cs := findCalls(info, fd.Body, false, func(fn *types.Func, _ *ast.CallExpr) bool { return fn != nil && fn.Name() == name })
		if len(cs) == 1 {
			return cs[0]
		}
		return nil
	}
	ni, nd, mt, pa := find("normalizeInputs"), find("NFAToDFA"), find("mergeTransitions"), find("pickAction")
	if ni == nil || nd == nil || mt == nil || pa == nil {
		c.unres(rule, "mode.ModeBuilder.Build/pipeline", p.Pos(fd.Pos()), "normalizeInputs / NFAToDFA / mergeTransitions / pickAction are not each called exactly once in Build")
		return
	}
	before := func(a, b *ast.CallExpr) bool {
		return mustPassBefore(g, b, func(n ast.Node) bool { return containsNode(n, a) })
	}
	c.check(before(ni, nd) && before(nd, mt) && before(mt, pa), rule, "mode.ModeBuilder.Build/pipeline", p.Pos(fd.Pos()),
		"normalizeInputs(start) -> NFAToDFA(start) -> mergeTransitions(d) -> pickAction for the states of d, on every path",
		"the stages of Build are not executed in the order normalizeInputs, NFAToDFA, mergeTransitions, pickAction")
	sameStart := len(ni.Args) == 1 && len(nd.Args) == 1 && sameExpr(ni.Args[0], nd.Args[0])
	sameDFA := false
	if as, ok := parents(fd)[nd].(*ast.AssignStmt); ok && len(mt.Args) == 1 {
		sameDFA = sameExpr(as.Lhs[0], mt.Args[0])
	}
	c.check(sameStart && sameDFA, rule, "mode.ModeBuilder.Build/dataflow", p.Pos(fd.Pos()), "the same start state is normalised and determinised; the resulting DFA is the one merged", "the stages of Build do not operate on the same automaton")
	// every rule is reachable from the start state; pickAction covers every state
	okRules, okStates := false, false
	ast.Inspect(fd.Body, func(n ast.Node) bool {
		rs, ok := n.(*ast.RangeStmt)
		if !ok {
			return true
		}
		if isField(info, rs.X, "lexergen/mode", "ModeBuilder", "Rules") {
			es := collectEdges(info, fd, rs.Body)
			if len(es) == 1 && es[0].eps && strings.HasSuffix(es[0].to, ".B") && sameExpr(es[0].node.Fun.(*ast.SelectorExpr).X, ni.Args[0]) {
				okRules = true
			}
		}
		if isField(info, rs.X, "lexergen/dfa", "DFA", "States") && containsNode(rs.Body, pa) {
			okStates = true
		}
		return true
	})
	c.check(okRules, rule, "mode.ModeBuilder.Build/all-rules", p.Pos(fd.Pos()), "the start state gets an eps edge to the beginning of every rule", "not every rule's automaton is attached to the start state by an eps edge")
	c.check(okStates, rule, "mode.ModeBuilder.Build/all-states", p.Pos(fd.Pos()), "pickAction is applied to every state of the DFA", "pickAction is not applied to every DFA state")

	// NFAToDFA
	pk2, nf := p.FuncDecl("internal/lexergen/dfa", "NFAToDFA")
	if nf == nil {
		c.unres(rule, "dfa.NFAToDFA", "", "function not found")
		return
	}
	info2 := pk2.TypesInfo
	okSubset, okClosure, okSig := false, false, false
	inspectScope(p, pk2, nf, 2, func(owner, n ast.Node) bool {
		if owner != ast.Node(nf) {
			// helpers: only the gathering loop is looked for there
			if x, ok := n.(*ast.RangeStmt); ok && isSliceOf(info2.TypeOf(x.X), "lexergen/nfa", "State") {
				early := false
				ast.Inspect(x.Body, func(m ast.Node) bool {
					switch b := m.(type) {
					case *ast.BranchStmt:
						if b.Tok == token.BREAK {
							early = true
						}
					case *ast.ReturnStmt:
						early = true
					}
					return true
				})
				adds := len(findCalls(info2, x.Body, false, func(fn *types.Func, _ *ast.CallExpr) bool { return fn != nil && fn.Name() == "Add" })) > 0
				if adds && !early {
					okSubset = true
				}
			}
			return true
		}
		switch x := n.(type) {
		case *ast.RangeStmt:
			if isField(info2, x.X, "lexergen/dfa", "State", "NFAStates") {
				early := false
				ast.Inspect(x.Body, func(m ast.Node) bool {
					switch b := m.(type) {
					case *ast.BranchStmt:
						if b.Tok == token.BREAK {
							early = true
						}
					case *ast.ReturnStmt:
						early = true
					}
					return true
				})
				adds := len(findCalls(info2, x.Body, false, func(fn *types.Func, _ *ast.CallExpr) bool { return fn != nil && fn.Name() == "Add" })) > 0
				if adds && !early {
					okSubset = true
				}
			}
		case *ast.CallExpr:
			if fn := calleeFunc(info2, x); fn != nil && fn.Name() == "eClosure" {
				okClosure = true
			}
			if fn := calleeFunc(info2, x); fn != nil && fn.Name() == "sig" {
				okSig = true
			}
		}
		return true
	})
	c.check(okSubset && okClosure && okSig, rule, "dfa.NFAToDFA/subset-step", p.Pos(nf.Pos()),
		"the target of an input is gathered from all NFA states of the source (no early exit), closed under eps, and identified by its signature",
		fmt.Sprintf("subset construction step is incomplete (all sources: %v, eps-closure: %v, identified by sig(): %v)", okSubset, okClosure, okSig))
	// eClosure sorts NFAStates before sig() can read them; sig reads every ID
	_, ec := p.FuncDecl("internal/lexergen/dfa", "eClosure")
	_, sg := p.FuncDecl("internal/lexergen/dfa", "State.sig")
	okSort, okSigAll := false, false
	if ec != nil {
		ast.Inspect(ec.Body, func(n ast.Node) bool {
			if call, ok := n.(*ast.CallExpr); ok && sortFuncs[fullName(calleeFunc(info2, call))] && len(call.Args) > 0 && isField(info2, call.Args[0], "lexergen/dfa", "State", "NFAStates") {
				okSort = true
			}
			return true
		})
	}
	if sg != nil {
		ast.Inspect(sg.Body, func(n ast.Node) bool {
			if rs, ok := n.(*ast.RangeStmt); ok && isField(info2, rs.X, "lexergen/dfa", "State", "NFAStates") {
				uses := false
				ast.Inspect(rs.Body, func(m ast.Node) bool {
					if isFieldNode(info2, m, "lexergen/nfa", "State", "ID") {
						uses = true
					}
					if _, ok := m.(*ast.BranchStmt); ok {
						uses = false
					}
					return true
				})
				okSigAll = uses
			}
			return true
		})
	}
	// and encodes each ID injectively: a fixed-width store into the slot of that width, or an
	// allow-listed self-delimiting append (the signature is the identity of a DFA state)
	if sg != nil && okSigAll {
		okEnc, whyEnc := false, "no call encodes the NFA state's ID"
		ast.Inspect(sg.Body, func(n ast.Node) bool {
			rs, ok := n.(*ast.RangeStmt)
			if !ok || !isField(info2, rs.X, "lexergen/dfa", "State", "NFAStates") {
				return true
			}
			ast.Inspect(rs.Body, func(m ast.Node) bool {
				call, ok := m.(*ast.CallExpr)
				if !ok {
					return true
				}
				idArg := -1
				for i, a := range call.Args {
					if isField(info2, stripConv(info2, a), "lexergen/nfa", "State", "ID") {
						idArg = i
					}
				}
				if idArg < 0 {
					return true
				}
				full := fullName(calleeFunc(info2, call))
				width := map[string]int64{
					"encoding/binary.bigEndian.PutUint32": 4, "encoding/binary.littleEndian.PutUint32": 4,
					"encoding/binary.bigEndian.PutUint64": 8, "encoding/binary.littleEndian.PutUint64": 8,
				}[full]
				switch {
				case keyEncoders[full]:
					// the argument must keep all bits of the id
					okEnc = true
				case width > 0 && idArg == 1:
					// slot i*width of the buffer, i the range key
					if sl, ok := ast.Unparen(call.Args[0]).(*ast.SliceExpr); ok && sl.Low != nil && sl.High == nil && rs.Key != nil {
						terms, k := linearForm(info2, nil, sl.Low)
						if k == 0 && len(terms) == 1 && terms[exprString(rs.Key)] == width {
							okEnc = true
						} else {
							whyEnc = fmt.Sprintf("%s stores into `%s`, not into slot key*%d", full, exprString(call.Args[0]), width)
						}
					}
				default:
					if full == "" {
						full = exprString(call.Fun)
					}
					whyEnc = fmt.Sprintf("the ID is encoded with %s, which is not known to be injective on uint32 (two different state sets could get one signature and be treated as the same DFA state)", full)
				}
				return true
			})
			return true
		})
		c.check(okEnc, rule, "dfa.State.sig/injective", p.Pos(sg.Pos()), "each NFA state ID is stored at fixed width (or by a self-delimiting encoder): different sets give different signatures", whyEnc)
	}
	c.check(okSort && okSigAll, rule, "dfa.State.sig/canonical", "", "the signature encodes the IDs of all NFA states, which eClosure has sorted", "the DFA state signature is not the sorted list of all NFA state IDs")
	// getInputs skips exactly epsilon
	_, gi := p.FuncDecl("internal/lexergen/dfa", "getInputs")
	okEps := false
	if gi != nil {
		ast.Inspect(gi, func(n ast.Node) bool {
			if ifs, ok := n.(*ast.IfStmt); ok {
				if be, ok := ifs.Cond.(*ast.BinaryExpr); ok && be.Op == token.NEQ && strings.HasSuffix(exprString(be.Y), "Epsilon") && len(ifs.Body.List) == 1 && ifs.Else == nil {
					okEps = true
				}
			}
			return true
		})
	}
	c.check(okEps, rule, "dfa.getInputs/skips-epsilon-only", "", "every non-eps input of the source states is considered", "getInputs does not consider exactly the non-eps inputs")
}

func isFieldNode(info *types.Info, n ast.Node, pkg, typ, field string) bool {
	e, ok := n.(ast.Expr)
	return ok && isField(info, e, pkg, typ, field)
}

// ---- LEX-6: accepting rules are kept apart ----

func ruleLEX6(c *Ctx) {
	const rule = "LEX-6"
	p := c.Prog
	pk, fd := p.FuncDecl("internal/lexergen/dfa", "optimize")
	_, sp := p.FuncDecl("internal/lexergen/dfa", "subPartition")
	if fd == nil || sp == nil {
		c.unres(rule, "dfa.optimize", "", "optimize/subPartition not found")
		return
	}
	info := pk.TypesInfo
	// initial partition by Accept: the group a state is added to is one constant when it accepts
	// and a different constant when it does not (if/else with two Add calls, or one Add of a
	// variable set under the Accept test)
	okInit := false
	fdPar := parents(fd)
	addCalls := findCalls(info, fd.Body, true, func(fn *types.Func, call *ast.CallExpr) bool {
		return fn != nil && fn.Name() == "Add" && strings.HasSuffix(fullName(fn), ".partitions.Add") && len(call.Args) == 2
	})
	acceptFact := func(n ast.Node) (known bool, accepting bool) {
		for _, f := range pathConds(info, fdPar, n) {
			if isField(info, f.e, "lexergen/dfa", "State", "Accept") {
				return true, !f.neg
			}
		}
		return false, false
	}
	groupsByAccept := map[bool]map[int64]bool{true: {}, false: {}}
	for _, call := range addCalls {
		if v, isC := constInt(info, call.Args[1]); isC {
			if known, acc := acceptFact(call); known {
				groupsByAccept[acc][v] = true
			}
			continue
		}
		// a variable: its constant assignments, classified by the Accept fact at each
		if gv := usesObj(info, call.Args[1]); gv != nil {
			var unconditional []int64
			ast.Inspect(fd.Body, func(n ast.Node) bool {
				as, ok := n.(*ast.AssignStmt)
				if !ok || len(as.Lhs) != 1 || len(as.Rhs) != 1 || usesObj(info, as.Lhs[0]) != gv || as.Pos() > call.Pos() {
					return true
				}
				v, isC := constInt(info, as.Rhs[0])
				if !isC {
					return true
				}
				if known, acc := acceptFact(as); known {
					groupsByAccept[acc][v] = true
				} else {
					unconditional = append(unconditional, v)
				}
				return true
			})
			// the default value stands for the outcome no conditional assignment covers
			for _, v := range unconditional {
				for _, acc := range []bool{true, false} {
					if len(groupsByAccept[acc]) == 0 {
						groupsByAccept[acc][v] = true
					}
				}
			}
		}
	}
	if len(groupsByAccept[true]) == 1 && len(groupsByAccept[false]) == 1 {
		for a := range groupsByAccept[true] {
			for b := range groupsByAccept[false] {
				okInit = a != b
			}
		}
	}
	c.check(okInit, rule, "dfa.optimize/initial-partition", p.Pos(fd.Pos()), "accepting and non-accepting states start in different groups", "the initial partition does not separate accepting from non-accepting states")
	// refinement until stable: a loop around the subPartition calls whose exit test compares the
	// number of groups before the pass with the number after it
	okFix := false
	fdDefs := localDefs(info, fd)
	isCountCall := func(e ast.Expr) bool {
		call, ok := ast.Unparen(e).(*ast.CallExpr)
		if !ok {
			return false
		}
		fn := calleeFunc(info, call)
		return fn != nil && fn.Name() == "Count" && strings.HasSuffix(fullName(fn), ".partitions.Count")
	}
	ast.Inspect(fd.Body, func(n ast.Node) bool {
		fs, ok := n.(*ast.ForStmt)
		if !ok {
			return true
		}
		subs := findCalls(info, fs.Body, false, func(fn *types.Func, _ *ast.CallExpr) bool { return fn != nil && fn.Name() == "subPartition" })
		if len(subs) != 1 {
			return true
		}
		// candidate exit tests: the loop condition, or `if c { break }` at the end of the body
		type exit struct {
			e        ast.Expr
			stayWhen token.Token // operator under which the loop continues
		}
		var exits []exit
		if fs.Cond != nil {
			if be, ok := ast.Unparen(fs.Cond).(*ast.BinaryExpr); ok {
				exits = append(exits, exit{be, token.NEQ})
			}
		}
		for _, st := range fs.Body.List {
			if ifs, ok := st.(*ast.IfStmt); ok && ifs.Else == nil && len(ifs.Body.List) == 1 && st.Pos() > subs[0].End() {
				if br, ok := ifs.Body.List[0].(*ast.BranchStmt); ok && br.Tok == token.BREAK {
					if be, ok := ast.Unparen(ifs.Cond).(*ast.BinaryExpr); ok {
						exits = append(exits, exit{be, token.EQL}) // breaks when equal = continues when different
					}
				}
			}
		}
		for _, ex := range exits {
			be := ex.e.(*ast.BinaryExpr)
			want := token.NEQ
			if ex.stayWhen == token.EQL {
				want = token.EQL
			}
			if be.Op != want {
				continue
			}
			for _, pr := range [][2]ast.Expr{{be.X, be.Y}, {be.Y, be.X}} {
				if !isCountCall(pr[1]) {
					continue
				}
				// the other side: a variable holding Count() taken before the pass
				o := usesObj(info, pr[0])
				if o == nil {
					continue
				}
				before := false
				ast.Inspect(fs.Body, func(m ast.Node) bool {
					if as, ok := m.(*ast.AssignStmt); ok && len(as.Lhs) == 1 && len(as.Rhs) == 1 && usesObj(info, as.Lhs[0]) == o && isCountCall(as.Rhs[0]) && as.End() <= subs[0].Pos() {
						before = true
					}
					return true
				})
				if before {
					okFix = true
				}
			}
		}
		return true
	})
	_ = fdDefs
	c.check(okFix, rule, "dfa.optimize/until-stable", p.Pos(fd.Pos()), "groups are split until their number no longer changes", "refinement is not repeated until the number of groups is stable")
	// subPartition: transition-group difference and accepting-NFA-state difference both move the state.
	// Roles are found by what the objects do, not by their names:
	//   moveSet  = the local whose iteration feeds partitions.Move
	//   groupSet = a local defined from partitions.GetGroup
	//   inputSet = the local iterated around the transition comparison
	par := parents(sp)
	defs := localDefs(info, sp)
	rootVar := func(e ast.Expr) types.Object {
		for {
			switch x := ast.Unparen(e).(type) {
			case *ast.SelectorExpr:
				if _, isVar := info.Uses[x.Sel].(*types.Var); isVar && info.Selections[x] != nil {
					e = x.X
					continue
				}
				return nil
			case *ast.StarExpr:
				e = x.X
				continue
			case *ast.UnaryExpr:
				e = x.X
				continue
			case *ast.Ident:
				return usesObj(info, x)
			}
			return nil
		}
	}
	// iteratedBy returns the objects whose iteration (X.ForEach(func…) or range X) encloses n.
	iteratedBy := func(n ast.Node) []ast.Expr {
		var out []ast.Expr
		for m := par[n]; m != nil; m = par[m] {
			switch x := m.(type) {
			case *ast.RangeStmt:
				out = append(out, x.X)
			case *ast.FuncLit:
				if call, ok := par[x].(*ast.CallExpr); ok {
					if sel, ok := call.Fun.(*ast.SelectorExpr); ok && len(call.Args) >= 1 && call.Args[len(call.Args)-1] == ast.Expr(x) {
						out = append(out, sel.X)
					}
				}
			}
		}
		return out
	}
	var moveSet types.Object
	for _, call := range findCalls(info, sp, true, func(fn *types.Func, _ *ast.CallExpr) bool {
		// p.Move(s, g), or the same thing spelled p.Remove(s); p.Add(s, g)
		return fn != nil && (strings.HasSuffix(fullName(fn), ".partitions.Move") || strings.HasSuffix(fullName(fn), ".partitions.Add"))
	}) {
		for _, it := range iteratedBy(call) {
			if o := rootVar(it); o != nil {
				moveSet = o
			}
		}
	}
	addsTo := func(n ast.Node, set types.Object) bool {
		return set != nil && len(findCalls(info, n, false, func(fn *types.Func, call *ast.CallExpr) bool {
			sel, ok := call.Fun.(*ast.SelectorExpr)
			return ok && sel.Sel.Name == "Add" && rootVar(sel.X) == set
		})) > 0
	}
	// calleeBody: the body of the function or local closure a call invokes.
	calleeBody := func(call *ast.CallExpr) (key any, body ast.Node) {
		if fn := calleeFunc(info, call); fn != nil {
			if d := p.funcDecls[fn.Origin()]; d != nil {
				return fn, d
			}
			return fn, nil
		}
		if id, ok := ast.Unparen(call.Fun).(*ast.Ident); ok {
			if o := usesObj(info, id); o != nil {
				if lit, ok := ast.Unparen(defs[o]).(*ast.FuncLit); ok {
					return o, lit
				}
			}
		}
		return nil, nil
	}
	sameCallee := func(x, y ast.Expr) ast.Node {
		cx, ok1 := ast.Unparen(resolveVia(info, defs, x)).(*ast.CallExpr)
		cy, ok2 := ast.Unparen(resolveVia(info, defs, y)).(*ast.CallExpr)
		if !ok1 || !ok2 {
			return nil
		}
		kx, bx := calleeBody(cx)
		ky, _ := calleeBody(cy)
		if kx == nil || kx != ky || bx == nil {
			return nil
		}
		// the two calls must be about different states
		if len(cx.Args) == 0 || len(cy.Args) == 0 || sameExpr(cx.Args[0], cy.Args[0]) {
			return nil
		}
		return bx
	}
	okTrans, okAcc := false, false
	var inputSet types.Object
	ast.Inspect(sp.Body, func(n ast.Node) bool {
		ifs, ok := n.(*ast.IfStmt)
		if !ok || !addsTo(ifs.Body, moveSet) {
			return true
		}
		cond := ast.Unparen(ifs.Cond)
		if be, ok := cond.(*ast.BinaryExpr); ok && be.Op == token.NEQ {
			if body := sameCallee(be.X, be.Y); body != nil {
				if len(findCalls(info, body, true, func(fn *types.Func, _ *ast.CallExpr) bool {
					return fn != nil && fn.Name() == "GetStateGroup"
				})) > 0 {
					okTrans = true
					for _, it := range iteratedBy(ifs) {
						if o := rootVar(it); o != nil && inputSet == nil {
							inputSet = o
						}
					}
				}
			}
		}
		if u, ok := cond.(*ast.UnaryExpr); ok && u.Op == token.NOT {
			if call, ok := ast.Unparen(u.X).(*ast.CallExpr); ok && len(call.Args) == 1 {
				if sel, ok := call.Fun.(*ast.SelectorExpr); ok && sel.Sel.Name == "Equal" {
					if body := sameCallee(sel.X, call.Args[0]); body != nil {
						readsAccept := false
						ast.Inspect(body, func(m ast.Node) bool {
							if isFieldNode(info, m, "lexergen/nfa", "State", "Accept") {
								readsAccept = true
							}
							return true
						})
						if readsAccept {
							okAcc = true
						}
					}
				}
			}
		}
		return true
	})
	// greedy and non-greedy accepting states are kept apart: the merged state's NonGreedy is the OR of
	// its members (NG-2), so a greedy member of such a group would stop at its first accepting position
	okNG := false
	ast.Inspect(sp.Body, func(n ast.Node) bool {
		ifs, ok := n.(*ast.IfStmt)
		if !ok || !addsTo(ifs.Body, moveSet) {
			return true
		}
		for _, d := range disjuncts(ifs.Cond) {
			be, ok := ast.Unparen(d).(*ast.BinaryExpr)
			if !ok || be.Op != token.NEQ {
				continue
			}
			if isField(info, be.X, "lexergen/dfa", "State", "NonGreedy") && isField(info, be.Y, "lexergen/dfa", "State", "NonGreedy") &&
				rootVar(be.X) != nil && rootVar(be.Y) != nil && rootVar(be.X) != rootVar(be.Y) {
				okNG = true
			}
		}
		return true
	})
	if !okNG {
		// or the initial partition already separates them: the group constant depends on NonGreedy
		for _, call := range addCalls {
			for _, f := range pathConds(info, fdPar, call) {
				if isField(info, f.e, "lexergen/dfa", "State", "NonGreedy") {
					okNG = true
				}
			}
		}
	}
	c.check(okNG, rule, "dfa.subPartition/non-greedy-difference", p.Pos(sp.Pos()), "a state whose NonGreedy mark differs from the representative's is split off: a greedy accepting state is never merged into a non-greedy one",
		"greedy and non-greedy accepting states of one rule can be merged; the merged state is non-greedy (OR of its members), so the greedy alternative stops at its first accepting position (e.g. ITEM = 'x' 'a'*? | 'y' 'a'* lexes \"yaa\" as ITEM(y), ERROR)")
	c.check(okTrans, rule, "dfa.subPartition/transition-difference", p.Pos(sp.Pos()), "a state whose transition on some input leads to another group than the representative's is split off", "states with transitions into different groups are not split")
	// the comparison may live in a helper `same(first, s)`: then *every* way of answering "same"
	// must be the equality of the two accepting-NFA-state sets; an extra shortcut (equal "keys",
	// equal action lists) merges states of different rules, and everything that distinguishes the
	// rules but is left out of the shortcut (a @push_mode target, the rule's position) is lost
	if !okAcc {
		ast.Inspect(sp.Body, func(n ast.Node) bool {
			ifs, ok := n.(*ast.IfStmt)
			if !ok || !addsTo(ifs.Body, moveSet) {
				return true
			}
			u, ok := ast.Unparen(ifs.Cond).(*ast.UnaryExpr)
			if !ok || u.Op != token.NOT {
				return true
			}
			call, ok := ast.Unparen(u.X).(*ast.CallExpr)
			if !ok || len(call.Args) != 2 {
				return true
			}
			hf := calleeFunc(info, call)
			if hf == nil || hf.Pkg() != pk.Types {
				return true
			}
			hd := p.funcDecls[hf.Origin()]
			if hd == nil || hd.Body == nil {
				return true
			}
			hpar := parents(hd)
			hdefs := localDefs(info, hd)
			allEq, nTrue := true, 0
			isSetEqual := func(e ast.Expr) bool {
				e = ast.Unparen(resolveVia(info, hdefs, e))
				c2, ok := e.(*ast.CallExpr)
				if !ok || len(c2.Args) != 1 {
					return false
				}
				sel, ok := c2.Fun.(*ast.SelectorExpr)
				if !ok || sel.Sel.Name != "Equal" {
					return false
				}
				for _, side := range []ast.Expr{sel.X, c2.Args[0]} {
					sc, ok := ast.Unparen(resolveVia(info, hdefs, side)).(*ast.CallExpr)
					if !ok {
						return false
					}
					if f := calleeFunc(info, sc); f == nil || f.Name() != "acceptingNFAStates" {
						_, body := calleeBody(sc)
						reads := false
						if body != nil {
							ast.Inspect(body, func(m ast.Node) bool {
								if isFieldNode(info, m, "lexergen/nfa", "State", "Accept") {
									reads = true
								}
								return true
							})
						}
						if !reads {
							return false
						}
					}
				}
				return true
			}
			inspectNoLit(hd.Body, func(m ast.Node) bool {
				rs, ok := m.(*ast.ReturnStmt)
				if !ok || len(rs.Results) != 1 {
					return true
				}
				if tv, has := info.Types[rs.Results[0]]; has && tv.Value != nil && tv.Value.String() == "false" {
					return true
				}
				nTrue++
				if isSetEqual(rs.Results[0]) {
					return true
				}
				// `return true` under the fact that the sets are equal
				under := false
				for _, fct := range pathConds(info, hpar, rs) {
					if !fct.neg && isSetEqual(fct.e) {
						under = true
					}
				}
				if !under {
					allEq = false
				}
				return true
			})
			if nTrue > 0 && allEq {
				okAcc = true
			}
			return true
		})
	}
	c.check(okAcc, rule, "dfa.subPartition/accepting-rule-difference", p.Pos(sp.Pos()), "accepting states whose accepting NFA states differ (different rules) are split off", "accepting states of different rules can be merged: the wrong rule's actions would run")
	// inputs cover both states: the set iterated around the comparison is filled from the
	// transitions of every state of the group.
	okInputs := false
	ast.Inspect(sp.Body, func(n ast.Node) bool {
		call, ok := n.(*ast.CallExpr)
		if !ok {
			return true
		}
		sel, ok := call.Fun.(*ast.SelectorExpr)
		if !ok || sel.Sel.Name != "Add" || inputSet == nil || rootVar(sel.X) != inputSet {
			return true
		}
		overTrans, overGroup := false, false
		for _, it := range iteratedBy(call) {
			if isField(info, it, "lexergen/dfa", "State", "Transitions") {
				overTrans = true
				continue
			}
			if gc, ok := ast.Unparen(resolveVia(info, defs, it)).(*ast.CallExpr); ok {
				if fn := calleeFunc(info, gc); fn != nil && fn.Name() == "GetGroup" {
					overGroup = true
				}
			}
		}
		if overTrans && overGroup {
			okInputs = true
		}
		return true
	})
	if !okInputs && inputSet != nil {
		// the set is computed by a helper applied to the group's states: the same nesting inside
		// the helper, over its parameter, into the set it returns
		if hc, ok := ast.Unparen(defs[inputSet]).(*ast.CallExpr); ok && len(hc.Args) >= 1 {
			if hf := calleeFunc(info, hc); hf != nil && hf.Pkg() == pk.Types {
				if hd := p.funcDecls[hf.Origin()]; hd != nil && hd.Body != nil {
					argIsGroup := -1
					for i, a := range hc.Args {
						if gc, ok := ast.Unparen(resolveVia(info, defs, a)).(*ast.CallExpr); ok {
							if fn := calleeFunc(info, gc); fn != nil && fn.Name() == "GetGroup" {
								argIsGroup = i
							}
						}
					}
					if argIsGroup >= 0 {
						hparam := paramObj(info, hd, argIsGroup)
						hpar := parents(hd)
						var returned types.Object
						inspectNoLit(hd.Body, func(n ast.Node) bool {
							if rs, ok := n.(*ast.ReturnStmt); ok && len(rs.Results) == 1 {
								returned = usesObj(info, rs.Results[0])
							}
							return true
						})
						ast.Inspect(hd.Body, func(n ast.Node) bool {
							call, ok := n.(*ast.CallExpr)
							if !ok {
								return true
							}
							sel, ok := call.Fun.(*ast.SelectorExpr)
							if !ok || sel.Sel.Name != "Add" || returned == nil || usesObj(info, sel.X) != returned {
								return true
							}
							overTrans, overGroup := false, false
							for m := hpar[ast.Node(call)]; m != nil; m = hpar[m] {
								var it ast.Expr
								switch x := m.(type) {
								case *ast.RangeStmt:
									it = x.X
								case *ast.FuncLit:
									if c2, ok := hpar[x].(*ast.CallExpr); ok {
										if s2, ok := c2.Fun.(*ast.SelectorExpr); ok {
											it = s2.X
										}
									}
								}
								if it == nil {
									continue
								}
								if isField(info, it, "lexergen/dfa", "State", "Transitions") {
									overTrans = true
								} else if usesObj(info, it) == hparam && hparam != nil {
									overGroup = true
								}
							}
							if overTrans && overGroup {
								okInputs = true
							}
							return true
						})
					}
				}
			}
		}
	}
	c.check(okInputs, rule, "dfa.subPartition/inputs-of-all-states", p.Pos(sp.Pos()), "the inputs compared are those of every state of the group", "the inputs compared do not cover every state of the group")
}

func resolveLocalFn(info *types.Info, fd *ast.FuncDecl, e ast.Expr) ast.Expr {
	return resolveLocalIn(info, fd, e)
}

func compositeOf(e ast.Expr) *ast.CompositeLit {
	e = ast.Unparen(e)
	if u, ok := e.(*ast.UnaryExpr); ok {
		e = u.X
	}
	cl, _ := e.(*ast.CompositeLit)
	return cl
}

func kvOf(cl *ast.CompositeLit, key string) ast.Expr {
	for _, el := range cl.Elts {
		if kv, ok := el.(*ast.KeyValueExpr); ok && exprString(kv.Key) == key {
			return kv.Value
		}
	}
	return nil
}

// ---- LEX-7: interval splitting / merging keeps every piece ----

func ruleLEX7(c *Ctx) {
	const rule = "LEX-7"
	p := c.Prog
	pk, fd := p.FuncDecl("internal/lexergen/rang3", "Normalize")
	if fd == nil {
		c.unres(rule, "rang3.Normalize", "", "function not found")
		return
	}
	info := pk.TypesInfo
	nCases := 0
	ast.Inspect(fd.Body, func(n ast.Node) bool {
		cc, ok := n.(*ast.CaseClause)
		if !ok || cc.List == nil {
			return true
		}
		// pieces declared in this case
		var pieces []types.Object
		for _, s := range cc.Body {
			if as, ok := s.(*ast.AssignStmt); ok && as.Tok == token.DEFINE && len(as.Lhs) == 1 {
				if cl, ok := as.Rhs[0].(*ast.CompositeLit); ok && typeIs(info.TypeOf(cl), "lexergen/rang3", "Range") {
					pieces = append(pieces, info.Defs[as.Lhs[0].(*ast.Ident)])
				}
			}
		}
		if len(pieces) == 0 {
			return true
		}
		nCases++
		pushed := map[types.Object]bool{}
		for _, s := range cc.Body {
			ast.Inspect(s, func(m ast.Node) bool {
				if call, ok := m.(*ast.CallExpr); ok && len(call.Args) == 1 {
					if sel, ok := call.Fun.(*ast.SelectorExpr); ok && sel.Sel.Name == "Push" {
						pushed[usesObj(info, call.Args[0])] = true
					}
				}
				return true
			})
		}
		var missing []string
		for _, pc := range pieces {
			if !pushed[pc] {
				missing = append(missing, pc.Name())
			}
		}
		construct := "rang3.Normalize/case(" + truncate(exprString(cc.List[0]), 40) + ")"
		c.check(len(missing) == 0, rule, construct, p.Pos(cc.Pos()), fmt.Sprintf("all %d pieces produced by the split are put back on the heap", len(pieces)),
			fmt.Sprintf("piece(s) %v produced by the split are not put back on the heap: a later range overlapping them is never split against them and overlapping transitions reach the DFA", missing))
		return true
	})
	if nCases < 4 {
		c.unres(rule, "rang3.Normalize/cases", "", "only %d splitting cases found; the four geometric cases were confirmed by hand", nCases)
	}
	// Flatten: a merged range ends at the larger of the two ends
	pk2, fl := p.FuncDecl("internal/lexergen/rang3", "Flatten")
	if fl == nil {
		c.unres(rule, "rang3.Flatten", "", "function not found")
		return
	}
	info2 := pk2.TypesInfo
	okMax := false
	found := false
	fpar := parents(fl)
	ast.Inspect(fl.Body, func(n ast.Node) bool {
		cl, ok := n.(*ast.CompositeLit)
		if !ok || !typeIs(info2.TypeOf(cl), "lexergen/rang3", "Range") {
			return true
		}
		// built where the two ranges are known to touch
		touching := holds(pathConds(info2, fpar, cl), func(e ast.Expr, pos bool) bool {
			call, ok := ast.Unparen(e).(*ast.CallExpr)
			if !ok || !pos {
				return false
			}
			sel, ok := call.Fun.(*ast.SelectorExpr)
			return ok && sel.Sel.Name == "Touches"
		})
		if !touching {
			return true
		}
		found = true
		e := kvOf(cl, "E")
		if e == nil && len(cl.Elts) == 2 {
			e = cl.Elts[1]
		}
		if call, ok := e.(*ast.CallExpr); ok && len(call.Args) == 2 && isMaxFunc(p, pk2, fl, call) {
			a, b := exprString(call.Args[0]), exprString(call.Args[1])
			if strings.HasSuffix(a, ".E") && strings.HasSuffix(b, ".E") && a != b {
				okMax = true
			}
		}
		return true
	})
	if !found {
		c.unres(rule, "rang3.Flatten/merge", p.Pos(fl.Pos()), "the merge of touching ranges was not found")
		return
	}
	c.check(okMax, rule, "rang3.Flatten/merge", p.Pos(fl.Pos()), "two touching ranges merge into one ending at the larger end (the input is sorted by lower bound only)",
		"a merged range does not end at max(tip.E, r.E): a range nested inside the previous one shrinks it and code points are lost")
}

// ---- LEX-8: splitting a range keeps every owner of every piece ----

func ruleLEX8(c *Ctx) {
	const rule = "LEX-8"
	p := c.Prog
	pk, fd := p.FuncDecl("internal/lexergen/mode", "normalizeInputs")
	if fd == nil {
		c.unres(rule, "mode.normalizeInputs", "", "function not found")
		return
	}
	info := pk.TypesInfo
	// the callback handed to rang3.Normalize
	var cb *ast.FuncLit
	ast.Inspect(fd.Body, func(n ast.Node) bool {
		if call, ok := n.(*ast.CallExpr); ok && fullName(calleeFunc(info, call)) == modPath+"/internal/lexergen/rang3.Normalize" && len(call.Args) == 2 {
			cb, _ = call.Args[1].(*ast.FuncLit)
		}
		return true
	})
	if cb == nil {
		c.unres(rule, "mode.normalizeInputs/callback", p.Pos(fd.Pos()), "the split callback was not found")
		return
	}
	n, bad := 0, ""
	ast.Inspect(cb.Body, func(m ast.Node) bool {
		as, ok := m.(*ast.AssignStmt)
		if !ok || len(as.Lhs) != 1 {
			return true
		}
		ix, ok := as.Lhs[0].(*ast.IndexExpr)
		if !ok {
			return true
		}
		if _, isMap := info.TypeOf(ix.X).Underlying().(*types.Map); !isMap {
			return true
		}
		n++
		call, ok := as.Rhs[0].(*ast.CallExpr)
		if !ok || builtinName(info, call) != "append" || !sameExpr(call.Args[0], as.Lhs[0]) {
			bad = fmt.Sprintf("%s: `%s` overwrites the owners of a piece instead of appending to them: NFA states that already own an identical range lose their transition", p.Pos(as.Pos()), nodeText(as))
		}
		return true
	})
	c.check(bad == "" && n >= 3, rule, "mode.normalizeInputs/callback/owners-accumulate", p.Pos(cb.Pos()),
		fmt.Sprintf("all %d updates of the range->owners map append to the existing owners", n), bad)
	// every owner's transition on the original range is replaced by transitions on all pieces
	adds := findCalls(info, cb.Body, false, func(fn *types.Func, _ *ast.CallExpr) bool { return fn != nil && fn.Name() == "AddTransition" })
	rem := findCalls(info, cb.Body, false, func(fn *types.Func, _ *ast.CallExpr) bool { return fn != nil && fn.Name() == "Remove" })
	c.check(len(adds) == 3 && len(rem) >= 1, rule, "mode.normalizeInputs/callback/relabel", p.Pos(cb.Pos()),
		"the original transition is removed and re-added on each of the (up to three) pieces", fmt.Sprintf("the callback re-adds %d transitions and removes %d", len(adds), len(rem)))
}

// linearString renders a linear form deterministically: "<atom> <const>" for a single atom with
// coefficient 1 (the only shape element indices take), else a sorted sum.
func linearString(t map[string]int64, k int64) string {
	if len(t) == 0 {
		return fmt.Sprintf(" %d", k)
	}
	var atoms []string
	for a := range t {
		atoms = append(atoms, a)
	}
	sort.Strings(atoms)
	if len(atoms) == 1 && t[atoms[0]] == 1 {
		return fmt.Sprintf("%s %d", strings.ReplaceAll(atoms[0], " ", ""), k)
	}
	var parts []string
	for _, a := range atoms {
		parts = append(parts, fmt.Sprintf("%d*%s", t[a], strings.ReplaceAll(a, " ", "")))
	}
	return strings.Join(parts, "+") + fmt.Sprintf(" %d", k)
}

// isMaxFunc: the callee returns the larger of its two arguments (builtin max, a local closure or a
// package function of the shape `if a > b { return a }; return b`).
func isMaxFunc(p *Program, pk *packages.Package, scope ast.Node, call *ast.CallExpr) bool {
	info := pk.TypesInfo
	if builtinName(info, call) == "max" {
		return true
	}
	var ftype *ast.FuncType
	var body *ast.BlockStmt
	if fn := calleeFunc(info, call); fn != nil {
		if fd := p.funcDecls[fn.Origin()]; fd != nil {
			ftype, body = fd.Type, fd.Body
		}
	} else if id, ok := call.Fun.(*ast.Ident); ok {
		// local closure variable
		obj := info.Uses[id]
		ast.Inspect(scope, func(n ast.Node) bool {
			as, ok := n.(*ast.AssignStmt)
			if !ok || len(as.Lhs) != 1 || usesObj(info, as.Lhs[0]) != obj {
				return true
			}
			if fl, ok := as.Rhs[0].(*ast.FuncLit); ok {
				ftype, body = fl.Type, fl.Body
			}
			return true
		})
	}
	if ftype == nil || body == nil {
		return false
	}
	var ps []string
	for _, fld := range ftype.Params.List {
		for _, nm := range fld.Names {
			ps = append(ps, nm.Name)
		}
	}
	if len(ps) != 2 {
		return false
	}
	a, b := ps[0], ps[1]
	// find `if a OP b { return X } ... return Y`
	var cond *ast.BinaryExpr
	var thenRet, elseRet string
	for i, st := range body.List {
		ifs, ok := st.(*ast.IfStmt)
		if !ok {
			continue
		}
		be, ok := ifs.Cond.(*ast.BinaryExpr)
		if !ok || len(ifs.Body.List) != 1 {
			continue
		}
		r1, ok := ifs.Body.List[0].(*ast.ReturnStmt)
		if !ok || len(r1.Results) != 1 {
			continue
		}
		cond, thenRet = be, exprString(r1.Results[0])
		if blk, ok := ifs.Else.(*ast.BlockStmt); ok && len(blk.List) == 1 {
			if r2, ok := blk.List[0].(*ast.ReturnStmt); ok && len(r2.Results) == 1 {
				elseRet = exprString(r2.Results[0])
			}
		} else if i+1 < len(body.List) {
			if r2, ok := body.List[i+1].(*ast.ReturnStmt); ok && len(r2.Results) == 1 {
				elseRet = exprString(r2.Results[0])
			}
		}
	}
	if cond == nil {
		return false
	}
	l, r := exprString(cond.X), exprString(cond.Y)
	switch cond.Op {
	case token.GTR, token.GEQ: // l > r => then must return l, else r
		return ((l == a && r == b) || (l == b && r == a)) && thenRet == l && elseRet == r
	case token.LSS, token.LEQ: // l < r => then must return r
		return ((l == a && r == b) || (l == b && r == a)) && thenRet == r && elseRet == l
	}
	return false
}

// ---- LEX-9: the minimised DFA is wired before it is renumbered ----
//
// optimize builds one new state per group in a slice indexed by GROUP NUMBER, wires the
// transitions through that indexing, and only then moves the start group to index 0 and
// renumbers. Every read of the slice by group number must therefore precede the permutation, and
// the renumbering (ID = index) must follow it.
func ruleLEX9(c *Ctx) {
	const rule = "LEX-9"
	p := c.Prog
	pk, fd := p.FuncDecl("internal/lexergen/dfa", "optimize")
	if fd == nil {
		c.unres(rule, "dfa.optimize", "", "function not found")
		return
	}
	info := pk.TypesInfo
	// the slice that becomes d.States
	var ns types.Object
	var install ast.Stmt
	for _, st := range fd.Body.List {
		if as, ok := st.(*ast.AssignStmt); ok && len(as.Lhs) == 1 && isField(info, as.Lhs[0], "lexergen/dfa", "DFA", "States") {
			if o := usesObj(info, as.Rhs[0]); o != nil {
				ns, install = o, st
			}
		}
	}
	if ns == nil {
		c.unres(rule, "dfa.optimize/new-states", p.Pos(fd.Pos()), "the slice installed as d.States was not found")
		return
	}
	topIndex := func(n ast.Node) int {
		for i, st := range fd.Body.List {
			if containsNode(st, n) {
				return i
			}
		}
		return -1
	}
	par := parents(fd)
	isNS := func(e ast.Expr) bool {
		id, ok := ast.Unparen(e).(*ast.Ident)
		return ok && usesObj(info, id) == ns
	}
	mentionsNS := func(n ast.Node) bool {
		found := false
		ast.Inspect(n, func(m ast.Node) bool {
			if e, ok := m.(ast.Expr); ok && isNS(e) {
				found = true
			}
			return true
		})
		return found
	}
	// permutations: whole-element writes whose right-hand side reads the slice again
	var perms []*ast.AssignStmt
	// renumbering: NS[i].ID = f(i) inside a loop over NS
	var renum []*ast.AssignStmt
	type read struct {
		ix  *ast.IndexExpr
		top int
	}
	var reads []read
	ast.Inspect(fd.Body, func(n ast.Node) bool {
		switch x := n.(type) {
		case *ast.AssignStmt:
			for _, l := range x.Lhs {
				if ix, ok := ast.Unparen(l).(*ast.IndexExpr); ok && isNS(ix.X) {
					rhsReads := false
					for _, r := range x.Rhs {
						if mentionsNS(r) {
							rhsReads = true
						}
					}
					if rhsReads && (len(perms) == 0 || perms[len(perms)-1] != x) {
						perms = append(perms, x)
					}
				}
				if isField(info, l, "lexergen/dfa", "State", "ID") {
					if sel, ok := ast.Unparen(l).(*ast.SelectorExpr); ok {
						if ix, ok := ast.Unparen(sel.X).(*ast.IndexExpr); ok && isNS(ix.X) {
							renum = append(renum, x)
						}
						// `for i, s := range NS { s.ID = conv(i) }`
						for q := par[ast.Node(x)]; q != nil; q = par[q] {
							if rs, ok := q.(*ast.RangeStmt); ok && isNS(rs.X) && rs.Key != nil && rs.Value != nil &&
								usesObj(info, sel.X) == usesObj(info, rs.Value) && usesObj(info, stripConv(info, x.Rhs[0])) == usesObj(info, rs.Key) {
								renum = append(renum, x)
							}
						}
					}
				}
			}
		case *ast.IndexExpr:
			if !isNS(x.X) {
				return true
			}
			// skip the element being written as a whole and the permutation itself
			for q := par[x]; q != nil; q = par[q] {
				if as, ok := q.(*ast.AssignStmt); ok {
					for _, pm := range perms {
						if pm == as {
							return true
						}
					}
					for _, l := range as.Lhs {
						if ast.Unparen(l) == ast.Expr(x) {
							return true
						}
					}
					break
				}
			}
			reads = append(reads, read{x, topIndex(x)})
		}
		return true
	})
	if len(perms) == 0 {
		// no permutation at all: then the start group must already be group 0; not the shape of
		// this code base
		c.unres(rule, "dfa.optimize/start-first", p.Pos(fd.Pos()), "no statement moves the start group to index 0")
		return
	}
	isRenumRead := func(ix *ast.IndexExpr) bool {
		for _, r := range renum {
			if containsNode(r, ix) {
				return true
			}
		}
		return false
	}
	for _, pm := range perms {
		pt := topIndex(pm)
		var late []string
		n := 0
		for _, r := range reads {
			if isRenumRead(r.ix) {
				continue
			}
			n++
			if r.top >= pt {
				late = append(late, p.Pos(r.ix.Pos())+" `"+exprString(r.ix)+"`")
			}
		}
		if len(late) > 0 {
			c.bad(rule, "dfa.optimize/wire-before-permute", p.Pos(pm.Pos()), "the new states are permuted at %s, but the slice is still read by group number afterwards (%s): the groups whose slots were exchanged get each other's transitions", p.Pos(pm.Pos()), strings.Join(late, ", "))
		} else {
			c.ok(rule, "dfa.optimize/wire-before-permute", p.Pos(pm.Pos()), "all %d reads of the new-state slice by group number precede the statement that moves the start group to index 0", n)
		}
		okRenum := len(renum) > 0
		for _, r := range renum {
			if topIndex(r) <= pt || topIndex(r) >= topIndex(install) {
				okRenum = false
			}
		}
		c.check(okRenum, rule, "dfa.optimize/renumber-after-permute", p.Pos(pm.Pos()), "state IDs are assigned from the final positions, after the permutation and before the slice is installed", "state IDs are not (re)assigned from the final positions after the permutation: ID and index disagree, and the tables are indexed by ID")
	}
}

// pkgVarInit returns the initialiser of a package-level variable that is never assigned, has no
// field or element stored into, and whose address is never taken, anywhere in its package.
func pkgVarInit(p *Program, pk *packages.Package, o types.Object) ast.Expr {
	v, ok := o.(*types.Var)
	if !ok || v.Parent() != pk.Types.Scope() {
		return nil
	}
	info := pk.TypesInfo
	var init ast.Expr
	mutated := false
	for _, f := range pk.Syntax {
		ast.Inspect(f, func(n ast.Node) bool {
			switch x := n.(type) {
			case *ast.ValueSpec:
				for i, nm := range x.Names {
					if info.Defs[nm] == o && i < len(x.Values) {
						init = x.Values[i]
					}
				}
			case *ast.AssignStmt:
				for _, l := range x.Lhs {
					root := ast.Unparen(l)
					for {
						switch y := root.(type) {
						case *ast.SelectorExpr:
							if info.Selections[y] != nil {
								root = ast.Unparen(y.X)
								continue
							}
						case *ast.IndexExpr:
							root = ast.Unparen(y.X)
							continue
						}
						break
					}
					if usesObj(info, root) == o {
						mutated = true
					}
				}
			case *ast.UnaryExpr:
				if x.Op == token.AND && usesObj(info, x.X) == o {
					mutated = true
				}
			case *ast.IncDecStmt:
				if usesObj(info, x.X) == o {
					mutated = true
				}
			}
			return true
		})
	}
	if mutated {
		return nil
	}
	return init
}


// chainByPrevious recognises the other spelling of a chain over all elements: one loop over the
// terms that builds the current element, links it to the previous one when there is one, remembers
// the first, and makes the current the previous as its last, unconditional step:
//
//	for _, t := range Terms { cur := t.NFACons(ctx); if prev == nil { first = cur } else { prev.E -> cur.B }; prev = cur }
//	return {B: first.B, E: prev.E}
func chainByPrevious(info *types.Info, fd *ast.FuncDecl) bool {
	par := parents(fd)
	var loop *ast.RangeStmt
	ast.Inspect(fd.Body, func(n ast.Node) bool {
		if rs, ok := n.(*ast.RangeStmt); ok && loop == nil && rs.Value != nil {
			if fv, _ := selField(info, rs.X); fv != nil && fv.Name() == "Terms" {
				loop = rs
			}
		}
		return true
	})
	if loop == nil || len(loop.Body.List) == 0 {
		return false
	}
	elem := usesObj(info, loop.Value)
	// cur := <elem>.NFACons(...)
	var cur types.Object
	for _, st := range loop.Body.List {
		as, ok := st.(*ast.AssignStmt)
		if !ok || len(as.Lhs) != 1 || len(as.Rhs) != 1 {
			continue
		}
		call, ok := as.Rhs[0].(*ast.CallExpr)
		if !ok {
			continue
		}
		if sel, ok := call.Fun.(*ast.SelectorExpr); ok && sel.Sel.Name == "NFACons" && usesObj(info, sel.X) == elem {
			cur = usesObj(info, as.Lhs[0])
		}
	}
	if cur == nil {
		return false
	}
	// prev = cur as the last statement of the body, prev declared outside the loop
	last, ok := loop.Body.List[len(loop.Body.List)-1].(*ast.AssignStmt)
	if !ok || len(last.Lhs) != 1 || len(last.Rhs) != 1 || last.Tok != token.ASSIGN || usesObj(info, last.Rhs[0]) != cur {
		return false
	}
	prev := usesObj(info, last.Lhs[0])
	if prev == nil || (prev.Pos() >= loop.Pos() && prev.Pos() <= loop.End()) {
		return false
	}
	// no other assignment of prev inside the loop
	nPrev := 0
	ast.Inspect(loop.Body, func(n ast.Node) bool {
		if as, ok := n.(*ast.AssignStmt); ok {
			for _, l := range as.Lhs {
				if usesObj(info, l) == prev {
					nPrev++
				}
			}
		}
		return true
	})
	if nPrev != 1 {
		return false
	}
	nilFact := func(n ast.Node, v types.Object, wantNil bool) bool {
		return holds(pathConds(info, par, n), func(e ast.Expr, pos bool) bool {
			l, op, r, ok := cmpFact(e, pos)
			if !ok || (op != token.EQL && op != token.NEQ) {
				return false
			}
			isNil := func(x ast.Expr) bool { id, ok := ast.Unparen(x).(*ast.Ident); return ok && id.Name == "nil" }
			if (usesObj(info, l) == v && isNil(r)) || (usesObj(info, r) == v && isNil(l)) {
				return (op == token.EQL) == wantNil
			}
			return false
		})
	}
	// exactly one AddTransition in the function: prev.E -> cur.B (eps) where prev != nil
	links := 0
	okLink := false
	ast.Inspect(fd.Body, func(n ast.Node) bool {
		call, ok := n.(*ast.CallExpr)
		if !ok {
			return true
		}
		sel, ok := call.Fun.(*ast.SelectorExpr)
		if !ok || sel.Sel.Name != "AddTransition" || len(call.Args) != 2 {
			return true
		}
		links++
		from, ok1 := ast.Unparen(sel.X).(*ast.SelectorExpr)
		to, ok2 := ast.Unparen(call.Args[0]).(*ast.SelectorExpr)
		if ok1 && ok2 && from.Sel.Name == "E" && to.Sel.Name == "B" && usesObj(info, from.X) == prev && usesObj(info, to.X) == cur &&
			strings.HasSuffix(exprString(call.Args[1]), "Epsilon") && containsNode(loop.Body, call) && nilFact(call, prev, false) {
			okLink = true
		}
		return true
	})
	if links != 1 || !okLink {
		return false
	}
	// first = cur exactly where there is no previous element
	var first types.Object
	ast.Inspect(loop.Body, func(n ast.Node) bool {
		as, ok := n.(*ast.AssignStmt)
		if !ok || len(as.Lhs) != 1 || len(as.Rhs) != 1 || as == last || usesObj(info, as.Rhs[0]) != cur {
			return true
		}
		if o := usesObj(info, as.Lhs[0]); o != nil && o != prev && (nilFact(as, prev, true) || nilFact(as, o, true)) {
			first = o
		}
		return true
	})
	if first == nil {
		return false
	}
	// result: {B: first.B, E: prev.E}
	okRet := false
	ast.Inspect(fd.Body, func(n ast.Node) bool {
		if rs, ok := n.(*ast.ReturnStmt); ok && len(rs.Results) == 1 && rs.Pos() > loop.End() {
			if cl := compositeOf(rs.Results[0]); cl != nil {
				b, e := kvOf(cl, "B"), kvOf(cl, "E")
				bs, ok1 := ast.Unparen(b).(*ast.SelectorExpr)
				es, ok2 := ast.Unparen(e).(*ast.SelectorExpr)
				if b != nil && e != nil && ok1 && ok2 && bs.Sel.Name == "B" && es.Sel.Name == "E" && usesObj(info, bs.X) == first && usesObj(info, es.X) == prev {
					okRet = true
				}
			}
		}
		return true
	})
	return okRet
}


// cardsFromTable: the token => constant mapping of a front-end action written as a lookup in a
// constant table keyed by the token's type.
func cardsFromTable(p *Program, pk *packages.Package, fd *ast.FuncDecl, spell map[types.Object]string, out map[string]*types.Const) {
	info := pk.TypesInfo
	ast.Inspect(fd.Body, func(n ast.Node) bool {
		ix, ok := n.(*ast.IndexExpr)
		if !ok {
			return true
		}
		key, entries, ok := constTable(p, pk, ix)
		if !ok {
			return true
		}
		if sel, isSel := ast.Unparen(key).(*ast.SelectorExpr); !isSel || sel.Sel.Name != "Type" {
			return true
		}
		for _, en := range entries {
			if k, isK := usesObj(info, en.Val).(*types.Const); isK && en.Key != nil && spell[en.Key] != "" {
				out[spell[en.Key]] = k
			}
		}
		return true
	})
}

// ---- LEX-3 (offsets): the reader looks at the current state's row only ----
//
// Every read of the mode table in PushRune is at an offset computed in this call from the row of
// the current state (mode[state], the row header, the bisection variables, constants). An offset
// kept in a field of the state machine from an earlier call (a "last transition" cache) refers to a
// row of whatever table was current then: after a mode switch, or simply in another row that
// overlaps it, it reads three unrelated words as a transition.
func ruleLEX3offsets(c *Ctx, rule string) {
	ta := c.tmplOrUnres(rule)
	if ta == nil {
		return
	}
	ti := ta.Variants[0]
	info := ti.Info
	r := findLexerReader(ti)
	if r == nil {
		c.unres(rule, "template/PushRune/table-offsets", "", "reader not found")
		return
	}
	recv := types.Object(nil)
	if r.fd.Recv != nil && len(r.fd.Recv.List) == 1 && len(r.fd.Recv.List[0].Names) == 1 {
		recv = info.Defs[r.fd.Recv.List[0].Names[0]]
	}
	// fields of the receiver that may feed an offset: the state number (it selects the row)
	allowedField := func(fv *types.Var) bool { return fv != nil && fv.Name() == "state" }
	// locals tainted by another receiver field, transitively
	tainted := map[types.Object]string{}
	fieldIn := func(e ast.Expr) string {
		out := ""
		ast.Inspect(e, func(m ast.Node) bool {
			if sel, ok := m.(*ast.SelectorExpr); ok && out == "" {
				if fv, base := selField(info, sel); fv != nil && base != nil && recv != nil && usesObj(info, base) == recv && !allowedField(fv) {
					if _, isSlice := fv.Type().Underlying().(*types.Slice); !isSlice { // the mode table itself is not an offset
						out = fv.Name()
					}
				}
			}
			if id, ok := m.(*ast.Ident); ok && out == "" {
				if f, ok := tainted[info.Uses[id]]; ok {
					out = f
				}
			}
			return true
		})
		return out
	}
	for changed := true; changed; {
		changed = false
		ast.Inspect(r.fd.Body, func(m ast.Node) bool {
			as, ok := m.(*ast.AssignStmt)
			if !ok {
				return true
			}
			for i, l := range as.Lhs {
				id, isId := ast.Unparen(l).(*ast.Ident)
				if !isId {
					continue
				}
				o := info.Defs[id]
				if o == nil {
					o = info.Uses[id]
				}
				if o == nil || tainted[o] != "" {
					continue
				}
				var rhs ast.Expr
				if len(as.Rhs) == len(as.Lhs) {
					rhs = as.Rhs[i]
				} else if len(as.Rhs) == 1 {
					rhs = as.Rhs[0]
				}
				if rhs != nil {
					if f := fieldIn(rhs); f != "" {
						tainted[o] = f
						changed = true
					}
				}
			}
			return true
		})
	}
	n, bad := 0, 0
	ast.Inspect(r.fd.Body, func(m ast.Node) bool {
		ix, ok := m.(*ast.IndexExpr)
		if !ok || r.modeVar == nil || usesObj(info, ix.X) != r.modeVar {
			return true
		}
		n++
		if f := fieldIn(ix.Index); f != "" {
			bad++
			c.bad(rule, "template/PushRune/table-offsets", ti.Pos(ix.Pos()), "`%s` reads the mode table at an offset that comes from the field `%s`, i.e. from an earlier call: it is not tied to the row of the current state of the current mode (after @push_mode/@pop_mode, or in an overlapping row, three unrelated words are read as a transition)", exprString(ix), f)
		}
		return true
	})
	if n < 6 {
		c.unres(rule, "template/PushRune/table-reads", ti.Pos(r.fd.Pos()), "only %d reads of the mode table found in PushRune", n)
	} else if bad == 0 {
		c.ok(rule, "template/PushRune/table-offsets", ti.Pos(r.fd.Pos()), "all %d reads of the mode table use offsets computed in this call from the current state's row", n)
	}
}

// ---- LEX-1 (fresh fragments): every use of a term builds its own NFA fragment ----
//
// Thompson's construction composes fragments by adding ε-edges to their begin and end states. That
// is sound only if each occurrence of a term owns its states: a fragment kept in a field or map of
// an AST node (a memo) and handed to two occurrences lets a match enter through one occurrence and
// leave through the other, so the mode accepts strings no rule defines. No production code of
// internal/ast may therefore store an NFAComposite (or a slice/map of them) in a struct field or a
// map; locals are fine.
func ruleLEX1fresh(c *Ctx, rule string) {
	p := c.Prog
	pk := p.Pkg("internal/ast")
	if pk == nil {
		c.unres(rule, "internal/ast", "", "package not found")
		return
	}
	info := pk.TypesInfo
	holdsFragment := func(t types.Type) bool {
		for i := 0; i < 3 && t != nil; i++ {
			if typeIs(t, "lexergen/mode", "NFAComposite") {
				return true
			}
			switch u := t.Underlying().(type) {
			case *types.Pointer:
				t = u.Elem()
			case *types.Slice:
				t = u.Elem()
			case *types.Map:
				t = u.Elem()
			default:
				return false
			}
		}
		return false
	}
	n, bad := 0, 0
	for _, f := range pk.Syntax {
		if isTestFile(p.Fset, f) {
			continue
		}
		for _, d := range f.Decls {
			fd, ok := d.(*ast.FuncDecl)
			if !ok || fd.Body == nil {
				continue
			}
			ast.Inspect(fd.Body, func(m ast.Node) bool {
				as, ok := m.(*ast.AssignStmt)
				if !ok {
					return true
				}
				for i, l := range as.Lhs {
					var rhsT types.Type
					if len(as.Rhs) == len(as.Lhs) {
						rhsT = info.TypeOf(as.Rhs[i])
					} else if len(as.Rhs) == 1 {
						rhsT = info.TypeOf(l)
					}
					if rhsT == nil || !holdsFragment(rhsT) {
						continue
					}
					n++
					kept := ""
					switch x := ast.Unparen(l).(type) {
					case *ast.SelectorExpr:
						if fv, _ := selField(info, x); fv != nil && !typeIs(info.TypeOf(x.X), "lexergen/mode", "NFAComposite") {
							kept = "field " + fv.Name()
						}
					case *ast.IndexExpr:
						if _, isMap := info.TypeOf(x.X).Underlying().(*types.Map); isMap {
							kept = "map " + exprString(x.X)
						}
					}
					if kept != "" {
						bad++
						c.bad(rule, funcKey(pk, fd)+"/fragment-kept", p.Pos(as.Pos()), "an NFA fragment is stored in %s for reuse: two occurrences of the term then share states, so a match can enter through one occurrence and leave through the other (the mode accepts strings no rule defines)", kept)
					}
				}
				return true
			})
		}
	}
	if bad == 0 {
		c.ok(rule, "ast/fresh-fragments", "", "%d assignments of NFA fragments examined in internal/ast: all to locals; every occurrence of a term builds its own states", n)
	}
}
