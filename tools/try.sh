#!/bin/bash
# usage: tools/try.sh <patch-id> <props>   - keeps a worktree /tmp/try/<id> for iteration; prints violations
id=$1; props=${2:-all}
d=/verif/refactors/$id; [ -d $d ] || d=/verif/seeded/$id
wt=/tmp/try/$id
if [ ! -d $wt ]; then mkdir -p /tmp/try; git -C /repo worktree add -q --detach $wt HEAD; git -C $wt apply $d/patch.diff || exit 2; fi
mkdir -p /tmp/tryv; cp -r /verif/fixtures /verif/known_findings.json /verif/properties.jsonl /tmp/tryv/ 2>/dev/null
cd /verif && bin/loxcheck -props $props -repo $wt -verif /tmp/tryv 2>&1 | grep -E "^  [A-Z]|^==|panic" | grep -v "rc=0" | cut -c1-${W:-600}
