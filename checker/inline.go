package main

// Helper inlining: a normal form for the functions the shape rules look at.
//
// "Extract method" is the most common behaviour-preserving edit, and it moves exactly the
// statements the reader-side rules recognise out of the function they look in. Instead of teaching
// every rule to follow calls, the functions of a template instance are analysed in a normal form
// in which calls to helpers declared in the same instance are replaced by the helper's body. Only
// call shapes whose inlining is exact at the statement level are expanded:
//
//   P1  h(args)                                  void helper without early return
//   P2  x, y := h(args)   /  x = h(args)         helper whose only return is its last statement
//   P3  if v, ok := h(args); ok { BODY }         helper returning (…, true) anywhere and (…, false)
//       if h(args) { BODY }                      only as its last statement; BODY ends in return/panic
//       if !h(args) { BODY }                     the mirror image: (…, false) anywhere, (…, true) last
//   P4  return h(args)                           helper's results are the caller's results
//
// Anything else stays a call (and the rules that need to look further follow it themselves).
// Inlined statements keep the positions of the helper's source, so reports point at the real code;
// helper locals get fresh objects and suffixed names, parameters are substituted when the argument
// is a plain variable or field and bound to a fresh local otherwise.

import (
	"fmt"
	"go/ast"
	"go/printer"
	"go/token"
	"go/types"
	"os"
	"reflect"
)

// inlineKeep: the functions the rules anchor on by name. They are the vocabulary of the generated
// runtime, not extracted helpers, and stay calls.
var inlineKeep = map[string]bool{
	"PushRune": true, "Reset": true, "Token": true, "_Find": true, "_TokenToString": true, "_act": true,
	"_cast": true, "_makeError": true, "_readToken": true, "_recover": true, "parse": true,
	"recoverLookahead": true, "Push": true, "Pop": true, "Peek": true, "PeekSlice": true,
}

type inliner struct {
	keep  map[*ast.FuncDecl]bool // declarations of the synthetic prelude
	info  *types.Info
	pkg   *types.Package
	decls map[*types.Func]*ast.FuncDecl
	fresh int
	stack map[*ast.FuncDecl]bool
	count int // number of call sites expanded
}

var (
	nodeType = reflect.TypeOf((*ast.Node)(nil)).Elem()
)

// cloneAST deep-copies n. subst may replace a node (no descent into it); pair is told every
// (old, new) couple.
func cloneAST(n ast.Node, subst func(old ast.Node) ast.Node, pair func(old, new ast.Node)) ast.Node {
	if n == nil || reflect.ValueOf(n).IsNil() {
		return n
	}
	if subst != nil {
		if r := subst(n); r != nil {
			return r
		}
	}
	ov := reflect.ValueOf(n)
	if ov.Kind() != reflect.Ptr || ov.Elem().Kind() != reflect.Struct {
		return n
	}
	nv := reflect.New(ov.Elem().Type())
	for i := 0; i < ov.Elem().NumField(); i++ {
		of, nf := ov.Elem().Field(i), nv.Elem().Field(i)
		ft := ov.Elem().Type().Field(i)
		if ft.Name == "Obj" || ft.Name == "Scope" || ft.Name == "Unresolved" {
			continue // deprecated resolver links
		}
		nf.Set(cloneValue(of, subst, pair))
	}
	out := nv.Interface().(ast.Node)
	if pair != nil {
		pair(n, out)
	}
	return out
}

func cloneValue(v reflect.Value, subst func(ast.Node) ast.Node, pair func(old, new ast.Node)) reflect.Value {
	switch v.Kind() {
	case reflect.Interface:
		if v.IsNil() {
			return v
		}
		if n, ok := v.Interface().(ast.Node); ok {
			c := cloneAST(n, subst, pair)
			out := reflect.New(v.Type()).Elem()
			out.Set(reflect.ValueOf(c))
			return out
		}
		return v
	case reflect.Ptr:
		if v.IsNil() {
			return v
		}
		if v.Type().Implements(nodeType) {
			c := cloneAST(v.Interface().(ast.Node), subst, pair)
			cv := reflect.ValueOf(c)
			if cv.Type().AssignableTo(v.Type()) {
				return cv
			}
			return v
		}
		return v
	case reflect.Slice:
		if v.IsNil() {
			return v
		}
		out := reflect.MakeSlice(v.Type(), v.Len(), v.Len())
		for i := 0; i < v.Len(); i++ {
			out.Index(i).Set(cloneValue(v.Index(i), subst, pair))
		}
		return out
	}
	return v
}

// copyInfo transfers the type information of old to its clone.
func (in *inliner) copyInfo(old, new ast.Node) {
	info := in.info
	if oe, ok := old.(ast.Expr); ok {
		ne := new.(ast.Expr)
		if tv, ok := info.Types[oe]; ok {
			info.Types[ne] = tv
		}
	}
	switch o := old.(type) {
	case *ast.Ident:
		n := new.(*ast.Ident)
		if obj, ok := info.Defs[o]; ok {
			info.Defs[n] = obj
		}
		if obj, ok := info.Uses[o]; ok {
			info.Uses[n] = obj
		}
		if inst, ok := info.Instances[o]; ok {
			info.Instances[n] = inst
		}
	case *ast.SelectorExpr:
		if s, ok := info.Selections[o]; ok {
			info.Selections[new.(*ast.SelectorExpr)] = s
		}
	}
	if imp, ok := info.Implicits[old]; ok {
		info.Implicits[new] = imp
	}
}

func (in *inliner) clone(n ast.Node, subst func(ast.Node) ast.Node) ast.Node {
	return cloneAST(n, subst, in.copyInfo)
}

// normalize returns a copy of fd with helper calls expanded.
func (in *inliner) normalize(fd *ast.FuncDecl) *ast.FuncDecl {
	out := in.clone(fd, nil).(*ast.FuncDecl)
	if in.stack == nil {
		in.stack = map[*ast.FuncDecl]bool{}
	}
	in.stack[fd] = true
	for round := 0; round < 4; round++ {
		if !in.expandIn(out.Body) {
			break
		}
	}
	delete(in.stack, fd)
	return out
}

// stmtLists applies f to every statement list under root (not inside function literals), letting
// it return a replacement list.
func stmtLists(root ast.Node, f func(list []ast.Stmt) []ast.Stmt) {
	ast.Inspect(root, func(n ast.Node) bool {
		switch x := n.(type) {
		case *ast.FuncLit:
			return false
		case *ast.BlockStmt:
			x.List = f(x.List)
		case *ast.CaseClause:
			x.Body = f(x.Body)
		case *ast.CommClause:
			x.Body = f(x.Body)
		}
		return true
	})
}

func (in *inliner) helperOf(call *ast.CallExpr) *ast.FuncDecl {
	fn := calleeFunc(in.info, call)
	if fn == nil {
		return nil
	}
	h := in.decls[fn.Origin()]
	if h == nil || h.Body == nil || in.stack[h] || inlineKeep[fn.Name()] || in.keep[h] {
		return nil
	}
	if fn.Type().(*types.Signature).TypeParams() != nil || fn.Type().(*types.Signature).RecvTypeParams() != nil {
		return nil // generic helpers (the stack type, _cast, …) are part of the vocabulary, not extracted code
	}
	// recursion
	rec := false
	ast.Inspect(h.Body, func(n ast.Node) bool {
		if c2, ok := n.(*ast.CallExpr); ok && calleeFunc(in.info, c2) == fn {
			rec = true
		}
		return true
	})
	if rec {
		return nil
	}
	return h
}

// returnsOf lists the return statements of body (not inside function literals) and whether each
// is the last top-level statement.
func returnsOf(body *ast.BlockStmt) (rets []*ast.ReturnStmt, last *ast.ReturnStmt) {
	inspectNoLit(body, func(n ast.Node) bool {
		if rs, ok := n.(*ast.ReturnStmt); ok {
			rets = append(rets, rs)
		}
		return true
	})
	if n := len(body.List); n > 0 {
		last, _ = body.List[n-1].(*ast.ReturnStmt)
	}
	return
}

// usesNamedResults: the helper reads or writes its named results (or uses a bare return).
func (in *inliner) usesNamedResults(h *ast.FuncDecl) bool {
	if h.Type.Results == nil {
		return false
	}
	named := map[types.Object]bool{}
	for _, f := range h.Type.Results.List {
		for _, nm := range f.Names {
			if nm.Name != "_" {
				named[in.info.Defs[nm]] = true
			}
		}
	}
	if len(named) == 0 {
		return false
	}
	used := false
	ast.Inspect(h.Body, func(n ast.Node) bool {
		switch x := n.(type) {
		case *ast.Ident:
			if named[in.info.Uses[x]] {
				used = true
			}
		case *ast.ReturnStmt:
			if len(x.Results) == 0 {
				used = true
			}
		}
		return true
	})
	return used
}

// endsInReturnOrPanic: the list always leaves the function at its end (no break/continue, whose
// target would change when the list is moved into the helper's loops).
func endsInReturnOrPanic(info *types.Info, list []ast.Stmt) bool {
	if len(list) == 0 {
		return false
	}
	hasBranch := false
	for _, s := range list {
		inspectNoLit(s, func(n ast.Node) bool {
			if b, ok := n.(*ast.BranchStmt); ok && (b.Tok == token.BREAK || b.Tok == token.CONTINUE || b.Tok == token.GOTO) {
				hasBranch = true
			}
			return true
		})
	}
	if hasBranch {
		return false
	}
	switch x := list[len(list)-1].(type) {
	case *ast.ReturnStmt:
		return true
	case *ast.ExprStmt:
		if call, ok := x.X.(*ast.CallExpr); ok {
			return builtinName(info, call) == "panic"
		}
	}
	return false
}

// bind prepares the parameter/receiver/local renaming for one expansion of h at call and returns
// the prologue statements (bindings of non-trivial arguments) and the substitution to clone with.
func (in *inliner) bind(h *ast.FuncDecl, call *ast.CallExpr, adopt map[types.Object]*types.Var) (prologue []ast.Stmt, subst func(ast.Node) ast.Node, ok bool) {
	info := in.info
	in.fresh++
	suffix := fmt.Sprintf("ʹ%d", in.fresh)
	repl := map[types.Object]ast.Expr{}     // parameter => argument expression (cloned per use)
	rename := map[types.Object]*types.Var{} // helper local/param => fresh variable
	for o, v := range adopt {
		rename[o] = v // a helper local that becomes the caller's own variable
	}
	assigned := map[types.Object]bool{}
	ast.Inspect(h.Body, func(n ast.Node) bool {
		switch x := n.(type) {
		case *ast.AssignStmt:
			for _, l := range x.Lhs {
				if id, ok := ast.Unparen(l).(*ast.Ident); ok {
					if o := info.Uses[id]; o != nil {
						assigned[o] = true
					}
				}
			}
		case *ast.IncDecStmt:
			if id, ok := ast.Unparen(x.X).(*ast.Ident); ok {
				assigned[info.Uses[id]] = true
			}
		case *ast.UnaryExpr:
			if x.Op == token.AND {
				if id, ok := ast.Unparen(x.X).(*ast.Ident); ok {
					assigned[info.Uses[id]] = true
				}
			}
		}
		return true
	})
	simple := func(e ast.Expr) bool {
		switch x := ast.Unparen(e).(type) {
		case *ast.Ident:
			return true
		case *ast.SelectorExpr:
			_, isId := ast.Unparen(x.X).(*ast.Ident)
			return isId && info.Selections[x] != nil && info.Selections[x].Kind() == types.FieldVal
		case *ast.BasicLit:
			return true
		case *ast.CallExpr:
			// a conversion of a plain variable
			if tv, ok := info.Types[x.Fun]; ok && tv.IsType() && len(x.Args) == 1 {
				_, isId := ast.Unparen(x.Args[0]).(*ast.Ident)
				return isId
			}
		}
		return false
	}
	bindOne := func(nm *ast.Ident, arg ast.Expr) {
		po := info.Defs[nm]
		if po == nil || nm.Name == "_" {
			return
		}
		if simple(arg) && !assigned[po] {
			// the argument must not be reassigned by the helper either: plain locals of the
			// caller cannot be (different scope); fields could, so only identifiers/literals
			// and fields of an identifier are substituted, and only for parameters the helper
			// never writes
			repl[po] = arg
			return
		}
		v := types.NewVar(nm.Pos(), in.pkg, nm.Name+suffix, po.Type())
		rename[po] = v
		id := &ast.Ident{NamePos: nm.Pos(), Name: v.Name()}
		info.Defs[id] = v
		prologue = append(prologue, &ast.AssignStmt{Lhs: []ast.Expr{id}, TokPos: nm.Pos(), Tok: token.DEFINE, Rhs: []ast.Expr{arg}})
	}
	// receiver
	if h.Recv != nil && len(h.Recv.List) == 1 && len(h.Recv.List[0].Names) == 1 {
		sel, isSel := ast.Unparen(call.Fun).(*ast.SelectorExpr)
		if !isSel {
			return nil, nil, false
		}
		bindOne(h.Recv.List[0].Names[0], sel.X)
	}
	// parameters
	i := 0
	if h.Type.Params != nil {
		for _, f := range h.Type.Params.List {
			if _, variadic := f.Type.(*ast.Ellipsis); variadic {
				return nil, nil, false
			}
			if len(f.Names) == 0 {
				i++
				continue
			}
			for _, nm := range f.Names {
				if i >= len(call.Args) {
					return nil, nil, false
				}
				bindOne(nm, call.Args[i])
				i++
			}
		}
	}
	if i != len(call.Args) {
		return nil, nil, false
	}
	// helper locals (everything defined inside the body)
	ast.Inspect(h.Body, func(n ast.Node) bool {
		if id, ok := n.(*ast.Ident); ok {
			if o, ok := info.Defs[id].(*types.Var); ok && o != nil && !o.IsField() && rename[o] == nil && id.Name != "_" {
				rename[o] = types.NewVar(o.Pos(), in.pkg, o.Name()+suffix, o.Type())
			}
		}
		return true
	})
	subst = func(old ast.Node) ast.Node {
		id, ok := old.(*ast.Ident)
		if !ok {
			return nil
		}
		if o := info.Uses[id]; o != nil {
			if a, ok := repl[o]; ok {
				// the copy sits where the parameter was used (rules order statements by position)
				c := in.clone(a, nil)
				ast.Inspect(c, func(m ast.Node) bool {
					switch y := m.(type) {
					case *ast.Ident:
						y.NamePos = id.NamePos
					case *ast.BasicLit:
						y.ValuePos = id.NamePos
					}
					return true
				})
				return c
			}
			if v, ok := rename[o]; ok {
				nid := &ast.Ident{NamePos: id.NamePos, Name: v.Name()}
				info.Uses[nid] = v
				return nid
			}
		}
		if o := info.Defs[id]; o != nil {
			if v, ok := rename[o]; ok {
				nid := &ast.Ident{NamePos: id.NamePos, Name: v.Name()}
				info.Defs[nid] = v
				return nid
			}
		}
		return nil
	}
	return prologue, subst, true
}

// expandIn performs one round of expansions under root; reports whether anything changed.
func (in *inliner) expandIn(root ast.Node) bool {
	changed := false
	info := in.info
	stmtLists(root, func(list []ast.Stmt) []ast.Stmt {
		var out []ast.Stmt
		for _, st := range list {
			rep := in.expandStmt(st)
			if rep == nil {
				out = append(out, st)
				continue
			}
			changed = true
			in.count++
			out = append(out, rep...)
		}
		_ = info
		return out
	})
	return changed
}

func (in *inliner) expandStmt(st ast.Stmt) []ast.Stmt {
	info := in.info
	if in.count > 200 {
		return nil
	}
	switch x := st.(type) {
	case *ast.ExprStmt: // P1
		call, ok := ast.Unparen(x.X).(*ast.CallExpr)
		if !ok {
			return nil
		}
		h := in.helperOf(call)
		if h == nil || (h.Type.Results != nil && len(h.Type.Results.List) > 0) {
			return nil
		}
		rets, last := returnsOf(h.Body)
		if len(rets) > 1 || (len(rets) == 1 && rets[0] != last) {
			return nil
		}
		pro, subst, ok := in.bind(h, call, nil)
		if !ok {
			return nil
		}
		in.stack[h] = true
		body := in.clone(h.Body, subst).(*ast.BlockStmt)
		delete(in.stack, h)
		l := body.List
		if len(l) > 0 {
			if _, isRet := l[len(l)-1].(*ast.ReturnStmt); isRet {
				l = l[:len(l)-1]
			}
		}
		return append(pro, l...)
	case *ast.AssignStmt: // P2
		if len(x.Rhs) != 1 {
			return nil
		}
		call, ok := ast.Unparen(x.Rhs[0]).(*ast.CallExpr)
		if !ok {
			return nil
		}
		h := in.helperOf(call)
		if h == nil || in.usesNamedResults(h) {
			return nil
		}
		rets, last := returnsOf(h.Body)
		if len(rets) != 1 || rets[0] != last || len(last.Results) != len(x.Lhs) {
			return nil
		}
		// `v := h()` where h returns one of its own top-level locals: that local becomes v itself
		// (no alias is introduced)
		adopt := map[types.Object]*types.Var{}
		adopted := map[int]bool{}
		if x.Tok == token.DEFINE {
			topLocal := map[types.Object]bool{}
			for _, st := range h.Body.List {
				switch y := st.(type) {
				case *ast.AssignStmt:
					if y.Tok == token.DEFINE {
						for _, lh := range y.Lhs {
							if id, ok := lh.(*ast.Ident); ok && info.Defs[id] != nil {
								topLocal[info.Defs[id]] = true
							}
						}
					}
				case *ast.DeclStmt:
					ast.Inspect(y, func(m ast.Node) bool {
						if vs, ok := m.(*ast.ValueSpec); ok {
							for _, nm := range vs.Names {
								if info.Defs[nm] != nil {
									topLocal[info.Defs[nm]] = true
								}
							}
						}
						return true
					})
				}
			}
			for i, r := range last.Results {
				rid, ok1 := ast.Unparen(r).(*ast.Ident)
				lid, ok2 := x.Lhs[i].(*ast.Ident)
				if !ok1 || !ok2 || lid.Name == "_" {
					continue
				}
				ro := info.Uses[rid]
				lv, isVar := info.Defs[lid].(*types.Var)
				if ro != nil && topLocal[ro] && isVar && adopt[ro] == nil {
					adopt[ro] = lv
					adopted[i] = true
				}
			}
		}
		pro, subst, ok := in.bind(h, call, adopt)
		if !ok {
			return nil
		}
		body := in.clone(h.Body, subst).(*ast.BlockStmt)
		l := body.List
		ret := l[len(l)-1].(*ast.ReturnStmt)
		l = l[:len(l)-1]
		var lhs2, rhs2 []ast.Expr
		for i := range x.Lhs {
			if adopted[i] {
				continue
			}
			lhs2 = append(lhs2, x.Lhs[i])
			rhs2 = append(rhs2, ret.Results[i])
		}
		out := append(pro, l...)
		if len(lhs2) > 0 {
			out = append(out, &ast.AssignStmt{Lhs: lhs2, TokPos: x.TokPos, Tok: x.Tok, Rhs: rhs2})
		}
		return out
	case *ast.ReturnStmt: // P4
		if len(x.Results) != 1 {
			return nil
		}
		call, ok := ast.Unparen(x.Results[0]).(*ast.CallExpr)
		if !ok {
			return nil
		}
		h := in.helperOf(call)
		if h == nil || in.usesNamedResults(h) || h.Type.Results == nil {
			return nil
		}
		_, last := returnsOf(h.Body)
		if last == nil {
			return nil
		}
		pro, subst, ok := in.bind(h, call, nil)
		if !ok {
			return nil
		}
		body := in.clone(h.Body, subst).(*ast.BlockStmt)
		return append(pro, body.List...)
	case *ast.IfStmt: // P3
		if x.Else != nil || !endsInReturnOrPanic(info, x.Body.List) {
			return nil
		}
		var call *ast.CallExpr
		var lhs []ast.Expr
		var tok token.Token
		bodyFlag, fallFlag := "true", "false"
		if x.Init != nil {
			as, ok := x.Init.(*ast.AssignStmt)
			if !ok || len(as.Rhs) != 1 || as.Tok != token.DEFINE {
				return nil
			}
			call, _ = ast.Unparen(as.Rhs[0]).(*ast.CallExpr)
			lhs, tok = as.Lhs, as.Tok
			// the condition is the last variable, possibly negated
			cond := ast.Unparen(x.Cond)
			if u, isNot := cond.(*ast.UnaryExpr); isNot && u.Op == token.NOT {
				cond = ast.Unparen(u.X)
				bodyFlag, fallFlag = "false", "true"
			}
			if call == nil || len(lhs) == 0 || usesObj(info, cond) == nil || usesObj(info, cond) != usesObj(info, lhs[len(lhs)-1]) {
				return nil
			}
		} else {
			cond := ast.Unparen(x.Cond)
			if u, isNot := cond.(*ast.UnaryExpr); isNot && u.Op == token.NOT {
				// if !h(args) { BODY }: BODY replaces the `return false`s, `return true` falls through
				cond = ast.Unparen(u.X)
				bodyFlag, fallFlag = "false", "true"
			}
			call, _ = cond.(*ast.CallExpr)
		}
		if call == nil {
			return nil
		}
		h := in.helperOf(call)
		if h == nil || in.usesNamedResults(h) || h.Type.Results == nil {
			return nil
		}
		rets, last := returnsOf(h.Body)
		if last == nil || len(rets) < 2 {
			return nil
		}
		nRes := len(last.Results)
		if nRes == 0 || (x.Init != nil && nRes != len(lhs)) || (x.Init == nil && nRes != 1) {
			return nil
		}
		for _, r := range rets {
			if len(r.Results) != nRes {
				return nil
			}
			flag := exprString(ast.Unparen(r.Results[nRes-1]))
			if r == last {
				if flag != fallFlag {
					return nil
				}
			} else if flag != bodyFlag {
				return nil
			}
		}
		// the variables bound by the init statement must not be used after the if
		pro, subst, ok := in.bind(h, call, nil)
		if !ok {
			return nil
		}
		body := in.clone(h.Body, subst).(*ast.BlockStmt)
		body.List = body.List[:len(body.List)-1] // the final `return …, false`: fall through
		mk := func(rs *ast.ReturnStmt) ast.Stmt {
			blk := &ast.BlockStmt{Lbrace: rs.Pos(), Rbrace: rs.End()}
			direct := map[types.Object]ast.Expr{} // caller variable => returned expression, when trivially substitutable
			if x.Init != nil {
				var l2, r2 []ast.Expr
				for i := 0; i < nRes-1; i++ {
					id, ok := lhs[i].(*ast.Ident)
					if !ok || id.Name == "_" {
						continue
					}
					switch ast.Unparen(rs.Results[i]).(type) {
					case *ast.Ident, *ast.BasicLit:
						if o := info.Defs[id]; o != nil {
							direct[o] = rs.Results[i]
							continue
						}
					}
					l2 = append(l2, in.clone(lhs[i], nil).(ast.Expr))
					r2 = append(r2, rs.Results[i])
				}
				if len(l2) > 0 {
					blk.List = append(blk.List, &ast.AssignStmt{Lhs: l2, TokPos: rs.Pos(), Tok: tok, Rhs: r2})
				}
			}
			bodyCopy := in.clone(x.Body, func(old ast.Node) ast.Node {
				if id, ok := old.(*ast.Ident); ok {
					if e, ok := direct[info.Uses[id]]; ok && info.Uses[id] != nil {
						return in.clone(e, nil)
					}
				}
				return nil
			}).(*ast.BlockStmt)
			blk.List = append(blk.List, bodyCopy.List...)
			if len(blk.List) == 1 {
				return blk.List[0]
			}
			return blk
		}
		generated := map[ast.Node]bool{}
		ast.Inspect(body, func(m ast.Node) bool {
			if m == nil || generated[m] {
				return false
			}
			var list []ast.Stmt
			switch y := m.(type) {
			case *ast.FuncLit:
				return false
			case *ast.BlockStmt:
				list = y.List
			case *ast.CaseClause:
				list = y.Body
			case *ast.CommClause:
				list = y.Body
			}
			for i, s := range list {
				if rs, isRet := s.(*ast.ReturnStmt); isRet {
					list[i] = mk(rs)
					generated[list[i]] = true
				}
			}
			return true
		})
		// top-level returns of the helper body were replaced in place as well
		return append(pro, body.List...)
	}
	return nil
}

// Normalized returns the inlined normal form of a function of the instance (cached).
func (ti *TmplInstance) Normalized(fd *ast.FuncDecl) *ast.FuncDecl {
	if ti.norm == nil {
		ti.norm = map[*ast.FuncDecl]*ast.FuncDecl{}
	}
	if n, ok := ti.norm[fd]; ok {
		return n
	}
	in := &inliner{info: ti.Info, pkg: ti.Pkg, decls: tiFuncDecls(ti), keep: map[*ast.FuncDecl]bool{}}
	if pre := ti.Files[""]; pre != nil {
		for _, d := range pre.Decls {
			if pfd, ok := d.(*ast.FuncDecl); ok {
				in.keep[pfd] = true
			}
		}
	}
	n := in.normalize(fd)
	if in.count == 0 {
		n = fd
	}
	if in.count > 0 {
		ti.renumber(n)
	}
	ti.norm[fd] = n
	ti.Inlined += in.count
	if os.Getenv("LOXCHECK_DUMPNORM") != "" && in.count > 0 {
		fmt.Fprintf(os.Stderr, "---- normalized %s (%d call sites expanded)\n", fd.Name.Name, in.count)
		printer.Fprint(os.Stderr, ti.Fset, n)
		fmt.Fprintln(os.Stderr)
	}
	return n
}

// ---- positions of a normal form ----
//
// The statements of a normal form come from several places of the file, so their source positions
// no longer reflect the order in which they execute. renumber gives every stored position of the
// normalised function a fresh, strictly increasing value (in a synthetic file of the instance's
// file set) and remembers where it came from; OrigPos translates back for reporting and for
// locating template holes.

type posPair struct{ syn, orig token.Pos }

const posSpacing = 1 << 13

var posType = reflect.TypeOf(token.NoPos)

func (ti *TmplInstance) renumber(fn *ast.FuncDecl) {
	// count positions first to size the synthetic file
	n := 0
	walkPositions(reflect.ValueOf(fn), func(p *token.Pos) { n++ })
	file := ti.Fset.AddFile(fmt.Sprintf("norm/%s#%d", fn.Name.Name, len(ti.posMap)), -1, (n+2)*posSpacing)
	base := token.Pos(file.Base())
	k := 1
	walkPositions(reflect.ValueOf(fn), func(p *token.Pos) {
		syn := base + token.Pos(k*posSpacing)
		k++
		ti.posMap = append(ti.posMap, posPair{syn, *p})
		*p = syn
	})
}

// walkPositions visits, in field (= source) order, every valid token.Pos stored under v.
func walkPositions(v reflect.Value, f func(p *token.Pos)) {
	switch v.Kind() {
	case reflect.Interface, reflect.Ptr:
		if !v.IsNil() {
			walkPositions(v.Elem(), f)
		}
	case reflect.Slice:
		for i := 0; i < v.Len(); i++ {
			walkPositions(v.Index(i), f)
		}
	case reflect.Struct:
		for i := 0; i < v.NumField(); i++ {
			ft := v.Type().Field(i)
			if ft.Name == "Obj" || ft.Name == "Scope" || ft.Name == "Unresolved" || ft.Name == "Doc" || ft.Name == "Comment" {
				continue
			}
			fv := v.Field(i)
			if fv.Type() == posType {
				if fv.CanAddr() && token.Pos(fv.Int()).IsValid() {
					f(fv.Addr().Interface().(*token.Pos))
				}
				continue
			}
			walkPositions(fv, f)
		}
	}
}

// OrigPos maps a position of a normal form back to the rendered template source.
func (ti *TmplInstance) OrigPos(p token.Pos) token.Pos {
	if len(ti.posMap) == 0 || p < ti.posMap[0].syn {
		return p
	}
	// posMap is appended in increasing syn order
	lo, hi := 0, len(ti.posMap)
	for lo+1 < hi {
		mid := (lo + hi) / 2
		if ti.posMap[mid].syn <= p {
			lo = mid
		} else {
			hi = mid
		}
	}
	pp := ti.posMap[lo]
	if p-pp.syn >= posSpacing {
		return p
	}
	return pp.orig + (p - pp.syn)
}

// span locates node n in its rendered template: the template name and byte offsets.
func (ti *TmplInstance) span(n ast.Node) (tmpl string, s, e int, ok bool) {
	ps, pe := ti.OrigPos(n.Pos()), ti.OrigPos(n.End())
	tmpl = ti.TmplOf(ps)
	f := ti.Files[tmpl]
	if f == nil {
		return "", 0, 0, false
	}
	base := ti.Fset.File(f.Pos()).Base()
	return tmpl, int(ps) - base, int(pe) - base, true
}
