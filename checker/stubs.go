package main

func ruleLEX1(c *Ctx) {}
func ruleACT1(c *Ctx) {}
func ruleACT3(c *Ctx) {}
