// loxcheck: repository-specific static analysis of dcaiafa/lox against the properties in
// /verif/properties.jsonl. Nothing of /repo is executed: every verdict is derived from the
// type-checked source, CFGs, SSA and the Jet templates embedded in it.
package main

import (
	"encoding/json"
	"flag"
	"fmt"
	"os"
	"path/filepath"
	"runtime/debug"
	"sort"
	"time"
)

var registry = map[string]*PropSpec{}

func register(p *PropSpec) { registry[p.ID] = p }

func main() {
	prop := flag.String("prop", "", "property id (C01..C19)")
	tier := flag.String("tier", "quick", "quick|thorough")
	repo := flag.String("repo", envOr("LOXCHECK_REPO", "/repo"), "repository root to analyse")
	verif := flag.String("verif", envOr("LOXCHECK_VERIF", defaultVerif()), "verification directory (evidence, known findings, fixtures)")
	replay := flag.String("replay", "", "replay file written by a previous violation")
	list := flag.Bool("list", false, "list implemented properties")
	rulesOnly := flag.String("rules", "", "comma separated rule ids to keep in the output (debug)")
	multi := flag.String("props", "", "matrix mode: comma separated property ids or 'all'; the repository is loaded once, one summary line per property (not used by registered checks)")
	dumpTmpl := flag.String("dump-templates", "", "debug: write the instantiated templates into this directory")
	flag.Parse()

	if *list {
		ids := make([]string, 0, len(registry))
		for id := range registry {
			ids = append(ids, id)
		}
		sort.Strings(ids)
		for _, id := range ids {
			fmt.Printf("%s %s\n", id, registry[id].Level)
		}
		return
	}
	if *dumpTmpl != "" {
		prog, err := loadProgram(*repo)
		if err != nil {
			fmt.Println(err)
			os.Exit(2)
		}
		c := &Ctx{Prog: prog}
		ta := c.Templates()
		if ta.Err != nil {
			fmt.Println("ERROR:", ta.Err)
			os.Exit(1)
		}
		for _, v := range ta.Variants {
			for name, src := range v.Sources {
				if name == "" {
					name = "prelude"
				}
				os.MkdirAll(filepath.Join(*dumpTmpl, v.FlagString()), 0o755)
				os.WriteFile(filepath.Join(*dumpTmpl, v.FlagString(), name+".go"), []byte(src), 0o644)
			}
			fmt.Println(v.FlagString(), len(v.Holes), "holes", v.NumFuncs, "funcs", len(v.Prods), "prods")
		}
		return
	}
	if t := os.Getenv("VERIF_TIER"); t != "" && !flagSet("tier") {
		*tier = t
	}
	var replayRule, replayConstruct string
	if *replay != "" {
		b, err := os.ReadFile(*replay)
		if err != nil {
			fmt.Println("cannot read replay file:", err)
			os.Exit(2)
		}
		var r struct{ Property, Rule, Construct, Tier string }
		if err := json.Unmarshal(b, &r); err != nil {
			fmt.Println("bad replay file:", err)
			os.Exit(2)
		}
		*prop, replayRule, replayConstruct = r.Property, r.Rule, r.Construct
		if r.Tier != "" {
			*tier = r.Tier
		}
	}
	if *multi != "" {
		os.Exit(runMulti(*multi, *tier, *repo, *verif))
	}
	spec := registry[*prop]
	if spec == nil {
		fmt.Printf("unknown or unimplemented property %q\n", *prop)
		os.Exit(2)
	}
	if *tier != "quick" && *tier != "thorough" {
		fmt.Println("tier must be quick or thorough")
		os.Exit(2)
	}
	os.Exit(runProp(spec, *tier, *repo, *verif, replayRule, replayConstruct, *rulesOnly))
}

// runMulti runs several properties on one loaded program (used by the refactoring/seed matrix; the
// registered checks always run one property per process).
func runMulti(list, tier, repo, verif string) int {
	var ids []string
	if list == "all" {
		for id := range registry {
			ids = append(ids, id)
		}
	} else {
		ids = splitComma(list)
	}
	sort.Strings(ids)
	prog, err := loadProgram(repo)
	if err != nil {
		fmt.Printf("cannot analyse %s: %v\n", repo, err)
		for _, id := range ids {
			fmt.Printf("== %s rc=1 LOAD\n", id)
		}
		return 1
	}
	rc := 0
	factProgram = prog
	var shared *TmplAll
	for _, id := range ids {
		spec := registry[id]
		if spec == nil {
			fmt.Printf("== %s rc=2 unknown\n", id)
			rc = 2
			continue
		}
		r := runLoaded(spec, tier, verif, prog, &shared)
		fmt.Printf("== %s rc=%d\n", id, r)
		if r != 0 {
			rc = 1
		}
	}
	return rc
}

func runLoaded(spec *PropSpec, tier, verif string, prog *Program, shared **TmplAll) (code int) {
	t0 := time.Now()
	c := &Ctx{Prop: spec.ID, Tier: tier, Verif: verif, Prog: prog, tmplAll: *shared}
	defer func() {
		if r := recover(); r != nil {
			fmt.Printf("checker panic: %v\n%s\n", r, debug.Stack())
			fmt.Printf("VIOLATION property=%s replay=- kind=checker-panic\n", spec.ID)
			code = 1
		}
	}()
	checkProdPackages(c)
	spec.Run(c)
	if tier == "thorough" && spec.Thorough != nil {
		spec.Thorough(c)
	}
	if *shared == nil && c.tmplAll != nil {
		*shared = c.tmplAll
	}
	c.finish()
	kf, err := loadKnown(verif)
	if err != nil {
		fmt.Println(err)
		return 2
	}
	c.applyKnown(kf)
	res := report(c, spec, verif, nowSeconds(t0), "bin/loxcheck -replay {path}")
	if res.violations > 0 {
		return 1
	}
	return 0
}

func runProp(spec *PropSpec, tier, repo, verif, replayRule, replayConstruct, rulesOnly string) (code int) {
	t0 := time.Now()
	replayCmd := "bin/loxcheck -replay {path}"
	c := &Ctx{Prop: spec.ID, Tier: tier, Verif: verif}
	defer func() {
		if r := recover(); r != nil {
			fmt.Printf("checker panic: %v\n%s\n", r, debug.Stack())
			fmt.Printf("VIOLATION property=%s replay=%s kind=checker-panic\n", spec.ID, filepath.Join(verif, "replays", spec.ID+"-panic.json"))
			code = 1
		}
	}()
	prog, err := loadProgram(repo)
	if err != nil {
		// undecided is never a pass
		fmt.Printf("cannot analyse %s: %v\n", repo, err)
		os.MkdirAll(filepath.Join(verif, "replays"), 0o755)
		rp := filepath.Join(verif, "replays", spec.ID+"-load.json")
		rb, _ := json.Marshal(map[string]any{"property": spec.ID, "rule": "LOAD", "construct": "packages.Load", "reason": err.Error(), "tier": tier})
		os.WriteFile(rp, rb, 0o644)
		writeFailEvidence(spec, tier, verif, err.Error(), nowSeconds(t0))
		fmt.Printf("VIOLATION property=%s replay=%s kind=unresolved rule=LOAD\n", spec.ID, rp)
		return 1
	}
	c.Prog = prog
	factProgram = prog
	checkProdPackages(c)
	spec.Run(c)
	if tier == "thorough" && spec.Thorough != nil {
		spec.Thorough(c)
	}
	c.finish()
	kf, err := loadKnown(verif)
	if err != nil {
		fmt.Println(err)
		return 2
	}
	c.applyKnown(kf)
	if replayRule != "" {
		found := false
		bad := false
		for _, o := range c.Obs {
			if o.Rule == replayRule && o.Construct == replayConstruct {
				found = true
				fmt.Printf("replay %s %s at %s: %s -- %s\n", o.Rule, o.Construct, o.Pos, o.State, o.Reason)
				if o.State == Violated || o.State == Unresolved {
					bad = true
				}
			}
		}
		if !found {
			fmt.Printf("replay: obligation %s %s no longer exists on the current tree\n", replayRule, replayConstruct)
			return 0
		}
		if bad {
			fmt.Printf("VIOLATION property=%s replay=%s\n", spec.ID, "(replayed)")
			return 1
		}
		return 0
	}
	if rulesOnly != "" {
		keep := map[string]bool{}
		for _, r := range splitComma(rulesOnly) {
			keep[r] = true
		}
		var obs []*Obligation
		for _, o := range c.Obs {
			if keep[o.Rule] {
				obs = append(obs, o)
			}
		}
		c.Obs = obs
	}
	res := report(c, spec, verif, nowSeconds(t0), replayCmd)
	if res.violations > 0 {
		return 1
	}
	return 0
}

func writeFailEvidence(spec *PropSpec, tier, verif, why string, wall float64) {
	ev := map[string]any{
		"property_id": spec.ID, "tier": tier, "seed": seedFromEnv(), "level": "other",
		"coverage": map[string]any{"explanation": "analysis could not be performed: " + why},
		"wall_s":   wall, "violations": 1,
	}
	eb, _ := json.MarshalIndent(ev, "", " ")
	os.MkdirAll(filepath.Join(verif, "evidence"), 0o755)
	os.WriteFile(filepath.Join(verif, "evidence", spec.ID+".json"), eb, 0o644)
}

// the 16 production packages confirmed by hand (go list -deps ./cmd/lox)
var expectedProd = []string{
	"cmd/lox", "internal/ast", "internal/base/array", "internal/base/assert", "internal/base/errlogger",
	"internal/base/logger", "internal/base/set", "internal/base/stablemap", "internal/base/stack",
	"internal/codegen", "internal/lexergen/dfa", "internal/lexergen/mode", "internal/lexergen/nfa",
	"internal/lexergen/rang3", "internal/parser", "internal/parsergen/lr1",
}

func checkProdPackages(c *Ctx) {
	for _, rel := range expectedProd {
		if pk := c.Prog.Pkg(rel); pk == nil || !c.Prog.IsProd(pk) {
			c.unres("LOAD", "package "+rel, "", "production package not found among packages reachable from cmd/lox")
		}
	}
}

func envOr(k, d string) string {
	if v := os.Getenv(k); v != "" {
		return v
	}
	return d
}

func defaultVerif() string {
	exe, err := os.Executable()
	if err == nil {
		d := filepath.Dir(filepath.Dir(exe))
		if _, err := os.Stat(filepath.Join(d, "properties.jsonl")); err == nil {
			return d
		}
	}
	return "/verif"
}

func flagSet(name string) bool {
	set := false
	flag.Visit(func(f *flag.Flag) {
		if f.Name == name {
			set = true
		}
	})
	return set
}

func splitComma(s string) []string {
	var out []string
	cur := ""
	for _, r := range s {
		if r == ',' {
			if cur != "" {
				out = append(out, cur)
			}
			cur = ""
		} else {
			cur += string(r)
		}
	}
	if cur != "" {
		out = append(out, cur)
	}
	return out
}
