package fixture

// positive fixture for CONF-2: a table row is patched in place through an instance field.
var _rows = []uint32{0, 1, 2, 3}

type lexer struct {
	mode []uint32
}

func (l *lexer) Step(i int) uint32 {
	if l.mode == nil {
		l.mode = _rows
	}
	m := l.mode
	m[i] = m[i] + 1 // writes into the shared table
	return m[i]
}
