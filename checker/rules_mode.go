package main

// C07 (lexer modes and action lists) and C11 (EOF / consumption accounting in the state machine).

import (
	"fmt"
	"go/ast"
	"go/constant"
	"go/token"
	"go/types"
	"golang.org/x/tools/go/cfg"
	"sort"
	"strings"

	"golang.org/x/tools/go/packages"
)

// ---- MODE-1: stack discipline in the reader ----

func ruleMODE1(c *Ctx) {
	const rule = "MODE-1"
	ta := c.tmplOrUnres(rule)
	if ta == nil {
		return
	}
	ti := ta.Variants[0]
	r := findLexerReader(ti)
	if r == nil {
		c.unres(rule, "template/PushRune", "", "reader not found")
		return
	}
	push := lookupConst(c.Prog, "internal/lexergen/mode", "ActionPushMode")
	pop := lookupConst(c.Prog, "internal/lexergen/mode", "ActionPopMode")
	if push == nil || pop == nil {
		c.unres(rule, "mode.ActionPushMode/PopMode", "", "constants not found")
		return
	}
	pv, _ := constant.Int64Val(push.Val())
	qv, _ := constant.Int64Val(pop.Val())
	info := ti.Info
	// the field holding the current table
	var modeField *types.Var
	ast.Inspect(r.fd.Body, func(n ast.Node) bool {
		if as, ok := n.(*ast.AssignStmt); ok && as.Tok == token.DEFINE && len(as.Lhs) == 1 && usesObj(info, as.Lhs[0]) == r.modeVar {
			modeField, _ = selField(info, as.Rhs[0])
		}
		return true
	})
	if modeField == nil {
		c.unres(rule, "template/PushRune/current-mode", ti.Pos(r.fd.Pos()), "the local table variable is not initialised from a field")
		return
	}
	// push arm
	if arm := r.arms[pv]; arm == nil {
		c.bad(rule, "template/PushRune/push-arm", ti.Pos(r.sw.Pos()), "no arm for ActionPushMode")
	} else {
		var pushCall *ast.CallExpr
		var setMode *ast.AssignStmt
		for _, s := range arm.Body {
			ast.Inspect(s, func(n ast.Node) bool {
				switch x := n.(type) {
				case *ast.CallExpr:
					if sel, ok := x.Fun.(*ast.SelectorExpr); ok && sel.Sel.Name == "Push" {
						pushCall = x
					}
					// the same thing spelled with the slice: S = append(S, x)
					if builtinName(info, x) == "append" && len(x.Args) == 2 {
						if as, ok := parents(arm)[x].(*ast.AssignStmt); ok && len(as.Lhs) == 1 && sameExpr(as.Lhs[0], x.Args[0]) {
							if fv, _ := selField(info, x.Args[0]); fv != nil && fv != modeField {
								pushCall = &ast.CallExpr{Fun: x.Fun, Lparen: x.Lparen, Args: x.Args[1:], Rparen: x.Rparen}
							}
						}
					}
				case *ast.AssignStmt:
					if fv, _ := selField(info, x.Lhs[0]); fv == modeField {
						setMode = x
					}
				}
				return true
			})
		}
		ok := pushCall != nil && setMode != nil && pushCall.End() <= setMode.Pos()
		okArg := false
		staleWhy := ""
		if pushCall != nil && len(pushCall.Args) == 1 {
			if usesObj(info, pushCall.Args[0]) == r.modeVar && (!reassigned(info, r.fd, r.modeVar) || localInSyncWithField(info, r.fd, r.modeVar, modeField)) {
				// the local is a copy of the field taken earlier: it is the *current* table at the push only
				// if no store to the field can reach the push without the local being refreshed (an earlier
				// mode action of the same rule changes the field inside the action loop)
				if at, stale := staleAliasAt(info, r.fd, r.modeVar, modeField, pushCall); stale {
					staleWhy = fmt.Sprintf("; `%s` was copied from the mode field before the store at %s, which reaches the push (a rule with two mode actions, e.g. @pop_mode @push_mode(M), pushes the table that was current when PushRune was entered)", exprString(pushCall.Args[0]), ti.Pos(at))
				} else {
					okArg = true
				}
			}
			if fv, _ := selField(info, pushCall.Args[0]); fv == modeField {
				okArg = true
			}
		}
		okNew := false
		if setMode != nil {
			if ix, ok := ast.Unparen(setMode.Rhs[0]).(*ast.IndexExpr); ok && exprString(ix.X) == "_lexerModes" {
				def := resolveLocalIn(info, r.fd, ix.Index)
				if u, ok := stripConv(info, def).(*ast.IndexExpr); ok && usesObj(info, u.X) == r.modeVar && isIndexPlus(u.Index, r.idxVar, 1) {
					okNew = true
				}
			}
		}
		c.check(ok && okArg && okNew, rule, "template/PushRune/push-arm", ti.Pos(arm.Pos()),
			"push: the current table is pushed before the mode field is overwritten with _lexerModes[parameter]",
			fmt.Sprintf("push arm breaks the stack discipline (push before overwrite: %v, pushes the current table: %v, new table = _lexerModes[param]: %v)%s", ok, okArg, okNew, staleWhy))
	}
	// pop arm
	if arm := r.arms[qv]; arm == nil {
		c.bad(rule, "template/PushRune/pop-arm", ti.Pos(r.sw.Pos()), "no arm for ActionPopMode")
	} else {
		emptyGuard, peek0, pop1, order := false, false, false, false
		var peekPos, popPos token.Pos
		armDefs := localDefs(info, r.fd)
		// lenOf: e (through single-assignment locals) is len(S) for a field S; returns S printed
		lenOf := func(e ast.Expr) string {
			call, ok := ast.Unparen(resolveVia(info, armDefs, e)).(*ast.CallExpr)
			if !ok || builtinName(info, call) != "len" || len(call.Args) != 1 {
				return ""
			}
			if fv, _ := selField(info, call.Args[0]); fv != nil {
				return exprString(call.Args[0])
			}
			return ""
		}
		// lenMinus1: e == len(S) - 1
		lenMinus1 := func(e ast.Expr, stack string) bool {
			terms, k := linearForm(info, armDefs, e)
			return k == -1 && len(terms) == 1 && terms["len("+stack+")"] == 1
		}
		for _, s := range arm.Body {
			ast.Inspect(s, func(n ast.Node) bool {
				switch x := n.(type) {
				case *ast.IfStmt:
					if be, ok := ast.Unparen(x.Cond).(*ast.BinaryExpr); ok && be.Op == token.EQL && len(x.Body.List) == 1 {
						if v, isC := constInt(info, be.Y); isC && v == 0 && lenOf(be.X) != "" {
							if rs, ok := x.Body.List[0].(*ast.ReturnStmt); ok && len(rs.Results) == 1 {
								if k, ok := usesObj(info, rs.Results[0]).(*types.Const); ok && k.Name() == "_lexerError" {
									emptyGuard = true
								}
							}
						}
					}
				case *ast.AssignStmt:
					if fv, _ := selField(info, x.Lhs[0]); fv == modeField {
						if call, ok := x.Rhs[0].(*ast.CallExpr); ok && len(call.Args) == 1 {
							if sel, ok := call.Fun.(*ast.SelectorExpr); ok && sel.Sel.Name == "Peek" {
								if v, ok := constInt(info, call.Args[0]); ok && v == 0 {
									peek0 = true
									peekPos = x.Pos()
								}
							}
						}
						// mode = S[len(S)-1]
						if ix, ok := ast.Unparen(x.Rhs[0]).(*ast.IndexExpr); ok {
							if fv2, _ := selField(info, ix.X); fv2 != nil && fv2 != modeField && lenMinus1(ix.Index, exprString(ix.X)) {
								peek0 = true
								peekPos = x.Pos()
							}
						}
					}
					// S = S[:len(S)-1]
					if len(x.Lhs) == 1 && len(x.Rhs) == 1 {
						if sl, ok := ast.Unparen(x.Rhs[0]).(*ast.SliceExpr); ok && sl.Low == nil && sl.High != nil && sl.Max == nil && sameExpr(sl.X, x.Lhs[0]) {
							if fv2, _ := selField(info, sl.X); fv2 != nil && fv2 != modeField && lenMinus1(sl.High, exprString(sl.X)) {
								pop1 = true
								popPos = x.Pos()
							}
						}
					}
				case *ast.CallExpr:
					if sel, ok := x.Fun.(*ast.SelectorExpr); ok && sel.Sel.Name == "Pop" && len(x.Args) == 1 {
						if v, ok := constInt(info, x.Args[0]); ok && v == 1 {
							pop1 = true
							popPos = x.Pos()
						}
					}
				}
				return true
			})
		}
		order = peek0 && pop1 && peekPos < popPos
		c.check(emptyGuard && order, rule, "template/PushRune/pop-arm", ti.Pos(arm.Pos()),
			"pop: an empty stack is an error; otherwise the mode field receives Peek(0) and exactly one element is popped",
			fmt.Sprintf("pop arm breaks the stack discipline (empty-stack error: %v, mode = Peek(0): %v, Pop(1) afterwards: %v)", emptyGuard, peek0, order))
	}
	// _Stack semantics, independent of parameter / local names and of arithmetic order
	checkStackOps(c, rule, ti)
	// initial mode: the first table of _lexerModes
	okInit := false
	ast.Inspect(r.fd.Body, func(n ast.Node) bool {
		ifs, ok := n.(*ast.IfStmt)
		if !ok {
			return true
		}
		be, ok := ifs.Cond.(*ast.BinaryExpr)
		if !ok || be.Op != token.EQL || exprString(be.Y) != "nil" {
			return true
		}
		// the nil test is on the field, or on the local copy of it
		fv, _ := selField(info, be.X)
		if fv != modeField && usesObj(info, be.X) != r.modeVar {
			return true
		}
		first := firstElemOfGlobal(ti, "_lexerModes")
		// in the body the field receives the first table, directly or through the local
		local := map[types.Object]string{}
		for _, st := range ifs.Body.List {
			as, ok := st.(*ast.AssignStmt)
			if !ok || len(as.Lhs) != 1 || len(as.Rhs) != 1 {
				continue
			}
			val := exprString(as.Rhs[0])
			if o := usesObj(info, as.Rhs[0]); o != nil && local[o] != "" {
				val = local[o]
			}
			if lf, _ := selField(info, as.Lhs[0]); lf == modeField {
				if first != "" && val == first {
					okInit = true
				}
				continue
			}
			if o := usesObj(info, as.Lhs[0]); o != nil {
				local[o] = val
			}
		}
		return true
	})
	c.check(okInit, rule, "template/PushRune/initial-mode", ti.Pos(r.fd.Pos()), "lexing starts in the first table of _lexerModes (mode index 0)", "the initial table is not _lexerModes' first element")
}

// localInSyncWithField: every assignment to local v (other than its definition from the field) is
// accompanied, in the same statement list, by an assignment of the same value to the field, so
// the local still equals the field wherever both are visible.
func localInSyncWithField(info *types.Info, fd *ast.FuncDecl, v types.Object, field *types.Var) bool {
	ok := true
	par := parents(fd)
	ast.Inspect(fd.Body, func(m ast.Node) bool {
		as, isAs := m.(*ast.AssignStmt)
		if !isAs || len(as.Lhs) != 1 || len(as.Rhs) != 1 || usesObj(info, as.Lhs[0]) != v {
			return true
		}
		if _, isSel := ast.Unparen(as.Lhs[0]).(*ast.SelectorExpr); isSel {
			return true
		}
		if rf, _ := selField(info, as.Rhs[0]); rf == field {
			return true // v := field / v = field
		}
		paired := false
		for _, st := range enclosingList(par, as) {
			o, isAs2 := st.(*ast.AssignStmt)
			if !isAs2 || o == as || len(o.Lhs) != 1 || len(o.Rhs) != 1 {
				continue
			}
			if lf, _ := selField(info, o.Lhs[0]); lf == field && (usesObj(info, o.Rhs[0]) == v || sameExpr(o.Rhs[0], as.Rhs[0])) {
				paired = true
			}
		}
		if !paired {
			ok = false
		}
		return true
	})
	return ok
}

// staleAliasAt: v is a local copy of field. Reports a store to field from which the node `use` is
// reachable in the CFG without passing an assignment that refreshes v from the field (or pairs the
// two), i.e. a path on which v no longer holds the field's value at use.
func staleAliasAt(info *types.Info, fd *ast.FuncDecl, v types.Object, field *types.Var, use ast.Node) (token.Pos, bool) {
	g := cfg.New(fd.Body, func(call *ast.CallExpr) bool { return mayReturn(info, call) })
	refresh := func(n ast.Node) bool {
		as, ok := n.(*ast.AssignStmt)
		if !ok {
			return false
		}
		for i, l := range as.Lhs {
			if _, isSel := ast.Unparen(l).(*ast.SelectorExpr); isSel || usesObj(info, l) != v || i >= len(as.Rhs) {
				continue
			}
			if rf, _ := selField(info, as.Rhs[i]); rf == field {
				return true
			}
		}
		return false
	}
	var found token.Pos
	for _, b := range g.Blocks {
		if !b.Live {
			continue
		}
		for i, n := range b.Nodes {
			as, ok := n.(*ast.AssignStmt)
			if !ok {
				continue
			}
			stores := false
			for j, l := range as.Lhs {
				if lf, _ := selField(info, l); lf == field {
					// field = v keeps them equal
					if j < len(as.Rhs) && usesObj(info, as.Rhs[j]) == v {
						continue
					}
					stores = true
				}
			}
			if !stores {
				continue
			}
			cfgForward(g, []cfgPos{{b, i}}, false, refresh, func(m ast.Node) {
				if !found.IsValid() && containsNode(m, use) {
					found = as.Pos()
				}
			})
			if found.IsValid() {
				return found, true
			}
		}
	}
	return token.NoPos, false
}

func reassigned(info *types.Info, fd *ast.FuncDecl, v types.Object) bool {
	n := 0
	ast.Inspect(fd.Body, func(m ast.Node) bool {
		if as, ok := m.(*ast.AssignStmt); ok {
			for _, l := range as.Lhs {
				if usesObj(info, l) == v {
					n++
				}
			}
		}
		return true
	})
	return n > 1
}

func firstElemOfGlobal(ti *TmplInstance, name string) string {
	out := ""
	for _, f := range ti.AllFiles {
		for _, d := range f.Decls {
			if gd, ok := d.(*ast.GenDecl); ok && gd.Tok == token.VAR {
				for _, sp := range gd.Specs {
					vs := sp.(*ast.ValueSpec)
					if len(vs.Names) == 1 && vs.Names[0].Name == name && len(vs.Values) == 1 {
						if cl, ok := vs.Values[0].(*ast.CompositeLit); ok && len(cl.Elts) > 0 {
							out = exprString(cl.Elts[0])
						}
					}
				}
			}
		}
	}
	return out
}

// ---- MODE-2: every written action is reachable by the interpreter ----

// readerActionClasses returns the action-type constants whose reader arm returns (R) and those
// whose arm falls through to the next action (N).
func readerActionClasses(c *Ctx, ti *TmplInstance) (R, N map[string]bool, ok bool) {
	r := findLexerReader(ti)
	if r == nil {
		return nil, nil, false
	}
	pk := c.Prog.Pkg("internal/lexergen/mode")
	R, N = map[string]bool{}, map[string]bool{}
	for _, name := range pk.Types.Scope().Names() {
		k, isC := pk.Types.Scope().Lookup(name).(*types.Const)
		if !isC || namedTypeName(k.Type()) != "ActionType" {
			continue
		}
		v, _ := constant.Int64Val(k.Val())
		arm := r.arms[v]
		if arm == nil {
			continue
		}
		// returns on every path? last statement is a return
		if len(arm.Body) > 0 {
			if _, isRet := arm.Body[len(arm.Body)-1].(*ast.ReturnStmt); isRet {
				R[k.Name()] = true
				continue
			}
		}
		N[k.Name()] = true
	}
	return R, N, len(R) > 0 && len(N) > 0
}

// producibleActionTypes: the Type constants of mode.Action literals returned by GetAction methods.
func producibleActionTypes(c *Ctx) map[string]bool {
	out := map[string]bool{}
	pk := c.Prog.Pkg("internal/ast")
	for _, f := range pk.Syntax {
		for _, d := range f.Decls {
			fd, ok := d.(*ast.FuncDecl)
			if !ok || fd.Name.Name != "GetAction" || fd.Body == nil {
				continue
			}
			ast.Inspect(fd.Body, func(n ast.Node) bool {
				if cl, ok := n.(*ast.CompositeLit); ok && typeIs(pk.TypesInfo.TypeOf(cl), "lexergen/mode", "Action") {
					if t := kvOf(cl, "Type"); t != nil {
						if k, ok := usesObj(pk.TypesInfo, t).(*types.Const); ok {
							out[k.Name()] = true
						}
					}
				}
				return true
			})
		}
	}
	return out
}

type appendSite struct {
	call  *ast.CallExpr
	types map[string]bool
	loop  ast.Node
	desc  string
}

func ruleMODE2(c *Ctx) {
	const rule = "MODE-2"
	p := c.Prog
	ta := c.tmplOrUnres(rule)
	if ta == nil {
		return
	}
	R, N, ok := readerActionClasses(c, ta.Variants[0])
	if !ok {
		c.unres(rule, "template/PushRune/action-classes", "", "cannot classify the reader's arms into returning and falling-through")
		return
	}
	c.ok(rule, "template/PushRune/action-classes", "", "reader arms that end the interpretation: %v; arms that fall through to the next action: %v", keysOfS(R), keysOfS(N))
	producible := producibleActionTypes(c)
	if len(producible) < 4 {
		c.unres(rule, "ast.*.GetAction", "", "only %d action types are produced by GetAction methods", len(producible))
	}
	pk := p.Pkg("internal/ast")
	info := pk.TypesInfo
	nFuncs := 0
	for _, f := range pk.Syntax {
		if isTestFile(p.Fset, f) {
			continue
		}
		for _, d := range f.Decls {
			fd, ok := d.(*ast.FuncDecl)
			if !ok || fd.Body == nil {
				continue
			}
			// appends to X.Actions of mode.Actions, and to local []mode.Action slices
			par := parents(fd)
			localSets := map[types.Object]map[string]bool{}
			var sites []appendSite
			typesOfElem := func(e ast.Expr, at ast.Node) (map[string]bool, string) {
				e = ast.Unparen(e)
				if cl, ok := e.(*ast.CompositeLit); ok {
					if t := kvOf(cl, "Type"); t != nil {
						if k, ok := usesObj(info, t).(*types.Const); ok {
							return map[string]bool{k.Name(): true}, "literal " + k.Name()
						}
					}
					return nil, "literal without constant Type"
				}
				// a variable assigned from GetAction(): all producible types minus those diverted by a
				// preceding `switch v.Type { case K: ...; return|continue }` in the same block
				if o := usesObj(info, e); o != nil {
					set := map[string]bool{}
					for k := range producible {
						set[k] = true
					}
					// inside `case K:` of a switch on the value's Type the element has type K
					for q := par[at]; q != nil; q = par[q] {
						cc, ok := q.(*ast.CaseClause)
						if !ok {
							continue
						}
						if sw, ok := par[par[cc]].(*ast.SwitchStmt); ok && cc.List == nil && sw.Tag != nil && isField(info, sw.Tag, "lexergen/mode", "Action", "Type") && usesObj(info, sw.Tag.(*ast.SelectorExpr).X) == o {
							// default arm: every producible type that has no arm of its own
							rest := map[string]bool{}
							for k := range producible {
								rest[k] = true
							}
							for _, cl := range sw.Body.List {
								for _, l := range cl.(*ast.CaseClause).List {
									if k, ok := usesObj(info, l).(*types.Const); ok {
										delete(rest, k.Name())
									}
								}
							}
							return rest, "value of " + o.Name() + " in the default arm"
						}
						if cc.List == nil {
							continue
						}
						if sw, ok := par[par[cc]].(*ast.SwitchStmt); ok && sw.Tag != nil && isField(info, sw.Tag, "lexergen/mode", "Action", "Type") && usesObj(info, sw.Tag.(*ast.SelectorExpr).X) == o {
							lbl := map[string]bool{}
							for _, l := range cc.List {
								if k, ok := usesObj(info, l).(*types.Const); ok {
									lbl[k.Name()] = true
								}
							}
							return lbl, "value of " + o.Name() + " in its case arm"
						}
					}
					for q := par[at]; q != nil; q = par[q] {
						blk, ok := q.(*ast.BlockStmt)
						if !ok {
							continue
						}
						for _, s := range blk.List {
							if s.Pos() >= at.Pos() {
								break
							}
							sw, ok := s.(*ast.SwitchStmt)
							if !ok || sw.Tag == nil || !isField(info, sw.Tag, "lexergen/mode", "Action", "Type") || usesObj(info, sw.Tag.(*ast.SelectorExpr).X) != o {
								continue
							}
							for _, cl := range sw.Body.List {
								cc := cl.(*ast.CaseClause)
								if len(cc.Body) == 0 {
									continue
								}
								diverts := false
								switch last := cc.Body[len(cc.Body)-1].(type) {
								case *ast.ReturnStmt:
									diverts = true
								case *ast.BranchStmt:
									diverts = last.Tok == token.CONTINUE
								}
								if diverts {
									for _, l := range cc.List {
										if k, ok := usesObj(info, l).(*types.Const); ok {
											delete(set, k.Name())
										}
									}
								}
							}
						}
						break
					}
					// what the enclosing conditions say about the value's Type: `v.Type == K1 || v.Type == K2`
					// leaves {K1, K2}; `v.Type != K` (or a failed equality) removes K
					typeConstOf := func(x ast.Expr) (string, bool, bool) { // name, isEq, ok
						be, ok := ast.Unparen(x).(*ast.BinaryExpr)
						if !ok || (be.Op != token.EQL && be.Op != token.NEQ) {
							return "", false, false
						}
						for _, pr := range [][2]ast.Expr{{be.X, be.Y}, {be.Y, be.X}} {
							if isField(info, pr[0], "lexergen/mode", "Action", "Type") {
								if sel, isSel := ast.Unparen(pr[0]).(*ast.SelectorExpr); isSel && usesObj(info, sel.X) == o {
									if k, isK := usesObj(info, pr[1]).(*types.Const); isK {
										return k.Name(), be.Op == token.EQL, true
									}
								}
							}
						}
						return "", false, false
					}
					for _, fct := range pathConds(info, par, at) {
						ds := disjuncts(fct.e)
						names := map[string]bool{}
						allEq := len(ds) > 0
						for _, dj := range ds {
							nm, isEq, ok := typeConstOf(dj)
							if !ok || !isEq {
								allEq = false
								break
							}
							names[nm] = true
						}
						if allEq {
							if !fct.neg {
								for k := range set {
									if !names[k] {
										delete(set, k)
									}
								}
							} else {
								for k := range names {
									delete(set, k)
								}
							}
							continue
						}
						if len(ds) == 1 {
							if nm, isEq, ok := typeConstOf(ds[0]); ok && !isEq {
								if !fct.neg {
									delete(set, nm)
								} else {
									for k := range set {
										if k != nm {
											delete(set, k)
										}
									}
								}
							}
						}
					}
					return set, "value of " + o.Name()
				}
				return nil, "expression " + exprString(e)
			}
			inspectNoLit(fd.Body, func(n ast.Node) bool {
				as, ok := n.(*ast.AssignStmt)
				if !ok || len(as.Lhs) != 1 || len(as.Rhs) != 1 {
					return true
				}
				call, ok := as.Rhs[0].(*ast.CallExpr)
				if !ok || builtinName(info, call) != "append" || len(call.Args) < 2 || !sameExpr(call.Args[0], as.Lhs[0]) {
					return true
				}
				isTarget := isField(info, as.Lhs[0], "lexergen/mode", "Actions", "Actions")
				lo := usesObj(info, as.Lhs[0])
				isLocal := false
				if v, ok := lo.(*types.Var); ok && !v.IsField() && !isTarget {
					if sl, ok := v.Type().Underlying().(*types.Slice); ok && typeIs(sl.Elem(), "lexergen/mode", "Action") {
						isLocal = true
					}
				}
				if !isTarget && !isLocal {
					return true
				}
				set := map[string]bool{}
				desc := ""
				if call.Ellipsis.IsValid() {
					src := usesObj(info, call.Args[1])
					for k := range localSets[src] {
						set[k] = true
					}
					desc = "elements of " + exprString(call.Args[1])
				} else {
					for _, a := range call.Args[1:] {
						ts, d := typesOfElem(a, as)
						if ts == nil {
							c.unres(rule, funcKey(pk, fd)+"/append", p.Pos(call.Pos()), "cannot determine the action types of %s", d)
							return true
						}
						for k := range ts {
							set[k] = true
						}
						desc = d
					}
				}
				if isLocal {
					if localSets[lo] == nil {
						localSets[lo] = map[string]bool{}
					}
					for k := range set {
						localSets[lo][k] = true
					}
					return true
				}
				var loop ast.Node
				for q := par[as]; q != nil; q = par[q] {
					switch q.(type) {
					case *ast.RangeStmt, *ast.ForStmt:
						if loop == nil {
							loop = q
						}
					}
				}
				sites = append(sites, appendSite{call, set, loop, desc})
				return true
			})
			if len(sites) == 0 {
				continue
			}
			nFuncs++
			sort.Slice(sites, func(i, j int) bool { return sites[i].call.Pos() < sites[j].call.Pos() })
			bad := ""
			for i, a := range sites {
				for j, b := range sites {
					canPrecede := i < j || (a.loop != nil && a.loop == b.loop) || (i == j && a.loop != nil)
					if !canPrecede {
						continue
					}
					for ra := range a.types {
						if !R[ra] {
							continue
						}
						for nb := range b.types {
							if N[nb] && bad == "" {
								bad = fmt.Sprintf("%s: an action of type %s (%s) can be stored before one of type %s (%s); the reader returns at %s, so the %s never runs",
									p.Pos(a.call.Pos()), ra, a.desc, nb, b.desc, ra, nb)
							}
						}
					}
				}
			}
			var summary []string
			for _, s := range sites {
				summary = append(summary, "{"+strings.Join(keysOfS(s.types), ",")+"}")
			}
			c.check(bad == "", rule, funcKey(pk, fd)+"/action-order", p.Pos(sites[0].call.Pos()),
				"action list is built as "+strings.Join(summary, " then ")+": every falling-through action precedes the returning one", bad)
		}
	}
	// the order established here must survive into the table
	if w := findLexerWriter(c); w != nil && w.transCall != nil {
		checkWriterActionOrder(c, rule, w)
	} else {
		c.unres(rule, "codegen.EmitLexer/action-order", "", "lexer row writer not found")
	}
	if nFuncs < 2 {
		c.unres(rule, "ast/action-list-builders", "", "only %d functions fill a mode.Actions list; token and fragment rules expected", nFuncs)
	}
}

// ---- MODE-3: mode numbering ----

func ruleMODE3(c *Ctx) {
	const rule = "MODE-3"
	p := c.Prog
	pk, fd := p.FuncDecl("internal/ast", "Spec.RunPass")
	if fd == nil {
		c.unres(rule, "ast.Spec.RunPass", "", "function not found")
		return
	}
	info := pk.TypesInfo
	var loop *ast.RangeStmt
	var idxAssign *ast.AssignStmt
	ast.Inspect(fd.Body, func(n ast.Node) bool {
		rs, ok := n.(*ast.RangeStmt)
		if !ok || rs.Key == nil {
			return true
		}
		inspectNoLit(rs.Body, func(m ast.Node) bool {
			if as, ok := m.(*ast.AssignStmt); ok && len(as.Lhs) == 1 && len(as.Rhs) == 1 && isField(info, as.Lhs[0], "lexergen/mode", "Mode", "Index") && usesObj(info, as.Rhs[0]) != nil && usesObj(info, as.Rhs[0]) == usesObj(info, rs.Key) {
				loop, idxAssign = rs, as
			}
			return true
		})
		return true
	})
	if loop == nil {
		c.bad(rule, "ast.Spec.RunPass/index=position", p.Pos(fd.Pos()), "Mode.Index is not assigned the position in a list of mode names")
		return
	}
	// the ranged slice is sorted (DET-1 shows it is collected from the map and sorted)
	sorted := false
	ast.Inspect(fd.Body, func(n ast.Node) bool {
		if call, ok := n.(*ast.CallExpr); ok && sortFuncs[fullName(calleeFunc(info, call))] && len(call.Args) >= 1 && sameExpr(call.Args[0], loop.X) && call.End() <= loop.Pos() {
			sorted = fullName(calleeFunc(info, call)) == "slices.Sort" || fullName(calleeFunc(info, call)) == "sort.Strings"
		}
		return true
	})
	if !sorted {
		// names := slices.Sorted(maps.Keys(m))
		if sc, ok := ast.Unparen(resolveVia(info, localDefs(info, fd), loop.X)).(*ast.CallExpr); ok && fullName(calleeFunc(info, sc)) == "slices.Sorted" && len(sc.Args) == 1 {
			if kc, ok := ast.Unparen(sc.Args[0]).(*ast.CallExpr); ok && fullName(calleeFunc(info, kc)) == "maps.Keys" {
				sorted = true
			}
		}
	}
	c.check(sorted, rule, "ast.Spec.RunPass/sorted-names", p.Pos(loop.Pos()), "mode indices are positions in the lexicographically sorted list of mode names", "the list of mode names is not sorted lexicographically before indices are assigned")
	// no mode is skipped, except when Build failed (errors reported, generation aborts)
	skip := ""
	loopDefs := localDefs(info, loop)
	for _, f := range pathConds(info, parents(fd), idxAssign) {
		if f.e.Pos() < loop.Body.Pos() || f.e.Pos() > loop.Body.End() {
			continue // facts established outside the loop hold for every mode alike
		}
		okGuard := false
		if l, op, r, ok := cmpFact(f.e, !f.neg); ok && op == token.NEQ {
			for _, pr := range [][2]ast.Expr{{l, r}, {r, l}} {
				if exprString(pr[1]) != "nil" {
					continue
				}
				if call, ok := ast.Unparen(resolveVia(info, loopDefs, pr[0])).(*ast.CallExpr); ok {
					if fn := calleeFunc(info, call); fn != nil && fn.Name() == "Build" {
						okGuard = true
					}
				}
			}
		}
		if !okGuard {
			skip = fmt.Sprintf("%s: the index is assigned only under `%s`: a mode can be skipped and indices get gaps while _lexerModes is positional", p.Pos(f.e.Pos()), exprString(f.e))
		}
	}
	c.check(skip == "", rule, "ast.Spec.RunPass/dense-indices", p.Pos(idxAssign.Pos()), "every mode receives its position as index (a mode is skipped only when Build reported errors, which aborts generation)", skip)
	// default mode sorts first
	dk := lookupConst(p, "internal/ast", "DefaultModeName")
	if dk == nil {
		c.unres(rule, "ast.DefaultModeName", "", "constant not found")
	} else {
		s := constant.StringVal(dk.Val())
		c.check(len(s) > 0 && s[0] < 'A', rule, "ast.DefaultModeName", "", fmt.Sprintf("%q sorts before every name an ID token can spell: the default mode has index 0", s),
			fmt.Sprintf("%q does not sort before every identifier: the default mode may not be mode 0, which the runtime starts in", s))
	}
	// created under that name
	okCreate := false
	ast.Inspect(fd.Body, func(n ast.Node) bool {
		if call, ok := n.(*ast.CallExpr); ok && len(call.Args) == 1 {
			if fn := calleeFunc(info, call); fn != nil && fn.Name() == "CreateMode" && usesObj(info, call.Args[0]) == types.Object(dk) {
				okCreate = true
			}
		}
		return true
	})
	c.check(okCreate, rule, "ast.Spec.RunPass/default-mode", p.Pos(fd.Pos()), "the default mode is registered under DefaultModeName", "the default mode is not registered under DefaultModeName")
	// @push_mode() without argument targets the default mode
	ppk, pm := p.FuncDecl("internal/parser", "parser.on_action_push_mode")
	okDef := false
	if pm != nil {
		ast.Inspect(pm.Body, func(n ast.Node) bool {
			if ifs, ok := n.(*ast.IfStmt); ok && ifs.Else != nil {
				ast.Inspect(ifs.Else, func(m ast.Node) bool {
					if as, ok := m.(*ast.AssignStmt); ok && isField(ppk.TypesInfo, as.Lhs[0], "internal/ast", "ActionPushMode", "Mode") {
						if o := usesObj(ppk.TypesInfo, as.Rhs[0]); o != nil && o.Name() == "DefaultModeName" {
							okDef = true
						}
					}
					return true
				})
			}
			return true
		})
	}
	c.check(okDef, rule, "parser.on_action_push_mode/default", "", "@push_mode() without a name targets DefaultModeName", "@push_mode() without a name does not target the default mode")
	// writer: push parameter = Index of the mode named by the action
	w := findLexerWriter(c)
	if w == nil || w.arms["ActionPushMode"] == nil || w.arms["ActionPushMode"].param == nil {
		c.unres(rule, "codegen.EmitLexer/push-parameter", "", "push arm of the writer not found")
	} else {
		arm := w.arms["ActionPushMode"]
		winfo := w.pk.TypesInfo
		okParam := false
		prm := stripConv(winfo, arm.param)
		if isField(winfo, prm, "lexergen/mode", "Mode", "Index") {
			def := resolveLocalIn(winfo, w.armFn, prm.(*ast.SelectorExpr).X)
			if ix, ok := ast.Unparen(def).(*ast.IndexExpr); ok && isField(winfo, ix.Index, "lexergen/mode", "Action", "Mode") {
				okParam = true
			}
		}
		c.check(okParam, rule, "codegen.EmitLexer/push-parameter", p.Pos(arm.call.Pos()), "the push parameter is the Index of LexerModes[action.Mode]", "the push parameter is not the Index of the mode the action names")
	}
	// _lexerModes is emitted in Index order with one entry per mode
	ta := c.tmplOrUnres(rule)
	if ta == nil {
		return
	}
	ti := ta.Variants[0]
	okList := true
	n := 0
	for _, f := range ti.AllFiles {
		for _, d := range f.Decls {
			gd, ok := d.(*ast.GenDecl)
			if !ok || gd.Tok != token.VAR {
				continue
			}
			for _, sp := range gd.Specs {
				vs := sp.(*ast.ValueSpec)
				if vs.Names[0].Name != "_lexerModes" || len(vs.Values) != 1 {
					continue
				}
				cl := vs.Values[0].(*ast.CompositeLit)
				for i, el := range cl.Elts {
					n++
					hs := ti.holesIn(el)
					if len(hs) != 1 || !isFieldOfRangeVal(hs[0], "Index") || hs[0].Text != fmt.Sprint(i) {
						okList = false
					}
				}
			}
		}
	}
	c.check(okList && n >= 2, rule, "template/_lexerModes", "", "_lexerModes lists _lexerMode<Index> for every mode of modes(), which is sorted by Index: position = Index", "_lexerModes is not the list of per-mode tables in Index order")
	// modes() sorts by Index
	okSort := false
	for _, u := range ta.Set.Uses {
		if fl := funcLitOf(c.Prog, ta.Set.Pkg.TypesInfo, u.Binds["modes"]); fl != nil {
			ast.Inspect(fl, func(m ast.Node) bool {
				if call, ok := m.(*ast.CallExpr); ok && (sortFuncs[fullName(calleeFunc(ta.Set.Pkg.TypesInfo, call))] || fullName(calleeFunc(ta.Set.Pkg.TypesInfo, call)) == "slices.SortedFunc") && len(call.Args) == 2 {
					if cmp, ok := call.Args[1].(*ast.FuncLit); ok {
						idx := 0
						ast.Inspect(cmp, func(k ast.Node) bool {
							if isFieldNode(ta.Set.Pkg.TypesInfo, k, "lexergen/mode", "Mode", "Index") {
								idx++
							}
							return true
						})
						okSort = idx == 2
					}
				}
				return true
			})
		}
	}
	c.check(okSort, rule, "codegen.EmitLexer/modes-sorted-by-index", "", "modes() orders the modes by Index", "modes() does not order the modes by Index")
	// ... and lists every mode: _lexerModes is positional and the push parameter is Mode.Index, which
	// Spec.RunPass assigns densely over ALL modes, so leaving one out shifts every later table
	okAll, whyAll := false, "the function bound to `modes` was not found"
	for _, u := range ta.Set.Uses {
		fl := funcLitOf(c.Prog, ta.Set.Pkg.TypesInfo, u.Binds["modes"])
		if fl == nil {
			continue
		}
		info := ta.Set.Pkg.TypesInfo
		whyAll = "no unconditional collection of every value of context.LexerModes into the returned slice"
		var collected types.Object
		viaValues := false
		ast.Inspect(fl.Body, func(m ast.Node) bool {
			switch x := m.(type) {
			case *ast.RangeStmt:
				if !isField(info, x.X, "internal/codegen", "context", "LexerModes") || x.Value == nil {
					return true
				}
				val := usesObj(info, x.Value)
				// every statement of the body up to the append is unconditional
				for _, st := range x.Body.List {
					as, ok := st.(*ast.AssignStmt)
					if !ok || len(as.Lhs) != 1 || len(as.Rhs) != 1 {
						break
					}
					call, ok := as.Rhs[0].(*ast.CallExpr)
					if ok && builtinName(info, call) == "append" && len(call.Args) == 2 && sameExpr(call.Args[0], as.Lhs[0]) && usesObj(info, call.Args[1]) == val && val != nil {
						collected = usesObj(info, as.Lhs[0])
					}
					break
				}
			case *ast.CallExpr:
				if fullName(calleeFunc(info, x)) == "maps.Values" && len(x.Args) == 1 && isField(info, x.Args[0], "internal/codegen", "context", "LexerModes") {
					viaValues = true
				}
			}
			return true
		})
		// what is returned
		inspectNoLit(fl.Body, func(m ast.Node) bool {
			rs, ok := m.(*ast.ReturnStmt)
			if !ok || len(rs.Results) != 1 {
				return true
			}
			if collected != nil && usesObj(info, rs.Results[0]) == collected {
				okAll = true
			}
			if viaValues {
				e := ast.Unparen(resolveVia(info, localDefs(info, fl), rs.Results[0]))
				if call, ok := e.(*ast.CallExpr); ok && (fullName(calleeFunc(info, call)) == "slices.SortedFunc" || fullName(calleeFunc(info, call)) == "slices.Collect") && len(call.Args) >= 1 {
					if inner, ok := ast.Unparen(call.Args[0]).(*ast.CallExpr); ok && fullName(calleeFunc(info, inner)) == "maps.Values" {
						okAll = true
					}
				}
			}
			return true
		})
	}
	c.check(okAll, rule, "codegen.EmitLexer/modes-lists-every-mode", "", "modes() returns every mode of context.LexerModes (unconditional collection), so position in _lexerModes = Mode.Index",
		"modes() may leave modes out ("+whyAll+"): _lexerModes is positional while the push parameter is the Index assigned over all modes, so a push would select another mode's table or index past the end")
}

// ---- MODE-4: implicit last action ----

func ruleMODE4(c *Ctx) {
	const rule = "MODE-4"
	p := c.Prog
	pk, fd := p.FuncDecl("internal/ast", "TokenRule.RunPass")
	if fd == nil {
		c.unres(rule, "ast.TokenRule.RunPass", "", "function not found")
	} else {
		info := pk.TypesInfo
		// last append to actions.Actions (in RunPass or a method of the rule it delegates to):
		// literal accept of the receiver's Terminal.Index, not inside a loop or if
		ok := false
		for _, sc := range funcScope(p, pk, fd, 2) {
			owner, isDecl := sc.node.(*ast.FuncDecl)
			if !isDecl || owner.Recv == nil || recvTypeName(owner) != "TokenRule" || len(owner.Recv.List[0].Names) != 1 {
				continue
			}
			var last *ast.CallExpr
			par := parents(owner)
			inspectNoLit(owner.Body, func(n ast.Node) bool {
				if as, ok := n.(*ast.AssignStmt); ok && len(as.Lhs) == 1 && isField(info, as.Lhs[0], "lexergen/mode", "Actions", "Actions") {
					if call, ok := as.Rhs[0].(*ast.CallExpr); ok && builtinName(info, call) == "append" {
						last = call
					}
				}
				return true
			})
			if last == nil || len(last.Args) != 2 {
				continue
			}
			okHere := false
			if cl, isCL := last.Args[1].(*ast.CompositeLit); isCL {
				t, term := kvOf(cl, "Type"), kvOf(cl, "Terminal")
				recv := owner.Recv.List[0].Names[0].Name
				if t != nil && term != nil && usesObj(info, t) != nil && usesObj(info, t).Name() == "ActionAccept" && exprString(term) == recv+".Terminal.Index" {
					okHere = true
				}
			}
			for q := par[last]; q != nil; q = par[q] {
				switch q.(type) {
				case *ast.RangeStmt, *ast.ForStmt, *ast.IfStmt:
					okHere = false
				}
			}
			if okHere {
				ok = true
			}
		}
		c.check(ok, rule, "ast.TokenRule.RunPass/implicit-accept", p.Pos(fd.Pos()), "a token rule's action list always ends with the accept of its own terminal", "a token rule's action list does not unconditionally end with {ActionAccept, own Terminal.Index}")
	}
	pk2, fr := p.FuncDecl("internal/ast", "FragRule.RunPass")
	if fr == nil {
		c.unres(rule, "ast.FragRule.RunPass", "", "function not found")
		return
	}
	info := pk2.TypesInfo
	ok := false
	ast.Inspect(fr.Body, func(n ast.Node) bool {
		ifs, isIf := n.(*ast.IfStmt)
		if !isIf {
			return true
		}
		cj := conjuncts(ifs.Cond)
		if len(cj) != 2 {
			return true
		}
		neg := 0
		for _, e := range cj {
			if u, isU := e.(*ast.UnaryExpr); isU && u.Op == token.NOT {
				neg++
			}
		}
		if neg != 2 {
			return true
		}
		ast.Inspect(ifs.Body, func(m ast.Node) bool {
			if cl, isCL := m.(*ast.CompositeLit); isCL && typeIs(info.TypeOf(cl), "lexergen/mode", "Action") {
				if t := kvOf(cl, "Type"); t != nil && usesObj(info, t) != nil && usesObj(info, t).Name() == "ActionAccum" {
					ok = true
				}
			}
			return true
		})
		return true
	})
	c.check(ok, rule, "ast.FragRule.RunPass/implicit-accum", p.Pos(fr.Pos()), "a fragment with neither @emit nor @discard ends with the accumulate action", "a fragment with neither @emit nor @discard does not get the accumulate action")
}

// ---- EOFL: consumption accounting ----

// fieldSets lists the `recv.field = value` assignments executed by a statement list, following
// calls to methods of the same receiver one level deep (helper such as _startToken()).
func fieldSets(ti *TmplInstance, list []ast.Stmt, before ast.Node) map[string]string {
	info := ti.Info
	out := map[string]string{}
	var scan func(list []ast.Stmt, depth int)
	scan = func(list []ast.Stmt, depth int) {
		for _, s := range list {
			if before != nil && depth == 0 && s.Pos() >= before.Pos() {
				break
			}
			switch x := s.(type) {
			case *ast.AssignStmt:
				for k, l := range x.Lhs {
					if fv, _ := selField(info, l); fv != nil && k < len(x.Rhs) && len(x.Lhs) == len(x.Rhs) {
						out[fv.Name()] = exprString(x.Rhs[k])
					}
				}
			case *ast.ExprStmt:
				call, ok := x.X.(*ast.CallExpr)
				if !ok || depth > 0 {
					continue
				}
				if fn := calleeFunc(info, call); fn != nil && fn.Pkg() == ti.Pkg {
					for _, f := range ti.AllFiles {
						for _, d := range f.Decls {
							if fd, ok := d.(*ast.FuncDecl); ok && fd.Body != nil && info.Defs[fd.Name] == types.Object(fn) && fd.Recv != nil {
								scan(fd.Body.List, depth+1)
							}
						}
					}
				}
			}
		}
	}
	scan(list, 0)
	return out
}

func ruleEOFL(c *Ctx) {
	ta := c.tmplOrUnres("EOFL-1")
	if ta == nil {
		return
	}
	ti := ta.Variants[0]
	info := ti.Info
	r := findLexerReader(ti)
	if r == nil || r.loop == nil {
		c.unres("EOFL-1", "template/PushRune", "", "reader not found")
		return
	}
	consume, _ := ti.Pkg.Scope().Lookup("_lexerConsume").(*types.Const)
	eof, _ := ti.Pkg.Scope().Lookup("_lexerEOF").(*types.Const)
	par := parents(r.fd)
	runeParam := paramObj(info, r.fd, 0)
	// the EOF exits
	var eofRets []*ast.ReturnStmt
	ast.Inspect(r.fd.Body, func(n ast.Node) bool {
		if rs, ok := n.(*ast.ReturnStmt); ok && len(rs.Results) == 1 && eof != nil && usesObj(info, rs.Results[0]) == types.Object(eof) {
			eofRets = append(eofRets, rs)
		}
		return true
	})
	if len(eofRets) == 0 {
		c.bad("EOFL-3", "template/PushRune/eof-exit", ti.Pos(r.fd.Pos()), "no `return _lexerEOF` exit")
		return
	}
	c.check(len(eofRets) == 1, "EOFL-3", "template/PushRune/single-eof-exit", ti.Pos(eofRets[0].Pos()), "there is exactly one EOF exit", fmt.Sprintf("%d EOF exits", len(eofRets)))
	facts := pathConds(info, par, eofRets[0])
	var flag *types.Var
	stateBased := false
	endOfInput := false
	for _, f := range facts {
		if f.neg {
			if fv, _ := selField(info, f.e); fv != nil && isBool(fv.Type()) {
				flag = fv
			}
		}
		if l, op, rr, ok := cmpFact(f.e, !f.neg); ok && op == token.EQL {
			if fv, _ := selField(info, l); fv != nil && fv.Name() == "state" {
				if v, ok := constInt(info, rr); ok && v == 0 {
					stateBased = true
				}
			}
			if v, ok := constInt(info, rr); ok && v == -1 && usesObj(info, l) == runeParam {
				endOfInput = true
			}
		}
	}
	c.check(endOfInput, "EOFL-3", "template/PushRune/eof-exit", ti.Pos(eofRets[0].Pos()),
		"EOF is reported only for the end-of-input rune", "EOF can be reported for a rune other than end-of-input")
	if flag == nil {
		if stateBased {
			c.bad("EOFL-1", "template/PushRune/boundary-test", ti.Pos(eofRets[0].Pos()),
				"EOF (token boundary) is inferred from `state == 0`; DFA minimisation merges the start state with other states (dfa.optimize has no isolation of state 0), so input can end inside a token and be reported as a clean EOF, and an accepting start state yields endless empty tokens")
		} else {
			c.bad("EOFL-1", "template/PushRune/boundary-test", ti.Pos(eofRets[0].Pos()), "the EOF exit does not require that nothing was consumed since the last token boundary")
		}
		return
	}
	c.ok("EOFL-1", "template/PushRune/boundary-test", ti.Pos(eofRets[0].Pos()), "EOF requires !%s: an explicit record of whether input was consumed since the last token boundary", flag.Name())
	blockOf := func(n ast.Node) []ast.Stmt { return enclosingList(par, n) }
	// (i) every consume sets the flag
	nCons := 0
	ast.Inspect(r.fd.Body, func(n ast.Node) bool {
		rs, ok := n.(*ast.ReturnStmt)
		if !ok || len(rs.Results) != 1 || consume == nil || usesObj(info, rs.Results[0]) != types.Object(consume) {
			return true
		}
		nCons++
		// the end-of-input marker (-1) is never consumed: the driver cannot advance past the end, so a
		// "consume" answer to it is repeated for ever. Wanted: a lower bound on the rune among the
		// conditions of this return (r >= <table word> / r >= 0 / r != -1)
		bounded := false
		eoflDefs = localDefs(info, r.fd)
		for _, fct := range pathConds(info, par, rs) {
			l, op, rr, ok := cmpFact(fct.e, !fct.neg)
			if !ok {
				continue
			}
			lIsR, rIsR := usesObj(info, stripConv(info, l)) == runeParam, usesObj(info, stripConv(info, rr)) == runeParam
			switch {
			case lIsR && (op == token.GEQ || op == token.GTR) && nonNegative(info, rr, op == token.GTR):
				bounded = true
			case rIsR && (op == token.LEQ || op == token.LSS) && nonNegative(info, l, op == token.LSS):
				bounded = true
			case (lIsR || rIsR) && op == token.NEQ:
				other := rr
				if rIsR {
					other = l
				}
				if v, ok := constInt(info, other); ok && v == -1 {
					bounded = true
				}
			}
		}
		c.check(bounded, "EOFL-1", "template/PushRune/consume-not-end-of-input", ti.Pos(rs.Pos()),
			"a rune is consumed only under a lower bound (it lies in a range of the table): the end-of-input marker -1 is never consumed",
			"a rune is consumed on a path with no lower bound on it: the end-of-input marker (-1) can be answered with `consume`, which the driver repeats for ever (ReadToken never returns, EOF is never reached)")
		sets := fieldSets(ti, blockOf(rs), rs)
		c.check(sets[flag.Name()] == "true", "EOFL-1", "template/PushRune/consume-sets-flag", ti.Pos(rs.Pos()),
			"every `return _lexerConsume` is preceded by "+flag.Name()+" = true", "a rune is consumed without recording it in "+flag.Name()+": the input could end inside a token and be reported as EOF")
		return true
	})
	if nCons == 0 {
		c.unres("EOFL-1", "template/PushRune/consume-sets-flag", "", "no consume exit found")
	}
	// (ii) every token boundary clears the flag and returns to state 0
	R, _, okCls := readerActionClasses(c, ti)
	if !okCls {
		c.unres("EOFL-1", "template/PushRune/boundary-clears-flag", "", "cannot classify reader arms")
	}
	mpk := c.Prog.Pkg("internal/lexergen/mode")
	for name := range R {
		k := mpk.Types.Scope().Lookup(name).(*types.Const)
		v, _ := constant.Int64Val(k.Val())
		arm := r.arms[v]
		last := arm.Body[len(arm.Body)-1]
		sets := fieldSets(ti, arm.Body, last)
		clears, state0 := sets[flag.Name()] == "false", sets["state"] == "0"
		c.check(clears && state0, "EOFL-1", "template/PushRune/boundary("+name+")", ti.Pos(arm.Pos()),
			"the arm ends a token: it resets the state to 0 and clears "+flag.Name(),
			fmt.Sprintf("the arm ends a token but does not reset both the state (%v) and %s (%v): the next empty match would run actions again without consuming anything (endless loop), or EOF would be missed", state0, flag.Name(), clears))
	}
	// (iii) Reset
	if rf, _ := ti.FuncDecl("_LexerStateMachine.Reset"); rf == nil {
		c.unres("EOFL-1", "template/Reset", "", "Reset not found")
	} else {
		sets := fieldSets(ti, rf.Body.List, nil)
		c.check(sets[flag.Name()] == "false" && sets["state"] == "0", "EOFL-1", "template/Reset", ti.Pos(rf.Pos()), "Reset (called by the driver after an error) returns to state 0 with nothing consumed",
			"Reset does not restore both state 0 and "+flag.Name()+" = false: after an error the machine resumes in a stale state and can report errors for ever")
	}
	// EOFL-2: no empty token: the action loop is unreachable while nothing was consumed
	guard := holds(pathConds(info, par, r.loop), func(e ast.Expr, pos bool) bool {
		fv, _ := selField(info, e)
		return pos && fv == flag
	})
	if !guard {
		// form: if !flag { i = end } right before the loop
		for _, s := range enclosingList(par, r.loop) {
			if s.Pos() >= r.loop.Pos() {
				break
			}
			ifs, ok := s.(*ast.IfStmt)
			if !ok || len(ifs.Body.List) != 1 || ifs.Else != nil {
				continue
			}
			if u, ok := ifs.Cond.(*ast.UnaryExpr); ok && u.Op == token.NOT {
				if fv, _ := selField(info, u.X); fv == flag {
					if as, ok := ifs.Body.List[0].(*ast.AssignStmt); ok && len(as.Lhs) == 1 && exprString(as.Lhs[0]) == r.idxVar {
						if be, ok := r.loop.Cond.(*ast.BinaryExpr); ok && be.Op == token.LSS && sameExpr(be.Y, as.Rhs[0]) {
							guard = true
						}
					}
				}
			}
		}
	}
	c.check(guard, "EOFL-2", "template/PushRune/no-empty-token", ti.Pos(r.loop.Pos()),
		"the action loop is not reached while nothing was consumed: a match of the empty string is never a token",
		"actions can run in a state reached without consuming input: a rule matching the empty string yields an endless stream of empty tokens")
	// EOF is not reported while actions are pending: either it follows the loop, or its path excludes consumption
	c.check(eofRets[0].Pos() > r.loop.End() || holds(facts, func(e ast.Expr, pos bool) bool { fv, _ := selField(info, e); return !pos && fv == flag }), "EOFL-3", "template/PushRune/eof-after-actions", ti.Pos(eofRets[0].Pos()),
		"EOF is only reported when no action of the current state can be pending", "EOF can be reported before the pending actions ran")
	// the flag is written nowhere else
	other := 0
	for _, f := range ti.AllFiles {
		ast.Inspect(f, func(n ast.Node) bool {
			if as, ok := n.(*ast.AssignStmt); ok && len(as.Lhs) == 1 {
				if fv, _ := selField(info, as.Lhs[0]); fv == flag {
					other++
				}
			}
			return true
		})
	}
	c.ok("EOFL-1", "template/flag-writes", "", "%d writes of %s in the templates, all classified above", other, flag.Name())
}

var _ = packages.NeedName

func checkStackOps(c *Ctx, rule string, ti *TmplInstance) {
	info := ti.Info
	get := func(name string) (*ast.FuncDecl, string, string, map[types.Object]ast.Expr) {
		fd, _ := ti.FuncDecl("_Stack." + name)
		if fd == nil || fd.Recv == nil || len(fd.Recv.List[0].Names) != 1 || len(fd.Type.Params.List) != 1 {
			return nil, "", "", nil
		}
		return fd, fd.Recv.List[0].Names[0].Name, fd.Type.Params.List[0].Names[0].Name, localDefs(info, fd.Body)
	}
	// Push: *recv = append(*recv, param)
	if fd, recv, prm, defs := get("Push"); fd == nil {
		c.unres(rule, "template/_Stack.Push", "", "method not found")
	} else {
		ok := false
		ast.Inspect(fd.Body, func(n ast.Node) bool {
			as, isAs := n.(*ast.AssignStmt)
			if !isAs || len(as.Lhs) != 1 || canonExpr(info, defs, as.Lhs[0], 0) != "*"+recv {
				return true
			}
			if canonExpr(info, defs, as.Rhs[0], 0) == "append(*"+recv+","+prm+")" {
				ok = true
			}
			return true
		})
		c.check(ok, rule, "template/_Stack.Push", ti.Pos(fd.Pos()), "Push appends its argument at the end", "Push does not append its argument at the end of the stack")
	}
	// Pop(n): *recv = (*recv)[:len(*recv)-n]
	if fd, recv, prm, defs := get("Pop"); fd == nil {
		c.unres(rule, "template/_Stack.Pop", "", "method not found")
	} else {
		ok := false
		ast.Inspect(fd.Body, func(n ast.Node) bool {
			as, isAs := n.(*ast.AssignStmt)
			if !isAs || len(as.Lhs) != 1 || canonExpr(info, defs, as.Lhs[0], 0) != "*"+recv {
				return true
			}
			sl, isSl := resolveVia(info, defs, as.Rhs[0]).(*ast.SliceExpr)
			if !isSl || sl.High == nil || (sl.Low != nil && exprString(sl.Low) != "0") || canonExpr(info, defs, sl.X, 0) != "*"+recv {
				return true
			}
			t, k := linearForm(info, defs, sl.High)
			ok = sameLinear(t, k, map[string]int64{"len(*" + recv + ")": 1, prm: -1}, 0)
			return true
		})
		c.check(ok, rule, "template/_Stack.Pop", ti.Pos(fd.Pos()), "Pop(n) keeps the first len-n elements", "Pop(n) does not reslice the stack to its first len-n elements")
	}
	// Peek(n): recv[len(recv)-n-1]
	if fd, recv, prm, defs := get("Peek"); fd == nil {
		c.unres(rule, "template/_Stack.Peek", "", "method not found")
	} else {
		ok := false
		ast.Inspect(fd.Body, func(n ast.Node) bool {
			rs, isR := n.(*ast.ReturnStmt)
			if !isR || len(rs.Results) != 1 {
				return true
			}
			ix, isIx := resolveVia(info, defs, rs.Results[0]).(*ast.IndexExpr)
			if !isIx || canonExpr(info, defs, ix.X, 0) != recv {
				return true
			}
			t, k := linearForm(info, defs, ix.Index)
			ok = sameLinear(t, k, map[string]int64{"len(" + recv + ")": 1, prm: -1}, -1)
			return true
		})
		c.check(ok, rule, "template/_Stack.Peek", ti.Pos(fd.Pos()), "Peek(n) returns the element n below the top", "Peek(n) does not return element len-n-1")
	}
}


// nonNegative: e is known to be >= 0 (strict: the comparison is r > e, so e >= -1 suffices): a
// conversion of an unsigned value, a non-negative constant.
// single-assignment locals of the function under analysis (a bound may be named first:
// `lo := rune(table[k])`)
var eoflDefs map[types.Object]ast.Expr

func nonNegative(info *types.Info, e ast.Expr, strict bool) bool {
	if v, ok := constInt(info, e); ok {
		return v >= 0 || (strict && v >= -1)
	}
	if o := usesObj(info, stripConv(info, e)); o != nil && eoflDefs != nil {
		if d, ok := eoflDefs[o]; ok && d != e {
			return nonNegative(info, d, strict)
		}
	}
	inner := stripConv(info, e)
	if t := info.TypeOf(inner); t != nil {
		if b, ok := t.Underlying().(*types.Basic); ok && b.Info()&types.IsUnsigned != 0 {
			return true
		}
	}
	return false
}
