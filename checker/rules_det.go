package main

// C13 — output is deterministic and independent of earlier runs.

import (
	"fmt"
	"go/ast"
	"go/token"
	"go/types"
	"strings"

	"golang.org/x/tools/go/cfg"
	"golang.org/x/tools/go/packages"
)

var sortFuncs = map[string]bool{
	"sort.Strings": true, "sort.Ints": true, "sort.Float64s": true, "sort.Slice": true, "sort.SliceStable": true,
	"sort.Sort": true, "sort.Stable": true,
	"slices.Sort": true, "slices.SortFunc": true, "slices.SortStableFunc": true,
}

// order-normalising consumers: functions that provably consume a slice argument as a set.
// Verified structurally on every run by verifySetConsumer.
var setConsumers = map[string]int{
	modPath + "/internal/lexergen/rang3.Normalize": 0,
}

func ruleDET1(c *Ctx) {
	const rule = "DET-1"
	c.floor(rule, 10)
	p := c.Prog
	p.ProdFiles(func(pk *packages.Package, f *ast.File) {
		info := pk.TypesInfo
		for _, d := range f.Decls {
			fd, ok := d.(*ast.FuncDecl)
			if !ok || fd.Body == nil {
				continue
			}
			// stack of function nodes for innermost lookup
			var stack []ast.Node
			stack = append(stack, fd)
			var visit func(n ast.Node) bool
			idx := 0
			visit = func(n ast.Node) bool {
				switch x := n.(type) {
				case *ast.FuncLit:
					stack = append(stack, x)
					ast.Inspect(x.Body, visit)
					stack = stack[:len(stack)-1]
					return false
				case *ast.RangeStmt:
					if _, ok := info.TypeOf(x.X).Underlying().(*types.Map); ok {
						construct := fmt.Sprintf("%s/range(%s)", funcKey(pk, fd), exprString(x.X))
						idx++
						det1Func = funcKey(pk, fd)
						classifyMapRange(c, rule, construct, pk, fd, stack[len(stack)-1], x)
					}
				case *ast.CallExpr:
					fn := calleeFunc(info, x)
					switch fullName(fn) {
					case "maps.Keys", "maps.Values", "maps.All", "reflect.Value.MapKeys", "reflect.Value.MapRange", "sync.Map.Range":
						// slices.Sorted(maps.Keys(m)): the iterator is consumed by a total sort
						if pc, ok := parents(fd)[x].(*ast.CallExpr); ok && len(pc.Args) >= 1 && pc.Args[0] == ast.Expr(x) {
							switch pf := fullName(calleeFunc(info, pc)); pf {
							case "slices.Sorted":
								if fullName(fn) == "maps.Keys" || fullName(fn) == "maps.Values" { // natural order: equal elements are indistinguishable
									c.ok(rule, fmt.Sprintf("%s/call(%s)", funcKey(pk, fd), fullName(fn)), p.Pos(x.Pos()), "the elements are collected by slices.Sorted: ordered by their natural order")
									return true
								}
							case "slices.SortedFunc":
								// the same trust as slices.SortFunc applied to the collected slice: the comparator is listed
								if (fullName(fn) == "maps.Keys" || fullName(fn) == "maps.Values") && len(pc.Args) == 2 {
									c.ok(rule, fmt.Sprintf("%s/call(%s)", funcKey(pk, fd), fullName(fn)), p.Pos(x.Pos()), "the elements are collected by slices.SortedFunc by %s", truncate(exprString(pc.Args[1]), 90))
									return true
								}
							case "slices.Collect", "slices.AppendSeq":
								// keys := slices.Collect(maps.Keys(m)) followed at once by a sort of keys
								fpar := parents(fd)
								if as, ok := fpar[pc].(*ast.AssignStmt); ok && len(as.Lhs) == 1 && len(as.Rhs) == 1 {
									list := enclosingList(fpar, as)
									for i, st := range list {
										if st == ast.Stmt(as) && i+1 < len(list) {
											if okUse, how := orderingUse(c, info, list[i+1], as.Lhs[0]); okUse {
												c.ok(rule, fmt.Sprintf("%s/call(%s)", funcKey(pk, fd), fullName(fn)), p.Pos(x.Pos()), "collected into %s and at once ordered: %s", exprString(as.Lhs[0]), how)
												return true
											}
										}
									}
								}
							}
						}
						c.bad(rule, fmt.Sprintf("%s/call(%s)", funcKey(pk, fd), fullName(fn)), p.Pos(x.Pos()),
							"iterates a map in runtime order through %s; no accepted ordering idiom is known for this form", fullName(fn))
					}
				}
				return true
			}
			ast.Inspect(fd.Body, visit)
		}
	})
	// verify the order-normalising consumers' own structure
	for full, argIdx := range setConsumers {
		verifySetConsumer(c, rule, full, argIdx)
	}
}

func classifyMapRange(c *Ctx, rule, construct string, pk *packages.Package, fd *ast.FuncDecl, fnNode ast.Node, rs *ast.RangeStmt) {
	p := c.Prog
	info := pk.TypesInfo
	pos := p.Pos(rs.Pos())
	// idiom (a)/(b): body is exactly `X = append(X, e)`
	if len(rs.Body.List) == 1 {
		if as, ok := rs.Body.List[0].(*ast.AssignStmt); ok && len(as.Lhs) == 1 && len(as.Rhs) == 1 && as.Tok == token.ASSIGN {
			if call, ok := as.Rhs[0].(*ast.CallExpr); ok && builtinName(info, call) == "append" && len(call.Args) >= 2 && sameExpr(call.Args[0], as.Lhs[0]) {
				target := as.Lhs[0]
				g := p.CFG(pk, fnNode)
				if g == nil {
					c.unres(rule, construct, pos, "no CFG for enclosing function")
					return
				}
				first, reachedExit := firstMentionsAfterLoop(g, info, rs, target)
				if len(first) == 0 {
					if reachedExit {
						c.ok(rule, construct, pos, "collects map keys/values into %s, which is never used afterwards", exprString(target))
					} else {
						c.ok(rule, construct, pos, "collects map keys/values into %s, which is never used afterwards", exprString(target))
					}
					return
				}
				var how []string
				for _, n := range first {
					verdict, why := orderingUse(c, info, n, target)
					if !verdict {
						c.bad(rule, construct, p.Pos(n.Pos()),
							"slice %s is filled in map-iteration order and its first use after the loop is not a sort or an order-normalising consumer: %s", exprString(target), why)
						return
					}
					how = append(how, why)
				}
				c.ok(rule, construct, pos, "collect-then-order: %s filled from the map, then on every path first %s", exprString(target), strings.Join(dedupe(how), "; "))
				return
			}
		}
	}
	// idiom (c): commutative body
	if why := commutativeBody(c, pk, fd, fnNode, rs); why != "" {
		c.bad(rule, construct, pos, "range over built-in map with an order-dependent effect: %s", why)
		return
	}
	c.ok(rule, construct, pos, "commutative body: effects are map inserts keyed by the iterated key, locals, diagnostics (ErrLogger, outside the property's output set) and fills of containers whose later iterations only emit diagnostics")
}

func dedupe(xs []string) []string {
	seen := map[string]bool{}
	var out []string
	for _, x := range xs {
		if !seen[x] {
			seen[x] = true
			out = append(out, x)
		}
	}
	return out
}

// mentions reports whether node n mentions target (an identifier's object, or a selector path by text).
func mentions(info *types.Info, n ast.Node, target ast.Expr) bool {
	target = ast.Unparen(target)
	found := false
	switch t := target.(type) {
	case *ast.Ident:
		obj := usesObj(info, t)
		ast.Inspect(n, func(m ast.Node) bool {
			if id, ok := m.(*ast.Ident); ok && obj != nil && (info.Uses[id] == obj || info.Defs[id] == obj) {
				found = true
			}
			return !found
		})
	default:
		want := exprString(target)
		ast.Inspect(n, func(m ast.Node) bool {
			if e, ok := m.(ast.Expr); ok && exprString(e) == want {
				found = true
			}
			return !found
		})
	}
	return found
}

// firstMentionsAfterLoop walks the CFG forward from the loop's exit and returns, for every path,
// the first node that mentions target.
func firstMentionsAfterLoop(g *cfg.CFG, info *types.Info, rs *ast.RangeStmt, target ast.Expr) (first []ast.Node, reachedExit bool) {
	var starts []cfgPos
	for _, b := range g.Blocks {
		if b.Kind == cfg.KindRangeDone && b.Stmt == rs {
			starts = append(starts, cfgPos{b, 0})
		}
	}
	if len(starts) == 0 {
		return nil, false
	}
	reachedExit = cfgForward(g, starts, true, func(n ast.Node) bool {
		if containsNode(rs, n) {
			return false
		}
		if mentions(info, n, target) {
			first = append(first, n)
			return true
		}
		return false
	}, nil)
	return first, reachedExit
}

// orderingUse decides whether node n (the first use of target after the collecting loop) imposes
// an order on target that is independent of the collection order.
func orderingUse(c *Ctx, info *types.Info, n ast.Node, target ast.Expr) (bool, string) {
	var call *ast.CallExpr
	switch x := n.(type) {
	case *ast.ExprStmt:
		call, _ = x.X.(*ast.CallExpr)
	case *ast.CallExpr:
		call = x
	}
	if call == nil {
		return false, fmt.Sprintf("`%s` is not a call", nodeText(n))
	}
	fn := calleeFunc(info, call)
	full := fullName(fn)
	if sortFuncs[full] {
		if len(call.Args) >= 1 && sameExpr(call.Args[0], target) {
			cmp := ""
			if len(call.Args) >= 2 {
				cmp = " by " + truncate(exprString(call.Args[1]), 90)
				// a key obtained through an interface method is not known to be unique across the
				// implementers (a rule and a terminal may both be called ERROR): elements that tie keep
				// the map's order
				if why := interfaceSortKey(c, info, call.Args[1]); why != "" {
					return false, why
				}
			}
			return true, fmt.Sprintf("%s(%s)%s", full, exprString(target), cmp)
		}
		return false, fmt.Sprintf("%s is applied to %s, not to %s", full, exprString(call.Args[0]), exprString(target))
	}
	if idx, ok := setConsumers[full]; ok {
		if idx < len(call.Args) && sameExpr(call.Args[idx], target) {
			return true, fmt.Sprintf("handed to the set-consumer %s (verified structurally)", shortName(fn))
		}
	}
	// a sort wrapper of the module: its first statement sorts the parameter the slice is bound to
	if idx, via := sortWrapperParam(c.Prog, fn, 0); idx >= 0 && idx < len(call.Args) && sameExpr(call.Args[idx], target) {
		return true, fmt.Sprintf("%s(%s), which is %s on that parameter", shortName(fn), exprString(target), via)
	}
	return false, fmt.Sprintf("`%s` uses it in collection order", truncate(nodeText(n), 90))
}

func nodeText(n ast.Node) string {
	switch x := n.(type) {
	case ast.Expr:
		return exprString(x)
	case *ast.ExprStmt:
		return exprString(x.X)
	case *ast.AssignStmt:
		var l, r []string
		for _, e := range x.Lhs {
			l = append(l, exprString(e))
		}
		for _, e := range x.Rhs {
			r = append(r, exprString(e))
		}
		return strings.Join(l, ", ") + " " + x.Tok.String() + " " + strings.Join(r, ", ")
	case *ast.IncDecStmt:
		return exprString(x.X) + x.Tok.String()
	case *ast.ReturnStmt:
		var r []string
		for _, e := range x.Results {
			r = append(r, exprString(e))
		}
		return "return " + strings.Join(r, ", ")
	}
	return fmt.Sprintf("%T", n)
}

func truncate(s string, n int) string {
	s = strings.Join(strings.Fields(s), " ")
	if len(s) > n {
		return s[:n] + "..."
	}
	return s
}

func isErrLoggerMethod(fn *types.Func) bool {
	return fn != nil && strings.HasPrefix(fullName(fn), modPath+"/internal/base/errlogger.ErrLogger.")
}
func isAssertFunc(fn *types.Func) bool {
	return fn != nil && fn.Pkg() != nil && fn.Pkg().Path() == modPath+"/internal/base/assert"
}

// commutativeBody returns "" if every effect of the loop body is order-independent, else a reason.
func commutativeBody(c *Ctx, pk *packages.Package, fd *ast.FuncDecl, fnNode ast.Node, rs *ast.RangeStmt) string {
	info := pk.TypesInfo
	p := c.Prog
	declaredInside := func(obj types.Object) bool {
		return obj != nil && obj.Pos() >= rs.Pos() && obj.Pos() <= rs.End()
	}
	keyObj := types.Object(nil)
	if id, ok := rs.Key.(*ast.Ident); ok {
		keyObj = info.Defs[id]
	}
	// variables inside the body derived from the iteration key
	derived := map[types.Object]bool{}
	if keyObj != nil {
		derived[keyObj] = true
	}
	mentionsDerived := func(e ast.Expr) bool {
		found := false
		ast.Inspect(e, func(m ast.Node) bool {
			if id, ok := m.(*ast.Ident); ok && derived[info.Uses[id]] {
				found = true
			}
			return !found
		})
		return found
	}
	for changed := true; changed; {
		changed = false
		ast.Inspect(rs.Body, func(n ast.Node) bool {
			if as, ok := n.(*ast.AssignStmt); ok && len(as.Lhs) == len(as.Rhs) {
				for i, l := range as.Lhs {
					if id, ok := l.(*ast.Ident); ok {
						o := info.Defs[id]
						if o == nil {
							o = info.Uses[id]
						}
						if o != nil && !derived[o] && mentionsDerived(as.Rhs[i]) {
							derived[o] = true
							changed = true
						}
					}
				}
			}
			return true
		})
	}
	var reason string
	fail := func(n ast.Node, format string, a ...any) {
		if reason == "" {
			reason = fmt.Sprintf("%s: ", p.Pos(n.Pos())) + fmt.Sprintf(format, a...)
		}
	}
	var filled []*types.Var // order-carrying local containers filled by the body
	var stmts func(list []ast.Stmt)
	var stmt func(s ast.Stmt)
	stmts = func(list []ast.Stmt) {
		for _, s := range list {
			stmt(s)
		}
	}
	stmt = func(s ast.Stmt) {
		switch x := s.(type) {
		case nil, *ast.EmptyStmt:
		case *ast.BlockStmt:
			stmts(x.List)
		case *ast.IfStmt:
			stmt(x.Init)
			stmt(x.Body)
			stmt(x.Else)
		case *ast.ForStmt:
			stmt(x.Init)
			stmt(x.Post)
			stmt(x.Body)
		case *ast.RangeStmt:
			if _, ok := info.TypeOf(x.X).Underlying().(*types.Map); ok {
				fail(x, "nested range over a map")
			}
			stmt(x.Body)
		case *ast.SwitchStmt:
			stmt(x.Init)
			for _, cc := range x.Body.List {
				stmts(cc.(*ast.CaseClause).Body)
			}
		case *ast.BranchStmt:
			if x.Tok != token.CONTINUE {
				fail(x, "`%s` makes the set of processed entries depend on iteration order", x.Tok)
			}
		case *ast.DeclStmt:
		case *ast.IncDecStmt:
			if id, ok := x.X.(*ast.Ident); !ok || !isNumeric(info.TypeOf(id)) {
				fail(x, "increment of a non-counter")
			}
		case *ast.ReturnStmt:
			fail(x, "`return` inside the loop makes the result depend on which entry is seen first")
		case *ast.AssignStmt:
			for i, l := range x.Lhs {
				l = ast.Unparen(l)
				switch lv := l.(type) {
				case *ast.Ident:
					if lv.Name == "_" {
						continue
					}
					o := info.Defs[lv]
					if o == nil {
						o = info.Uses[lv]
					}
					if declaredInside(o) {
						continue
					}
					t := info.TypeOf(lv)
					if isBool(t) || isNumeric(t) {
						continue // boolean / counter accumulation
					}
					fail(x, "assignment to outer variable %s of type %s", lv.Name, t)
				case *ast.IndexExpr:
					if _, ok := info.TypeOf(lv.X).Underlying().(*types.Map); ok {
						if !mentionsDerived(lv.Index) {
							fail(x, "map store %s whose key is not derived from the iterated key (last writer would win)", exprString(lv))
						}
						continue
					}
					fail(x, "store into %s", exprString(lv))
				default:
					_ = i
					fail(x, "store into %s", exprString(l))
				}
			}
		case *ast.ExprStmt:
			call, ok := x.X.(*ast.CallExpr)
			if !ok {
				fail(x, "expression statement")
				return
			}
			fn := calleeFunc(info, call)
			switch {
			case isErrLoggerMethod(fn), isAssertFunc(fn):
			case fn != nil && isOrderedContainerMethod(fn):
				sel, _ := call.Fun.(*ast.SelectorExpr)
				if sel == nil {
					fail(x, "call %s", exprString(call.Fun))
					return
				}
				if id, ok := ast.Unparen(sel.X).(*ast.Ident); ok {
					if v, ok := info.Uses[id].(*types.Var); ok && !v.IsField() && v.Parent() != pk.Types.Scope() {
						filled = append(filled, v)
						return
					}
				}
				fail(x, "fills the order-carrying container %s, which is not a local variable", exprString(sel.X))
			default:
				fail(x, "call `%s` made for its effect", truncate(exprString(call), 80))
			}
		default:
			fail(s, "statement of kind %T", s)
		}
	}
	stmts(rs.Body.List)
	if reason != "" {
		return reason
	}
	// follow the filled containers: every other use in the function must not expose their order
	for _, v := range filled {
		if why := containerUsesAreOrderFree(c, pk, fnNode, rs, v); why != "" {
			return why
		}
	}
	return ""
}

func isBool(t types.Type) bool {
	b, ok := t.Underlying().(*types.Basic)
	return ok && b.Info()&types.IsBoolean != 0
}
func isNumeric(t types.Type) bool {
	b, ok := t.Underlying().(*types.Basic)
	return ok && b.Info()&types.IsNumeric != 0
}

// isOrderedContainerMethod: Add/AddSlice/AddSet/Put on the repo's insertion-ordered containers.
func isOrderedContainerMethod(fn *types.Func) bool {
	full := fullName(fn)
	for _, pfx := range []string{modPath + "/internal/base/set.Set.", modPath + "/internal/base/stablemap.Map.", modPath + "/internal/base/stablemap.MultiMap.", modPath + "/internal/base/array.Array."} {
		if strings.HasPrefix(full, pfx) {
			return true
		}
	}
	return false
}

func containerUsesAreOrderFree(c *Ctx, pk *packages.Package, fnNode ast.Node, rs *ast.RangeStmt, v *types.Var) string {
	info := pk.TypesInfo
	par := parents(fnNode)
	var why string
	ast.Inspect(fnNode, func(n ast.Node) bool {
		id, ok := n.(*ast.Ident)
		if !ok || info.Uses[id] != v || why != "" {
			return true
		}
		if containsNode(rs, id) {
			return true
		}
		// expected shape: v.Method(args)
		sel, ok := par[id].(*ast.SelectorExpr)
		call, ok2 := par[sel].(*ast.CallExpr)
		if !ok || !ok2 || call.Fun != sel {
			why = fmt.Sprintf("%s: container %s (filled in map order) escapes: %s", c.Prog.Pos(id.Pos()), v.Name(), truncate(nodeText(par[id]), 60))
			return true
		}
		switch sel.Sel.Name {
		case "Remove", "Empty", "Has", "Len", "Add", "AddSlice", "AddSet", "Clear":
		case "ForEach":
			// the callback may only emit diagnostics
			if len(call.Args) == 1 {
				if fl, ok := call.Args[0].(*ast.FuncLit); ok {
					okBody := true
					for _, s := range fl.Body.List {
						es, ok := s.(*ast.ExprStmt)
						if !ok {
							okBody = false
							break
						}
						cc, ok := es.X.(*ast.CallExpr)
						if !ok || !(isErrLoggerMethod(calleeFunc(info, cc)) || isAssertFunc(calleeFunc(info, cc))) {
							okBody = false
						}
					}
					if okBody {
						return true
					}
				}
			}
			why = fmt.Sprintf("%s: iteration of %s (filled in map order) does more than emit diagnostics", c.Prog.Pos(call.Pos()), v.Name())
		default:
			why = fmt.Sprintf("%s: %s.%s exposes the order of a container filled in map order", c.Prog.Pos(call.Pos()), v.Name(), sel.Sel.Name)
		}
		return true
	})
	return why
}

// verifySetConsumer checks that function `full` uses its slice parameter #argIdx only by handing
// it to a constructor that pushes every element into a deduplicating heap ordered by a total order.
func verifySetConsumer(c *Ctx, rule, full string, argIdx int) {
	p := c.Prog
	i := strings.LastIndex(full, ".")
	pkgPath, name := full[:i], full[i+1:]
	pk := p.ByID[pkgPath]
	construct := "set-consumer " + strings.TrimPrefix(full, modPath+"/")
	if pk == nil {
		c.unres(rule, construct, "", "package not found")
		return
	}
	_, fd := p.FuncDecl(strings.TrimPrefix(pkgPath, modPath+"/"), name)
	if fd == nil {
		c.unres(rule, construct, "", "function not found")
		return
	}
	info := pk.TypesInfo
	param := paramObj(info, fd, argIdx)
	if param == nil {
		c.unres(rule, construct, p.Pos(fd.Pos()), "parameter %d not found", argIdx)
		return
	}
	// every use of the parameter: argument of a call to a same-package constructor
	var ctor *types.Func
	ctorArg := -1
	bad := ""
	par := parents(fd)
	ast.Inspect(fd.Body, func(n ast.Node) bool {
		id, ok := n.(*ast.Ident)
		if !ok || info.Uses[id] != param {
			return true
		}
		call, ok := par[id].(*ast.CallExpr)
		if !ok {
			bad = fmt.Sprintf("%s: parameter used outside a call", p.Pos(id.Pos()))
			return true
		}
		fn := calleeFunc(info, call)
		if fn == nil || fn.Pkg() != pk.Types {
			bad = fmt.Sprintf("%s: parameter passed to %s", p.Pos(id.Pos()), exprString(call.Fun))
			return true
		}
		for k, a := range call.Args {
			if a == ast.Expr(id) {
				ctor, ctorArg = fn, k
			}
		}
		return true
	})
	if bad != "" || ctor == nil {
		c.bad(rule, construct, p.Pos(fd.Pos()), "the slice parameter is not consumed as a set: %s", bad)
		return
	}
	cfd := p.funcDecls[ctor]
	if cfd == nil {
		c.unres(rule, construct, "", "constructor %s has no declaration", ctor.Name())
		return
	}
	cparam := paramObj(info, cfd, ctorArg)
	cpar := parents(cfd)
	pushSeen := false
	ast.Inspect(cfd.Body, func(n ast.Node) bool {
		id, ok := n.(*ast.Ident)
		if !ok || info.Uses[id] != cparam || bad != "" {
			return true
		}
		switch pn := cpar[id].(type) {
		case *ast.CallExpr:
			if builtinName(info, pn) != "len" {
				bad = fmt.Sprintf("%s: %s passes the slice on to %s", p.Pos(id.Pos()), ctor.Name(), exprString(pn.Fun))
			}
		case *ast.RangeStmt:
			if pn.X != ast.Expr(id) || len(pn.Body.List) != 1 {
				bad = fmt.Sprintf("%s: unexpected loop over the slice", p.Pos(id.Pos()))
				return true
			}
			es, ok := pn.Body.List[0].(*ast.ExprStmt)
			if !ok {
				bad = fmt.Sprintf("%s: loop body is not a single push", p.Pos(pn.Pos()))
				return true
			}
			call, ok := es.X.(*ast.CallExpr)
			push := calleeFunc(info, call)
			if !ok || push == nil {
				bad = fmt.Sprintf("%s: loop body is not a single push", p.Pos(pn.Pos()))
				return true
			}
			// the push method must deduplicate and insert with container/heap
			pfd := p.funcDecls[push]
			if pfd == nil {
				bad = "push method has no declaration"
				return true
			}
			hasHeap := len(findCalls(info, pfd.Body, false, func(fn *types.Func, _ *ast.CallExpr) bool { return fullName(fn) == "container/heap.Push" })) > 0
			if !hasHeap {
				bad = fmt.Sprintf("%s: %s does not insert with container/heap.Push", p.Pos(pfd.Pos()), push.Name())
				return true
			}
			pushSeen = true
		default:
			bad = fmt.Sprintf("%s: unexpected use of the slice in %s", p.Pos(id.Pos()), ctor.Name())
		}
		return true
	})
	if bad != "" || !pushSeen {
		c.bad(rule, construct, p.Pos(cfd.Pos()), "the slice is not consumed as a set: %s", bad)
		return
	}
	c.ok(rule, construct, p.Pos(fd.Pos()), "parameter #%d is only handed to %s, which only pushes each element into a container/heap ordered by a total order: the pop sequence is a function of the set", argIdx, ctor.Name())
}

func paramObj(info *types.Info, fd *ast.FuncDecl, idx int) types.Object {
	k := 0
	for _, fld := range fd.Type.Params.List {
		for _, nm := range fld.Names {
			if k == idx {
				return info.Defs[nm]
			}
			k++
		}
	}
	return nil
}

// ---- DET-2: template ranges iterate slice-typed values ----

func ruleDET2(c *Ctx) {
	const rule = "DET-2"
	ta := c.tmplOrUnres(rule)
	if ta == nil {
		return
	}
	c.floor(rule, 5)
	for _, u := range ta.Set.Uses {
		jt := newJetTyper(c.Prog, ta.Set, u)
		var walk func(ns []jNode, env *jtEnv)
		n := 0
		walk = func(ns []jNode, env *jtEnv) {
			for _, nd := range ns {
				switch x := nd.(type) {
				case *jSet:
					t, _ := jt.typeOf(x.Expr, env)
					env.vars[x.Name] = t
				case *jIf:
					for _, b := range x.Branches {
						walk(b.Body, env.child())
					}
					walk(x.Else, env.child())
				case *jRange:
					n++
					construct := fmt.Sprintf("template:%s/range#%d(%s)", u.Name, n, x.Src)
					t, err := jt.typeOf(x.Expr, env)
					ce := env.child()
					if err != nil {
						c.unres(rule, construct, "", "cannot type the ranged expression: %v", err)
					} else {
						switch ut := t.Underlying().(type) {
						case *types.Slice:
							c.ok(rule, construct, "", "ranges over a value of Go type %s (a slice: index order)", t)
							if x.Key != "" {
								ce.vars[x.Key] = types.Typ[types.Int]
							}
							ce.vars[x.Val] = ut.Elem()
						case *types.Array:
							c.ok(rule, construct, "", "ranges over an array %s", t)
							ce.vars[x.Val] = ut.Elem()
						default:
							c.bad(rule, construct, "", "ranges over a value of Go type %s: iteration order is not defined by the value", t)
						}
					}
					walk(x.Body, ce)
				}
			}
		}
		walk(u.Tree, jt.rootEnv())
	}
}

// ---- DET-3: address / time / environment sources ----

var deniedCalls = map[string]string{
	"time.Now": "wall clock", "time.Since": "wall clock", "time.Until": "wall clock",
	"os.Getpid": "process id", "os.Getppid": "process id", "os.Hostname": "host name", "os.Getenv": "environment",
	"os.LookupEnv": "environment", "os.Environ": "environment", "os.UserHomeDir": "environment", "os.UserCacheDir": "environment",
	"os.UserConfigDir": "environment", "os.Getwd": "working directory", "os.Executable": "executable path", "os.TempDir": "environment",
	"os.MkdirTemp": "random name", "os.CreateTemp": "random name", "path/filepath.Abs": "working directory",
	"runtime.NumCPU": "machine", "runtime.NumGoroutine": "scheduler", "runtime.GOMAXPROCS": "machine",
	"reflect.Value.Pointer": "address", "reflect.Value.UnsafeAddr": "address", "reflect.Value.UnsafePointer": "address",
	"os.Getuid": "user", "os.Getgid": "user", "os/user.Current": "user",
	"os.Stat": "file-system history (timestamps, existence of earlier output)", "os.Lstat": "file-system history",
	"os.Chtimes": "file-system history", "io/fs.FileInfo.ModTime": "file timestamps", "os.File.Stat": "file-system history",
}

func ruleDET3(c *Ctx) {
	const rule = "DET-3"
	p := c.Prog
	nCalls := 0
	p.ProdFiles(func(pk *packages.Package, f *ast.File) {
		info := pk.TypesInfo
		for _, d := range f.Decls {
			fd, ok := d.(*ast.FuncDecl)
			if !ok || fd.Body == nil {
				// package-level var initialisers
				continue
			}
			par := parents(fd)
			ast.Inspect(fd.Body, func(n ast.Node) bool {
				switch x := n.(type) {
				case *ast.GoStmt:
					c.bad(rule, funcKey(pk, fd)+"/go-statement", p.Pos(x.Pos()), "starts a goroutine: scheduling order could reach the output")
				case *ast.SelectStmt:
					c.bad(rule, funcKey(pk, fd)+"/select", p.Pos(x.Pos()), "select statement: choice among ready cases is random")
				case *ast.CallExpr:
					nCalls++
					// conversions to uintptr / unsafe.Pointer
					if tv, ok := info.Types[x.Fun]; ok && tv.IsType() && len(x.Args) == 1 {
						to := tv.Type
						from := info.TypeOf(x.Args[0])
						if b, ok := to.Underlying().(*types.Basic); ok && (b.Kind() == types.Uintptr || b.Kind() == types.UnsafePointer) {
							if from != nil {
								if _, isPtr := from.Underlying().(*types.Pointer); isPtr || isUnsafePointer(from) {
									c.bad(rule, funcKey(pk, fd)+"/address-conversion", p.Pos(x.Pos()), "converts a pointer to %s: addresses differ between runs", to)
								}
							}
						}
						return true
					}
					fn := calleeFunc(info, x)
					full := fullName(fn)
					if fn != nil && fn.Pkg() != nil {
						switch fn.Pkg().Path() {
						case "math/rand", "math/rand/v2", "crypto/rand":
							c.bad(rule, funcKey(pk, fd)+"/call("+full+")", p.Pos(x.Pos()), "random source")
							return true
						}
					}
					if why, denied := deniedCalls[full]; denied {
						construct := funcKey(pk, fd) + "/call(" + full + ")"
						if okWhy := det3Exception(c, pk, fd, par, x, full); okWhy != "" {
							c.ok(rule, construct, p.Pos(x.Pos()), "%s (%s) allowed: %s", full, why, okWhy)
						} else {
							c.bad(rule, construct, p.Pos(x.Pos()), "%s (%s) is reachable in production code and its value is not confined to diagnostics", full, why)
						}
						return true
					}
					// %p in constant format strings
					for _, a := range x.Args {
						if s, ok := constString(info, a); ok && strings.Contains(s, "%p") {
							c.bad(rule, funcKey(pk, fd)+"/format(%p)", p.Pos(a.Pos()), "formats an address with %%p")
						}
					}
				}
				return true
			})
		}
	})
	c.ok(rule, "production-call-sites", "", "%d call expressions, all go/select statements and all pointer conversions of the production packages scanned against the deny list (%d entries + math/rand*, crypto/rand)", nCalls, len(deniedCalls))
}

func isUnsafePointer(t types.Type) bool {
	b, ok := t.Underlying().(*types.Basic)
	return ok && b.Kind() == types.UnsafePointer
}

// det3Exception returns a non-empty justification if this particular denied call is harmless.
func det3Exception(c *Ctx, pk *packages.Package, fd *ast.FuncDecl, par map[ast.Node]ast.Node, call *ast.CallExpr, full string) string {
	info := pk.TypesInfo
	p := c.Prog
	switch {
	case full == "os.Getwd" && pk.PkgPath == modPath+"/internal/base/errlogger":
		// the enclosing function's result must only ever be formatted into the logger's own writer
		fnObj, _ := info.Defs[fd.Name].(*types.Func)
		if fnObj == nil {
			return ""
		}
		okAll := true
		n := 0
		for _, f := range pk.Syntax {
			ast.Inspect(f, func(m ast.Node) bool {
				cc, ok := m.(*ast.CallExpr)
				if !ok || calleeFunc(info, cc) != fnObj {
					return true
				}
				n++
				// must be nested in fmt.Fprintf(l.out, ...)
				nested := false
				pp := parents(f)
				for q := pp[cc]; q != nil; q = pp[q] {
					if oc, ok := q.(*ast.CallExpr); ok && strings.HasPrefix(fullName(calleeFunc(info, oc)), "fmt.Fprint") && len(oc.Args) > 0 {
						if v, _ := selField(info, oc.Args[0]); v != nil && v.Name() == "out" {
							nested = true
						}
					}
				}
				if !nested {
					okAll = false
				}
				return true
			})
		}
		// and no other package may call it (unexported guarantees that)
		if okAll && n > 0 && !fnObj.Exported() {
			return fmt.Sprintf("result of %s is only formatted into ErrLogger.out (%d call sites): diagnostics, outside the output set", fnObj.Name(), n)
		}
		return ""
	case full == "path/filepath.Abs" && pk.PkgPath == modPath+"/internal/codegen":
		// the absolute directory may only be turned into other paths (Join, Clean, EvalSymlinks, copies)
		// and end as the key of a map literal (the go/packages overlay); it never reaches emitted text
		as, ok := par[call].(*ast.AssignStmt)
		if !ok || len(as.Lhs) < 1 {
			return ""
		}
		v := usesObj(info, as.Lhs[0])
		if v == nil {
			return ""
		}
		fpar := parents(fd)
		pathFns := map[string]bool{"path/filepath.Join": true, "path/filepath.Clean": true, "path/filepath.EvalSymlinks": true, "path/filepath.Abs": true, "path/filepath.ToSlash": true, "path/filepath.FromSlash": true}
		paths := map[types.Object]bool{v: true}
		ok = true
		nKeys := 0
		for changed := true; changed && ok; {
			changed = false
			ast.Inspect(fd.Body, func(m ast.Node) bool {
				id, isId := m.(*ast.Ident)
				if !isId || !paths[info.Uses[id]] {
					return true
				}
				switch q := fpar[id].(type) {
				case *ast.CallExpr:
					if !pathFns[fullName(calleeFunc(info, q))] {
						ok = false
						return true
					}
					// the result becomes a path value too
					switch r := fpar[q].(type) {
					case *ast.AssignStmt:
						if o := usesObj(info, r.Lhs[0]); o != nil && !paths[o] {
							paths[o] = true
							changed = true
						}
					case *ast.IfStmt: // if x, err := f(p); err == nil { ... }
					default:
						ok = false
					}
				case *ast.AssignStmt:
					// p2 = p  (copy), or the defining assignment itself
					for i, rh := range q.Rhs {
						if rh == ast.Expr(id) && i < len(q.Lhs) {
							if o := usesObj(info, q.Lhs[i]); o != nil && !paths[o] {
								paths[o] = true
								changed = true
							}
						}
					}
				case *ast.KeyValueExpr:
					if q.Key != ast.Expr(id) {
						ok = false
					}
				default:
					ok = false
				}
				return true
			})
		}
		for o := range paths {
			ast.Inspect(fd.Body, func(m ast.Node) bool {
				if id, isId := m.(*ast.Ident); isId && info.Uses[id] == o {
					if kv, isKV := fpar[id].(*ast.KeyValueExpr); isKV && kv.Key == ast.Expr(id) {
						nKeys++
					}
				}
				return true
			})
		}
		if ok && nKeys > 0 {
			return "the absolute directory only forms the key of the go/packages overlay map (through path functions); it never reaches emitted text"
		}
		return ""
	}
	_ = p
	return ""
}

// ---- DET-4: stale output ----

func ruleDET4(c *Ctx) {
	const rule = "DET-4"
	p := c.Prog
	pk, gen := p.FuncDecl("internal/codegen", "Generate")
	if gen == nil {
		c.unres(rule, "codegen.Generate", "", "function not found")
		return
	}
	// (i) stage order
	for _, pair := range [][2]string{{"EmitBase", "ParseGo"}, {"EmitLexer", "ParseGo"}, {"ParseLox", "EmitBase"}, {"PreParseGo", "EmitBase"}} {
		checkStageOrder(c, rule, pk, gen, pair[0], pair[1], "stale "+pair[0]+" output would otherwise be read by the Go type-check before being rewritten")
	}
	// (ii) overlay key derives from the parser.gen.go constant, the same constant EmitParser writes
	checkOverlay(c, rule)
	// (iii) the package name is never read from a generated file
	checkPackageNameSource(c, rule)
	// (iv) file writes
	checkFileWrites(c, rule)
	// (v) every stage that reports success has rewritten its file
	ruleEMIT1(c, rule)
}

// genFileConsts: the string constants of internal/codegen naming generated files (*.gen.go).
func genFileConsts(p *Program) []*types.Const {
	pk := p.Pkg("internal/codegen")
	var out []*types.Const
	for _, name := range pk.Types.Scope().Names() {
		if k, ok := pk.Types.Scope().Lookup(name).(*types.Const); ok && strings.HasSuffix(constStr(k), ".gen.go") {
			out = append(out, k)
		}
	}
	return out
}

func checkPackageNameSource(c *Ctx, rule string) {
	p := c.Prog
	pk, fd := p.FuncDecl("internal/codegen", "context.PreParseGo")
	construct := "codegen.context.PreParseGo/package-name-source"
	if fd == nil {
		c.unres(rule, construct, "", "function not found")
		return
	}
	info := pk.TypesInfo
	consts := genFileConsts(p)
	// what is known about the entry's name where it is chosen as the package-name source
	excluded := map[*types.Const]bool{}
	var chosen ast.Node
	ast.Inspect(fd.Body, func(n ast.Node) bool {
		as, ok := n.(*ast.AssignStmt)
		if !ok || len(as.Lhs) != 1 || len(as.Rhs) != 1 {
			return true
		}
		if call, ok := as.Rhs[0].(*ast.CallExpr); ok && fullName(calleeFunc(info, call)) == "path/filepath.Join" && as.Tok == token.ASSIGN {
			chosen = as
		}
		return true
	})
	if chosen == nil {
		c.unres(rule, construct, p.Pos(fd.Pos()), "the statement choosing the package-name source was not found")
		return
	}
	defs := localDefs(info, fd.Body)
	isEntryName := func(e ast.Expr) bool {
		e = resolveVia(info, defs, e)
		return strings.HasSuffix(exprString(e), ".Name()")
	}
	for _, f := range pathConds(info, parents(fd), chosen) {
		l, op, r, ok := cmpFact(f.e, !f.neg)
		if !ok || op != token.NEQ {
			continue
		}
		if k, ok := usesObj(info, r).(*types.Const); ok && isEntryName(l) {
			excluded[k] = true
		}
		if k, ok := usesObj(info, l).(*types.Const); ok && isEntryName(r) {
			excluded[k] = true
		}
	}
	var missing []string
	for _, k := range consts {
		if !excluded[k] {
			missing = append(missing, k.Name())
		}
	}
	// ... nor from a test file: an external test package (package x_test) has another package clause
	exclTest := false
	for _, f := range pathConds(info, parents(fd), chosen) {
		ast.Inspect(f.e, func(m ast.Node) bool {
			call, ok := m.(*ast.CallExpr)
			if !ok || len(call.Args) != 2 {
				return true
			}
			if full := fullName(calleeFunc(info, call)); full == "strings.HasSuffix" || full == "strings.Contains" || full == "path/filepath.Match" {
				for _, a := range call.Args {
					if sv, ok := constString(info, a); ok && strings.Contains(sv, "_test") && f.neg {
						exclTest = true
					}
				}
			}
			return true
		})
	}
	c.check(exclTest, rule, "codegen.context.PreParseGo/not-a-test-file", p.Pos(fd.Pos()),
		"the file the package name is read from is never a _test.go file (an external test package has another package clause)",
		"the package name can be read from a _test.go file: `package x_test` in a test file makes lox write that name into the generated files, which then do not compile with the package")
	c.check(len(missing) == 0 && len(consts) >= 3, rule, construct, p.Pos(fd.Pos()),
		fmt.Sprintf("the file the package name is read from is never one of the %d generated files (a stale one could carry another package name)", len(consts)),
		fmt.Sprintf("the package name can be read from generated file(s) %v left by an earlier run: output then depends on the directory's history", missing))
}

// ruleEMIT1: in every function that writes a generated file, each `return true` is reached only
// after the os.WriteFile call (and not around it).
func ruleEMIT1(c *Ctx, rule string) {
	p := c.Prog
	pk := p.Pkg("internal/codegen")
	n := 0
	checkFn := func(fd *ast.FuncDecl, write *ast.CallExpr) {
		g := p.CFG(pk, fd)
		ok2 := true
		inspectNoLit(fd.Body, func(m ast.Node) bool {
			rs, isRet := m.(*ast.ReturnStmt)
			if !isRet || len(rs.Results) != 1 || exprString(rs.Results[0]) == "false" {
				return true
			}
			// `return <the write>`: success is the write's own result
			if ast.Unparen(rs.Results[0]) == ast.Expr(write) {
				return true
			}
			if !mustPassBefore(g, rs, func(nn ast.Node) bool { return containsNode(nn, write) }) {
				ok2 = false
			}
			return true
		})
		c.check(ok2, rule, funcKey(pk, fd)+"/writes-before-success", p.Pos(write.Pos()),
			"every path that reports success has rewritten the file (no freshness shortcut: stale output is never kept)",
			"the stage can report success without rewriting its file: output left by an earlier run (possibly of another grammar) is kept")
	}
	seenWrapper := map[*ast.FuncDecl]bool{}
	for _, ws := range writeSites(p, pk) {
		n++
		checkFn(ws.fd, ws.call)
		if ws.wrapper != nil && !seenWrapper[ws.wrapper] {
			seenWrapper[ws.wrapper] = true
			inner := findCalls(pk.TypesInfo, ws.wrapper.Body, false, func(fn *types.Func, _ *ast.CallExpr) bool { return fullName(fn) == "os.WriteFile" })
			if len(inner) == 1 {
				checkFn(ws.wrapper, inner[0])
			}
		}
	}
	if n < 3 {
		c.unres(rule, "codegen/emit-stages", "", "only %d functions write generated files", n)
	}
}

// stageSequence returns the generation stages in the order fd runs them, for the two forms
// `return a() && b() && ...` and `for _, f := range []func() bool{a, b, ...} { if !f() { return false } }`.
func stageSequence(pk *packages.Package, fd *ast.FuncDecl) []string {
	info := pk.TypesInfo
	var seq []string
	ast.Inspect(fd.Body, func(n ast.Node) bool {
		switch x := n.(type) {
		case *ast.ReturnStmt:
			if len(x.Results) == 1 && len(seq) == 0 {
				cj := conjuncts(x.Results[0])
				if len(cj) > 1 {
					for _, e := range cj {
						if call, ok := e.(*ast.CallExpr); ok {
							if fn := calleeFunc(info, call); fn != nil && fn.Pkg() == pk.Types {
								seq = append(seq, fn.Name())
							}
						}
					}
				}
			}
		case *ast.RangeStmt:
			// range over a literal (or a local bound to one) of method values, failing fast
			src := resolveLocalIn(info, fd, x.X)
			cl, ok := ast.Unparen(src).(*ast.CompositeLit)
			if !ok || x.Value == nil {
				return true
			}
			failFast := false
			for _, s := range x.Body.List {
				if ifs, ok := s.(*ast.IfStmt); ok {
					if u, ok := ifs.Cond.(*ast.UnaryExpr); ok && u.Op == token.NOT {
						if call, ok := u.X.(*ast.CallExpr); ok && usesObj(info, call.Fun) == usesObj(info, x.Value) && len(ifs.Body.List) == 1 {
							if rs, ok := ifs.Body.List[0].(*ast.ReturnStmt); ok && len(rs.Results) == 1 && exprString(rs.Results[0]) == "false" {
								failFast = true
							}
						}
					}
				}
			}
			if !failFast {
				return true
			}
			var names []string
			for _, el := range cl.Elts {
				if sel, ok := el.(*ast.SelectorExpr); ok {
					if fn, ok := info.Uses[sel.Sel].(*types.Func); ok && fn.Pkg() == pk.Types {
						names = append(names, fn.Name())
					}
				}
			}
			if len(names) == len(cl.Elts) && len(seq) == 0 {
				seq = names
			}
		}
		return true
	})
	return seq
}

// stageCalls finds calls to method `name` (of codegen.context) inside fd.
func stageCalls(pk *packages.Package, fd *ast.FuncDecl, name string) []*ast.CallExpr {
	return findCalls(pk.TypesInfo, fd.Body, false, func(fn *types.Func, _ *ast.CallExpr) bool {
		return fn != nil && fn.Name() == name && fn.Pkg() == pk.Types
	})
}

// checkStageOrder: every call of `after` in fd is preceded (evaluation order) by a call of `before`.
func checkStageOrder(c *Ctx, rule string, pk *packages.Package, fd *ast.FuncDecl, before, after, why string) bool {
	p := c.Prog
	construct := fmt.Sprintf("%s/%s-before-%s", funcKey(pk, fd), before, after)
	if seq := stageSequence(pk, fd); len(seq) > 0 {
		ib, ia := -1, -1
		for i, s := range seq {
			if s == before && ib == -1 {
				ib = i
			}
			if s == after && ia == -1 {
				ia = i
			}
		}
		if ib < 0 || ia < 0 {
			c.unres(rule, construct, p.Pos(fd.Pos()), "stage %s or %s is not among the stages %v run by %s", before, after, seq, fd.Name.Name)
			return false
		}
		return c.check(ib < ia, rule, construct, p.Pos(fd.Pos()), fmt.Sprintf("%s runs before %s (stages: %s)", before, after, strings.Join(seq, ", ")),
			fmt.Sprintf("%s can run before %s: %s", after, before, why))
	}
	bs := stageCalls(pk, fd, before)
	as := stageCalls(pk, fd, after)
	if len(as) == 0 || len(bs) == 0 {
		c.unres(rule, construct, p.Pos(fd.Pos()), "calls to %s/%s not found in %s", before, after, fd.Name.Name)
		return false
	}
	g := p.CFG(pk, fd)
	for _, a := range as {
		ok := mustPassBefore(g, a, func(n ast.Node) bool {
			for _, b := range bs {
				if containsNode(n, b) && !containsNode(n, a) {
					return true
				}
			}
			return false
		})
		if !ok {
			c.bad(rule, construct, p.Pos(a.Pos()), "%s can run before %s: %s", after, before, why)
			return false
		}
	}
	c.ok(rule, construct, p.Pos(as[0].Pos()), "%s is evaluated before %s on every path", before, after)
	return true
}

// shortCircuitOrdered: within one CFG node, b textually precedes a and both are operands of the same
// left-to-right evaluated expression (&&, || chains, call arguments, statements of one expression).
func shortCircuitOrdered(node ast.Node, b, a *ast.CallExpr) bool {
	return b.End() <= a.Pos()
}

func checkOverlay(c *Ctx, rule string) {
	p := c.Prog
	pk, fd := p.FuncDecl("internal/codegen", "context.ParseGo")
	construct := "codegen.context.ParseGo/overlay"
	if fd == nil {
		c.unres(rule, construct, "", "function not found")
		return
	}
	info := pk.TypesInfo
	var overlayKey ast.Expr
	var overlayVal ast.Expr
	ast.Inspect(fd.Body, func(n ast.Node) bool {
		cl, ok := n.(*ast.CompositeLit)
		if !ok || !typeIs(info.TypeOf(cl), "go/packages", "Config") {
			return true
		}
		for _, el := range cl.Elts {
			kv, ok := el.(*ast.KeyValueExpr)
			if !ok {
				continue
			}
			if id, ok := kv.Key.(*ast.Ident); ok && id.Name == "Overlay" {
				if ml, ok := kv.Value.(*ast.CompositeLit); ok && len(ml.Elts) >= 1 {
					if mkv, ok := ml.Elts[0].(*ast.KeyValueExpr); ok {
						overlayKey, overlayVal = mkv.Key, mkv.Value
					}
				}
			}
		}
		return true
	})
	if overlayKey == nil {
		c.bad(rule, construct, p.Pos(fd.Pos()), "the packages.Config built in ParseGo has no Overlay entry: a stale parser.gen.go would be type-checked with the user's package")
		return
	}
	genConst := constReaching(info, fd, overlayKey)
	// the constant EmitParser writes to
	pk2, ep := p.FuncDecl("internal/codegen", "context.EmitParser")
	var written *types.Const
	if ep != nil {
		for _, ws := range writeSites(p, pk2) {
			if ws.fd == ep {
				written = constReaching(pk2.TypesInfo, ep, ws.name)
			}
		}
	}
	if genConst == nil || written == nil {
		c.unres(rule, construct, p.Pos(overlayKey.Pos()), "cannot trace the overlay key / the EmitParser output path to a file-name constant")
		return
	}
	if genConst != written {
		c.bad(rule, construct, p.Pos(overlayKey.Pos()), "overlay replaces %s but EmitParser writes %s: the stale parser file is not masked", genConst.Name(), written.Name())
		return
	}
	_ = overlayVal
	c.ok(rule, construct, p.Pos(overlayKey.Pos()), "the overlay key derives from constant %s (%s), the file EmitParser rewrites: a stale parser.gen.go is masked by the placeholder", genConst.Name(), genConst.Val())
}

// constReaching follows e (an identifier assigned once from filepath.Join(..., K), or the call
// itself) to the string constant K forming the last path element.
func constReaching(info *types.Info, fd *ast.FuncDecl, e ast.Expr) *types.Const {
	e = ast.Unparen(e)
	for depth := 0; depth < 4; depth++ {
		switch x := e.(type) {
		case *ast.CallExpr:
			if fullName(calleeFunc(info, x)) == "path/filepath.Join" && len(x.Args) >= 1 {
				if k, ok := usesObj(info, x.Args[len(x.Args)-1]).(*types.Const); ok {
					return k
				}
			}
			return nil
		case *ast.Ident:
			obj := info.Uses[x]
			if k, ok := obj.(*types.Const); ok {
				return k
			}
			var rhs ast.Expr
			n := 0
			ast.Inspect(fd.Body, func(m ast.Node) bool {
				if as, ok := m.(*ast.AssignStmt); ok {
					for i, l := range as.Lhs {
						if id, ok := l.(*ast.Ident); ok && (info.Defs[id] == obj || info.Uses[id] == obj) && i < len(as.Rhs) {
							rhs = as.Rhs[i]
							n++
						}
					}
				}
				return true
			})
			if n != 1 {
				return nil
			}
			e = ast.Unparen(rhs)
		default:
			return nil
		}
	}
	return nil
}

var fileWriteFuncs = map[string]bool{
	"os.WriteFile": true, "os.Create": true, "os.OpenFile": true, "os.Rename": true, "os.Remove": true, "os.RemoveAll": true,
	"os.Mkdir": true, "os.MkdirAll": true, "os.Truncate": true, "os.Symlink": true, "os.Link": true, "os.Chmod": true,
	"io/ioutil.WriteFile": true, "os.CreateTemp": true, "os.MkdirTemp": true,
}

func checkFileWrites(c *Ctx, rule string) {
	p := c.Prog
	seenConst := map[*types.Const]string{}
	n := 0
	p.ProdFiles(func(pk *packages.Package, f *ast.File) {
		if pk.PkgPath == modPath+"/cmd/lox" {
			return // --cpu-prof profile file: not part of the output set
		}
		info := pk.TypesInfo
		for _, d := range f.Decls {
			fd, ok := d.(*ast.FuncDecl)
			if !ok || fd.Body == nil {
				continue
			}
			ast.Inspect(fd.Body, func(m ast.Node) bool {
				call, ok := m.(*ast.CallExpr)
				if !ok {
					return true
				}
				full := fullName(calleeFunc(info, call))
				if !fileWriteFuncs[full] {
					return true
				}
				n++
				construct := fmt.Sprintf("%s/file-write(%s)", funcKey(pk, fd), full)
				if full != "os.WriteFile" {
					c.bad(rule, construct, p.Pos(call.Pos()), "%s in the generator: output files must be produced by truncating whole-file writes of the three *.gen.go names only", full)
					return true
				}
				// inside a write wrapper: its call sites are the writes, with the names they pass
				if self, _ := info.Defs[fd.Name].(*types.Func); self != nil {
					if _, isWrapper := writeWrappers(p, pk)[self]; isWrapper {
						n--
						for _, ws := range writeSites(p, pk) {
							if ws.wrapper != fd {
								continue
							}
							n++
							wc := fmt.Sprintf("%s/file-write(%s)", funcKey(pk, ws.fd), shortName(self))
							k := constReaching(info, ws.fd, ws.name)
							if k == nil || !strings.HasSuffix(constStr(k), ".gen.go") {
								c.bad(rule, wc, p.Pos(ws.call.Pos()), "file write whose name does not derive from one of the *.gen.go constants")
								continue
							}
							if prev, dup := seenConst[k]; dup {
								c.bad(rule, wc, p.Pos(ws.call.Pos()), "%s is also written by %s: the later write depends on earlier content/order", k.Name(), prev)
								continue
							}
							seenConst[k] = funcKey(pk, ws.fd)
							c.ok(rule, wc, p.Pos(ws.call.Pos()), "truncating whole-file write (through %s) of constant name %s = %s", shortName(self), k.Name(), k.Val())
						}
						return true
					}
				}
				k := constReaching(info, fd, call.Args[0])
				if k == nil || !strings.HasSuffix(constStr(k), ".gen.go") {
					c.bad(rule, construct, p.Pos(call.Pos()), "os.WriteFile whose name does not derive from one of the *.gen.go constants")
					return true
				}
				if prev, dup := seenConst[k]; dup {
					c.bad(rule, construct, p.Pos(call.Pos()), "%s is also written by %s: the later write depends on earlier content/order", k.Name(), prev)
					return true
				}
				seenConst[k] = funcKey(pk, fd)
				c.ok(rule, construct, p.Pos(call.Pos()), "truncating whole-file write of constant name %s = %s", k.Name(), k.Val())
				return true
			})
		}
	})
	if n < 3 {
		c.unres(rule, "file-writes", "", "found %d file writes in the generator, expected the three Emit* writes", n)
	}
}

func constStr(k *types.Const) string {
	s := k.Val().ExactString()
	return strings.Trim(s, `"`)
}

// sortWrapperParam: fn is a function of the module whose body begins by sorting one of its own
// parameters (directly or through another such wrapper). Returns the parameter index and the
// underlying sort, or -1.
func sortWrapperParam(p *Program, fn *types.Func, depth int) (int, string) {
	if fn == nil || depth > 2 {
		return -1, ""
	}
	fd := p.funcDecls[fn.Origin()]
	if fd == nil || fd.Body == nil || len(fd.Body.List) == 0 || fn.Pkg() == nil {
		return -1, ""
	}
	pk := p.ByID[fn.Pkg().Path()]
	if pk == nil {
		return -1, ""
	}
	info := pk.TypesInfo
	es, ok := fd.Body.List[0].(*ast.ExprStmt)
	if !ok {
		return -1, ""
	}
	call, ok := es.X.(*ast.CallExpr)
	if !ok || len(call.Args) == 0 {
		return -1, ""
	}
	inner := calleeFunc(info, call)
	argIdx, via := -1, ""
	if sortFuncs[fullName(inner)] {
		argIdx, via = 0, fullName(inner)
		if len(call.Args) >= 2 {
			via += " by " + truncate(exprString(call.Args[1]), 90)
		}
	} else if i, v := sortWrapperParam(p, inner, depth+1); i >= 0 {
		argIdx, via = i, v
	}
	if argIdx < 0 || argIdx >= len(call.Args) {
		return -1, ""
	}
	o := usesObj(info, call.Args[argIdx])
	k := 0
	for _, f := range fd.Type.Params.List {
		for _, nm := range f.Names {
			if info.Defs[nm] == o && o != nil {
				return k, via
			}
			k++
		}
	}
	return -1, ""
}

// ---- generated-file write sites ----

// writeSite: a statement of function fd that writes a file: os.WriteFile itself, or a call to a
// write wrapper of the package (a function that hands one of its parameters, joined to a
// directory, to os.WriteFile, another parameter as the content, and reports success only after
// the write).
type writeSite struct {
	pk      *packages.Package
	fd      *ast.FuncDecl
	call    *ast.CallExpr // os.WriteFile(...) or wrapper(...)
	name    ast.Expr      // the path / file-name expression as fd sees it
	data    ast.Expr
	wrapper *ast.FuncDecl // nil for a direct write
}

// writeWrappers finds the write wrappers of pk: fn => (name parameter index, data parameter index).
func writeWrappers(p *Program, pk *packages.Package) map[*types.Func][2]int {
	out := map[*types.Func][2]int{}
	info := pk.TypesInfo
	for _, f := range pk.Syntax {
		if isTestFile(p.Fset, f) {
			continue
		}
		for _, d := range f.Decls {
			fd, ok := d.(*ast.FuncDecl)
			if !ok || fd.Body == nil {
				continue
			}
			writes := findCalls(info, fd.Body, false, func(fn *types.Func, _ *ast.CallExpr) bool { return fullName(fn) == "os.WriteFile" })
			if len(writes) != 1 || len(writes[0].Args) < 2 {
				continue
			}
			paramIdx := func(e ast.Expr) int {
				idx := -1
				ast.Inspect(e, func(n ast.Node) bool {
					if id, ok := n.(*ast.Ident); ok {
						k := 0
						for _, fl := range fd.Type.Params.List {
							for _, nm := range fl.Names {
								if info.Defs[nm] == info.Uses[id] && info.Uses[id] != nil {
									idx = k
								}
								k++
							}
						}
					}
					return true
				})
				return idx
			}
			pathE := resolveLocal(info, fd, writes[0].Args[0])
			ni, di := paramIdx(pathE), paramIdx(writes[0].Args[1])
			if ni < 0 || di < 0 || ni == di {
				continue
			}
			// the name parameter is the last element of a filepath.Join (or the path itself)
			if jc, ok := ast.Unparen(pathE).(*ast.CallExpr); ok && fullName(calleeFunc(info, jc)) == "path/filepath.Join" {
				if paramIdx(jc.Args[len(jc.Args)-1]) != ni {
					continue
				}
			}
			if fn, ok := info.Defs[fd.Name].(*types.Func); ok {
				out[fn] = [2]int{ni, di}
			}
		}
	}
	return out
}

func writeSites(p *Program, pk *packages.Package) []writeSite {
	info := pk.TypesInfo
	wr := writeWrappers(p, pk)
	var out []writeSite
	for _, f := range pk.Syntax {
		if isTestFile(p.Fset, f) {
			continue
		}
		for _, d := range f.Decls {
			fd, ok := d.(*ast.FuncDecl)
			if !ok || fd.Body == nil {
				continue
			}
			self, _ := info.Defs[fd.Name].(*types.Func)
			ast.Inspect(fd.Body, func(n ast.Node) bool {
				call, ok := n.(*ast.CallExpr)
				if !ok {
					return true
				}
				fn := calleeFunc(info, call)
				if fullName(fn) == "os.WriteFile" && len(call.Args) >= 2 {
					if _, isWrapper := wr[self]; !isWrapper {
						out = append(out, writeSite{pk, fd, call, call.Args[0], call.Args[1], nil})
					}
					return true
				}
				if fn != nil {
					if idx, ok := wr[fn.Origin()]; ok && idx[0] < len(call.Args) && idx[1] < len(call.Args) {
						out = append(out, writeSite{pk, fd, call, call.Args[idx[0]], call.Args[idx[1]], p.funcDecls[fn.Origin()]})
					}
				}
				return true
			})
		}
	}
	return out
}


// det1Func is the function whose map range is being classified (set by ruleDET1's walk).
var det1Func string

// interfaceKeyExceptions: functions that sort a map's content by an interface-method key, with the
// reason why ties are harmless; the reason is verified structurally on every run.
var interfaceKeyExceptions = map[string]string{
	"lr1.TransitionMap.Inputs": "every consumer reachable from cmd/lox narrows the element to one implementer (*Rule) by a type assertion before using it, and names are unique within one implementer",
}

func interfaceSortKey(c *Ctx, info *types.Info, cmp ast.Expr) string {
	fl, ok := ast.Unparen(cmp).(*ast.FuncLit)
	if !ok {
		return ""
	}
	var key string
	ast.Inspect(fl.Body, func(n ast.Node) bool {
		call, ok := n.(*ast.CallExpr)
		if !ok || key != "" {
			return true
		}
		sel, ok := call.Fun.(*ast.SelectorExpr)
		if !ok {
			return true
		}
		if s := info.Selections[sel]; s != nil && s.Kind() == types.MethodVal {
			if _, isIface := s.Recv().Underlying().(*types.Interface); isIface {
				key = types.TypeString(s.Recv(), func(p *types.Package) string { return p.Name() }) + "." + sel.Sel.Name + "()"
			}
		}
		return true
	})
	if key == "" {
		return ""
	}
	if _, ok := interfaceKeyExceptions[det1Func]; ok {
		if bad := verifyNarrowingConsumers(c, det1Func); bad == "" {
			return ""
		} else {
			return fmt.Sprintf("sorted by %s, which different implementers can share, and %s", key, bad)
		}
	}
	return fmt.Sprintf("sorted by %s only: two elements of different dynamic type can have the same key (a rule and a terminal may both be named ERROR) and keep the map's iteration order", key)
}

// verifyNarrowingConsumers: every production call site of the function ranges over the result and
// narrows the element by a type assertion first, or lies in a function nothing in production calls.
func verifyNarrowingConsumers(c *Ctx, fn string) string {
	p := c.Prog
	name := fn[strings.LastIndex(fn, ".")+1:]
	called := map[string]bool{}
	p.ProdFiles(func(pk *packages.Package, f *ast.File) {
		ast.Inspect(f, func(n ast.Node) bool {
			if call, ok := n.(*ast.CallExpr); ok {
				if cf := calleeFunc(pk.TypesInfo, call); cf != nil && strings.HasPrefix(fullName(cf), modPath) {
					called[cf.Name()] = true
				}
			}
			if sel, ok := n.(*ast.SelectorExpr); ok {
				if cf, ok := pk.TypesInfo.Uses[sel.Sel].(*types.Func); ok {
					called[cf.Name()] = true
				}
			}
			return true
		})
	})
	bad := ""
	p.ProdFiles(func(pk *packages.Package, f *ast.File) {
		info := pk.TypesInfo
		for _, d := range f.Decls {
			fd, ok := d.(*ast.FuncDecl)
			if !ok || fd.Body == nil {
				continue
			}
			par := parents(fd)
			ast.Inspect(fd.Body, func(n ast.Node) bool {
				call, ok := n.(*ast.CallExpr)
				if !ok {
					return true
				}
				cf := calleeFunc(info, call)
				if cf == nil || cf.Name() != name || !strings.HasSuffix(fullName(cf), "/"+strings.Replace(fn, ".", ".", 1)) && !strings.HasSuffix(fullName(cf), fn[strings.Index(fn, ".")+1:]) {
					return true
				}
				rs, ok := par[call].(*ast.RangeStmt)
				narrowed := false
				if ok && rs.X == ast.Expr(call) && rs.Value != nil && len(rs.Body.List) > 0 {
					elem := usesObj(info, rs.Value)
					first := rs.Body.List[0]
					ast.Inspect(first, func(m ast.Node) bool {
						if ta, ok := m.(*ast.TypeAssertExpr); ok && usesObj(info, ta.X) == elem {
							narrowed = true
						}
						return true
					})
					// and the element itself is not used outside that first statement's guard, except as the looked-up key
					if _, isIf := first.(*ast.IfStmt); !isIf {
						// x, ok := elem.(*T); if !ok { continue }
						narrowed = narrowed && len(rs.Body.List) > 1
					}
				}
				if !narrowed && called[fd.Name.Name] {
					bad = fmt.Sprintf("%s uses the elements without narrowing them to one implementer first", funcKey(pk, fd))
				}
				return true
			})
		}
	})
	return bad
}
