package main

// C03 (action execution / sugar values) and C06 (type-matched binding).

import (
	"fmt"
	"go/ast"
	"go/constant"
	"go/token"
	"go/types"
	"golang.org/x/tools/go/packages"
	"sort"
	"strings"
)

// parseArms finds, in parse's main loop, the three arms that decode an action value: accept
// (`action == accept`), shift (`action >= 0`) and reduce (the remaining arm: else / default /
// `action < 0`). If-else chains and tagless switches are both understood.
func parseArms(ti *TmplInstance) (fd *ast.FuncDecl, shift, reduce *ast.BlockStmt, actVar string) {
	fd, _ = ti.FuncDecl("_P.parse")
	if fd == nil {
		return
	}
	info := ti.Info
	isAccept := func(e ast.Expr) (string, bool) {
		be, ok := ast.Unparen(e).(*ast.BinaryExpr)
		if !ok || be.Op != token.EQL {
			return "", false
		}
		if k, ok := usesObj(info, be.Y).(*types.Const); ok && k.Name() == "accept" {
			return exprString(be.X), true
		}
		if k, ok := usesObj(info, be.X).(*types.Const); ok && k.Name() == "accept" {
			return exprString(be.Y), true
		}
		return "", false
	}
	isShift := func(e ast.Expr, v string) bool {
		be, ok := ast.Unparen(e).(*ast.BinaryExpr)
		if !ok {
			return false
		}
		z, isC := constInt(info, be.Y)
		return isC && z == 0 && be.Op == token.GEQ && exprString(be.X) == v
	}
	isReduce := func(e ast.Expr, v string) bool {
		be, ok := ast.Unparen(e).(*ast.BinaryExpr)
		if !ok {
			return false
		}
		z, isC := constInt(info, be.Y)
		return isC && z == 0 && be.Op == token.LSS && exprString(be.X) == v
	}
	blk := func(list []ast.Stmt, at token.Pos) *ast.BlockStmt {
		b := &ast.BlockStmt{List: list, Lbrace: at, Rbrace: at}
		if len(list) > 0 {
			b.Lbrace = list[0].Pos()
			b.Rbrace = list[len(list)-1].End()
		}
		return b
	}
	ast.Inspect(fd.Body, func(n ast.Node) bool {
		if reduce != nil {
			return false
		}
		switch x := n.(type) {
		case *ast.IfStmt:
			v, ok := isAccept(x.Cond)
			if !ok {
				return true
			}
			if e2, ok := x.Else.(*ast.IfStmt); ok && isShift(e2.Cond, v) {
				actVar = v
				shift = e2.Body
				switch e3 := e2.Else.(type) {
				case *ast.BlockStmt:
					reduce = e3
				case *ast.IfStmt:
					if isReduce(e3.Cond, v) {
						reduce = e3.Body
					}
				}
			}
		case *ast.SwitchStmt:
			if x.Tag != nil {
				return true
			}
			var v string
			var sh, rd, def []ast.Stmt
			var defPos token.Pos
			for _, cl := range x.Body.List {
				cc := cl.(*ast.CaseClause)
				if cc.List == nil {
					def, defPos = cc.Body, cc.Pos()
					continue
				}
				if len(cc.List) != 1 {
					continue
				}
				if vv, ok := isAccept(cc.List[0]); ok {
					v = vv
				}
			}
			if v == "" {
				return true
			}
			for _, cl := range x.Body.List {
				cc := cl.(*ast.CaseClause)
				if len(cc.List) != 1 {
					continue
				}
				if isShift(cc.List[0], v) {
					sh = cc.Body
					shift = blk(sh, cc.Pos())
				}
				if isReduce(cc.List[0], v) {
					rd = cc.Body
					reduce = blk(rd, cc.Pos())
				}
			}
			if reduce == nil && def != nil {
				reduce = blk(def, defPos)
			}
			if shift != nil && reduce != nil {
				actVar = v
			} else {
				shift, reduce = nil, nil
			}
		}
		return true
	})
	return
}

// stmtIndex: position of the first top-level statement of blk satisfying pred, or -1.
func stmtIndex(blk *ast.BlockStmt, pred func(ast.Stmt) bool) int {
	for i, s := range blk.List {
		if pred(s) {
			return i
		}
	}
	return -1
}

func callNamed(info *types.Info, n ast.Node, name string) *ast.CallExpr {
	var out *ast.CallExpr
	ast.Inspect(n, func(m ast.Node) bool {
		if call, ok := m.(*ast.CallExpr); ok && out == nil {
			switch f := call.Fun.(type) {
			case *ast.SelectorExpr:
				if f.Sel.Name == name {
					out = call
				}
			case *ast.Ident:
				if f.Name == name {
					out = call
				}
			}
		}
		return out == nil
	})
	return out
}

func ruleACT1(c *Ctx) {
	const rule = "ACT-1"
	ta := c.tmplOrUnres(rule)
	if ta == nil {
		return
	}
	for _, ti := range ta.Variants {
		variant := "template[" + ti.FlagString() + "]"
		fd, shift, reduce, actVar := parseArms(ti)
		if fd == nil || shift == nil || reduce == nil {
			c.unres(rule, variant+"/parse", "", "parse's accept/shift/reduce chain not found")
			continue
		}
		info := ti.Info
		find := func(blk *ast.BlockStmt, pred func(s ast.Stmt) bool) int { return stmtIndex(blk, pred) }
		defOf := func(blk *ast.BlockStmt, name string) ast.Expr {
			for _, s := range blk.List {
				if as, ok := s.(*ast.AssignStmt); ok {
					for i, l := range as.Lhs {
						if exprString(l) == name && len(as.Rhs) >= 1 {
							if len(as.Rhs) == len(as.Lhs) {
								return as.Rhs[i]
							}
							return as.Rhs[0]
						}
					}
				}
			}
			return nil
		}
		// reduce arm
		iProd := find(reduce, func(s ast.Stmt) bool {
			as, ok := s.(*ast.AssignStmt)
			if !ok || len(as.Rhs) != 1 {
				return false
			}
			u, ok := as.Rhs[0].(*ast.UnaryExpr)
			return ok && u.Op == token.SUB && exprString(u.X) == actVar
		})
		iAct := find(reduce, func(s ast.Stmt) bool { return callNamed(info, s, "_act") != nil })
		iPop := find(reduce, func(s ast.Stmt) bool { es, ok := s.(*ast.ExprStmt); return ok && callNamed(info, es, "Pop") != nil })
		iGoto := find(reduce, func(s ast.Stmt) bool {
			call := callNamed(info, s, "_Find")
			return call != nil && len(call.Args) == 3 && exprString(call.Args[0]) == "_goto"
		})
		iPush := find(reduce, func(s ast.Stmt) bool { es, ok := s.(*ast.ExprStmt); return ok && callNamed(info, es, "Push") != nil })
		iTop := -1
		for i, s := range reduce.List {
			if as, ok := s.(*ast.AssignStmt); ok && i > iPop && iPop >= 0 && len(as.Rhs) == 1 && strings.HasSuffix(exprString(as.Rhs[0]), "Peek(0).State") {
				iTop = i
			}
		}
		// the state uncovered by the pop: read into a local after the pop, or inline in the goto
		// lookup (which itself follows the pop)
		inlineTop := false
		if iGoto >= 0 && iTop == -1 {
			if gt := callNamed(info, reduce.List[iGoto], "_Find"); gt != nil && len(gt.Args) == 3 && strings.HasSuffix(exprString(ast.Unparen(gt.Args[1])), "Peek(0).State") {
				inlineTop = true
			}
		}
		order := iProd >= 0 && iAct > iProd && iPop > iAct && iPush > iGoto && ((iTop > iPop && iGoto > iTop) || (inlineTop && iGoto > iPop))
		if !order {
			c.bad(rule, variant+"/parse/reduce-sequence", ti.Pos(reduce.Pos()), "the reduce arm is not: prod := -action; res := _act(prod); Pop(termCount); top := Peek(0).State; next := _Find(_goto, top, rule); Push (indices prod=%d act=%d pop=%d top=%d goto=%d push=%d)", iProd, iAct, iPop, iTop, iGoto, iPush)
			continue
		}
		prodVar := exprString(reduce.List[iProd].(*ast.AssignStmt).Lhs[0])
		act := callNamed(info, reduce.List[iAct], "_act")
		pop := callNamed(info, reduce.List[iPop], "Pop")
		gt := callNamed(info, reduce.List[iGoto], "_Find")
		push := callNamed(info, reduce.List[iPush], "Push")
		resVar := ""
		if as, ok := reduce.List[iAct].(*ast.AssignStmt); ok {
			resVar = exprString(as.Lhs[0])
		}
		okAct := len(act.Args) == 1 && exprString(act.Args[0]) == prodVar
		// Pop(termCount) with termCount := _termCounts[prod]
		tc := exprString(stripConv(info, pop.Args[0]))
		tcDef := defOf(reduce, tc)
		okPop := tcDef != nil && isTableRead(info, tcDef, "_termCounts", prodVar)
		// goto on rule := _rules[prod] from the state uncovered by the pop
		rl := exprString(gt.Args[2])
		rlDef := defOf(reduce, rl)
		okGoto := rlDef != nil && isTableRead(info, rlDef, "_rules", prodVar) && (inlineTop || exprString(gt.Args[1]) == exprString(reduce.List[iTop].(*ast.AssignStmt).Lhs[0]))
		// push {State: next, Sym: res}
		okPush := false
		if len(push.Args) == 1 {
			if cl, ok := push.Args[0].(*ast.CompositeLit); ok {
				st, sym := kvOf(cl, "State"), kvOf(cl, "Sym")
				nextVar := exprString(reduce.List[iGoto].(*ast.AssignStmt).Lhs[0])
				okPush = st != nil && sym != nil && exprString(st) == nextVar && exprString(sym) == resVar && resVar != ""
			}
		}
		c.check(okAct && okPop && okGoto && okPush, rule, variant+"/parse/reduce-sequence", ti.Pos(reduce.Pos()),
			"reduce: the action of production -action runs first, then exactly _termCounts[prod] items are popped, then goto(_rules[prod]) from the uncovered state is pushed with the action's result",
			fmt.Sprintf("reduce arm data flow is broken (act(prod): %v, Pop(_termCounts[prod]): %v, goto on _rules[prod] from uncovered state: %v, push {next, res}: %v)", okAct, okPop, okGoto, okPush))
		// the action is called unconditionally
		uncond := true
		par := parents(reduce)
		for q := par[act]; q != nil && q != ast.Node(reduce); q = par[q] {
			switch q.(type) {
			case *ast.IfStmt, *ast.ForStmt, *ast.SwitchStmt:
				uncond = false
			}
		}
		c.check(uncond, rule, variant+"/parse/action-unconditional", ti.Pos(act.Pos()), "every reduction runs its action (one action per node of the derivation)", "the action call is conditional: some reductions do not run their action")
		// shift arm
		spush := callNamed(info, shift, "Push")
		iSPush := find(shift, func(s ast.Stmt) bool { es, ok := s.(*ast.ExprStmt); return ok && callNamed(info, es, "Push") != nil })
		iRead := find(shift, func(s ast.Stmt) bool {
			es, ok := s.(*ast.ExprStmt)
			return ok && callNamed(info, es, "_readToken") != nil
		})
		okShift := false
		if spush != nil && len(spush.Args) == 1 {
			if cl, ok := spush.Args[0].(*ast.CompositeLit); ok {
				st, sym := kvOf(cl, "State"), kvOf(cl, "Sym")
				if st != nil && sym != nil && exprString(st) == actVar {
					if fv, _ := selField(info, sym); fv != nil && fv.Name() == "_lasym" {
						okShift = true
					}
				}
			}
		}
		c.check(okShift && iSPush >= 0 && iRead > iSPush, rule, variant+"/parse/shift", ti.Pos(shift.Pos()),
			"shift: the lookahead symbol is pushed with the target state, then the next token is read", "shift arm does not push {State: action, Sym: lookahead} and then read the next token")
	}
}

// isTableRead: e is <table>[int(idx)] (conversions ignored).
func isTableRead(info *types.Info, e ast.Expr, table, idx string) bool {
	ix, ok := stripConv(info, e).(*ast.IndexExpr)
	return ok && exprString(ix.X) == table && exprString(stripConv(info, ix.Index)) == idx
}

// castSlot describes one `_cast[T](p._stack.Peek(K).Sym)`.
type castSlot struct {
	call *ast.CallExpr
	typ  string
	peek int64
}

func castSlots(ti *TmplInstance, n ast.Node) []castSlot {
	var out []castSlot
	ast.Inspect(n, func(m ast.Node) bool {
		call, ok := m.(*ast.CallExpr)
		if !ok || len(call.Args) != 1 {
			return true
		}
		ix, ok := call.Fun.(*ast.IndexExpr)
		if !ok || exprString(ix.X) != "_cast" {
			return true
		}
		sel, ok := ast.Unparen(call.Args[0]).(*ast.SelectorExpr)
		if !ok || sel.Sel.Name != "Sym" {
			out = append(out, castSlot{call, exprString(ix.Index), -1})
			return true
		}
		pk, ok := sel.X.(*ast.CallExpr)
		k := int64(-1)
		if ok && len(pk.Args) == 1 {
			if s2, ok := pk.Fun.(*ast.SelectorExpr); ok && s2.Sel.Name == "Peek" {
				k, _ = constInt(ti.Info, pk.Args[0])
			}
		}
		out = append(out, castSlot{call, exprString(ix.Index), k})
		return true
	})
	return out
}

// actCases maps model production index => case clause of _act.
func actCases(ti *TmplInstance) (map[int]*ast.CaseClause, *ast.FuncDecl) {
	fd, _ := ti.FuncDecl("_P._act")
	if fd == nil {
		return nil, nil
	}
	out := map[int]*ast.CaseClause{}
	ast.Inspect(fd.Body, func(n ast.Node) bool {
		cc, ok := n.(*ast.CaseClause)
		if !ok {
			return true
		}
		for _, l := range cc.List {
			if v, ok := constInt(ti.Info, l); ok {
				out[int(v)] = cc
			}
		}
		return true
	})
	return out, fd
}

func ruleACT2(c *Ctx) {
	const rule = "ACT-2"
	ta := c.tmplOrUnres(rule)
	if ta == nil {
		return
	}
	ti := ta.Variants[0]
	cases, fd := actCases(ti)
	if fd == nil {
		c.unres(rule, "template/_act", "", "_act not found")
		return
	}
	n := 0
	for _, mp := range ti.Prods {
		if mp.Kind != "not_generated" {
			continue
		}
		n++
		construct := fmt.Sprintf("template/_act/user-production(%d params)", mp.NTerms)
		cc := cases[mp.Index]
		if cc == nil || len(cc.Body) != 1 {
			c.bad(rule, construct, ti.Pos(fd.Pos()), "no case for a user production with %d terms", mp.NTerms)
			continue
		}
		rs, ok := cc.Body[0].(*ast.ReturnStmt)
		if !ok || len(rs.Results) != 1 {
			c.bad(rule, construct, ti.Pos(cc.Pos()), "the case does not return the action's result")
			continue
		}
		call, ok := rs.Results[0].(*ast.CallExpr)
		if !ok || !strings.HasSuffix(exprString(call.Fun), "."+mp.Method) || len(call.Args) != mp.NTerms {
			c.bad(rule, construct, ti.Pos(cc.Pos()), "the case does not call the production's action method with one argument per term")
			continue
		}
		okAll := true
		var got []string
		for j, a := range call.Args {
			sl := castSlots(ti, a)
			if len(sl) != 1 || sl[0].call != ast.Unparen(a) {
				okAll = false
				got = append(got, "?")
				continue
			}
			got = append(got, fmt.Sprint(sl[0].peek))
			if sl[0].peek != int64(mp.NTerms-1-j) {
				okAll = false
			}
		}
		c.check(okAll, rule, construct, ti.Pos(cc.Pos()), fmt.Sprintf("argument j is the stack slot Peek(n-1-j): %v", got),
			fmt.Sprintf("arguments read stack slots %v; parameter j of %d must read Peek(%d-1-j)", got, mp.NTerms, mp.NTerms))
	}
	if n < 3 {
		c.unres(rule, "template/_act/user-productions", "", "the model has %d user productions, expected arities 0, 1 and 3", n)
	}
}

// ---- ACT-3: sugar shapes agree across normalize(), RuleGenerated and the template ----

type sugarShape struct {
	typeConst string
	namePat   string     // name with %v for the child / separator names
	prods     [][]string // term kinds: self, c, sep, sugar(<TypeConst>)
}

func extractNormalize(c *Ctx) ([]sugarShape, string) {
	p := c.Prog
	pk, fd := p.FuncDecl("internal/ast", "ParserTerm.normalize")
	if fd == nil {
		return nil, "ast.ParserTerm.normalize not found"
	}
	info := pk.TypesInfo
	var sw *ast.SwitchStmt
	ast.Inspect(fd.Body, func(n ast.Node) bool {
		if s, ok := n.(*ast.SwitchStmt); ok && s.Tag != nil && isField(info, s.Tag, "internal/ast", "ParserTerm", "Type") {
			sw = s
		}
		return true
	})
	if sw == nil {
		return nil, "no switch over ParserTerm.Type in normalize"
	}
	var out []sugarShape
	for _, cl := range sw.Body.List {
		cc := cl.(*ast.CaseClause)
		var gen *ast.CallExpr
		for _, s := range cc.Body {
			ast.Inspect(s, func(n ast.Node) bool {
				// the call that creates the helper rule: by what it is given (a rule name and a function
				// that fills in a *ParserRule), whatever it is called and wherever it is declared (local
				// closure, function, method)
				if call, ok := n.(*ast.CallExpr); ok && len(call.Args) >= 2 && gen == nil {
					var nameArg, fnArg ast.Expr
					for _, a := range call.Args {
						t := info.TypeOf(a)
						if t == nil {
							continue
						}
						if b, ok := t.Underlying().(*types.Basic); ok && b.Info()&types.IsString != 0 {
							nameArg = a
						}
						if sig, ok := t.Underlying().(*types.Signature); ok && sig.Params().Len() == 1 && typeIs(sig.Params().At(0).Type(), "internal/ast", "ParserRule") {
							fnArg = a
						}
					}
					if nameArg != nil && fnArg != nil {
						gen = &ast.CallExpr{Fun: call.Fun, Lparen: call.Lparen, Args: []ast.Expr{nameArg, fnArg}, Rparen: call.Rparen}
					}
				}
				return true
			})
		}
		if gen == nil {
			continue
		}
		sh := sugarShape{}
		if len(cc.List) == 1 {
			if k, ok := usesObj(info, cc.List[0]).(*types.Const); ok {
				sh.typeConst = k.Name()
			}
		}
		// name pattern
		nameExpr := resolveLocalIn(info, cc, gen.Args[0])
		switch x := ast.Unparen(nameExpr).(type) {
		case *ast.BinaryExpr:
			if s, ok := constString(info, x.Y); ok && x.Op == token.ADD {
				sh.namePat = "%v" + s
			}
		case *ast.CallExpr:
			if fullName(calleeFunc(info, x)) == "fmt.Sprintf" {
				sh.namePat, _ = constString(info, x.Args[0])
			}
		}
		// productions: the value assigned to r.Prods, possibly built by a same-package helper
		fl := funcLitOf(p, info, gen.Args[1])
		if fl == nil {
			return nil, "the function that fills in the helper rule's productions is neither a literal nor a declared function/method"
		}
		var classifyTerm func(e ast.Expr, env map[types.Object]string) string
		classifyTerm = func(e ast.Expr, env map[types.Object]string) string {
			e = ast.Unparen(e)
			if u, ok := e.(*ast.UnaryExpr); ok && u.Op == token.AND {
				e = u.X
			}
			switch x := e.(type) {
			case *ast.Ident:
				if k, ok := env[info.Uses[x]]; ok {
					return k
				}
				return "?" + x.Name
			case *ast.SelectorExpr:
				switch x.Sel.Name {
				case "Child":
					return "c"
				case "Sep":
					return "sep"
				}
				return "?" + x.Sel.Name
			case *ast.CompositeLit:
				if nm := kvOf(x, "Name"); nm != nil && strings.HasSuffix(exprString(nm), ".Name") {
					return "self"
				}
				if ty := kvOf(x, "Type"); ty != nil && usesObj(info, ty) != nil {
					return "sugar(" + usesObj(info, ty).Name() + ")"
				}
				return "?lit"
			}
			return "?"
		}
		var prodsOf func(e ast.Expr, env map[types.Object]string, depth int) ([][]string, bool)
		prodsOf = func(e ast.Expr, env map[types.Object]string, depth int) ([][]string, bool) {
			e = ast.Unparen(e)
			switch x := e.(type) {
			case *ast.CompositeLit:
				var prods [][]string
				for _, pe := range x.Elts {
					pcl := compositeOf(pe)
					if pcl == nil {
						if l, ok := pe.(*ast.CompositeLit); ok {
							pcl = l
						} else {
							return nil, false
						}
					}
					var terms []string
					if t := kvOf(pcl, "Terms"); t != nil {
						tl, ok := t.(*ast.CompositeLit)
						if !ok {
							return nil, false
						}
						for _, te := range tl.Elts {
							terms = append(terms, classifyTerm(te, env))
						}
					}
					prods = append(prods, terms)
				}
				return prods, true
			case *ast.CallExpr:
				fn := calleeFunc(info, x)
				if fn == nil || fn.Pkg() != pk.Types || depth > 1 {
					return nil, false
				}
				hd := p.funcDecls[fn.Origin()]
				if hd == nil || hd.Body == nil {
					return nil, false
				}
				env2 := map[types.Object]string{}
				k := 0
				for _, fld := range hd.Type.Params.List {
					for _, nm := range fld.Names {
						if k < len(x.Args) {
							env2[info.Defs[nm]] = classifyTerm(x.Args[k], env)
						}
						k++
					}
				}
				var res [][]string
				okRes := false
				ast.Inspect(hd.Body, func(n ast.Node) bool {
					if rs, ok := n.(*ast.ReturnStmt); ok && len(rs.Results) == 1 && !okRes {
						res, okRes = prodsOf(rs.Results[0], env2, depth+1)
					}
					return true
				})
				return res, okRes
			}
			return nil, false
		}
		ast.Inspect(fl.Body, func(n ast.Node) bool {
			as, ok := n.(*ast.AssignStmt)
			if !ok || len(as.Lhs) != 1 || !isField(info, as.Lhs[0], "internal/ast", "ParserRule", "Prods") {
				return true
			}
			if prods, ok := prodsOf(as.Rhs[0], map[types.Object]string{}, 0); ok {
				sh.prods = prods
			}
			return true
		})
		out = append(out, sh)
	}
	return out, ""
}

// evalRuleGenerated evaluates codegen.RuleGenerated's switch on a rule name.
func evalRuleGenerated(c *Ctx, name string) (string, string) {
	p := c.Prog
	pk, fd := p.FuncDecl("internal/codegen", "RuleGenerated")
	if fd == nil {
		return "", "codegen.RuleGenerated not found"
	}
	ev := &strEval{p: p, pk: pk, info: pk.TypesInfo, env: map[types.Object]any{}, sample: name}
	// the parameter is the rule; its Name field is the sample
	if fd.Type.Params != nil && len(fd.Type.Params.List) == 1 && len(fd.Type.Params.List[0].Names) == 1 {
		ev.ruleParam = pk.TypesInfo.Defs[fd.Type.Params.List[0].Names[0]]
	}
	v, done, err := ev.stmts(fd.Body.List)
	if err != "" {
		return "", err
	}
	if !done {
		return "", "no case matched"
	}
	return v, ""
}

// strEval folds a pure string classifier (if / tagless switch / range over a package-level table
// of constants / return of a constant) for one sample name. It is constant folding over the
// function's syntax: anything else is reported as not evaluable.
type strEval struct {
	p         *Program
	pk        *packages.Package
	info      *types.Info
	env       map[types.Object]any // string | map[string]any (struct of constants)
	ruleParam types.Object
	sample    string
	depth     int
}

func (ev *strEval) stmts(list []ast.Stmt) (string, bool, string) {
	for _, st := range list {
		v, done, err := ev.stmt(st)
		if err != "" || done {
			return v, done, err
		}
	}
	return "", false, ""
}

func (ev *strEval) stmt(st ast.Stmt) (string, bool, string) {
	switch x := st.(type) {
	case *ast.ReturnStmt:
		if len(x.Results) != 1 {
			return "", false, "return with " + fmt.Sprint(len(x.Results)) + " results"
		}
		v, err := ev.expr(x.Results[0])
		if err != "" {
			return "", false, err
		}
		s, ok := v.(string)
		if !ok {
			return "", false, "returns a non-constant"
		}
		return s, true, ""
	case *ast.BlockStmt:
		return ev.stmts(x.List)
	case *ast.IfStmt:
		if x.Init != nil {
			return "", false, "if with init statement"
		}
		c, err := ev.cond(x.Cond)
		if err != "" {
			return "", false, err
		}
		if c {
			return ev.stmts(x.Body.List)
		}
		if x.Else != nil {
			return ev.stmt(x.Else)
		}
		return "", false, ""
	case *ast.SwitchStmt:
		if x.Init != nil {
			return "", false, "switch with init statement"
		}
		var tag any
		if x.Tag != nil {
			v, err := ev.expr(x.Tag)
			if err != "" {
				return "", false, err
			}
			tag = v
		}
		var def *ast.CaseClause
		for _, cl := range x.Body.List {
			cc := cl.(*ast.CaseClause)
			if cc.List == nil {
				def = cc
				continue
			}
			for _, e := range cc.List {
				hit := false
				if x.Tag == nil {
					c, err := ev.cond(e)
					if err != "" {
						return "", false, err
					}
					hit = c
				} else {
					v, err := ev.expr(e)
					if err != "" {
						return "", false, err
					}
					hit = v == tag
				}
				if hit {
					return ev.stmts(cc.Body)
				}
			}
		}
		if def != nil {
			return ev.stmts(def.Body)
		}
		return "", false, ""
	case *ast.RangeStmt:
		elems, err := ev.tableOf(x.X)
		if err != "" {
			return "", false, err
		}
		var valObj types.Object
		if id, ok := x.Value.(*ast.Ident); ok {
			valObj = ev.info.Defs[id]
		}
		for _, el := range elems {
			if valObj != nil {
				ev.env[valObj] = el
			}
			v, done, err := ev.stmts(x.Body.List)
			if err != "" || done {
				return v, done, err
			}
		}
		return "", false, ""
	}
	return "", false, fmt.Sprintf("statement %T is not evaluable", st)
}

// tableOf resolves a package-level slice/array variable with a composite-literal value into its
// elements (constants or structs of constants).
func (ev *strEval) tableOf(e ast.Expr) ([]any, string) {
	o := usesObj(ev.info, e)
	v, ok := o.(*types.Var)
	if !ok || v.Parent() != ev.pk.Types.Scope() {
		return nil, "range over `" + exprString(e) + "` (not a package-level table)"
	}
	for _, f := range ev.pk.Syntax {
		for _, d := range f.Decls {
			gd, ok := d.(*ast.GenDecl)
			if !ok {
				continue
			}
			for _, sp := range gd.Specs {
				vs, ok := sp.(*ast.ValueSpec)
				if !ok {
					continue
				}
				for i, nm := range vs.Names {
					if ev.info.Defs[nm] != o || i >= len(vs.Values) {
						continue
					}
					cl, ok := ast.Unparen(vs.Values[i]).(*ast.CompositeLit)
					if !ok {
						return nil, "table is not a composite literal"
					}
					// the table must not be written anywhere
					written := false
					ev.p.ProdFiles(func(pk2 *packages.Package, f2 *ast.File) {
						if pk2 != ev.pk {
							return
						}
						ast.Inspect(f2, func(n ast.Node) bool {
							if as, ok := n.(*ast.AssignStmt); ok {
								for _, l := range as.Lhs {
									root := l
									for {
										if ix, ok := ast.Unparen(root).(*ast.IndexExpr); ok {
											root = ix.X
											continue
										}
										if sel, ok := ast.Unparen(root).(*ast.SelectorExpr); ok && ev.info.Selections[sel] != nil {
											root = sel.X
											continue
										}
										break
									}
									if usesObj(ev.info, root) == o {
										written = true
									}
								}
							}
							return true
						})
					})
					if written {
						return nil, "the table is modified at run time"
					}
					var out []any
					st, _ := deref(ev.info.TypeOf(cl)).Underlying().(*types.Slice)
					var elemStruct *types.Struct
					if st != nil {
						elemStruct, _ = st.Elem().Underlying().(*types.Struct)
					} else if at, ok := deref(ev.info.TypeOf(cl)).Underlying().(*types.Array); ok {
						elemStruct, _ = at.Elem().Underlying().(*types.Struct)
					}
					for _, el := range cl.Elts {
						if kv, ok := el.(*ast.KeyValueExpr); ok {
							el = kv.Value
						}
						if ecl, ok := ast.Unparen(el).(*ast.CompositeLit); ok && elemStruct != nil {
							m := map[string]any{}
							for j, fe := range ecl.Elts {
								if kv, ok := fe.(*ast.KeyValueExpr); ok {
									if s, ok := constString(ev.info, kv.Value); ok {
										m[exprString(kv.Key)] = s
									}
								} else if j < elemStruct.NumFields() {
									if s, ok := constString(ev.info, fe); ok {
										m[elemStruct.Field(j).Name()] = s
									}
								}
							}
							out = append(out, m)
							continue
						}
						if s, ok := constString(ev.info, el); ok {
							out = append(out, s)
							continue
						}
						return nil, "table element is not constant"
					}
					return out, ""
				}
			}
		}
	}
	return nil, "table declaration not found"
}

func (ev *strEval) cond(e ast.Expr) (bool, string) {
	e = ast.Unparen(e)
	switch x := e.(type) {
	case *ast.UnaryExpr:
		if x.Op == token.NOT {
			v, err := ev.cond(x.X)
			return !v, err
		}
	case *ast.BinaryExpr:
		switch x.Op {
		case token.LOR, token.LAND:
			l, err := ev.cond(x.X)
			if err != "" {
				return false, err
			}
			if (x.Op == token.LOR && l) || (x.Op == token.LAND && !l) {
				return l, ""
			}
			return ev.cond(x.Y)
		case token.EQL, token.NEQ:
			l, err := ev.expr(x.X)
			if err != "" {
				return false, err
			}
			r, err := ev.expr(x.Y)
			if err != "" {
				return false, err
			}
			return (l == r) == (x.Op == token.EQL), ""
		}
	case *ast.CallExpr:
		full := fullName(calleeFunc(ev.info, x))
		if len(x.Args) == 2 {
			a, err := ev.expr(x.Args[0])
			if err != "" {
				return false, err
			}
			b, err := ev.expr(x.Args[1])
			if err != "" {
				return false, err
			}
			as, ok1 := a.(string)
			bs, ok2 := b.(string)
			if !ok1 || !ok2 {
				return false, "non-string argument in `" + exprString(x) + "`"
			}
			switch full {
			case "strings.HasSuffix":
				return strings.HasSuffix(as, bs), ""
			case "strings.HasPrefix":
				return strings.HasPrefix(as, bs), ""
			case "strings.Contains":
				return strings.Contains(as, bs), ""
			}
		}
		return false, "unknown predicate " + full + " in RuleGenerated"
	}
	return false, "cannot evaluate `" + exprString(e) + "`"
}

func (ev *strEval) expr(e ast.Expr) (any, string) {
	e = ast.Unparen(e)
	if s, ok := constString(ev.info, e); ok {
		return s, ""
	}
	switch x := e.(type) {
	case *ast.Ident:
		if v, ok := ev.env[usesObj(ev.info, x)]; ok {
			return v, ""
		}
	case *ast.SelectorExpr:
		if o := usesObj(ev.info, x.X); o != nil {
			if o == ev.ruleParam && isField(ev.info, x, "parsergen/lr1", "Rule", "Name") {
				return ev.sample, ""
			}
			if m, ok := ev.env[o].(map[string]any); ok {
				if v, ok := m[x.Sel.Name]; ok {
					return v, ""
				}
			}
		}
	case *ast.CallExpr:
		// conversion of a constant: generated("x")
		if len(x.Args) == 1 {
			if tv, ok := ev.info.Types[x.Fun]; ok && tv.IsType() {
				return ev.expr(x.Args[0])
			}
		}
	}
	return nil, "cannot evaluate `" + exprString(e) + "`"
}

var expectedSugar = map[string]struct {
	name  string
	prods string
	kind  string
}{
	"ParserTermZeroOrMore":  {"%v*", "[sugar(ParserTermOneOrMore)] []", "zero_or_more"},
	"ParserTermZeroOrMoreF": {"%v*!", "[sugar(ParserTermOneOrMoreF)] []", "zero_or_more_f"},
	"ParserTermOneOrMore":   {"%v+", "[self c] [c]", "one_or_more"},
	"ParserTermOneOrMoreF":  {"%v+!", "[self c] [c]", "one_or_more_f"},
	"ParserTermZeroOrOne":   {"%v?", "[c] []", "zero_or_one"},
	"ParserTermListOpt":     {"@list(%v,%v)?", "[sugar(ParserTermList)] []", "zero_or_one"},
	"ParserTermList":        {"@list(%v,%v)", "[self sep c] [c]", "list"},
}

func ruleACT3(c *Ctx) {
	const rule = "ACT-3"
	shapes, why := extractNormalize(c)
	if shapes == nil {
		c.unres(rule, "ast.ParserTerm.normalize", "", "%s", why)
		return
	}
	seen := map[string]bool{}
	for _, sh := range shapes {
		exp, known := expectedSugar[sh.typeConst]
		construct := "ast.ParserTerm.normalize/" + sh.typeConst
		if !known {
			c.unres(rule, construct, "", "sugar kind unknown to the checker")
			continue
		}
		seen[sh.typeConst] = true
		var ps []string
		for _, pr := range sh.prods {
			ps = append(ps, "["+strings.Join(pr, " ")+"]")
		}
		got := strings.Join(ps, " ")
		c.check(got == exp.prods && sh.namePat == exp.name, rule, construct, "",
			fmt.Sprintf("rewritten to rule %q with productions %s", sh.namePat, got),
			fmt.Sprintf("rewritten to rule %q with productions %s; documented shape is %q with %s", sh.namePat, got, exp.name, exp.prods))
		// the helper-rule name is recognised as the kind whose template branch handles these shapes
		sample := strings.ReplaceAll(sh.namePat, "%v", "x")
		kind, err := evalRuleGenerated(c, sample)
		if err != "" {
			c.unres(rule, "codegen.RuleGenerated("+sample+")", "", "%s", err)
			continue
		}
		var lens []int
		for _, pr := range sh.prods {
			lens = append(lens, len(pr))
		}
		okKind := kind == exp.kind && fmt.Sprint(kindShapes[kind]) == fmt.Sprint(lens)
		c.check(okKind, rule, "codegen.RuleGenerated("+sample+")", "", fmt.Sprintf("name %q is classified %q, whose template branches expect productions of %v terms", sample, kind, lens),
			fmt.Sprintf("name %q is classified %q (expected %q); production lengths %v vs the lengths the branch handles %v", sample, kind, exp.kind, lens, kindShapes[kind]))
	}
	for k := range expectedSugar {
		if !seen[k] {
			c.bad(rule, "ast.ParserTerm.normalize/"+k, "", "no rewrite for %s", k)
		}
	}
	if k, err := evalRuleGenerated(c, "x"); err != "" || k != "not_generated" {
		c.bad(rule, "codegen.RuleGenerated(x)", "", "a plain rule name is classified %q (%s)", k, err)
	}
	// sample names that must not be captured by an earlier arm
	for _, s := range []struct{ name, kind string }{{"x_y", "not_generated"}, {"S'", "sprime"}} {
		if k, _ := evalRuleGenerated(c, s.name); k != s.kind {
			c.bad(rule, "codegen.RuleGenerated("+s.name+")", "", "classified %q, expected %q", k, s.kind)
		}
	}

	// (iii) the template branches
	ta := c.tmplOrUnres(rule)
	if ta == nil {
		return
	}
	ti := ta.Variants[0]
	cases, fd := actCases(ti)
	if fd == nil {
		c.unres(rule, "template/_act", "", "_act not found")
		return
	}
	for _, mp := range ti.Prods {
		if mp.Kind == "not_generated" || mp.Kind == "sprime" {
			continue
		}
		construct := fmt.Sprintf("template/_act/%s(%d terms)", mp.Kind, mp.NTerms)
		cc := cases[mp.Index]
		if cc == nil {
			c.bad(rule, construct, ti.Pos(fd.Pos()), "no case is generated for this helper production")
			continue
		}
		slots := castSlots(ti, cc)
		var reads []int64
		for _, s := range slots {
			reads = append(reads, s.peek)
		}
		sort.Slice(reads, func(i, j int) bool { return reads[i] > reads[j] })
		src := nodeSource(ti, cc)
		n := int64(mp.NTerms)
		ok, want := false, ""
		filtered := strings.HasSuffix(mp.Kind, "_f")
		hasDiscard := strings.Contains(src, ".Discard()")
		hasAppend, hasZeroDecl := false, false
		ast.Inspect(cc, func(m ast.Node) bool {
			switch x := m.(type) {
			case *ast.CallExpr:
				if builtinName(ti.Info, x) == "append" {
					hasAppend = true
				}
			case *ast.ValueSpec:
				if len(x.Values) == 0 {
					hasZeroDecl = true
				}
			}
			return true
		})
		switch {
		case (mp.Kind == "one_or_more" || mp.Kind == "one_or_more_f") && n == 2:
			want = "append(list at Peek(1), element at Peek(0))"
			ok = fmt.Sprint(reads) == "[1 0]" && hasAppend
		case (mp.Kind == "one_or_more" || mp.Kind == "one_or_more_f") && n == 1:
			want = "singleton of the element at Peek(0)"
			ok = fmt.Sprint(reads) == "[0]"
		case mp.Kind == "list" && n == 3:
			want = "append(list at Peek(2), element at Peek(0)); the separator at Peek(1) is never read"
			ok = fmt.Sprint(reads) == "[2 0]" && hasAppend
		case mp.Kind == "list" && n == 1:
			want = "singleton of the element at Peek(0)"
			ok = fmt.Sprint(reads) == "[0]"
		case n == 1: // zero_or_one / zero_or_more(_f): pass the child through
			want = "the child's value at Peek(0) passed through"
			ok = fmt.Sprint(reads) == "[0]" && !hasAppend
		case n == 0:
			want = "the zero value of the rule's type"
			ok = len(reads) == 0 && hasZeroDecl
		}
		if filtered && (mp.Kind == "one_or_more_f") {
			ok = ok && hasDiscard
			want += ", appended only if !Discard()"
		} else if hasDiscard {
			ok = false
			want += " (no Discard filter for this kind)"
		}
		c.check(ok, rule, construct, ti.Pos(cc.Pos()), want, fmt.Sprintf("the branch reads stack slots %v; expected: %s", reads, want))
	}
	// (iv) getReduceTypeForGeneratedRule picks the production that (i) puts there
	checkReduceTypePicks(c, rule)
}

func nodeSource(ti *TmplInstance, n ast.Node) string {
	tmpl, s, e, ok := ti.span(n)
	if !ok {
		return ""
	}
	src := ti.Sources[tmpl]
	if s < 0 || e > len(src) || s > e {
		return ""
	}
	return src[s:e]
}

func checkReduceTypePicks(c *Ctx, rule string) {
	p := c.Prog
	pk, fd := p.FuncDecl("internal/codegen", "context.getReduceTypeForGeneratedRule")
	if fd == nil {
		c.unres(rule, "codegen.getReduceTypeForGeneratedRule", "", "function not found")
		return
	}
	info := pk.TypesInfo
	// per case: which Prods[k] is required, which Terms[j] is read
	want := map[string][2]int64{ // kind const name => {prod index, term index}
		"generatedZeroOrOne": {0, 0}, "generatedZeroOrMore": {0, 0}, "generatedZeroOrMoreF": {0, 0},
		"generatedOneOrMore": {1, 0}, "generatedOneOrMoreF": {1, 0}, "generatedList": {1, 0},
	}
	got := map[string][2]int64{}
	ast.Inspect(fd.Body, func(n ast.Node) bool {
		cc, ok := n.(*ast.CaseClause)
		if !ok || cc.List == nil {
			return true
		}
		pi, tix := int64(-1), int64(-1)
		for _, s := range cc.Body {
			ast.Inspect(s, func(m ast.Node) bool {
				switch x := m.(type) {
				case *ast.BinaryExpr:
					if x.Op == token.NEQ {
						if ix, ok := ast.Unparen(x.Y).(*ast.IndexExpr); ok && isField(info, ix.X, "parsergen/lr1", "Rule", "Prods") {
							pi, _ = constInt(info, ix.Index)
						}
					}
				case *ast.IndexExpr:
					if isField(info, x.X, "parsergen/lr1", "Prod", "Terms") && tix == -1 {
						tix, _ = constInt(info, x.Index)
					}
				}
				return true
			})
		}
		for _, l := range cc.List {
			if k, ok := usesObj(info, l).(*types.Const); ok {
				got[k.Name()] = [2]int64{pi, tix}
			}
		}
		return true
	})
	for k, w := range want {
		g, ok := got[k]
		c.check(ok && g == w, rule, "codegen.getReduceTypeForGeneratedRule/"+k, p.Pos(fd.Pos()),
			fmt.Sprintf("type derived from rule.Prods[%d].Terms[%d], the production normalize() places there", w[0], w[1]),
			fmt.Sprintf("type derived from Prods[%d].Terms[%d]; normalize() puts the describing production at Prods[%d], term %d", g[0], g[1], w[0], w[1]))
	}
}

// ---- BIND ----

func ruleBIND1(c *Ctx) {
	const rule = "BIND-1"
	p := c.Prog
	pk, fd := p.FuncDecl("internal/codegen", "context.matchMethod")
	if fd == nil {
		c.unres(rule, "codegen.context.matchMethod", "", "function not found")
		return
	}
	info := pk.TypesInfo
	var calls []*ast.CallExpr
	matchFd := fd
	for _, sc := range funcScope(p, pk, fd, 1) {
		owner, isDecl := sc.node.(*ast.FuncDecl)
		if !isDecl || (owner != fd && owner.Name.Name == "getTermGoType") {
			continue
		}
		ast.Inspect(owner, func(n ast.Node) bool {
			if call, ok := n.(*ast.CallExpr); ok {
				if fn := calleeFunc(info, call); fn != nil && fn.Pkg() != nil && fn.Pkg().Path() == "go/types" {
					switch fn.Name() {
					case "AssignableTo", "Identical", "ConvertibleTo", "Implements", "IdenticalIgnoreTags", "Satisfies":
						calls = append(calls, call)
						matchFd = owner
					}
				}
			}
			return true
		})
	}
	outer := fd
	fd = matchFd
	if len(calls) != 1 || calleeFunc(info, calls[0]).Name() != "AssignableTo" {
		c.bad(rule, "codegen.context.matchMethod/predicate", p.Pos(fd.Pos()), "the parameter match is not decided by exactly one types.AssignableTo call (%d go/types predicates found)", len(calls))
		return
	}
	call := calls[0]
	// V from getTermGoType(term), T the ranged method parameter
	vdef := resolveLocalIn(info, fd, call.Args[0])
	vOK := false
	if vc, ok := ast.Unparen(vdef).(*ast.CallExpr); ok {
		if fn := calleeFunc(info, vc); fn != nil && fn.Name() == "getTermGoType" {
			// its argument is prod.Terms[i] for the same i as the parameter
			targ := resolveLocalIn(info, fd, vc.Args[0])
			if ix, ok := ast.Unparen(targ).(*ast.IndexExpr); ok && isField(info, ix.X, "parsergen/lr1", "Prod", "Terms") {
				vOK = true
				// T: range value over method.Params with key == ix.Index
				tOK := false
				ast.Inspect(fd.Body, func(n ast.Node) bool {
					if rs, ok := n.(*ast.RangeStmt); ok && isField(info, rs.X, "internal/codegen", "actionMethod", "Params") && rs.Key != nil && rs.Value != nil {
						if sameExpr(rs.Key, ix.Index) && sameExpr(rs.Value, call.Args[1]) {
							tOK = true
						}
					}
					return true
				})
				vOK = vOK && tOK
			}
		}
	}
	c.check(vOK, rule, "codegen.context.matchMethod/direction", p.Pos(call.Pos()),
		"types.AssignableTo(type of term i, type of parameter i): the term's value must be assignable to the parameter",
		"AssignableTo is not applied as (type of term i, type of parameter i)")
	// arity first
	isLenOf := func(e ast.Expr, pkg, typ, field string) bool {
		lc, ok := ast.Unparen(e).(*ast.CallExpr)
		return ok && builtinName(info, lc) == "len" && len(lc.Args) == 1 && isField(info, lc.Args[0], pkg, typ, field)
	}
	okArity := holds(pathConds(info, parents(fd), call), func(e ast.Expr, pos bool) bool {
		l, op, r, ok := cmpFact(e, pos)
		if !ok || op != token.EQL {
			return false
		}
		return (isLenOf(l, "internal/codegen", "actionMethod", "Params") && isLenOf(r, "parsergen/lr1", "Prod", "Terms")) ||
			(isLenOf(r, "internal/codegen", "actionMethod", "Params") && isLenOf(l, "parsergen/lr1", "Prod", "Terms"))
	})
	c.check(okArity, rule, "codegen.context.matchMethod/arity", p.Pos(fd.Pos()), "a method matches only if its parameter count equals the production's term count", "the parameter count is not compared with the term count before the types")
	// all methods of the rule are tried and every match kept
	okAll := false
	fd = outer
	ast.Inspect(fd.Body, func(n ast.Node) bool {
		if rs, ok := n.(*ast.RangeStmt); ok && usesObj(info, rs.X) == paramObj(info, fd, 1) {
			early := false
			ast.Inspect(rs.Body, func(m ast.Node) bool {
				switch b := m.(type) {
				case *ast.BranchStmt:
					if b.Tok == token.BREAK {
						early = true
					}
				case *ast.ReturnStmt:
					early = true
				}
				return true
			})
			okAll = !early
		}
		return true
	})
	c.check(okAll, rule, "codegen.context.matchMethod/all-candidates", p.Pos(fd.Pos()), "every method of the rule is tried and every match is reported (so ambiguity is visible)", "matching stops at the first match: ambiguous bindings are not detected")
}

type verdictSpec struct {
	name    string
	fn      string
	cond    func(info *types.Info, cond ast.Expr) bool
	all     func(info *types.Info, conds []ast.Expr) bool // optional: decided from all guards together
	posWant []string                                      // acceptable first-argument suffixes of the Errorf call
}

func ruleBIND2(c *Ctx) {
	const rule = "BIND-2"
	p := c.Prog
	isCallTo := func(info *types.Info, e ast.Expr, full string) *ast.CallExpr {
		var out *ast.CallExpr
		ast.Inspect(e, func(n ast.Node) bool {
			if call, ok := n.(*ast.CallExpr); ok && fullName(calleeFunc(info, call)) == full {
				out = call
			}
			return true
		})
		return out
	}
	specs := []verdictSpec{
		{"result-count", "context.getActionMethods", func(info *types.Info, e ast.Expr) bool {
			be, ok := e.(*ast.BinaryExpr)
			if !ok || be.Op != token.NEQ {
				return false
			}
			v, ok := constInt(info, be.Y)
			return ok && v == 1 && strings.Contains(exprString(be.X), "Results().Len()")
		}, nil, []string{"goMethod.Pos()"}},
		{"return-type-conflict", "context.AssignActions", func(info *types.Info, e ast.Expr) bool {
			u, ok := e.(*ast.UnaryExpr)
			if !ok || u.Op != token.NOT {
				return false
			}
			call := isCallTo(info, u.X, "go/types.Identical")
			return call != nil && call == ast.Unparen(u.X) && isField(info, call.Args[0], "internal/codegen", "actionMethod", "Return") && isField(info, call.Args[1], "internal/codegen", "actionMethod", "Return")
		}, nil, []string{"method.Method.Pos()"}},
		{"method-names-no-rule", "context.AssignActions", func(info *types.Info, e ast.Expr) bool {
			be, ok := e.(*ast.BinaryExpr)
			return ok && be.Op == token.EQL && exprString(be.Y) == "nil" && typeIs(info.TypeOf(be.X), "parsergen/lr1", "Rule")
		}, nil, []string{"Method.Pos()"}},
		{"rule-without-type", "context.AssignActions", func(info *types.Info, e ast.Expr) bool {
			be, ok := e.(*ast.BinaryExpr)
			if !ok || be.Op != token.EQL || exprString(be.Y) != "nil" {
				return false
			}
			ix, ok := ast.Unparen(be.X).(*ast.IndexExpr)
			return ok && isField(info, ix.X, "internal/codegen", "context", "RuleGoTypes")
		}, nil, []string{"rule.Position"}},
		{"no-matching-method", "context.AssignActions", func(info *types.Info, e ast.Expr) bool {
			be, ok := e.(*ast.BinaryExpr)
			if !ok || be.Op != token.EQL {
				return false
			}
			v, ok := constInt(info, be.Y)
			return ok && v == 0 && strings.HasPrefix(exprString(be.X), "len(")
		}, nil, []string{"prod.Position"}},
		{"ambiguous-methods", "context.AssignActions", func(info *types.Info, e ast.Expr) bool {
			be, ok := e.(*ast.BinaryExpr)
			if !ok || be.Op != token.GTR {
				return false
			}
			v, ok := constInt(info, be.Y)
			return ok && v == 1 && strings.HasPrefix(exprString(be.X), "len(")
		}, func(info *types.Info, conds []ast.Expr) bool {
			// the same verdict as the tail of `switch len(m) { case 0: … case 1: … default: }`
			ne := map[int64]bool{}
			for _, e := range conds {
				if be, ok := ast.Unparen(e).(*ast.BinaryExpr); ok && be.Op == token.NEQ && strings.HasPrefix(exprString(be.X), "len(") {
					if v, ok := constInt(info, be.Y); ok {
						ne[v] = true
					}
				}
			}
			return ne[0] && ne[1]
		}, []string{"prod.Position"}},
		{"unassigned-method", "context.AssignActions", func(info *types.Info, e ast.Expr) bool {
			u, ok := e.(*ast.UnaryExpr)
			return ok && u.Op == token.NOT && strings.HasSuffix(exprString(u.X), ".Empty()")
		}, nil, []string{"Method.Pos()"}},
	}
	for _, sp := range specs {
		pk, fd := p.FuncDecl("internal/codegen", sp.fn)
		construct := "codegen." + sp.fn + "/" + sp.name
		if fd == nil {
			c.unres(rule, construct, "", "function not found")
			continue
		}
		info := pk.TypesInfo
		found, logged := false, false
		for _, g := range errorGuards(pk, fd) {
			hit := false
			for _, cnd := range g.conds {
				if sp.cond(info, ast.Unparen(cnd)) {
					hit = true
				}
			}
			if !hit && sp.all != nil && sp.all(info, g.conds) {
				hit = true
			}
			if !hit {
				continue
			}
			found = true
			if calleeFunc(info, g.call).Name() != "Errorf" {
				continue
			}
			for _, w := range sp.posWant {
				if strings.HasSuffix(exprString(g.call.Args[0]), w) {
					logged = true
				}
			}
		}
		switch {
		case !found:
			c.bad(rule, construct, p.Pos(fd.Pos()), "the condition that must fail the binding is no longer tested in %s", sp.fn)
		case !logged:
			c.bad(rule, construct, p.Pos(fd.Pos()), "the failing condition does not log an error positioned at the method/production concerned (%v)", sp.posWant)
		default:
			c.ok(rule, construct, p.Pos(fd.Pos()), "condition tested and reported with Errorf at %v", sp.posWant)
		}
	}
	// success only without errors
	pk, fd := p.FuncDecl("internal/codegen", "context.AssignActions")
	if fd != nil {
		info := pk.TypesInfo
		okRet := true
		n := 0
		inspectNoLit(fd.Body, func(m ast.Node) bool {
			rs, ok := m.(*ast.ReturnStmt)
			if !ok || len(rs.Results) != 1 {
				return true
			}
			n++
			res := ast.Unparen(resolveLocal(info, fd, rs.Results[0]))
			okOne := exprString(res) == "false"
			if u, isNot := res.(*ast.UnaryExpr); isNot && u.Op == token.NOT {
				if call, isCall := ast.Unparen(u.X).(*ast.CallExpr); isCall {
					if fn := calleeFunc(info, call); fn != nil && fn.Name() == "HasError" && isErrLoggerMethod(fn) {
						okOne = true
					}
				}
			}
			if !okOne {
				okRet = false
			}
			return true
		})
		c.check(okRet && n > 0, rule, "codegen.context.AssignActions/success-iff-no-error", p.Pos(fd.Pos()), "AssignActions returns false or !HasError(): success only when no diagnostic was logged", "AssignActions can return true although diagnostics were logged")
	}
}

func ruleBIND3(c *Ctx) {
	const rule = "BIND-3"
	ta := c.tmplOrUnres(rule)
	if ta == nil {
		return
	}
	ti := ta.Variants[0]
	cases, fd := actCases(ti)
	if fd == nil {
		c.unres(rule, "template/_act", "", "_act not found")
		return
	}
	n := 0
	for _, mp := range ti.Prods {
		cc := cases[mp.Index]
		if cc == nil {
			continue
		}
		for _, sl := range castSlots(ti, cc) {
			n++
			construct := fmt.Sprintf("template/_act/%s(%d terms)/cast(Peek(%d))", mp.Kind, mp.NTerms, sl.peek)
			pos := int64(mp.NTerms) - 1 - sl.peek
			h := ti.HoleAt(ti.TmplOf(sl.call.Pos()), sl.call.Fun.(*ast.IndexExpr).Index)
			src := ""
			if h != nil {
				src = h.Src
			}
			switch {
			case strings.Contains(sl.typ, "_Tparam"):
				c.bad(rule, construct, ti.Pos(sl.call.Pos()), "the stack value is asserted to the method's PARAMETER type ({{ %s }}); matchMethod only guarantees assignability, so a parameter type that differs from the pushed type receives the zero value silently", src)
			case sl.peek < 0:
				c.bad(rule, construct, ti.Pos(sl.call.Pos()), "_cast is applied to something other than a stack slot")
			case sl.typ == fmt.Sprintf("_Tterm%d", pos):
				c.ok(rule, construct, ti.Pos(sl.call.Pos()), "asserted to the Go type of the term at that slot ({{ %s }})", src)
			case mp.Variadic && pos == int64(mp.NTerms-1) && sl.typ == fmt.Sprintf("_Tterm%d", variadicTermTag):
				c.ok(rule, construct, ti.Pos(sl.call.Pos()), "asserted to the Go type of the (slice-typed) term bound to the variadic parameter ({{ %s }})", src)
			case strings.HasPrefix(sl.typ, "[]_Tterm") && pos == 0 && mp.NTerms > 1 && (strings.HasPrefix(mp.Kind, "one_or_more") || mp.Kind == "list"):
				elem := strings.TrimPrefix(sl.typ, "[]_Tterm")
				c.check(elem == fmt.Sprint(mp.NTerms-1), rule, construct, ti.Pos(sl.call.Pos()), "the list operand is asserted to a slice of the element term's type (the helper rule's own type)",
					"the list operand is asserted to a slice of the type of term "+elem+", but the element is term "+fmt.Sprint(mp.NTerms-1))
			case sl.typ == "_Trule" && strings.HasPrefix(mp.Kind, "zero_or_") && mp.NTerms == 1:
				c.ok(rule, construct, ti.Pos(sl.call.Pos()), "pass-through asserted to the helper rule's own type, which getReduceTypeForGeneratedRule derives from that very child")
			default:
				c.bad(rule, construct, ti.Pos(sl.call.Pos()), "slot %d (term %d) is asserted to %s ({{ %s }}), which is not the type that slot was pushed with", sl.peek, pos, sl.typ, src)
			}
		}
	}
	if n < 12 {
		c.unres(rule, "template/_act/casts", "", "only %d _cast sites found in _act", n)
	}
	// _cast itself: comma-ok assertion (documented), generic
	cf, _ := ti.FuncDecl("_cast")
	c.check(cf != nil, rule, "template/_cast", "", "_cast is the single conversion point of stack values", "_cast not found")
	// the user-production arguments' type hole must be computed from the term at the parameter's index
	for _, h := range ti.Holes {
		if h.Range != nil && strings.Contains(h.Range.Src, "Params") && strings.Contains(h.Src, "go_type") {
			idxVar := h.Range.Key
			okSrc := strings.Contains(h.Src, "prod.Terms["+idxVar+"]") && !exprMentions(h.Expr, h.Range.Val)
			c.check(okSrc, rule, "template/_act/user-production/type-hole", "", "the argument's assertion type is go_type(get_term_go_type(prod.Terms["+idxVar+"]))",
				"the argument's assertion type is {{ "+h.Src+" }}, not derived from the term at the parameter's index")
			break
		}
	}
}

func ruleBIND4(c *Ctx) {
	const rule = "BIND-4"
	p := c.Prog
	pk, gen := p.FuncDecl("internal/codegen", "Generate")
	if gen == nil {
		c.unres(rule, "codegen.Generate", "", "function not found")
		return
	}
	checkStageOrder(c, rule, pk, gen, "ParseGo", "AssignActions", "action methods are read from the type-checked package")
	checkStageOrder(c, rule, pk, gen, "AssignActions", "EmitParser", "the parser template needs the method binding")
	checkStageOrder(c, rule, pk, gen, "PreParseGo", "EmitBase", "the package name must be known before any file is written")
	// go_type: qualifier returns "" exactly for the generated package, an import alias otherwise;
	// the type is spelled as given (aliases kept)
	ta := c.Templates()
	if ta.Err != nil || ta.Set.RenderFunc == nil {
		c.unres(rule, "codegen.renderTemplate/go_type", "", "render function not found")
		return
	}
	info := ta.Set.Pkg.TypesInfo
	var goType *ast.FuncLit
	for _, u := range ta.Set.Uses {
		if fl := funcLitOf(p, info, u.Binds["go_type"]); fl != nil {
			goType = fl
		}
	}
	if goType == nil {
		c.unres(rule, "codegen.renderTemplate/go_type", "", "binding go_type is not a function literal")
		return
	}
	var ts *ast.CallExpr
	ast.Inspect(goType.Body, func(n ast.Node) bool {
		if call, ok := n.(*ast.CallExpr); ok && fullName(calleeFunc(info, call)) == "go/types.TypeString" {
			ts = call
		}
		return true
	})
	if ts == nil {
		c.bad(rule, "codegen.renderTemplate/go_type", p.Pos(goType.Pos()), "go_type does not spell the type with types.TypeString")
		return
	}
	paramT := info.Defs[goType.Type.Params.List[0].Names[0]]
	rewritten := false
	ast.Inspect(goType.Body, func(n ast.Node) bool {
		if as, ok := n.(*ast.AssignStmt); ok {
			for _, l := range as.Lhs {
				if usesObj(info, l) == paramT {
					rewritten = true
				}
			}
		}
		return true
	})
	c.check(usesObj(info, ts.Args[0]) == paramT && !rewritten, rule, "codegen.renderTemplate/go_type/type-as-given", p.Pos(ts.Pos()),
		"the type is spelled exactly as bound (alias names are kept, so unexported targets of exported aliases are never named)",
		"go_type rewrites the type (`"+exprString(ts.Args[0])+"`) before spelling it: an exported alias of an unexported type would be spelled by its unnameable target")
	okQ := false
	qArg := ast.Unparen(ts.Args[1])
	if id, isId := qArg.(*ast.Ident); isId {
		// a named closure or a package-level function
		if o := usesObj(info, id); o != nil {
			if fnObj, isFn := o.(*types.Func); isFn {
				if d := p.funcDecls[fnObj.Origin()]; d != nil {
					qArg = &ast.FuncLit{Type: d.Type, Body: d.Body}
				}
			} else if def := localDefs(info, outerOf(p, pk, goType))[o]; def != nil {
				qArg = ast.Unparen(def)
			}
		}
	}
	if q, ok := qArg.(*ast.FuncLit); ok {
		var emptyCond ast.Expr
		imp := false
		ast.Inspect(q.Body, func(n ast.Node) bool {
			switch x := n.(type) {
			case *ast.IfStmt:
				if len(x.Body.List) == 1 {
					if rs, ok := x.Body.List[0].(*ast.ReturnStmt); ok {
						if s, ok := constString(info, rs.Results[0]); ok && s == "" {
							emptyCond = x.Cond
						}
					}
				}
			case *ast.ReturnStmt:
				if call, ok := x.Results[0].(*ast.CallExpr); ok {
					if fn := calleeFunc(info, call); fn != nil && fn.Name() == "Import" && strings.HasSuffix(exprString(call.Args[0]), ".Path()") {
						imp = true
					}
				}
			}
			return true
		})
		if be, ok := emptyCond.(*ast.BinaryExpr); ok && be.Op == token.EQL && strings.HasSuffix(exprString(be.X), ".Path()") {
			okQ = imp
		}
	}
	c.check(okQ, rule, "codegen.renderTemplate/go_type/qualifier", p.Pos(ts.Pos()), `the package qualifier is "" exactly for the generated package's own path and imports.Import(path) otherwise`,
		"the package qualifier of go_type is not: \"\" for the own package path, an import alias otherwise")
	// imports.WriteTo emits every alias handed out
	_, wt := p.FuncDecl("internal/codegen", "imports.WriteTo")
	_, im := p.FuncDecl("internal/codegen", "imports.Import")
	okImp := wt != nil && im != nil
	if okImp {
		var stored *types.Var
		ast.Inspect(im.Body, func(n ast.Node) bool {
			if as, ok := n.(*ast.AssignStmt); ok && len(as.Lhs) == 1 {
				if ix, ok := as.Lhs[0].(*ast.IndexExpr); ok {
					if fv, _ := selField(info, ix.X); fv != nil {
						stored = fv
					}
				}
			}
			return true
		})
		rangesAll := false
		ast.Inspect(wt.Body, func(n ast.Node) bool {
			if rs, ok := n.(*ast.RangeStmt); ok {
				// over the map itself, or over all of its keys (maps.Keys, possibly sorted)
				x := ast.Unparen(rs.X)
				for depth := 0; depth < 3; depth++ {
					call, isCall := x.(*ast.CallExpr)
					if !isCall || len(call.Args) != 1 {
						break
					}
					switch fullName(calleeFunc(info, call)) {
					case "slices.Sorted", "slices.Collect", "maps.Keys":
						x = ast.Unparen(call.Args[0])
					default:
						depth = 3
					}
				}
				if fv, _ := selField(info, x); fv != nil && fv == stored {
					rangesAll = true
				}
			}
			return true
		})
		okImp = rangesAll
	}
	c.check(okImp, rule, "codegen.imports.WriteTo/all-aliases", "", "every alias handed out by Import is written to the import block", "not every alias handed out by Import is written to the import block")
	_ = constant.MakeBool
}

// outerOf returns the function declaration that contains node n.
func outerOf(p *Program, pk *packages.Package, n ast.Node) ast.Node {
	for _, f := range pk.Syntax {
		if f.Pos() <= n.Pos() && n.End() <= f.End() {
			for _, d := range f.Decls {
				if fd, ok := d.(*ast.FuncDecl); ok && fd.Pos() <= n.Pos() && n.End() <= fd.End() {
					return fd
				}
			}
		}
	}
	return n
}

// ---- BIND-5: the types of generated helper rules are inferred to a fixed point ----
//
// getReduceTypeForGeneratedRule derives a helper rule's type from the types of the rules its
// production mentions, some of which are helper rules themselves (`@list(x, s)?` wraps
// `@list(x, s)`). Nothing orders the productions so that a wrapped rule is typed before its
// wrapper, hence the inference must repeat until a pass assigns nothing new: the store into
// RuleGoTypes sets a flag and the enclosing loop runs again while the flag is set.
func ruleBIND5(c *Ctx) {
	const rule = "BIND-5"
	p := c.Prog
	pk, fd := p.FuncDecl("internal/codegen", "context.AssignActions")
	if fd == nil {
		c.unres(rule, "codegen.context.AssignActions", "", "function not found")
		return
	}
	info := pk.TypesInfo
	par := parents(fd)
	nStores := 0
	for _, sc := range funcScope(p, pk, fd, 1) {
		owner, ok := sc.node.(*ast.FuncDecl)
		if !ok {
			continue
		}
		opar := par
		if owner != fd {
			opar = parents(owner)
		}
		ast.Inspect(owner.Body, func(n ast.Node) bool {
			as, ok := n.(*ast.AssignStmt)
			if !ok || len(as.Lhs) != 1 || len(as.Rhs) != 1 {
				return true
			}
			ix, ok := ast.Unparen(as.Lhs[0]).(*ast.IndexExpr)
			if !ok || !isField(info, ix.X, "internal/codegen", "context", "RuleGoTypes") {
				return true
			}
			src, ok := ast.Unparen(resolveLocal(info, owner, as.Rhs[0])).(*ast.CallExpr)
			if !ok {
				return true
			}
			if f := calleeFunc(info, src); f == nil || f.Name() != "getReduceTypeForGeneratedRule" {
				return true
			}
			nStores++
			construct := funcKey(pk, owner) + "/generated-rule-types/fixed-point"
			// the flag set together with the store
			var flag types.Object
			for _, st := range enclosingList(opar, as) {
				if fa, ok := st.(*ast.AssignStmt); ok && fa != as && len(fa.Lhs) == 1 && len(fa.Rhs) == 1 && exprString(fa.Rhs[0]) == "true" && st.Pos() > as.Pos() {
					flag = usesObj(info, fa.Lhs[0])
				}
			}
			if flag == nil {
				c.bad(rule, construct, p.Pos(as.Pos()), "a newly inferred type is stored without recording that the pass changed something: wrappers of helper rules typed later in the same pass stay untyped (a correct grammar is rejected with 'rule missing action method')")
				return true
			}
			// an enclosing loop that repeats while the flag is set
			okLoop := false
			for q := opar[ast.Node(as)]; q != nil; q = opar[q] {
				fs, isFor := q.(*ast.ForStmt)
				if !isFor {
					continue
				}
				if fs.Cond != nil && usesObj(info, fs.Cond) == flag {
					okLoop = true
				}
				if fs.Cond == nil {
					for _, st := range fs.Body.List {
						ifs, ok := st.(*ast.IfStmt)
						if !ok || len(ifs.Body.List) != 1 || st.Pos() < as.Pos() {
							continue
						}
						br, ok := ifs.Body.List[0].(*ast.BranchStmt)
						if !ok || br.Tok != token.BREAK {
							continue
						}
						if u, ok := ast.Unparen(ifs.Cond).(*ast.UnaryExpr); ok && u.Op == token.NOT && usesObj(info, u.X) == flag {
							okLoop = true
						}
					}
				}
				if okLoop {
					// the flag is cleared at the start of every pass
					cleared := false
					for _, st := range fs.Body.List {
						if fa, ok := st.(*ast.AssignStmt); ok && len(fa.Lhs) == 1 && usesObj(info, fa.Lhs[0]) == flag && exprString(fa.Rhs[0]) == "false" && st.End() <= as.Pos() {
							cleared = true
						}
					}
					okLoop = cleared
					break
				}
			}
			c.check(okLoop, rule, construct, p.Pos(as.Pos()),
				fmt.Sprintf("the inference pass repeats while %s is set, and %s is cleared at the start of each pass and set by every store", flag.Name(), flag.Name()),
				"the inference of helper-rule types is not repeated until a pass assigns nothing new")
			return true
		})
	}
	if nStores == 0 {
		c.unres(rule, "codegen.context.AssignActions/generated-rule-types", p.Pos(fd.Pos()), "no store of an inferred helper-rule type into RuleGoTypes found")
	}
}

// ---- BIND-6: a terminal is typed in one way only ----
//
// The value pushed for the error terminal is an Error, for every other terminal a Token. Every
// place of the generator that turns a term into a Go type must make that distinction: a read of
// context.TokenType is only sound where the path establishes that the terminal at hand is not the
// grammar's ErrorTerminal, a read of context.ErrorType only where it is. (Pinned tree: fired for
// getReduceTypeForGeneratedRule, which typed the child of '@error?', '@error+', '@list(@error,..)'
// as Token; repaired by 15894c4.)
func ruleBIND6(c *Ctx) {
	const rule = "BIND-6"
	p := c.Prog
	n := 0
	p.ProdFiles(func(pk *packages.Package, f *ast.File) {
		info := pk.TypesInfo
		for _, d := range f.Decls {
			fd, ok := d.(*ast.FuncDecl)
			if !ok || fd.Body == nil {
				continue
			}
			par := parents(fd)
			ast.Inspect(fd.Body, func(m ast.Node) bool {
				e, ok := m.(ast.Expr)
				if !ok {
					return true
				}
				isTok := isField(info, e, "internal/codegen", "context", "TokenType")
				isErr := isField(info, e, "internal/codegen", "context", "ErrorType")
				if !isTok && !isErr {
					return true
				}
				// not a read: the left-hand side of an assignment
				if as, ok := par[e].(*ast.AssignStmt); ok {
					for _, l := range as.Lhs {
						if l == e {
							return true
						}
					}
				}
				n++
				name := "TokenType"
				if isErr {
					name = "ErrorType"
				}
				construct := fmt.Sprintf("%s/read(%s)", funcKey(pk, fd), name)
				// the fact: some expression compared with …ErrorTerminal
				known, isErrorTerminal := false, false
				for _, fct := range pathConds(info, par, e) {
					l, op, r, ok := cmpFact(fct.e, !fct.neg)
					if !ok || (op != token.EQL && op != token.NEQ) {
						continue
					}
					if isField(info, l, "parsergen/lr1", "Grammar", "ErrorTerminal") || isField(info, r, "parsergen/lr1", "Grammar", "ErrorTerminal") {
						known, isErrorTerminal = true, op == token.EQL
					}
				}
				switch {
				case !known:
					c.bad(rule, construct, p.Pos(e.Pos()), "a term is given the type %s without asking whether it is the error terminal: for '@error' (also under ?, +, * and @list) the value on the stack is an Error, for every other terminal a Token; the action parameter would have to be declared with the wrong type and receives a zero value", name)
				case isTok == isErrorTerminal:
					c.bad(rule, construct, p.Pos(e.Pos()), "%s is used on the path where the terminal %s the error terminal", name, map[bool]string{true: "is", false: "is not"}[isErrorTerminal])
				default:
					c.ok(rule, construct, p.Pos(e.Pos()), "%s is the type of a terminal only where it %s the error terminal", name, map[bool]string{true: "is", false: "is not"}[isErrorTerminal])
				}
				return true
			})
		}
	})
	if n < 2 {
		c.unres(rule, "codegen/terminal-types", "", "only %d reads of context.TokenType / context.ErrorType found; 2 were confirmed by hand (getTermGoType)", n)
	}
}

// ---- BIND-7: a variadic action method is called with its last argument spread ----
//
// getActionMethods records a variadic parameter by its slice type, which the slice type of a list
// term is assignable to, so the binding is accepted; the generated call compiles only if that last
// argument is followed by `...`. Decided on the model production whose action method is variadic:
// its call in _act has the ellipsis, the calls of the non-variadic model productions do not.
// (Pinned tree: fired; repaired by 5e5362c.)
func ruleBIND7(c *Ctx) {
	const rule = "BIND-7"
	ta := c.tmplOrUnres(rule)
	if ta == nil {
		return
	}
	ti := ta.Variants[0]
	cases, fd := actCases(ti)
	if fd == nil {
		c.unres(rule, "template/_act", "", "_act not found")
		return
	}
	n := 0
	for _, mp := range ti.Prods {
		if mp.Method == "" {
			continue
		}
		cc := cases[mp.Index]
		if cc == nil {
			continue
		}
		var call *ast.CallExpr
		ast.Inspect(cc, func(m ast.Node) bool {
			if ce, ok := m.(*ast.CallExpr); ok && call == nil && strings.HasSuffix(exprString(ce.Fun), "."+mp.Method) {
				call = ce
			}
			return true
		})
		if call == nil {
			continue
		}
		n++
		construct := fmt.Sprintf("template/_act/user-production(%d params, variadic=%v)/spread", mp.NTerms, mp.Variadic)
		switch {
		case mp.Variadic && !call.Ellipsis.IsValid():
			c.bad(rule, construct, ti.Pos(call.Pos()), "the action method's last parameter is variadic (accepted by the binder because its slice type accepts the list term's type) but the generated call passes the slice as one element: the generated parser does not compile")
		case !mp.Variadic && call.Ellipsis.IsValid():
			c.bad(rule, construct, ti.Pos(call.Pos()), "the last argument is spread although the action method is not variadic: the generated parser does not compile")
		default:
			c.ok(rule, construct, ti.Pos(call.Pos()), "the last argument is spread exactly when the action method is variadic")
		}
	}
	if n < 4 {
		c.unres(rule, "template/_act/user-calls", "", "only %d action calls of model user productions found in _act (4 expected: arities 0, 1, 3 and the variadic one)", n)
	}
}

// ---- BIND-8: methods the generated actions call on user types are checked by the generator ----
//
// The template branches of 'x*!' / 'x+!' call a method on every element (read from the instance:
// a selector call on a value whose type is a term's Go type). Such a call compiles only if the
// user's type has the method, so the generator must look the method up on the rule's Go type and
// fail with a diagnostic otherwise. (Pinned tree: fired - `item*!` over `int` made lox succeed
// and the generated parser fail to compile; repaired by c057754.)
func ruleBIND8(c *Ctx) {
	const rule = "BIND-8"
	ta := c.tmplOrUnres(rule)
	if ta == nil {
		return
	}
	ti := ta.Variants[0]
	_, fd := actCases(ti)
	if fd == nil {
		c.unres(rule, "template/_act", "", "_act not found")
		return
	}
	// method names the generated actions call on values of term types
	called := map[string]token.Pos{}
	ast.Inspect(fd.Body, func(n ast.Node) bool {
		call, ok := n.(*ast.CallExpr)
		if !ok {
			return true
		}
		sel, ok := call.Fun.(*ast.SelectorExpr)
		if !ok {
			return true
		}
		if s := ti.Info.Selections[sel]; s != nil && s.Kind() == types.MethodVal {
			if nt, ok := s.Recv().(*types.Named); ok && strings.HasPrefix(nt.Obj().Name(), "_Tterm") {
				called[sel.Sel.Name] = call.Pos()
			}
		}
		return true
	})
	if len(called) == 0 {
		c.ok(rule, "template/_act/user-type-methods", "", "the generated actions call no method on values of user types")
		return
	}
	p := c.Prog
	pk := p.Pkg("internal/codegen")
	info := pk.TypesInfo
	for name, pos := range called {
		// a go/types method lookup by that name whose failure leads to a logged error
		found := false
		p.ProdFiles(func(pk2 *packages.Package, f *ast.File) {
			if pk2 != pk {
				return
			}
			for _, d := range f.Decls {
				hd, ok := d.(*ast.FuncDecl)
				if !ok || hd.Body == nil {
					continue
				}
				ast.Inspect(hd.Body, func(n ast.Node) bool {
					call, ok := n.(*ast.CallExpr)
					if !ok {
						return true
					}
					full := fullName(calleeFunc(info, call))
					if full != "go/types.LookupFieldOrMethod" && full != "go/types.MethodSet.Lookup" && full != "go/types.NewMethodSet" {
						return true
					}
					for _, a := range call.Args {
						if s, ok := constString(info, a); ok && s == name {
							// the function doing the lookup must feed a diagnostic: it, or a caller one
							// level up, logs an error under a condition on its result
							if lookupGuardsError(p, pk, hd) {
								found = true
							}
						}
					}
					return true
				})
			}
		})
		c.check(found, rule, "template/_act/user-type-method("+name+")", ti.Pos(pos),
			"the generated actions call "+name+"() on values of a rule's Go type, and the generator looks that method up (go/types) and logs an error when it is missing",
			"the generated actions call "+name+"() on values of a rule's Go type but the generator never checks that the type has such a method: lox succeeds and the generated parser does not compile")
	}
}

// lookupGuardsError: hd itself logs an error, or some function of the package calls hd in a
// condition that guards an ErrLogger call.
func lookupGuardsError(p *Program, pk *packages.Package, hd *ast.FuncDecl) bool {
	info := pk.TypesInfo
	logs := func(n ast.Node) bool {
		return len(findCalls(info, n, true, func(fn *types.Func, _ *ast.CallExpr) bool { return isErrLoggerMethod(fn) })) > 0
	}
	if logs(hd.Body) {
		return true
	}
	hfn, _ := info.Defs[hd.Name].(*types.Func)
	ok := false
	for _, f := range pk.Syntax {
		if isTestFile(p.Fset, f) {
			continue
		}
		ast.Inspect(f, func(n ast.Node) bool {
			ifs, isIf := n.(*ast.IfStmt)
			if !isIf || !logs(ifs.Body) {
				return true
			}
			ast.Inspect(ifs.Cond, func(m ast.Node) bool {
				if call, isCall := m.(*ast.CallExpr); isCall && hfn != nil && calleeFunc(info, call) == hfn {
					ok = true
				}
				return true
			})
			return true
		})
	}
	return ok
}
