package fixture

// positive fixture for LALR-1: the shape of the original lr1.first (pinned tree, before the fix).
type set map[string]bool

func (s set) Has(k string) bool { return s[k] }
func (s set) Add(k string)      { s[k] = true }

type rule struct {
	name  string
	prods [][]*rule
	term  bool
}

func first(visited set, r *rule) []string {
	if r.term {
		return []string{r.name}
	}
	if visited.Has(r.name) {
		return nil
	}
	visited.Add(r.name)
	var out []string
	for _, p := range r.prods {
		if len(p) == 0 {
			out = append(out, "")
			continue
		}
		for _, t := range p {
			tf := first(visited, t)
			eps := false
			for _, x := range tf {
				if x == "" {
					eps = true
				} else {
					out = append(out, x)
				}
			}
			if !eps {
				break
			}
		}
	}
	return out
}
