package main

// C02 — lexer construction shapes and selection mechanisms.

import (
	"fmt"
	"go/ast"
	"go/constant"
	"go/token"
	"go/types"
	"sort"
	"strings"

	"golang.org/x/tools/go/packages"
)

// ---- LEX-1: Thompson shapes ----

type nfaEdge struct {
	from, to string
	eps      bool
	guard    ast.Expr // innermost enclosing if-condition chain inside the arm (nil = unconditional)
	negated  bool
	node     *ast.CallExpr
}

// classifyComposite names the NFAComposite variable v: "outer" (built here), "child" (result of a
// nested NFACons call), with "*" appended when it is defined inside a loop.
func classifyComposite(info *types.Info, fn ast.Node, v types.Object) string {
	kind := ""
	par := parents(fn)
	ast.Inspect(fn, func(n ast.Node) bool {
		as, ok := n.(*ast.AssignStmt)
		if !ok {
			if vs, ok := n.(*ast.ValueSpec); ok {
				for _, nm := range vs.Names {
					if info.Defs[nm] == v && len(vs.Values) == 0 {
						kind = "outer"
					}
				}
			}
			return true
		}
		for i, l := range as.Lhs {
			id, ok := l.(*ast.Ident)
			if !ok || (info.Defs[id] != v && info.Uses[id] != v) || i >= len(as.Rhs) {
				continue
			}
			rhs := ast.Unparen(as.Rhs[i])
			inLoop := false
			for q := par[as]; q != nil; q = par[q] {
				switch q.(type) {
				case *ast.RangeStmt, *ast.ForStmt:
					inLoop = true
				}
			}
			switch x := rhs.(type) {
			case *ast.UnaryExpr:
				if _, ok := x.X.(*ast.CompositeLit); ok {
					kind = "outer"
				}
			case *ast.CompositeLit:
				kind = "outer"
			case *ast.CallExpr:
				if builtinName(info, x) == "new" {
					kind = "outer"
				} else if sel, ok := x.Fun.(*ast.SelectorExpr); ok && sel.Sel.Name == "NFACons" {
					kind = "child"
				} else if f := calleeFunc(info, x); f != nil && f.Name() != "NFACons" && typeIs(info.TypeOf(x), "lexergen/mode", "NFAComposite") {
					// a same-package constructor helper returning a fresh composite
					kind = "outer"
				}
			}
			if inLoop && kind != "" {
				kind += "*"
			}
		}
		return true
	})
	return kind
}

func nfaNodeName(info *types.Info, fn ast.Node, e ast.Expr) string {
	fv, base := selField(info, e)
	if fv == nil || (fv.Name() != "B" && fv.Name() != "E") {
		return "?" + exprString(e)
	}
	root := ast.Unparen(base)
	if ix, ok := root.(*ast.IndexExpr); ok {
		t, k := linearForm(info, nil, ix.Index)
		return "elem[" + linearString(t, k) + "]." + fv.Name()
	}
	if id, ok := root.(*ast.Ident); ok {
		// value variable of `for i, v := range X[k:]` stands for X[i+k]
		var name string
		ast.Inspect(fn, func(n ast.Node) bool {
			rs, ok := n.(*ast.RangeStmt)
			if !ok || rs.Value == nil || usesObj(info, rs.Value) != info.Uses[id] || rs.Key == nil {
				return true
			}
			if sl, ok := ast.Unparen(rs.X).(*ast.SliceExpr); ok && sl.High == nil && sl.Low != nil {
				if k, ok := constInt(info, sl.Low); ok {
					t, c := linearForm(info, nil, rs.Key)
					name = "elem[" + linearString(t, c+k) + "]." + fv.Name()
				}
			}
			return true
		})
		if name != "" {
			return name
		}
	}
	o := usesObj(info, root)
	if o == nil {
		return "?" + exprString(e)
	}
	k := classifyComposite(info, fn, o)
	if k == "" {
		k = "?" + o.Name()
	}
	return k + "." + fv.Name()
}

func collectEdges(info *types.Info, fn ast.Node, root ast.Node) []nfaEdge {
	var out []nfaEdge
	inspectNoLit(root, func(n ast.Node) bool {
		call, ok := n.(*ast.CallExpr)
		if !ok || len(call.Args) != 2 {
			return true
		}
		f := calleeFunc(info, call)
		if f == nil || f.Name() != "AddTransition" || !strings.HasSuffix(fullName(f), "nfa.State.AddTransition") {
			return true
		}
		sel := call.Fun.(*ast.SelectorExpr)
		e := nfaEdge{from: nfaNodeName(info, fn, sel.X), to: nfaNodeName(info, fn, call.Args[0]), node: call}
		if o := usesObj(info, call.Args[1]); o != nil && o.Name() == "Epsilon" && o.Pkg() != nil && strings.HasSuffix(o.Pkg().Path(), "lexergen/nfa") {
			e.eps = true
		}
		out = append(out, e)
		return true
	})
	return out
}

func edgeSet(es []nfaEdge) string {
	var ss []string
	for _, e := range es {
		l := "range"
		if e.eps {
			l = "eps"
		}
		ss = append(ss, e.from+"->"+e.to+":"+l)
	}
	sort.Strings(ss)
	return strings.Join(dedupe(ss), " ")
}

// evalTagCond evaluates a boolean condition over `tag == K` / `tag != K` atoms with tag = val.
func evalTagCond(info *types.Info, cond ast.Expr, tag string, val *types.Const) (bool, bool) {
	cond = ast.Unparen(cond)
	switch x := cond.(type) {
	case *ast.BinaryExpr:
		switch x.Op {
		case token.LAND, token.LOR:
			a, ok1 := evalTagCond(info, x.X, tag, val)
			b, ok2 := evalTagCond(info, x.Y, tag, val)
			if !ok1 || !ok2 {
				return false, false
			}
			if x.Op == token.LAND {
				return a && b, true
			}
			return a || b, true
		case token.EQL, token.NEQ:
			var other ast.Expr
			if exprString(ast.Unparen(x.X)) == tag {
				other = x.Y
			} else if exprString(ast.Unparen(x.Y)) == tag {
				other = x.X
			} else {
				return false, false
			}
			k, ok := usesObj(info, other).(*types.Const)
			if !ok {
				return false, false
			}
			eq := constant.Compare(k.Val(), token.EQL, val.Val())
			if x.Op == token.NEQ {
				return !eq, true
			}
			return eq, true
		}
	case *ast.UnaryExpr:
		if x.Op == token.NOT {
			v, ok := evalTagCond(info, x.X, tag, val)
			return !v, ok
		}
	}
	return false, false
}

var cardShapes = map[string]string{
	"?":  "child.E->outer.E:eps outer.B->child.B:eps outer.B->outer.E:eps",
	"*":  "child.E->child.B:eps child.E->outer.E:eps outer.B->child.B:eps outer.B->outer.E:eps",
	"*?": "child.E->child.B:eps child.E->outer.E:eps outer.B->child.B:eps outer.B->outer.E:eps",
	"+":  "child.E->child.B:eps child.E->outer.E:eps outer.B->child.B:eps",
	"+?": "child.E->child.B:eps child.E->outer.E:eps outer.B->child.B:eps",
}

func ruleLEX1(c *Ctx) {
	const rule = "LEX-1"
	p := c.Prog
	pk := p.Pkg("internal/ast")
	ppk := p.Pkg("internal/parser")
	if pk == nil || ppk == nil {
		c.unres(rule, "internal/ast", "", "package not found")
		return
	}
	info := pk.TypesInfo
	// spelling => Card constant, through parser.on_lexer_card
	spell := tokenSpellings(ppk)
	cardOf := map[string]*types.Const{}
	if _, fd := p.FuncDecl("internal/parser", "parser.on_lexer_card"); fd != nil {
		ast.Inspect(fd.Body, func(n ast.Node) bool {
			cc, ok := n.(*ast.CaseClause)
			if !ok || len(cc.List) != 1 || len(cc.Body) != 1 {
				return true
			}
			if rs, ok := cc.Body[0].(*ast.ReturnStmt); ok && len(rs.Results) == 1 {
				if k, ok := usesObj(ppk.TypesInfo, rs.Results[0]).(*types.Const); ok {
					cardOf[spell[usesObj(ppk.TypesInfo, cc.List[0])]] = k
				}
			}
			return true
		})
	}
	_, fd := p.FuncDecl("internal/ast", "LexerTermCard.NFACons")
	if fd == nil || len(cardOf) < 5 {
		c.unres(rule, "ast.LexerTermCard.NFACons", "", "NFACons or the cardinality mapping of on_lexer_card (%d of 5 operators) not found", len(cardOf))
	} else {
		var sw *ast.SwitchStmt
		ast.Inspect(fd.Body, func(n ast.Node) bool {
			if s, ok := n.(*ast.SwitchStmt); ok && sw == nil && s.Tag != nil && isField(info, s.Tag, "internal/ast", "LexerTermCard", "Card") {
				sw = s
			}
			return true
		})
		if sw == nil {
			c.unres(rule, "ast.LexerTermCard.NFACons/switch", p.Pos(fd.Pos()), "no switch over Card")
		} else {
			tag := exprString(sw.Tag)
			par := parents(fd)
			for sp, want := range cardShapes {
				k := cardOf[sp]
				construct := fmt.Sprintf("ast.LexerTermCard.NFACons/shape('%s')", sp)
				if k == nil {
					c.unres(rule, construct, "", "no Card constant for operator '%s'", sp)
					continue
				}
				var arm *ast.CaseClause
				for _, cl := range sw.Body.List {
					cc := cl.(*ast.CaseClause)
					for _, l := range cc.List {
						if usesObj(info, l) == types.Object(k) {
							arm = cc
						}
					}
				}
				if arm == nil {
					c.bad(rule, construct, p.Pos(sw.Pos()), "no arm builds the automaton for %s", k.Name())
					continue
				}
				var live []nfaEdge
				undecided := ""
				for _, e := range collectEdges(info, fd, arm) {
					include := true
					for q := par[e.node]; q != nil && q != ast.Node(arm); q = par[q] {
						ifs, ok := q.(*ast.IfStmt)
						if !ok {
							continue
						}
						v, ok := evalTagCond(info, ifs.Cond, tag, k)
						if !ok {
							undecided = exprString(ifs.Cond)
							continue
						}
						inBody := containsNode(ifs.Body, e.node)
						if (inBody && !v) || (!inBody && v) {
							include = false
						}
					}
					if include {
						live = append(live, e)
					}
				}
				if undecided != "" {
					c.unres(rule, construct, p.Pos(arm.Pos()), "an edge is added under condition `%s`, which the rule cannot evaluate", undecided)
					continue
				}
				got := edgeSet(live)
				c.check(got == want, rule, construct, p.Pos(arm.Pos()), "Thompson shape for '"+sp+"': "+got,
					fmt.Sprintf("automaton built for '%s' (%s) has edges {%s}; the textbook shape is {%s}", sp, k.Name(), got, want))
			}
			// the plain cardinality passes the child through
			if one := findConstByValue(pk, "Card", 0); one != nil {
				okOne := false
				for _, cl := range sw.Body.List {
					cc := cl.(*ast.CaseClause)
					for _, l := range cc.List {
						if usesObj(info, l) == types.Object(one) && len(cc.Body) == 1 && len(cc.List) == 1 {
							if rs, ok := cc.Body[0].(*ast.ReturnStmt); ok && strings.HasSuffix(exprString(rs.Results[0]), ".NFACons(ctx)") {
								okOne = true
							}
						}
					}
				}
				c.check(okOne, rule, "ast.LexerTermCard.NFACons/shape(one)", p.Pos(sw.Pos()), "no operator: the term's automaton is used as is", "the arm for a term without operator does not return the term's own automaton")
			}
		}
	}
	// alternation
	if _, fd := p.FuncDecl("internal/ast", "LexerExpr.NFACons"); fd != nil {
		got := edgeSet(collectEdges(info, fd, fd.Body))
		want := "child*.E->outer.E:eps outer.B->child*.B:eps"
		c.check(got == want, rule, "ast.LexerExpr.NFACons/alternation", p.Pos(fd.Pos()), "alternation: for every factor f {B->f.B, f.E->E} (eps)", "alternation has edges {"+got+"}; expected {"+want+"}")
	} else {
		c.unres(rule, "ast.LexerExpr.NFACons", "", "function not found")
	}
	// concatenation
	if _, fd := p.FuncDecl("internal/ast", "LexerFactor.NFACons"); fd != nil {
		es := collectEdges(info, fd, fd.Body)
		// one eps edge X[a].E -> X[a+1].B inside a loop whose index covers 0 .. len(X)-2
		okCat := false
		if len(es) == 1 && es[0].eps && strings.HasPrefix(es[0].from, "elem[") && strings.HasPrefix(es[0].to, "elem[") && strings.HasSuffix(es[0].from, "].E") && strings.HasSuffix(es[0].to, "].B") {
			var fa, ta int64
			var fv, tv string
			if _, err := fmt.Sscanf(strings.TrimSuffix(strings.TrimPrefix(es[0].from, "elem["), "].E"), "%s %d", &fv, &fa); err == nil {
				if _, err := fmt.Sscanf(strings.TrimSuffix(strings.TrimPrefix(es[0].to, "elem["), "].B"), "%s %d", &tv, &ta); err == nil {
					okCat = fv == tv && ta == fa+1
				}
			}
			// loop coverage: the index variable's range must make `from` run over 0..len-2
			if okCat {
				okCat = false
				par := parents(fd)
				for q := par[es[0].node]; q != nil; q = par[q] {
					switch lp := q.(type) {
					case *ast.ForStmt:
						// i from (−fa) while i+fa < len-1  <=>  i < len - 1 - fa
						if as, ok := lp.Init.(*ast.AssignStmt); ok && len(as.Rhs) == 1 {
							start, _ := constInt(info, as.Rhs[0])
							if be, ok := lp.Cond.(*ast.BinaryExpr); ok && be.Op == token.LSS {
								t, k := linearForm(info, nil, be.Y)
								lenTerm := ""
								for a, cf := range t {
									if cf == 1 && strings.HasPrefix(a, "len(") {
										lenTerm = a
									}
								}
								if lenTerm != "" && len(t) == 1 && start+fa == 0 && k == -1-fa {
									okCat = true
								}
							}
						}
					case *ast.RangeStmt:
						// for i := range X[1:]  (i = 0..len-2) with from = X[i]
						if sl, ok := ast.Unparen(lp.X).(*ast.SliceExpr); ok && sl.High == nil && sl.Low != nil {
							if k, ok := constInt(info, sl.Low); ok && k == 1 && fa == 0 {
								okCat = true
							}
						}
					}
				}
			}
		}
		okRet := false
		ast.Inspect(fd.Body, func(n ast.Node) bool {
			if rs, ok := n.(*ast.ReturnStmt); ok && len(rs.Results) == 1 {
				if cl := compositeOf(rs.Results[0]); cl != nil {
					b, e := kvOf(cl, "B"), kvOf(cl, "E")
					if b != nil && e != nil {
						bn, en := nfaNodeName(info, fd, b), nfaNodeName(info, fd, e)
						if bn == "elem[ 0].B" && strings.HasPrefix(en, "elem[len(") && strings.HasSuffix(en, ") -1].E") {
							okRet = true
						}
					}
				}
			}
			return true
		})
		c.check(okCat && okRet, rule, "ast.LexerFactor.NFACons/concatenation", p.Pos(fd.Pos()), "concatenation: T[i].E -> T[i+1].B (eps) for all i, result (T[0].B, T[n].E)",
			fmt.Sprintf("concatenation is not the chain T[i].E->T[i+1].B over all i with result (T[0].B, T[n].E) (edges {%s}, chain over all i: %v, result: %v)", edgeSet(es), okCat, okRet))
	} else {
		c.unres(rule, "ast.LexerFactor.NFACons", "", "function not found")
	}
	// literal
	if _, fd := p.FuncDecl("internal/ast", "LexerTermLiteral.NFACons"); fd != nil {
		okLit := false
		ast.Inspect(fd.Body, func(n ast.Node) bool {
			fs, ok := n.(*ast.ForStmt)
			if !ok {
				return true
			}
			var runeVar types.Object
			var edge *ast.CallExpr
			advance := false
			for _, s := range fs.Body.List {
				switch x := s.(type) {
				case *ast.AssignStmt:
					if call, ok := x.Rhs[0].(*ast.CallExpr); ok && fullName(calleeFunc(info, call)) == "unicode/utf8.DecodeRuneInString" {
						runeVar = usesObj(info, x.Lhs[0])
					}
					if edge != nil && len(x.Lhs) == 1 && isField(info, x.Lhs[0], "lexergen/mode", "NFAComposite", "E") && sameExpr(x.Rhs[0], edge.Args[0]) {
						advance = true
					}
				case *ast.ExprStmt:
					if call, ok := x.X.(*ast.CallExpr); ok {
						if f := calleeFunc(info, call); f != nil && f.Name() == "AddTransition" {
							edge = call
						}
					}
				}
			}
			if edge != nil && runeVar != nil && advance {
				if cl, ok := edge.Args[1].(*ast.CompositeLit); ok && typeIs(info.TypeOf(cl), "lexergen/rang3", "Range") && len(cl.Elts) == 2 {
					both := true
					for _, el := range cl.Elts {
						if kv, ok := el.(*ast.KeyValueExpr); !ok || usesObj(info, kv.Value) != runeVar {
							both = false
						}
					}
					sel := edge.Fun.(*ast.SelectorExpr)
					okLit = both && isField(info, sel.X, "lexergen/mode", "NFAComposite", "E")
				}
			}
			return true
		})
		c.check(okLit, rule, "ast.LexerTermLiteral.NFACons/chain", p.Pos(fd.Pos()), "literal: a chain with one Range{r,r} edge per decoded rune, the end state advancing with it",
			"a literal is not built as a chain of single-rune edges (Range{B: r, E: r}) from the current end state")
	} else {
		c.unres(rule, "ast.LexerTermLiteral.NFACons", "", "function not found")
	}
	// class
	if _, fd := p.FuncDecl("internal/ast", "LexerTermCharClass.NFACons"); fd != nil {
		got := edgeSet(collectEdges(info, fd, fd.Body))
		want := "outer*.B->outer*.E:range outer*.E->outer.E:eps outer.B->outer*.B:eps"
		okRanges := false
		ast.Inspect(fd.Body, func(n ast.Node) bool {
			if rs, ok := n.(*ast.RangeStmt); ok {
				if def := resolveLocal(info, fd, rs.X); strings.HasSuffix(exprString(def), ".GetRanges()") {
					okRanges = true
				}
			}
			return true
		})
		c.check(got == want && okRanges, rule, "ast.LexerTermCharClass.NFACons/class", p.Pos(fd.Pos()), "class: for every range r of GetRanges() {B->rB (eps), rB->rE (r), rE->E (eps)}",
			"class automaton has edges {"+got+"}; expected {"+want+"} over all of Expr.GetRanges()")
	} else {
		c.unres(rule, "ast.LexerTermCharClass.NFACons", "", "function not found")
	}
}

func findConstByValue(pk *packages.Package, typeName string, val int64) *types.Const {
	for _, name := range pk.Types.Scope().Names() {
		if k, ok := pk.Types.Scope().Lookup(name).(*types.Const); ok && namedTypeName(k.Type()) == typeName {
			if v, ok := constant.Int64Val(k.Val()); ok && v == val {
				return k
			}
		}
	}
	return nil
}

// ---- LEX-2: earliest rule wins ----

func ruleLEX2(c *Ctx) {
	const rule = "LEX-2"
	p := c.Prog
	pk, fd := p.FuncDecl("internal/lexergen/mode", "ModeBuilder.pickAction")
	if fd == nil {
		c.unres(rule, "mode.ModeBuilder.pickAction", "", "function not found")
		return
	}
	info := pk.TypesInfo
	okMin := false
	var winner types.Object
	ast.Inspect(fd.Body, func(n ast.Node) bool {
		switch x := n.(type) {
		case *ast.IfStmt:
			be, ok := ast.Unparen(x.Cond).(*ast.BinaryExpr)
			if !ok || (be.Op != token.LSS && be.Op != token.GTR) || !isField(info, be.X, "lexergen/mode", "Actions", "Pos") || !isField(info, be.Y, "lexergen/mode", "Actions", "Pos") {
				return true
			}
			lo, hi := be.X.(*ast.SelectorExpr).X, be.Y.(*ast.SelectorExpr).X // lo.Pos < hi.Pos
			if be.Op == token.GTR {
				lo, hi = hi, lo
			}
			for _, s := range x.Body.List {
				if as, ok := s.(*ast.AssignStmt); ok && len(as.Lhs) == 1 && sameExpr(as.Lhs[0], hi) && sameExpr(as.Rhs[0], lo) {
					okMin = true
					winner = usesObj(info, hi)
				}
			}
		case *ast.CallExpr:
			if full := fullName(calleeFunc(info, x)); full == "slices.MinFunc" {
				okMin = true
			}
		}
		return true
	})
	c.check(okMin, rule, "mode.ModeBuilder.pickAction/min-by-position", p.Pos(fd.Pos()),
		"among the accepting rules of a DFA state the one with the smallest source position replaces the current candidate",
		"pickAction does not select the candidate with the smallest Actions.Pos (earliest declared rule)")
	if winner != nil {
		okRet, okAll := false, false
		ast.Inspect(fd.Body, func(n ast.Node) bool {
			if rs, ok := n.(*ast.ReturnStmt); ok && len(rs.Results) == 1 && usesObj(info, rs.Results[0]) == winner {
				okRet = true
			}
			if fs, ok := n.(*ast.ForStmt); ok && fs.Cond != nil && strings.Contains(exprString(fs.Cond), "< len(") && mentionsObj(info, fs.Body, winner) {
				okAll = true
			}
			if rs, ok := n.(*ast.RangeStmt); ok && rs.Body != nil && mentionsObj(info, rs.Body, winner) {
				// over the whole candidate list, or over all but the first (the initial winner)
				okAll = true
				if sl, ok := ast.Unparen(rs.X).(*ast.SliceExpr); ok {
					lo, isC := constInt(info, sl.Low)
					okAll = sl.High == nil && (sl.Low == nil || (isC && lo <= 1))
				}
			}
			return true
		})
		c.check(okRet && okAll, rule, "mode.ModeBuilder.pickAction/returns-min", p.Pos(fd.Pos()), "every candidate is compared and the minimum is returned", "pickAction does not compare every candidate or does not return the minimum")
	}
	// candidates are gathered from all NFA states of the DFA state (in pickAction or a helper)
	okCand := false
	inspectScope(p, pk, fd, 2, func(owner, n ast.Node) bool {
		if rs, ok := n.(*ast.RangeStmt); ok && isField(info, rs.X, "lexergen/dfa", "State", "NFAStates") {
			brk := false
			ast.Inspect(rs.Body, func(m ast.Node) bool {
				if b, ok := m.(*ast.BranchStmt); ok && b.Tok == token.BREAK {
					brk = true
				}
				if _, ok := m.(*ast.ReturnStmt); ok {
					brk = true
				}
				return true
			})
			if !brk {
				okCand = true
			}
		}
		return true
	})
	c.check(okCand, rule, "mode.ModeBuilder.pickAction/all-candidates", p.Pos(fd.Pos()), "the candidates are gathered from all NFA states of the DFA state", "candidate gathering stops early")
	// Pos comes from the rule's own position
	n := 0
	p.ProdFiles(func(pk2 *packages.Package, f *ast.File) {
		for _, d := range f.Decls {
			fd2, ok := d.(*ast.FuncDecl)
			if !ok || fd2.Body == nil {
				continue
			}
			ast.Inspect(fd2.Body, func(m ast.Node) bool {
				cl, ok := m.(*ast.CompositeLit)
				if !ok || !typeIs(pk2.TypesInfo.TypeOf(cl), "lexergen/mode", "Actions") {
					return true
				}
				n++
				okPos := false
				for _, el := range cl.Elts {
					if kv, ok := el.(*ast.KeyValueExpr); ok && exprString(kv.Key) == "Pos" {
						recv := ""
						if fd2.Recv != nil && len(fd2.Recv.List[0].Names) == 1 {
							recv = fd2.Recv.List[0].Names[0].Name
						}
						s := exprString(kv.Value)
						if recv != "" && (s == recv+".Bounds().Begin" || s == recv+".bounds.Begin" || s == "ctx.Position("+recv+")") {
							okPos = true
						}
					}
				}
				c.check(okPos, rule, funcKey(pk2, fd2)+"/Actions.Pos", p.Pos(cl.Pos()), "the rule's action list carries the rule's own begin position", "the action list's Pos is not the begin position of the rule being compiled")
				return true
			})
		}
	})
	if n < 2 {
		c.unres(rule, "mode.Actions-literals", "", "only %d mode.Actions literals found (token and fragment rules expected)", n)
	}
}

// ---- LEX-3: act only when stuck ----

func ruleLEX3(c *Ctx) {
	const rule = "LEX-3"
	ta := c.tmplOrUnres(rule)
	if ta == nil {
		return
	}
	ti := ta.Variants[0]
	r := findLexerReader(ti)
	if r == nil || r.loop == nil {
		c.unres(rule, "template/PushRune", "", "reader not found")
		return
	}
	// the statement guarding the search: if flags & F == 0 { for b < e {...} }
	var search *ast.IfStmt
	ast.Inspect(r.fd.Body, func(n ast.Node) bool {
		ifs, ok := n.(*ast.IfStmt)
		if !ok || search != nil {
			return true
		}
		if be, ok := ast.Unparen(ifs.Cond).(*ast.BinaryExpr); ok && be.Op == token.EQL {
			if and, ok := ast.Unparen(be.X).(*ast.BinaryExpr); ok && and.Op == token.AND {
				search = ifs
			}
		}
		return true
	})
	if search == nil {
		c.bad(rule, "template/PushRune/search-before-actions", ti.Pos(r.fd.Pos()), "no transition search guarded by the non-greedy flag precedes the actions")
		return
	}
	// the search is a loop over the row's transitions that runs until b >= e
	var loop *ast.ForStmt
	ast.Inspect(search.Body, func(n ast.Node) bool {
		if fs, ok := n.(*ast.ForStmt); ok && loop == nil {
			loop = fs
		}
		return true
	})
	okLoop := false
	if loop != nil {
		if be, ok := loop.Cond.(*ast.BinaryExpr); ok && be.Op == token.LSS {
			okLoop = true
		}
		// no break out of the search other than return
		ast.Inspect(loop.Body, func(n ast.Node) bool {
			if b, ok := n.(*ast.BranchStmt); ok && (b.Tok == token.BREAK || b.Tok == token.GOTO) {
				okLoop = false
			}
			return true
		})
	}
	okOrder := search.End() <= r.loop.Pos()
	c.check(okLoop && okOrder, rule, "template/PushRune/search-before-actions", ti.Pos(search.Pos()),
		"the actions of a row run only after the binary search over its transitions was exhausted (or the row is flagged non-greedy): longest match",
		"the action dispatch can be reached before the transition search is exhausted")
	// binary search arithmetic: hi = mid under `r < lower`, lo = mid+1 under `r > upper`
	if loop != nil {
		info := ti.Info
		lcond, _ := loop.Cond.(*ast.BinaryExpr)
		lo, hi := exprString(lcond.X), exprString(lcond.Y)
		runeParam := paramObj(info, r.fd, 0)
		defs := localDefs(info, r.fd.Body)
		par := parents(r.fd)
		// the probe: a local defined as lo + (hi-lo)/2 (or (lo+hi)/2)
		mid := ""
		for o, d := range defs {
			ds := exprString(d)
			if ds == lo+" + ("+hi+" - "+lo+") / 2" || ds == "("+lo+" + "+hi+") / 2" {
				mid = o.Name()
			}
		}
		below := func(e ast.Expr, pos bool) bool { // fact: r < X
			l, op, rr, ok := cmpFact(e, pos)
			if !ok {
				return false
			}
			return (op == token.LSS && usesObj(info, l) == runeParam) || (op == token.GTR && usesObj(info, rr) == runeParam)
		}
		above := func(e ast.Expr, pos bool) bool { // fact: r > X
			l, op, rr, ok := cmpFact(e, pos)
			if !ok {
				return false
			}
			return (op == token.GTR && usesObj(info, l) == runeParam) || (op == token.LSS && usesObj(info, rr) == runeParam)
		}
		okHi, okLo, other := false, false, false
		ast.Inspect(loop.Body, func(n ast.Node) bool {
			as, ok := n.(*ast.AssignStmt)
			if !ok || len(as.Lhs) != 1 || as.Tok != token.ASSIGN {
				return true
			}
			lhs, rhs := exprString(as.Lhs[0]), exprString(as.Rhs[0])
			facts := pathConds(info, par, as)
			switch lhs {
			case hi:
				if rhs == mid && holds(facts, below) {
					okHi = true
				} else {
					other = true
				}
			case lo:
				if rhs == mid+" + 1" && holds(facts, above) {
					okLo = true
				} else {
					other = true
				}
			}
			return true
		})
		c.check(mid != "" && okHi && okLo && !other, rule, "template/PushRune/binary-search-steps", ti.Pos(loop.Pos()),
			"the probe is the midpoint; below the range the upper bound becomes the probe, above it the lower bound becomes probe+1",
			"the binary search does not narrow with hi = mid (rune below the range) / lo = mid+1 (rune above the range)")
	}
}

// ---- LEX-4: universe constants ----

func ruleLEX4(c *Ctx) {
	const rule = "LEX-4"
	p := c.Prog
	k := lookupConst(p, "internal/lexergen/rang3", "MaxRune")
	if k == nil {
		c.unres(rule, "rang3.MaxRune", "", "constant not found")
	} else {
		v, _ := constant.Int64Val(k.Val())
		c.check(v == 0x10FFFF, rule, "rang3.MaxRune", "", "MaxRune = 0x10FFFF = unicode.MaxRune", fmt.Sprintf("MaxRune = %#x, not unicode.MaxRune (0x10FFFF)", v))
	}
	// DOT
	pk, fd := p.FuncDecl("internal/parser", "parser.on_lexer_term__tok")
	if fd == nil {
		c.unres(rule, "parser.on_lexer_term__tok", "", "function not found")
	} else {
		info := pk.TypesInfo
		spell := tokenSpellings(pk)
		okDot := false
		ast.Inspect(fd.Body, func(n ast.Node) bool {
			cc, ok := n.(*ast.CaseClause)
			if !ok || len(cc.List) != 1 || spell[usesObj(info, cc.List[0])] != "." {
				return true
			}
			ast.Inspect(cc, func(m ast.Node) bool {
				cl, ok := m.(*ast.CompositeLit)
				if !ok {
					return true
				}
				var from, to int64 = -1, -1
				for _, el := range cl.Elts {
					if kv, ok := el.(*ast.KeyValueExpr); ok {
						if v, ok := constInt(info, kv.Value); ok {
							switch exprString(kv.Key) {
							case "From":
								from = v
							case "To":
								to = v
							}
						}
					}
				}
				if from == 0 && to == 0x10FFFF {
					okDot = true
				}
				return true
			})
			return true
		})
		c.check(okDot, rule, "parser.on_lexer_term__tok/dot", p.Pos(fd.Pos()), "'.' is the class [U+0000-U+10FFFF]", "'.' is not built as the class {From: 0, To: 0x10FFFF}")
	}
	// negation
	pk2, gr := p.FuncDecl("internal/ast", "CharClass.GetRanges")
	if gr == nil {
		c.unres(rule, "ast.CharClass.GetRanges", "", "function not found")
	} else {
		info := pk2.TypesInfo
		okNeg := false
		ast.Inspect(gr.Body, func(n ast.Node) bool {
			call, ok := n.(*ast.CallExpr)
			if !ok || fullName(calleeFunc(info, call)) != modPath+"/internal/lexergen/rang3.Subtract" || len(call.Args) != 2 {
				return true
			}
			if cl, ok := call.Args[0].(*ast.CompositeLit); ok && len(cl.Elts) == 1 {
				if inner, ok := cl.Elts[0].(*ast.CompositeLit); ok && len(inner.Elts) == 2 {
					b, e := kvOf(inner, "B"), kvOf(inner, "E")
					if b == nil || e == nil {
						b, e = inner.Elts[0], inner.Elts[1]
					}
					bv, bok := constInt(info, b)
					ev, eok := constInt(info, e)
					if bok && eok && bv == 0 && ev == 0x10FFFF && strings.Contains(exprString(e), "MaxRune") {
						okNeg = true
					}
				}
			}
			return true
		})
		c.check(okNeg, rule, "ast.CharClass.GetRanges/negation", p.Pos(gr.Pos()), "negation = [0, MaxRune] minus the set", "negation does not subtract the set from exactly [0, rang3.MaxRune]")
	}
}

// ---- LEX-5: pipeline skeleton ----

func ruleLEX5(c *Ctx) {
	const rule = "LEX-5"
	p := c.Prog
	pk, fd := p.FuncDecl("internal/lexergen/mode", "ModeBuilder.Build")
	if fd == nil {
		c.unres(rule, "mode.ModeBuilder.Build", "", "function not found")
		return
	}
	info := pk.TypesInfo
	g := p.CFG(pk, fd)
	find := func(name string) *ast.CallExpr {
		cs := findCalls(info, fd.Body, false, func(fn *types.Func, _ *ast.CallExpr) bool { return fn != nil && fn.Name() == name })
		if len(cs) == 1 {
			return cs[0]
		}
		return nil
	}
	ni, nd, mt, pa := find("normalizeInputs"), find("NFAToDFA"), find("mergeTransitions"), find("pickAction")
	if ni == nil || nd == nil || mt == nil || pa == nil {
		c.unres(rule, "mode.ModeBuilder.Build/pipeline", p.Pos(fd.Pos()), "normalizeInputs / NFAToDFA / mergeTransitions / pickAction are not each called exactly once in Build")
		return
	}
	before := func(a, b *ast.CallExpr) bool {
		return mustPassBefore(g, b, func(n ast.Node) bool { return containsNode(n, a) })
	}
	c.check(before(ni, nd) && before(nd, mt) && before(mt, pa), rule, "mode.ModeBuilder.Build/pipeline", p.Pos(fd.Pos()),
		"normalizeInputs(start) -> NFAToDFA(start) -> mergeTransitions(d) -> pickAction for the states of d, on every path",
		"the stages of Build are not executed in the order normalizeInputs, NFAToDFA, mergeTransitions, pickAction")
	sameStart := len(ni.Args) == 1 && len(nd.Args) == 1 && sameExpr(ni.Args[0], nd.Args[0])
	sameDFA := false
	if as, ok := parents(fd)[nd].(*ast.AssignStmt); ok && len(mt.Args) == 1 {
		sameDFA = sameExpr(as.Lhs[0], mt.Args[0])
	}
	c.check(sameStart && sameDFA, rule, "mode.ModeBuilder.Build/dataflow", p.Pos(fd.Pos()), "the same start state is normalised and determinised; the resulting DFA is the one merged", "the stages of Build do not operate on the same automaton")
	// every rule is reachable from the start state; pickAction covers every state
	okRules, okStates := false, false
	ast.Inspect(fd.Body, func(n ast.Node) bool {
		rs, ok := n.(*ast.RangeStmt)
		if !ok {
			return true
		}
		if isField(info, rs.X, "lexergen/mode", "ModeBuilder", "Rules") {
			es := collectEdges(info, fd, rs.Body)
			if len(es) == 1 && es[0].eps && strings.HasSuffix(es[0].to, ".B") && sameExpr(es[0].node.Fun.(*ast.SelectorExpr).X, ni.Args[0]) {
				okRules = true
			}
		}
		if isField(info, rs.X, "lexergen/dfa", "DFA", "States") && containsNode(rs.Body, pa) {
			okStates = true
		}
		return true
	})
	c.check(okRules, rule, "mode.ModeBuilder.Build/all-rules", p.Pos(fd.Pos()), "the start state gets an eps edge to the beginning of every rule", "not every rule's automaton is attached to the start state by an eps edge")
	c.check(okStates, rule, "mode.ModeBuilder.Build/all-states", p.Pos(fd.Pos()), "pickAction is applied to every state of the DFA", "pickAction is not applied to every DFA state")

	// NFAToDFA
	pk2, nf := p.FuncDecl("internal/lexergen/dfa", "NFAToDFA")
	if nf == nil {
		c.unres(rule, "dfa.NFAToDFA", "", "function not found")
		return
	}
	info2 := pk2.TypesInfo
	okSubset, okClosure, okSig := false, false, false
	inspectScope(p, pk2, nf, 2, func(owner, n ast.Node) bool {
		if owner != ast.Node(nf) {
			// helpers: only the gathering loop is looked for there
			if x, ok := n.(*ast.RangeStmt); ok && isSliceOf(info2.TypeOf(x.X), "lexergen/nfa", "State") {
				early := false
				ast.Inspect(x.Body, func(m ast.Node) bool {
					switch b := m.(type) {
					case *ast.BranchStmt:
						if b.Tok == token.BREAK {
							early = true
						}
					case *ast.ReturnStmt:
						early = true
					}
					return true
				})
				adds := len(findCalls(info2, x.Body, false, func(fn *types.Func, _ *ast.CallExpr) bool { return fn != nil && fn.Name() == "Add" })) > 0
				if adds && !early {
					okSubset = true
				}
			}
			return true
		}
		switch x := n.(type) {
		case *ast.RangeStmt:
			if isField(info2, x.X, "lexergen/dfa", "State", "NFAStates") {
				early := false
				ast.Inspect(x.Body, func(m ast.Node) bool {
					switch b := m.(type) {
					case *ast.BranchStmt:
						if b.Tok == token.BREAK {
							early = true
						}
					case *ast.ReturnStmt:
						early = true
					}
					return true
				})
				adds := len(findCalls(info2, x.Body, false, func(fn *types.Func, _ *ast.CallExpr) bool { return fn != nil && fn.Name() == "Add" })) > 0
				if adds && !early {
					okSubset = true
				}
			}
		case *ast.CallExpr:
			if fn := calleeFunc(info2, x); fn != nil && fn.Name() == "eClosure" {
				okClosure = true
			}
			if fn := calleeFunc(info2, x); fn != nil && fn.Name() == "sig" {
				okSig = true
			}
		}
		return true
	})
	c.check(okSubset && okClosure && okSig, rule, "dfa.NFAToDFA/subset-step", p.Pos(nf.Pos()),
		"the target of an input is gathered from all NFA states of the source (no early exit), closed under eps, and identified by its signature",
		fmt.Sprintf("subset construction step is incomplete (all sources: %v, eps-closure: %v, identified by sig(): %v)", okSubset, okClosure, okSig))
	// eClosure sorts NFAStates before sig() can read them; sig reads every ID
	_, ec := p.FuncDecl("internal/lexergen/dfa", "eClosure")
	_, sg := p.FuncDecl("internal/lexergen/dfa", "State.sig")
	okSort, okSigAll := false, false
	if ec != nil {
		ast.Inspect(ec.Body, func(n ast.Node) bool {
			if call, ok := n.(*ast.CallExpr); ok && sortFuncs[fullName(calleeFunc(info2, call))] && len(call.Args) > 0 && isField(info2, call.Args[0], "lexergen/dfa", "State", "NFAStates") {
				okSort = true
			}
			return true
		})
	}
	if sg != nil {
		ast.Inspect(sg.Body, func(n ast.Node) bool {
			if rs, ok := n.(*ast.RangeStmt); ok && isField(info2, rs.X, "lexergen/dfa", "State", "NFAStates") {
				uses := false
				ast.Inspect(rs.Body, func(m ast.Node) bool {
					if isFieldNode(info2, m, "lexergen/nfa", "State", "ID") {
						uses = true
					}
					if _, ok := m.(*ast.BranchStmt); ok {
						uses = false
					}
					return true
				})
				okSigAll = uses
			}
			return true
		})
	}
	c.check(okSort && okSigAll, rule, "dfa.State.sig/canonical", "", "the signature encodes the IDs of all NFA states, which eClosure has sorted", "the DFA state signature is not the sorted list of all NFA state IDs")
	// getInputs skips exactly epsilon
	_, gi := p.FuncDecl("internal/lexergen/dfa", "getInputs")
	okEps := false
	if gi != nil {
		ast.Inspect(gi, func(n ast.Node) bool {
			if ifs, ok := n.(*ast.IfStmt); ok {
				if be, ok := ifs.Cond.(*ast.BinaryExpr); ok && be.Op == token.NEQ && strings.HasSuffix(exprString(be.Y), "Epsilon") && len(ifs.Body.List) == 1 && ifs.Else == nil {
					okEps = true
				}
			}
			return true
		})
	}
	c.check(okEps, rule, "dfa.getInputs/skips-epsilon-only", "", "every non-eps input of the source states is considered", "getInputs does not consider exactly the non-eps inputs")
}

func isFieldNode(info *types.Info, n ast.Node, pkg, typ, field string) bool {
	e, ok := n.(ast.Expr)
	return ok && isField(info, e, pkg, typ, field)
}

// ---- LEX-6: accepting rules are kept apart ----

func ruleLEX6(c *Ctx) {
	const rule = "LEX-6"
	p := c.Prog
	pk, fd := p.FuncDecl("internal/lexergen/dfa", "optimize")
	_, sp := p.FuncDecl("internal/lexergen/dfa", "subPartition")
	if fd == nil || sp == nil {
		c.unres(rule, "dfa.optimize", "", "optimize/subPartition not found")
		return
	}
	info := pk.TypesInfo
	// initial partition by Accept
	okInit := false
	ast.Inspect(fd.Body, func(n ast.Node) bool {
		if ifs, ok := n.(*ast.IfStmt); ok && isField(info, ifs.Cond, "lexergen/dfa", "State", "Accept") && ifs.Else != nil {
			a := findCalls(info, ifs.Body, false, func(fn *types.Func, _ *ast.CallExpr) bool { return fn != nil && fn.Name() == "Add" })
			b := findCalls(info, ifs.Else, false, func(fn *types.Func, _ *ast.CallExpr) bool { return fn != nil && fn.Name() == "Add" })
			if len(a) == 1 && len(b) == 1 && len(a[0].Args) == 2 && len(b[0].Args) == 2 && exprString(a[0].Args[1]) != exprString(b[0].Args[1]) {
				okInit = true
			}
		}
		return true
	})
	c.check(okInit, rule, "dfa.optimize/initial-partition", p.Pos(fd.Pos()), "accepting and non-accepting states start in different groups", "the initial partition does not separate accepting from non-accepting states")
	// refinement until stable
	okFix := false
	ast.Inspect(fd.Body, func(n ast.Node) bool {
		if fs, ok := n.(*ast.ForStmt); ok && fs.Cond != nil {
			if be, ok := fs.Cond.(*ast.BinaryExpr); ok && be.Op == token.NEQ && strings.HasSuffix(exprString(be.Y), ".Count()") {
				if len(findCalls(info, fs.Body, false, func(fn *types.Func, _ *ast.CallExpr) bool { return fn != nil && fn.Name() == "subPartition" })) == 1 {
					okFix = true
				}
			}
		}
		return true
	})
	c.check(okFix, rule, "dfa.optimize/until-stable", p.Pos(fd.Pos()), "groups are split until their number no longer changes", "refinement is not repeated until the number of groups is stable")
	// subPartition: transition-group difference and accepting-NFA-state difference both move the state
	okTrans, okAcc := false, false
	ast.Inspect(sp.Body, func(n ast.Node) bool {
		ifs, ok := n.(*ast.IfStmt)
		if !ok {
			return true
		}
		moves := len(findCalls(info, ifs.Body, false, func(fn *types.Func, call *ast.CallExpr) bool {
			sel, ok := call.Fun.(*ast.SelectorExpr)
			return ok && sel.Sel.Name == "Add" && exprString(sel.X) == "move"
		})) > 0
		if !moves {
			return true
		}
		cs := exprString(ifs.Cond)
		if be, ok := ifs.Cond.(*ast.BinaryExpr); ok && be.Op == token.NEQ {
			l, r := resolveLocalFn(info, sp, be.X), resolveLocalFn(info, sp, be.Y)
			if strings.HasPrefix(exprString(l), "transitionGroup(") && strings.HasPrefix(exprString(r), "transitionGroup(") {
				okTrans = true
			}
		}
		if strings.Contains(cs, "acceptingNFAStates(") && strings.Contains(cs, ".Equal(") && strings.HasPrefix(cs, "!") {
			okAcc = true
		}
		return true
	})
	c.check(okTrans, rule, "dfa.subPartition/transition-difference", p.Pos(sp.Pos()), "a state whose transition on some input leads to another group than the representative's is split off", "states with transitions into different groups are not split")
	c.check(okAcc, rule, "dfa.subPartition/accepting-rule-difference", p.Pos(sp.Pos()), "accepting states whose accepting NFA states differ (different rules) are split off", "accepting states of different rules can be merged: the wrong rule's actions would run")
	// inputs cover both states
	okInputs := false
	ast.Inspect(sp.Body, func(n ast.Node) bool {
		if call, ok := n.(*ast.CallExpr); ok {
			if sel, ok := call.Fun.(*ast.SelectorExpr); ok && sel.Sel.Name == "ForEach" && exprString(sel.X) == "states" {
				if len(findCalls(info, call, true, func(fn *types.Func, c2 *ast.CallExpr) bool {
					s2, ok := c2.Fun.(*ast.SelectorExpr)
					return ok && s2.Sel.Name == "Add" && exprString(s2.X) == "inputs"
				})) > 0 {
					okInputs = true
				}
			}
		}
		return true
	})
	c.check(okInputs, rule, "dfa.subPartition/inputs-of-all-states", p.Pos(sp.Pos()), "the inputs compared are those of every state of the group", "the inputs compared do not cover every state of the group")
}

func resolveLocalFn(info *types.Info, fd *ast.FuncDecl, e ast.Expr) ast.Expr {
	return resolveLocalIn(info, fd, e)
}

func compositeOf(e ast.Expr) *ast.CompositeLit {
	e = ast.Unparen(e)
	if u, ok := e.(*ast.UnaryExpr); ok {
		e = u.X
	}
	cl, _ := e.(*ast.CompositeLit)
	return cl
}

func kvOf(cl *ast.CompositeLit, key string) ast.Expr {
	for _, el := range cl.Elts {
		if kv, ok := el.(*ast.KeyValueExpr); ok && exprString(kv.Key) == key {
			return kv.Value
		}
	}
	return nil
}

// ---- LEX-7: interval splitting / merging keeps every piece ----

func ruleLEX7(c *Ctx) {
	const rule = "LEX-7"
	p := c.Prog
	pk, fd := p.FuncDecl("internal/lexergen/rang3", "Normalize")
	if fd == nil {
		c.unres(rule, "rang3.Normalize", "", "function not found")
		return
	}
	info := pk.TypesInfo
	nCases := 0
	ast.Inspect(fd.Body, func(n ast.Node) bool {
		cc, ok := n.(*ast.CaseClause)
		if !ok || cc.List == nil {
			return true
		}
		// pieces declared in this case
		var pieces []types.Object
		for _, s := range cc.Body {
			if as, ok := s.(*ast.AssignStmt); ok && as.Tok == token.DEFINE && len(as.Lhs) == 1 {
				if cl, ok := as.Rhs[0].(*ast.CompositeLit); ok && typeIs(info.TypeOf(cl), "lexergen/rang3", "Range") {
					pieces = append(pieces, info.Defs[as.Lhs[0].(*ast.Ident)])
				}
			}
		}
		if len(pieces) == 0 {
			return true
		}
		nCases++
		pushed := map[types.Object]bool{}
		for _, s := range cc.Body {
			ast.Inspect(s, func(m ast.Node) bool {
				if call, ok := m.(*ast.CallExpr); ok && len(call.Args) == 1 {
					if sel, ok := call.Fun.(*ast.SelectorExpr); ok && sel.Sel.Name == "Push" {
						pushed[usesObj(info, call.Args[0])] = true
					}
				}
				return true
			})
		}
		var missing []string
		for _, pc := range pieces {
			if !pushed[pc] {
				missing = append(missing, pc.Name())
			}
		}
		construct := "rang3.Normalize/case(" + truncate(exprString(cc.List[0]), 40) + ")"
		c.check(len(missing) == 0, rule, construct, p.Pos(cc.Pos()), fmt.Sprintf("all %d pieces produced by the split are put back on the heap", len(pieces)),
			fmt.Sprintf("piece(s) %v produced by the split are not put back on the heap: a later range overlapping them is never split against them and overlapping transitions reach the DFA", missing))
		return true
	})
	if nCases < 4 {
		c.unres(rule, "rang3.Normalize/cases", "", "only %d splitting cases found; the four geometric cases were confirmed by hand", nCases)
	}
	// Flatten: a merged range ends at the larger of the two ends
	pk2, fl := p.FuncDecl("internal/lexergen/rang3", "Flatten")
	if fl == nil {
		c.unres(rule, "rang3.Flatten", "", "function not found")
		return
	}
	info2 := pk2.TypesInfo
	okMax := false
	found := false
	fpar := parents(fl)
	ast.Inspect(fl.Body, func(n ast.Node) bool {
		cl, ok := n.(*ast.CompositeLit)
		if !ok || !typeIs(info2.TypeOf(cl), "lexergen/rang3", "Range") {
			return true
		}
		// built where the two ranges are known to touch
		touching := holds(pathConds(info2, fpar, cl), func(e ast.Expr, pos bool) bool {
			call, ok := ast.Unparen(e).(*ast.CallExpr)
			if !ok || !pos {
				return false
			}
			sel, ok := call.Fun.(*ast.SelectorExpr)
			return ok && sel.Sel.Name == "Touches"
		})
		if !touching {
			return true
		}
		found = true
		e := kvOf(cl, "E")
		if e == nil && len(cl.Elts) == 2 {
			e = cl.Elts[1]
		}
		if call, ok := e.(*ast.CallExpr); ok && len(call.Args) == 2 && isMaxFunc(p, pk2, fl, call) {
			a, b := exprString(call.Args[0]), exprString(call.Args[1])
			if strings.HasSuffix(a, ".E") && strings.HasSuffix(b, ".E") && a != b {
				okMax = true
			}
		}
		return true
	})
	if !found {
		c.unres(rule, "rang3.Flatten/merge", p.Pos(fl.Pos()), "the merge of touching ranges was not found")
		return
	}
	c.check(okMax, rule, "rang3.Flatten/merge", p.Pos(fl.Pos()), "two touching ranges merge into one ending at the larger end (the input is sorted by lower bound only)",
		"a merged range does not end at max(tip.E, r.E): a range nested inside the previous one shrinks it and code points are lost")
}

// ---- LEX-8: splitting a range keeps every owner of every piece ----

func ruleLEX8(c *Ctx) {
	const rule = "LEX-8"
	p := c.Prog
	pk, fd := p.FuncDecl("internal/lexergen/mode", "normalizeInputs")
	if fd == nil {
		c.unres(rule, "mode.normalizeInputs", "", "function not found")
		return
	}
	info := pk.TypesInfo
	// the callback handed to rang3.Normalize
	var cb *ast.FuncLit
	ast.Inspect(fd.Body, func(n ast.Node) bool {
		if call, ok := n.(*ast.CallExpr); ok && fullName(calleeFunc(info, call)) == modPath+"/internal/lexergen/rang3.Normalize" && len(call.Args) == 2 {
			cb, _ = call.Args[1].(*ast.FuncLit)
		}
		return true
	})
	if cb == nil {
		c.unres(rule, "mode.normalizeInputs/callback", p.Pos(fd.Pos()), "the split callback was not found")
		return
	}
	n, bad := 0, ""
	ast.Inspect(cb.Body, func(m ast.Node) bool {
		as, ok := m.(*ast.AssignStmt)
		if !ok || len(as.Lhs) != 1 {
			return true
		}
		ix, ok := as.Lhs[0].(*ast.IndexExpr)
		if !ok {
			return true
		}
		if _, isMap := info.TypeOf(ix.X).Underlying().(*types.Map); !isMap {
			return true
		}
		n++
		call, ok := as.Rhs[0].(*ast.CallExpr)
		if !ok || builtinName(info, call) != "append" || !sameExpr(call.Args[0], as.Lhs[0]) {
			bad = fmt.Sprintf("%s: `%s` overwrites the owners of a piece instead of appending to them: NFA states that already own an identical range lose their transition", p.Pos(as.Pos()), nodeText(as))
		}
		return true
	})
	c.check(bad == "" && n >= 3, rule, "mode.normalizeInputs/callback/owners-accumulate", p.Pos(cb.Pos()),
		fmt.Sprintf("all %d updates of the range->owners map append to the existing owners", n), bad)
	// every owner's transition on the original range is replaced by transitions on all pieces
	adds := findCalls(info, cb.Body, false, func(fn *types.Func, _ *ast.CallExpr) bool { return fn != nil && fn.Name() == "AddTransition" })
	rem := findCalls(info, cb.Body, false, func(fn *types.Func, _ *ast.CallExpr) bool { return fn != nil && fn.Name() == "Remove" })
	c.check(len(adds) == 3 && len(rem) >= 1, rule, "mode.normalizeInputs/callback/relabel", p.Pos(cb.Pos()),
		"the original transition is removed and re-added on each of the (up to three) pieces", fmt.Sprintf("the callback re-adds %d transitions and removes %d", len(adds), len(rem)))
}

// linearString renders a linear form deterministically: "<atom> <const>" for a single atom with
// coefficient 1 (the only shape element indices take), else a sorted sum.
func linearString(t map[string]int64, k int64) string {
	if len(t) == 0 {
		return fmt.Sprintf(" %d", k)
	}
	var atoms []string
	for a := range t {
		atoms = append(atoms, a)
	}
	sort.Strings(atoms)
	if len(atoms) == 1 && t[atoms[0]] == 1 {
		return fmt.Sprintf("%s %d", strings.ReplaceAll(atoms[0], " ", ""), k)
	}
	var parts []string
	for _, a := range atoms {
		parts = append(parts, fmt.Sprintf("%d*%s", t[a], strings.ReplaceAll(a, " ", "")))
	}
	return strings.Join(parts, "+") + fmt.Sprintf(" %d", k)
}

// isMaxFunc: the callee returns the larger of its two arguments (builtin max, a local closure or a
// package function of the shape `if a > b { return a }; return b`).
func isMaxFunc(p *Program, pk *packages.Package, scope ast.Node, call *ast.CallExpr) bool {
	info := pk.TypesInfo
	if builtinName(info, call) == "max" {
		return true
	}
	var ftype *ast.FuncType
	var body *ast.BlockStmt
	if fn := calleeFunc(info, call); fn != nil {
		if fd := p.funcDecls[fn.Origin()]; fd != nil {
			ftype, body = fd.Type, fd.Body
		}
	} else if id, ok := call.Fun.(*ast.Ident); ok {
		// local closure variable
		obj := info.Uses[id]
		ast.Inspect(scope, func(n ast.Node) bool {
			as, ok := n.(*ast.AssignStmt)
			if !ok || len(as.Lhs) != 1 || usesObj(info, as.Lhs[0]) != obj {
				return true
			}
			if fl, ok := as.Rhs[0].(*ast.FuncLit); ok {
				ftype, body = fl.Type, fl.Body
			}
			return true
		})
	}
	if ftype == nil || body == nil {
		return false
	}
	var ps []string
	for _, fld := range ftype.Params.List {
		for _, nm := range fld.Names {
			ps = append(ps, nm.Name)
		}
	}
	if len(ps) != 2 {
		return false
	}
	a, b := ps[0], ps[1]
	// find `if a OP b { return X } ... return Y`
	var cond *ast.BinaryExpr
	var thenRet, elseRet string
	for i, st := range body.List {
		ifs, ok := st.(*ast.IfStmt)
		if !ok {
			continue
		}
		be, ok := ifs.Cond.(*ast.BinaryExpr)
		if !ok || len(ifs.Body.List) != 1 {
			continue
		}
		r1, ok := ifs.Body.List[0].(*ast.ReturnStmt)
		if !ok || len(r1.Results) != 1 {
			continue
		}
		cond, thenRet = be, exprString(r1.Results[0])
		if blk, ok := ifs.Else.(*ast.BlockStmt); ok && len(blk.List) == 1 {
			if r2, ok := blk.List[0].(*ast.ReturnStmt); ok && len(r2.Results) == 1 {
				elseRet = exprString(r2.Results[0])
			}
		} else if i+1 < len(body.List) {
			if r2, ok := body.List[i+1].(*ast.ReturnStmt); ok && len(r2.Results) == 1 {
				elseRet = exprString(r2.Results[0])
			}
		}
	}
	if cond == nil {
		return false
	}
	l, r := exprString(cond.X), exprString(cond.Y)
	switch cond.Op {
	case token.GTR, token.GEQ: // l > r => then must return l, else r
		return ((l == a && r == b) || (l == b && r == a)) && thenRet == l && elseRet == r
	case token.LSS, token.LEQ: // l < r => then must return r
		return ((l == a && r == b) || (l == b && r == a)) && thenRet == r && elseRet == l
	}
	return false
}
