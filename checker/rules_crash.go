package main

// C12 — families of crash / silent-failure that are visible in code shape.

import (
	"fmt"
	"go/ast"
	"go/constant"
	"go/token"
	"go/types"
	"sort"
	"strings"

	"golang.org/x/tools/go/packages"
)

func isPanicCall(info *types.Info, call *ast.CallExpr) bool {
	if builtinName(info, call) == "panic" {
		return true
	}
	fn := calleeFunc(info, call)
	return fn != nil && fullName(fn) == modPath+"/internal/base/assert.Unreachable"
}

func clauseHasPanic(info *types.Info, body []ast.Stmt) bool {
	for _, s := range body {
		if es, ok := s.(*ast.ExprStmt); ok {
			if call, ok := es.X.(*ast.CallExpr); ok && isPanicCall(info, call) {
				return true
			}
		}
	}
	return false
}

// ---- CRASH-1: panics in the front end's action methods whose condition depends on input ----

func ruleCRASH1(c *Ctx) {
	const rule = "CRASH-1"
	p := c.Prog
	pk := p.Pkg("internal/parser")
	if pk == nil {
		c.unres(rule, "internal/parser", "", "package not found")
		return
	}
	info := pk.TypesInfo
	n := 0
	for _, f := range pk.Syntax {
		if isGenFile(p, f) || isTestFile(p.Fset, f) {
			continue
		}
		for _, d := range f.Decls {
			fd, ok := d.(*ast.FuncDecl)
			if !ok || fd.Body == nil {
				continue
			}
			par := parents(fd)
			tableProg, tablePkg = p, pk
			ast.Inspect(fd.Body, func(m ast.Node) bool {
				call, ok := m.(*ast.CallExpr)
				if !ok || !(isPanicCall(info, call) || isAssertFunc(calleeFunc(info, call))) {
					return true
				}
				n++
				construct := fmt.Sprintf("%s/panic#%s", funcKey(pk, fd), truncate(exprString(call), 30))
				// (a) reached only when a token's Type is none of a list of constants (default arm of a
				// switch over it, or the end of an if-chain): exhaustiveness is CRASH-3's obligation
				if tok, handled := tokenExclusion(info, par, call); tok != nil && len(handled) > 0 {
					c.ok(rule, construct, p.Pos(call.Pos()), "reached only for a token type outside %v (exhaustiveness decided by CRASH-3)", sortedStrings(keysOfS(handled)))
					return true
				}
				for q := par[call]; q != nil; q = par[q] {
					cc, isCC := q.(*ast.CaseClause)
					if !isCC {
						continue
					}
					sw, _ := par[par[cc]].(*ast.SwitchStmt)
					if sw == nil || sw.Tag == nil {
						break
					}
					if cc.List == nil && strings.HasSuffix(exprString(sw.Tag), ".Type") && typeIs(pk.TypesInfo.TypeOf(sw.Tag.(*ast.SelectorExpr).X), "simplelexer", "Token") {
						c.ok(rule, construct, p.Pos(call.Pos()), "default arm of a switch over a token type (exhaustiveness decided by CRASH-3)")
						return true
					}
					if cc.List == nil {
						if named, ok := types.Unalias(info.TypeOf(sw.Tag)).(*types.Named); ok && named.Obj().Pkg() != nil && strings.HasPrefix(named.Obj().Pkg().Path(), modPath) {
							c.ok(rule, construct, p.Pos(call.Pos()), "default arm of a switch over the closed enum %s (exhaustiveness decided by CRASH-4)", named.Obj().Name())
							return true
						}
					}
					if cc.List == nil && isEscapeSwitch(info, sw) {
						c.ok(rule, construct, p.Pos(call.Pos()), "default arm of the escape-letter switch (admitted letters decided by CRASH-3 against the lexer tables)")
						return true
					}
					break
				}
				// (b) error of a bounded numeric conversion
				for q := par[call]; q != nil; q = par[q] {
					ifs, isIf := q.(*ast.IfStmt)
					if !isIf || !containsNode(ifs.Body, call) {
						continue
					}
					if why := boundedConversion(c, pk, fd, ifs); why != "" {
						c.ok(rule, construct, p.Pos(call.Pos()), "%s", why)
						return true
					}
					c.bad(rule, construct, p.Pos(call.Pos()), "panic under `%s`: the condition depends on text of the grammar file that the lexer does not bound; any .lox file can make lox crash instead of printing a diagnostic", exprString(ifs.Cond))
					return true
				}
				c.bad(rule, construct, p.Pos(call.Pos()), "unconditional or unclassified panic in a front-end action")
				return true
			})
		}
	}
	if n < 6 {
		c.unres(rule, "internal/parser/panics", "", "only %d panic sites found in the front end; 8 were confirmed by hand", n)
	}
}

func isEscapeSwitch(info *types.Info, sw *ast.SwitchStmt) bool {
	return isEscapeSwitchIn(info, nil, sw)
}

// isEscapeSwitchIn: switch lit[i+1] { case 'n': ... }, the tag possibly held in a local.
func isEscapeSwitchIn(info *types.Info, scope ast.Node, sw *ast.SwitchStmt) bool {
	tag := ast.Unparen(sw.Tag)
	if id, ok := tag.(*ast.Ident); ok {
		// find the enclosing function to resolve the local
		if scope != nil {
			tag = resolveVia(info, localDefs(info, scope), id)
		} else if info.Uses[id] != nil {
			// byte-typed local compared with character constants: accept when every label is a
			// character constant
			all := len(sw.Body.List) > 0
			for _, cl := range sw.Body.List {
				for _, l := range cl.(*ast.CaseClause).List {
					if bl, ok := ast.Unparen(l).(*ast.BasicLit); !ok || bl.Kind != token.CHAR {
						all = false
					}
				}
			}
			return all
		}
	}
	ix, ok := tag.(*ast.IndexExpr)
	if !ok {
		return false
	}
	_, _, ok = addConst(info, ix.Index)
	return ok
}

// boundedConversion: `if err != nil { panic }` where err comes from strconv.ParseUint(s, 16, bits)
// and every caller passes at most `digits` hex digits with 4*digits <= bits.
func boundedConversion(c *Ctx, pk *packages.Package, fd *ast.FuncDecl, ifs *ast.IfStmt) string {
	info := pk.TypesInfo
	be, ok := ifs.Cond.(*ast.BinaryExpr)
	if !ok || be.Op != token.NEQ || exprString(be.Y) != "nil" {
		return ""
	}
	errObj := usesObj(info, be.X)
	var conv *ast.CallExpr
	ast.Inspect(fd.Body, func(n ast.Node) bool {
		as, ok := n.(*ast.AssignStmt)
		if !ok || len(as.Lhs) != 2 || len(as.Rhs) != 1 || usesObj(info, as.Lhs[1]) != errObj {
			return true
		}
		conv, _ = as.Rhs[0].(*ast.CallExpr)
		return true
	})
	if conv == nil || len(conv.Args) != 3 {
		return ""
	}
	full := fullName(calleeFunc(info, conv))
	base, ok1 := constInt(info, conv.Args[1])
	bits, ok2 := constInt(info, conv.Args[2])
	if !ok1 || !ok2 || base != 16 || (full != "strconv.ParseUint" && full != "strconv.ParseInt") {
		return ""
	}
	avail := bits
	if full == "strconv.ParseInt" {
		avail = bits - 1
	}
	// callers: slices lit[i+a : i+b] of width b-a
	fnObj, _ := info.Defs[fd.Name].(*types.Func)
	maxDigits := int64(0)
	sites := 0
	okAll := true
	for _, f := range pk.Syntax {
		ast.Inspect(f, func(n ast.Node) bool {
			call, ok := n.(*ast.CallExpr)
			if !ok || calleeFunc(info, call) != fnObj || len(call.Args) != 1 {
				return true
			}
			sites++
			arg := stripConv(info, call.Args[0])
			sl, ok := arg.(*ast.SliceExpr)
			if !ok || sl.Low == nil || sl.High == nil {
				okAll = false
				return true
			}
			w, ok := constWidth(info, f, sl)
			if !ok {
				okAll = false
				return true
			}
			if w > maxDigits {
				maxDigits = w
			}
			return true
		})
	}
	if !okAll || sites == 0 {
		return ""
	}
	if 4*maxDigits <= avail {
		return fmt.Sprintf("error branch of %s(s, 16, %d): every caller passes at most %d hex digits (%d bits), so the conversion cannot fail on text the lexer admitted", full, bits, maxDigits, 4*maxDigits)
	}
	return ""
}

// ---- CRASH-2: nil results are checked ----

func ruleCRASH2(c *Ctx) {
	const rule = "CRASH-2"
	p := c.Prog
	// functions of the module's internal packages with a nilable result and an explicit `return nil`
	nilers := map[*types.Func]bool{}
	for fn, fd := range p.funcDecls {
		if fn.Pkg() == nil || !strings.HasPrefix(fn.Pkg().Path(), modPath+"/internal") || fd.Body == nil {
			continue
		}
		pk := p.ByID[fn.Pkg().Path()]
		if pk == nil || !p.IsProd(pk) || isTestFile(p.Fset, fileOf(pk, fd)) || isGenFile(p, fileOf(pk, fd)) {
			continue
		}
		sig := fn.Type().(*types.Signature)
		if sig.Results().Len() != 1 {
			continue
		}
		switch sig.Results().At(0).Type().Underlying().(type) {
		case *types.Pointer, *types.Map, *types.Interface, *types.Slice:
		default:
			continue
		}
		has := false
		inspectNoLit(fd.Body, func(n ast.Node) bool {
			if rs, ok := n.(*ast.ReturnStmt); ok && len(rs.Results) == 1 && exprString(rs.Results[0]) == "nil" {
				has = true
			}
			return true
		})
		if has {
			// slices: nil is a valid empty value
			if _, isSlice := sig.Results().At(0).Type().Underlying().(*types.Slice); isSlice {
				continue
			}
			nilers[fn] = true
		}
	}
	if len(nilers) < 4 {
		c.unres(rule, "nil-returning-functions", "", "only %d functions with an explicit `return nil` found; Build, GetStateByKey, getActionMethods, getReduceTypeForGeneratedRule were confirmed by hand", len(nilers))
	}
	nSites := 0
	p.ProdFiles(func(pk *packages.Package, f *ast.File) {
		if isGenFile(p, f) {
			return
		}
		info := pk.TypesInfo
		for _, d := range f.Decls {
			fd, ok := d.(*ast.FuncDecl)
			if !ok || fd.Body == nil {
				continue
			}
			var visitFn func(fnNode ast.Node)
			visitFn = func(fnNode ast.Node) {
				inspectNoLit(fnNode, func(n ast.Node) bool {
					if fl, ok := n.(*ast.FuncLit); ok && n != fnNode {
						visitFn(fl)
						return false
					}
					as, ok := n.(*ast.AssignStmt)
					if !ok || len(as.Rhs) != 1 || len(as.Lhs) != 1 {
						return true
					}
					call, ok := as.Rhs[0].(*ast.CallExpr)
					if !ok {
						return true
					}
					fn := calleeFunc(info, call)
					if fn == nil || !nilers[fn.Origin()] {
						return true
					}
					v := usesObj(info, as.Lhs[0])
					if v == nil {
						return true
					}
					nSites++
					construct := fmt.Sprintf("%s/%s := %s(...)", funcKey(pk, fd), v.Name(), shortName(fn))
					g := p.CFG(pk, fnNode)
					pos, found := cfgLocate(g, as)
					if !found {
						c.unres(rule, construct, p.Pos(as.Pos()), "call site not found in the CFG")
						return true
					}
					var derefAt ast.Node
					cfgForward(g, []cfgPos{pos}, false, func(nn ast.Node) bool {
						if derefAt != nil {
							return true
						}
						if nodeChecksNil(info, nn, v) {
							return true
						}
						if nodeReassigns(info, nn, v) {
							return true
						}
						if d := nodeDerefs(info, nn, v); d != nil {
							derefAt = d
							return true
						}
						return false
					}, nil)
					if derefAt == nil {
						c.ok(rule, construct, p.Pos(as.Pos()), "the result is compared with nil (or asserted non-nil) before its first dereference on every path")
						return true
					}
					if why := crash2Exception(c, pk, fd, call, fn); why != "" {
						c.ok(rule, construct, p.Pos(as.Pos()), "dereferenced unchecked, allowed: %s", why)
						return true
					}
					c.bad(rule, construct, p.Pos(derefAt.Pos()), "%s can return nil (it does after reporting an error) and `%s` dereferences the result without a nil check: a nil-pointer panic instead of a diagnostic",
						shortName(fn), truncate(nodeText(derefAt), 60))
					return true
				})
			}
			visitFn(fd)
		}
	})
	if nSites < 5 {
		c.unres(rule, "call-sites", "", "only %d call sites of nil-returning functions found", nSites)
	}
}

func fileOf(pk *packages.Package, n ast.Node) *ast.File {
	for _, f := range pk.Syntax {
		if f.Pos() <= n.Pos() && n.End() <= f.End() {
			return f
		}
	}
	return pk.Syntax[0]
}

func nodeChecksNil(info *types.Info, n ast.Node, v types.Object) bool {
	found := false
	ast.Inspect(n, func(m ast.Node) bool {
		switch x := m.(type) {
		case *ast.BinaryExpr:
			if (x.Op == token.EQL || x.Op == token.NEQ) && ((usesObj(info, x.X) == v && exprString(x.Y) == "nil") || (usesObj(info, x.Y) == v && exprString(x.X) == "nil")) {
				found = true
			}
		}
		return !found
	})
	return found
}

func nodeReassigns(info *types.Info, n ast.Node, v types.Object) bool {
	if as, ok := n.(*ast.AssignStmt); ok {
		for _, l := range as.Lhs {
			if usesObj(info, l) == v {
				return true
			}
		}
	}
	return false
}

// nodeDerefs: the node dereferences v (field/method selection, indexing, *v).
func nodeDerefs(info *types.Info, n ast.Node, v types.Object) ast.Node {
	var out ast.Node
	ast.Inspect(n, func(m ast.Node) bool {
		if _, ok := m.(*ast.FuncLit); ok {
			return false
		}
		switch x := m.(type) {
		case *ast.SelectorExpr:
			if id, ok := ast.Unparen(x.X).(*ast.Ident); ok && info.Uses[id] == v {
				// method values on nil maps/interfaces also panic; selecting a field of a nil pointer panics
				out = x
			}
		case *ast.StarExpr:
			if id, ok := ast.Unparen(x.X).(*ast.Ident); ok && info.Uses[id] == v {
				out = x
			}
		case *ast.IndexExpr:
			if id, ok := ast.Unparen(x.X).(*ast.Ident); ok && info.Uses[id] == v {
				if _, isMap := v.Type().Underlying().(*types.Map); !isMap { // reading a nil map is fine
					out = x
				}
			}
		}
		return out == nil
	})
	return out
}

// crash2Exception: ConstructLALR's `from := GetStateByKey(fromKey)`: every key that enters the
// pending set was registered with AddState or looked up successfully.
func crash2Exception(c *Ctx, pk *packages.Package, fd *ast.FuncDecl, call *ast.CallExpr, fn *types.Func) string {
	if fn.Name() != "GetStateByKey" || fd.Name.Name != "ConstructLALR" {
		return ""
	}
	info := pk.TypesInfo
	registered := map[types.Object]bool{}
	ast.Inspect(fd.Body, func(n ast.Node) bool {
		if c2, ok := n.(*ast.CallExpr); ok {
			if f := calleeFunc(info, c2); f != nil && f.Name() == "AddState" && len(c2.Args) == 2 {
				registered[usesObj(info, c2.Args[0])] = true
			}
			if f := calleeFunc(info, c2); f != nil && f.Name() == "GetStateByKey" && c2 != call {
				registered[usesObj(info, c2.Args[0])] = true // either non-nil or AddState follows (checked by LALR-3)
			}
		}
		return true
	})
	// keys handed back by a same-package helper: registered if every return of the helper passes,
	// at that position, a key the helper itself registered
	regIn := func(h *ast.FuncDecl) map[types.Object]bool {
		m := map[types.Object]bool{}
		ast.Inspect(h.Body, func(n ast.Node) bool {
			if c2, ok := n.(*ast.CallExpr); ok {
				if f := calleeFunc(info, c2); f != nil && (f.Name() == "AddState" || f.Name() == "GetStateByKey") && len(c2.Args) >= 1 {
					m[usesObj(info, c2.Args[0])] = true
				}
			}
			return true
		})
		return m
	}
	ast.Inspect(fd.Body, func(n ast.Node) bool {
		as, ok := n.(*ast.AssignStmt)
		if !ok || len(as.Rhs) != 1 {
			return true
		}
		hc, ok := ast.Unparen(as.Rhs[0]).(*ast.CallExpr)
		if !ok {
			return true
		}
		hf := calleeFunc(info, hc)
		if hf == nil || hf.Pkg() != pk.Types {
			return true
		}
		h := c.Prog.funcDecls[hf.Origin()]
		if h == nil || h.Body == nil || h.Type.Results == nil {
			return true
		}
		hreg := regIn(h)
		var resNames []types.Object
		for _, f := range h.Type.Results.List {
			if len(f.Names) == 0 {
				resNames = append(resNames, nil)
			}
			for _, nm := range f.Names {
				resNames = append(resNames, info.Defs[nm])
			}
		}
		for i, l := range as.Lhs {
			if i >= len(resNames) {
				break
			}
			all, nRet := true, 0
			inspectNoLit(h.Body, func(m ast.Node) bool {
				rs, ok := m.(*ast.ReturnStmt)
				if !ok {
					return true
				}
				nRet++
				var o types.Object
				if len(rs.Results) == 0 {
					o = resNames[i]
				} else if i < len(rs.Results) {
					o = usesObj(info, rs.Results[i])
				}
				if o == nil || !hreg[o] {
					all = false
				}
				return true
			})
			if all && nRet > 0 {
				registered[usesObj(info, l)] = true
			}
		}
		return true
	})
	okAll, n := true, 0
	ast.Inspect(fd.Body, func(n2 ast.Node) bool {
		c2, ok := n2.(*ast.CallExpr)
		if !ok {
			return true
		}
		isNew := fullName(calleeFunc(info, c2)) == modPath+"/internal/base/set.New"
		sel, isSel := c2.Fun.(*ast.SelectorExpr)
		isAdd := isSel && sel.Sel.Name == "Add" && len(c2.Args) == 1 && isStringSet(info.TypeOf(sel.X))
		if (isNew || isAdd) && len(c2.Args) == 1 {
			if t := info.TypeOf(c2.Args[0]); t != nil && isString(t) {
				n++
				if !registered[usesObj(info, c2.Args[0])] {
					okAll = false
				}
			}
		}
		return true
	})
	if okAll && n >= 2 {
		return fmt.Sprintf("the key ranges over the pending set, and all %d keys ever put into it were registered with AddState (or found by GetStateByKey)", n)
	}
	return ""
}

// ---- CRASH-3: the front end's "validated by the lexer" beliefs ----

func ruleCRASH3(c *Ctx) {
	const rule = "CRASH-3"
	p := c.Prog
	pk := p.Pkg("internal/parser")
	if pk == nil {
		c.unres(rule, "internal/parser", "", "package not found")
		return
	}
	info := pk.TypesInfo
	// (a) token-type switches with a panicking default list every token the grammar can deliver
	rules := map[string][][]string{}
	for _, src := range loxSources(pk) {
		for k, v := range loxParserRules(src) {
			rules[k] = append(rules[k], v...)
		}
	}
	spell := tokenSpellings(pk)
	bySpelling := map[string]string{}
	for o, s := range spell {
		bySpelling[s] = o.Name()
	}
	nSw := 0
	// action parameters a helper's parameter can stand for: helper param => [(action, index)]
	type actParam struct {
		fd  *ast.FuncDecl
		idx int
	}
	paramIndexOf := func(fd *ast.FuncDecl, o types.Object) int {
		k := 0
		for _, fld := range fd.Type.Params.List {
			for _, nm := range fld.Names {
				if info.Defs[nm] == o {
					return k
				}
				k++
			}
		}
		return -1
	}
	countParams := func(fd *ast.FuncDecl) int {
		k := 0
		for _, fld := range fd.Type.Params.List {
			k += len(fld.Names)
		}
		return k
	}
	var allDecls []*ast.FuncDecl
	for _, f := range pk.Syntax {
		if isGenFile(p, f) || isTestFile(p.Fset, f) {
			continue
		}
		for _, d := range f.Decls {
			if fd, ok := d.(*ast.FuncDecl); ok && fd.Body != nil {
				allDecls = append(allDecls, fd)
			}
		}
	}
	standsFor := func(fd *ast.FuncDecl, o types.Object) []actParam {
		k := paramIndexOf(fd, o)
		if k < 0 {
			return nil
		}
		if strings.HasPrefix(fd.Name.Name, "on_") {
			return []actParam{{fd, k}}
		}
		// a helper: the action parameters passed for it at its call sites
		var out []actParam
		fnObj, _ := info.Defs[fd.Name].(*types.Func)
		for _, caller := range allDecls {
			if !strings.HasPrefix(caller.Name.Name, "on_") {
				continue
			}
			ast.Inspect(caller.Body, func(n ast.Node) bool {
				call, ok := n.(*ast.CallExpr)
				if !ok || fnObj == nil || calleeFunc(info, call) != fnObj || k >= len(call.Args) {
					return true
				}
				if ck := paramIndexOf(caller, usesObj(info, call.Args[k])); ck >= 0 {
					out = append(out, actParam{caller, ck})
				}
				return true
			})
		}
		return out
	}
	tableProg, tablePkg = p, pk
	for _, fd := range allDecls {
		par := parents(fd)
		ast.Inspect(fd.Body, func(n ast.Node) bool {
			pc, ok := n.(*ast.CallExpr)
			if !ok || !isPanicCall(info, pc) {
				return true
			}
			tok, labels := tokenExclusion(info, par, pc)
			if tok == nil || len(labels) == 0 {
				return true
			}
			sites := standsFor(fd, tok)
			if len(sites) == 0 {
				return true
			}
			nSw++
			for _, site := range sites {
				ruleName := strings.TrimPrefix(site.fd.Name.Name, "on_")
				if i := strings.Index(ruleName, "__"); i >= 0 {
					ruleName = ruleName[:i]
				}
				nParams, k := countParams(site.fd), site.idx
				construct := fmt.Sprintf("parser.%s/switch(%s.Type)", site.fd.Name.Name, tok.Name())
				if site.fd != fd {
					construct = fmt.Sprintf("parser.%s/%s(%s.Type)", site.fd.Name.Name, fd.Name.Name, tok.Name())
				}
				alts, known := rules[ruleName]
				if !known {
					c.unres(rule, construct, p.Pos(pc.Pos()), "rule %q not found in the grammar source next to the package", ruleName)
					continue
				}
				var missing []string
				nCand := 0
				for _, alt := range alts {
					if len(alt) != nParams || k >= len(alt) {
						continue
					}
					tokName, isLit, isTok := loxTermToken(alt[k])
					if !isTok {
						continue
					}
					name := tokName
					if isLit {
						name = bySpelling[tokName]
						if tokName == "@error" && name == "" {
							name = bySpelling["@error"]
						}
					}
					nCand++
					if name == "" {
						missing = append(missing, "'"+tokName+"' (no token constant found)")
					} else if !labels[name] {
						missing = append(missing, name)
					}
				}
				if nCand == 0 {
					c.unres(rule, construct, p.Pos(pc.Pos()), "no production of %q delivers a token to parameter %d", ruleName, k)
					continue
				}
				sort.Strings(missing)
				c.check(len(missing) == 0, rule, construct, p.Pos(pc.Pos()),
					fmt.Sprintf("the %d token(s) the productions of %q can deliver to this parameter are all handled before the panic", nCand, ruleName),
					fmt.Sprintf("the grammar can deliver token(s) %v to this parameter, which reach the panic", missing))
			}
			return true
		})
	}
	if nSw < 5 {
		c.unres(rule, "parser/token-switches", "", "only %d token-type switches with a panicking default found; 6 were confirmed by hand", nSw)
	}

	// (b) escapes: what the lexer tables admit after a backslash vs. what unescape handles
	_, ue := p.FuncDecl("internal/parser", "unescape")
	if ue == nil {
		c.unres(rule, "parser.unescape", "", "function not found")
		return
	}
	handled := map[int64]int64{} // escape letter => number of following characters consumed
	var esw *ast.SwitchStmt
	ast.Inspect(ue.Body, func(n ast.Node) bool {
		if sw, ok := n.(*ast.SwitchStmt); ok && sw.Tag != nil && isEscapeSwitchIn(info, ue, sw) {
			esw = sw
		}
		return true
	})
	// single-character escapes delegated to a helper: switch over the helper's parameter
	for _, sc := range funcScope(p, pk, ue, 1) {
		hd, ok := sc.node.(*ast.FuncDecl)
		if !ok || hd == ue {
			continue
		}
		ast.Inspect(hd.Body, func(n ast.Node) bool {
			sw, ok := n.(*ast.SwitchStmt)
			if !ok || sw.Tag == nil || usesObj(info, sw.Tag) != paramObj(info, hd, 0) {
				return true
			}
			for _, cl := range sw.Body.List {
				cc := cl.(*ast.CaseClause)
				for _, l := range cc.List {
					if v, ok := constInt(info, l); ok {
						handled[v] = 0
					}
				}
			}
			return true
		})
	}
	if esw == nil {
		c.unres(rule, "parser.unescape/switch", p.Pos(ue.Pos()), "escape switch not found")
		return
	}
	okWidths := true
	widthWhy := ""
	// The index variable, and for every arm the total by which one trip through the loop advances
	// it: increments inside the arm, increments after the switch in the same block, and the loop's
	// post statement, evaluated with the constants the arm assigns to locals (falling back to the
	// constant a local was defined with). An escape of w hex digits must advance by 2 + w and read
	// lit[i+2 : i+2+w].
	uePar := parents(ue)
	ueDefs := localDefs(info, ue)
	var idxObj types.Object
	if ix, ok := ast.Unparen(resolveVia(info, ueDefs, esw.Tag)).(*ast.IndexExpr); ok {
		ast.Inspect(ix.Index, func(n ast.Node) bool {
			if id, ok := n.(*ast.Ident); ok {
				if v, isVar := info.Uses[id].(*types.Var); isVar && idxObj == nil {
					idxObj = v
				}
			}
			return true
		})
	}
	if idxObj == nil {
		okWidths, widthWhy = false, "the index variable of the escape switch was not identified"
	}
	defaults := map[string]int64{} // locals defined with a constant
	ast.Inspect(ue.Body, func(n ast.Node) bool {
		if as, ok := n.(*ast.AssignStmt); ok && as.Tok == token.DEFINE && len(as.Lhs) == len(as.Rhs) {
			for i, l := range as.Lhs {
				if v, isC := constInt(info, as.Rhs[i]); isC {
					if o := usesObj(info, l); o != nil && o != idxObj {
						defaults[o.Name()] = v
					}
				}
			}
		}
		return true
	})
	evalWith := func(e ast.Expr, env map[string]int64) (coefIdx int64, k int64, ok bool) {
		terms, k0 := linearForm(info, nil, e)
		k = k0
		for a, co := range terms {
			switch {
			case idxObj != nil && a == idxObj.Name():
				coefIdx = co
			default:
				v, known := env[a]
				if !known {
					return 0, 0, false
				}
				k += co * v
			}
		}
		return coefIdx, k, true
	}
	advanceOf := func(st ast.Stmt, env map[string]int64) (int64, bool) {
		switch x := st.(type) {
		case *ast.IncDecStmt:
			if usesObj(info, x.X) == idxObj && x.Tok == token.INC {
				return 1, true
			}
		case *ast.AssignStmt:
			if x.Tok == token.ADD_ASSIGN && len(x.Lhs) == 1 && usesObj(info, x.Lhs[0]) == idxObj {
				if ci, k, ok := evalWith(x.Rhs[0], env); ok && ci == 0 {
					return k, true
				}
				return 0, false
			}
		}
		return 0, true
	}
	// statements following the switch in its block, and the loop's post statement
	var tail []ast.Stmt
	if blk := enclosingList(uePar, esw); blk != nil {
		seen := false
		for _, st := range blk {
			if seen {
				tail = append(tail, st)
			}
			if st == ast.Stmt(esw) {
				seen = true
			}
		}
	}
	for q := uePar[ast.Node(esw)]; q != nil; q = uePar[q] {
		if fs, ok := q.(*ast.ForStmt); ok {
			if fs.Post != nil {
				tail = append(tail, fs.Post)
			}
			break
		}
	}
	for _, cl := range esw.Body.List {
		cc := cl.(*ast.CaseClause)
		for _, l := range cc.List {
			v, ok := constInt(info, l)
			if !ok || idxObj == nil {
				continue
			}
			env := map[string]int64{}
			for k2, v2 := range defaults {
				env[k2] = v2
			}
			for _, st := range cc.Body {
				if as, ok := st.(*ast.AssignStmt); ok && as.Tok == token.ASSIGN && len(as.Lhs) == len(as.Rhs) {
					for i, lh := range as.Lhs {
						if cv, isC := constInt(info, as.Rhs[i]); isC {
							if o := usesObj(info, lh); o != nil {
								env[o.Name()] = cv
							}
						}
					}
				}
			}
			var width int64
			for _, st := range cc.Body {
				ast.Inspect(st, func(m ast.Node) bool {
					if sl, ok := m.(*ast.SliceExpr); ok && sl.Low != nil && sl.High != nil {
						cl1, lo, ok1 := evalWith(sl.Low, env)
						ch1, hi, ok2 := evalWith(sl.High, env)
						if !ok1 || !ok2 || cl1 != 1 || ch1 != 1 {
							okWidths = false
							widthWhy = fmt.Sprintf("escape %q reads `%s`, which is not a window relative to the index", rune(v), exprString(sl))
							return true
						}
						width = hi - lo
						if lo != 2 {
							okWidths = false
							widthWhy = fmt.Sprintf("escape %q reads from offset %d", rune(v), lo)
						}
					}
					return true
				})
			}
			adv := int64(0)
			okAdv := true
			for _, st := range append(append([]ast.Stmt{}, cc.Body...), tail...) {
				d, ok := advanceOf(st, env)
				if !ok {
					okAdv = false
				}
				adv += d
			}
			if !okAdv {
				okWidths = false
				widthWhy = fmt.Sprintf("the advance of the index after escape %q is not a constant", rune(v))
			} else if adv != 2+width {
				okWidths = false
				widthWhy = fmt.Sprintf("escape %q consumes %d characters but one trip through the loop advances the index by %d", rune(v), 2+width, adv)
			}
			handled[v] = width
		}
	}
	// single-character escapes looked up in a constant table in the default arm:
	//   default: v, ok := table[selector]; if !ok { panic }; …
	for _, cl := range esw.Body.List {
		cc := cl.(*ast.CaseClause)
		if cc.List != nil || idxObj == nil {
			continue
		}
		var tblInit *ast.CompositeLit
		for _, st := range cc.Body {
			as, ok := st.(*ast.AssignStmt)
			if !ok || len(as.Lhs) != 2 || len(as.Rhs) != 1 {
				continue
			}
			ix, ok := ast.Unparen(as.Rhs[0]).(*ast.IndexExpr)
			if !ok || !sameExpr(resolveVia(info, ueDefs, ix.Index), resolveVia(info, ueDefs, esw.Tag)) {
				continue
			}
			okObj := usesObj(info, as.Lhs[1])
			// a miss must end in the panic
			guarded := false
			for _, st2 := range cc.Body {
				if ifs, isIf := st2.(*ast.IfStmt); isIf && st2.Pos() > st.Pos() {
					if u, isNot := ast.Unparen(ifs.Cond).(*ast.UnaryExpr); isNot && u.Op == token.NOT && usesObj(info, u.X) == okObj && clauseHasPanic(info, ifs.Body.List) {
						guarded = true
					}
				}
			}
			if guarded {
				tblInit, _ = ast.Unparen(pkgVarInit(p, pk, usesObj(info, ix.X))).(*ast.CompositeLit)
			}
		}
		if tblInit == nil {
			continue
		}
		env := map[string]int64{}
		for k2, v2 := range defaults {
			env[k2] = v2
		}
		adv, okAdv := int64(0), true
		for _, st := range append(append([]ast.Stmt{}, cc.Body...), tail...) {
			d, ok := advanceOf(st, env)
			if !ok {
				okAdv = false
			}
			adv += d
		}
		for _, el := range tblInit.Elts {
			kv, ok := el.(*ast.KeyValueExpr)
			if !ok {
				continue
			}
			if v, isC := constInt(info, kv.Key); isC {
				handled[v] = 0
				if !okAdv || adv != 2 {
					okWidths = false
					widthWhy = fmt.Sprintf("escape %q (looked up in a table) consumes 2 characters but one trip through the loop advances the index by %d", rune(v), adv)
				}
			}
		}
	}
	// single-character escapes looked up in a constant table *before* the switch:
	//   if v, ok := table[selector]; ok { write(v); advance; continue }
	ast.Inspect(ue.Body, func(n ast.Node) bool {
		ifs, ok := n.(*ast.IfStmt)
		if !ok || ifs.Init == nil || containsNode(esw, ifs) {
			return true
		}
		as, ok := ifs.Init.(*ast.AssignStmt)
		if !ok || len(as.Lhs) != 2 || len(as.Rhs) != 1 || usesObj(info, ifs.Cond) == nil || usesObj(info, ifs.Cond) != usesObj(info, as.Lhs[1]) {
			return true
		}
		key, entries, isTbl := constTable(p, pk, as.Rhs[0])
		if !isTbl || !sameExpr(resolveVia(info, ueDefs, key), resolveVia(info, ueDefs, esw.Tag)) {
			return true
		}
		// the hit must leave the iteration (continue) so that the switch's panic is not reached
		if len(ifs.Body.List) == 0 {
			return true
		}
		if br, isBr := ifs.Body.List[len(ifs.Body.List)-1].(*ast.BranchStmt); !isBr || br.Tok != token.CONTINUE {
			return true
		}
		env := map[string]int64{}
		for k2, v2 := range defaults {
			env[k2] = v2
		}
		adv, okAdv := int64(0), true
		for _, st := range append(append([]ast.Stmt{}, ifs.Body.List...), tail...) {
			if _, isBr := st.(*ast.BranchStmt); isBr {
				continue
			}
			d, ok := advanceOf(st, env)
			if !ok {
				okAdv = false
			}
			adv += d
		}
		for _, en := range entries {
			var kv int64
			if _, err := fmt.Sscan(en.KeyVal, &kv); err != nil {
				continue
			}
			handled[kv] = 0
			if !okAdv || adv != 2 {
				okWidths = false
				widthWhy = fmt.Sprintf("escape %q (looked up in a table before the switch) consumes 2 characters but one trip through the loop advances the index by %d", rune(kv), adv)
			}
		}
		return true
	})
	c.check(okWidths, rule, "parser.unescape/index-arithmetic", p.Pos(esw.Pos()), "each escape arm advances the index by exactly the characters it consumed", "escape arm arithmetic is inconsistent: "+widthWhy)

	gt, err := decodeGenTables(p, "internal/parser")
	if err != nil {
		c.unres(rule, "internal/parser/lexer-tables", "", "%v", err)
		return
	}
	modeNames := modeNamesOfGrammar(pk)
	// modes whose tokens reach unescape: those of LITERAL (via fixLiteral) and CLASS_CHAR (on_char_class)
	for _, mn := range []string{"Literal", "ClassChar"} {
		idx := -1
		for i, n := range modeNames {
			if n == mn {
				idx = i
			}
		}
		construct := "internal/parser/lexer-mode(" + mn + ")/escapes"
		tbl := gt.ints[fmt.Sprintf("_lexerMode%d", idx)]
		if idx < 0 || tbl == nil {
			c.unres(rule, construct, "", "mode table not found (modes of the grammar: %v)", modeNames)
			continue
		}
		s1, ok := lexStep(tbl, 0, '\\')
		if !ok {
			c.ok(rule, construct, "", "the mode admits no backslash at all")
			continue
		}
		row := lexRowOf(tbl, s1)
		if row == nil {
			c.unres(rule, construct, "", "cannot decode the row after a backslash")
			continue
		}
		var problems []string
		if len(row.actions) > 0 {
			problems = append(problems, "a lone backslash is a complete match in this mode (e.g. `[\\q]`): unescape then indexes past the end of the text")
		}
		for _, tr := range row.trans {
			for r := tr[0]; r <= tr[1] && r-tr[0] < 64; r++ {
				w, isHandled := handled[r]
				if !isHandled {
					problems = append(problems, fmt.Sprintf("the lexer admits `\\%c`, which unescape does not handle (panic)", rune(r)))
					continue
				}
				// exactly w hex digits must follow before the escape can end
				st := tr[2]
				okDigits := true
				for k := int64(0); k < w; k++ {
					// a state inside the escape must not be accepting
					if rr := lexRowOf(tbl, st); rr == nil || len(rr.actions) > 0 {
						okDigits = false
					}
					nx, ok := lexStep(tbl, st, 'A')
					if !ok {
						okDigits = false
						break
					}
					st = nx
				}
				if !okDigits {
					problems = append(problems, fmt.Sprintf("`\\%c` can end before the %d characters unescape reads after it", rune(r), w))
				}
			}
			if tr[1]-tr[0] >= 64 {
				problems = append(problems, fmt.Sprintf("the lexer admits a whole range U+%04X-U+%04X after a backslash", tr[0], tr[1]))
			}
		}
		problems = dedupe(problems)
		c.check(len(problems) == 0, rule, construct, p.Pos(gt.pos[fmt.Sprintf("_lexerMode%d", idx)]),
			"after a backslash the checked-in lexer table admits only the letters unescape handles, each followed by exactly the digits unescape reads, and never ends the token at the backslash",
			strings.Join(problems, "; "))
	}
}

// ---- CRASH-4: closed enums ----

func ruleCRASH4(c *Ctx) {
	const rule = "CRASH-4"
	p := c.Prog
	// constants of each named type that are produced somewhere (used outside case labels)
	produced := map[*types.TypeName]map[*types.Const]bool{}
	p.ProdFiles(func(pk *packages.Package, f *ast.File) {
		if isGenFile(p, f) {
			return
		}
		par := parents(f)
		ast.Inspect(f, func(n ast.Node) bool {
			id, ok := n.(*ast.Ident)
			if !ok {
				return true
			}
			k, ok := pk.TypesInfo.Uses[id].(*types.Const)
			if !ok {
				return true
			}
			named, ok := types.Unalias(k.Type()).(*types.Named)
			if !ok || named.Obj().Pkg() == nil || !strings.HasPrefix(named.Obj().Pkg().Path(), modPath) {
				return true
			}
			// skip uses as case labels
			var q ast.Node = id
			if sel, ok := par[id].(*ast.SelectorExpr); ok && sel.Sel == id {
				q = sel
			}
			if cc, ok := par[q].(*ast.CaseClause); ok {
				for _, l := range cc.List {
					if l == q {
						return true
					}
				}
			}
			if produced[named.Obj()] == nil {
				produced[named.Obj()] = map[*types.Const]bool{}
			}
			produced[named.Obj()][k] = true
			return true
		})
	})
	nEnum, nType := 0, 0
	p.ProdFiles(func(pk *packages.Package, f *ast.File) {
		if isGenFile(p, f) {
			return
		}
		info := pk.TypesInfo
		for _, d := range f.Decls {
			fd, ok := d.(*ast.FuncDecl)
			if !ok || fd.Body == nil {
				continue
			}
			ast.Inspect(fd.Body, func(n ast.Node) bool {
				switch sw := n.(type) {
				case *ast.SwitchStmt:
					if sw.Tag == nil {
						return true
					}
					named, ok := types.Unalias(info.TypeOf(sw.Tag)).(*types.Named)
					if !ok || named.Obj().Pkg() == nil || !strings.HasPrefix(named.Obj().Pkg().Path(), modPath) {
						return true
					}
					if _, isBasic := named.Underlying().(*types.Basic); !isBasic {
						return true
					}
					panicsByDefault := false
					labels := map[*types.Const]bool{}
					for _, cl := range sw.Body.List {
						cc := cl.(*ast.CaseClause)
						if cc.List == nil && clauseHasPanic(info, cc.Body) {
							panicsByDefault = true
						}
						for _, l := range cc.List {
							if k, ok := usesObj(info, l).(*types.Const); ok {
								labels[k] = true
							}
						}
					}
					if !panicsByDefault {
						return true
					}
					nEnum++
					var missing []string
					for k := range produced[named.Obj()] {
						if !labels[k] {
							// same value under another name?
							dup := false
							for l := range labels {
								if constant.Compare(l.Val(), token.EQL, k.Val()) {
									dup = true
								}
							}
							if !dup {
								missing = append(missing, k.Name())
							}
						}
					}
					sort.Strings(missing)
					construct := fmt.Sprintf("%s/switch(%s %s)", funcKey(pk, fd), exprString(sw.Tag), named.Obj().Name())
					c.check(len(missing) == 0, rule, construct, p.Pos(sw.Pos()),
						fmt.Sprintf("all %d constants of %s that the code produces have a case; the panicking default is unreachable", len(produced[named.Obj()]), named.Obj().Name()),
						fmt.Sprintf("constant(s) %v of %s are produced elsewhere in the code but fall into this switch's panicking default", missing, named.Obj().Name()))
				case *ast.TypeSwitchStmt:
					// interface whose implementers are all in the repository
					var x ast.Expr
					switch a := sw.Assign.(type) {
					case *ast.AssignStmt:
						x = a.Rhs[0].(*ast.TypeAssertExpr).X
					case *ast.ExprStmt:
						x = a.X.(*ast.TypeAssertExpr).X
					}
					named, ok := types.Unalias(info.TypeOf(x)).(*types.Named)
					if !ok || named.Obj().Pkg() == nil || !strings.HasPrefix(named.Obj().Pkg().Path(), modPath) {
						return true
					}
					iface, ok := named.Underlying().(*types.Interface)
					if !ok {
						return true
					}
					panicsByDefault := false
					var cased []types.Type
					for _, cl := range sw.Body.List {
						cc := cl.(*ast.CaseClause)
						if cc.List == nil && clauseHasPanic(info, cc.Body) {
							panicsByDefault = true
						}
						for _, l := range cc.List {
							if t := info.TypeOf(l); t != nil {
								cased = append(cased, t)
							}
						}
					}
					if !panicsByDefault {
						return true
					}
					nType++
					var missing []string
					for _, pk2 := range p.Prod {
						for _, name := range pk2.Types.Scope().Names() {
							tn, ok := pk2.Types.Scope().Lookup(name).(*types.TypeName)
							if !ok || tn.IsAlias() {
								continue
							}
							for _, t := range []types.Type{tn.Type(), types.NewPointer(tn.Type())} {
								if _, isI := t.Underlying().(*types.Interface); isI {
									continue
								}
								if !types.Implements(t, iface) {
									continue
								}
								// a value type implementing it also implements via pointer; require the form used
								covered := false
								for _, ct := range cased {
									if types.Identical(ct, t) || types.AssignableTo(t, ct) {
										covered = true
									}
								}
								if !covered {
									if _, isPtr := t.(*types.Pointer); isPtr && types.Implements(tn.Type(), iface) {
										continue // value form is the implementer; pointer form is derivative
									}
									missing = append(missing, types.TypeString(t, func(p *types.Package) string { return p.Name() }))
								}
							}
						}
					}
					sort.Strings(missing)
					construct := fmt.Sprintf("%s/typeswitch(%s)", funcKey(pk, fd), named.Obj().Name())
					c.check(len(missing) == 0, rule, construct, p.Pos(sw.Pos()), "every implementer of "+named.Obj().Name()+" in the repository has a case",
						fmt.Sprintf("implementer(s) %v of %s fall into the panicking default", missing, named.Obj().Name()))
				}
				return true
			})
		}
	})
	if nEnum < 5 || nType < 1 {
		c.unres(rule, "closed-switches", "", "found %d enum switches and %d type switches with a panicking default; 8 and 1 were confirmed by hand (two type switches went away with fix 15894c4)", nEnum, nType)
	}
}

// ---- CRASH-5: trust-boundary results ----

func ruleCRASH5(c *Ctx) {
	const rule = "CRASH-5"
	p := c.Prog
	n := 0
	ta := c.Templates()
	p.ProdFiles(func(pk *packages.Package, f *ast.File) {
		if isGenFile(p, f) {
			return
		}
		info := pk.TypesInfo
		for _, d := range f.Decls {
			fd, ok := d.(*ast.FuncDecl)
			if !ok || fd.Body == nil {
				continue
			}
			g := p.CFG(pk, fd)
			ast.Inspect(fd.Body, func(m ast.Node) bool {
				as, ok := m.(*ast.AssignStmt)
				if !ok || len(as.Rhs) != 1 {
					return true
				}
				call, ok := as.Rhs[0].(*ast.CallExpr)
				if !ok {
					return true
				}
				full := fullName(calleeFunc(info, call))
				switch full {
				case "golang.org/x/tools/go/packages.Load", "path/filepath.Glob", "os.ReadDir":
					v := usesObj(info, as.Lhs[0])
					// every constant index into the result needs a dominating length check
					ast.Inspect(fd.Body, func(k ast.Node) bool {
						ix, ok := k.(*ast.IndexExpr)
						if !ok || usesObj(info, ix.X) != v {
							return true
						}
						idx, isConst := constInt(info, ix.Index)
						if !isConst {
							return true
						}
						n++
						guarded := mustPassBefore(g, ix, func(nn ast.Node) bool {
							ok := false
							ast.Inspect(nn, func(q ast.Node) bool {
								if be, isBE := q.(*ast.BinaryExpr); isBE {
									if lc, isCall := be.X.(*ast.CallExpr); isCall && builtinName(info, lc) == "len" && usesObj(info, lc.Args[0]) == v {
										ok = true
									}
								}
								return true
							})
							return ok
						})
						c.check(guarded, rule, fmt.Sprintf("%s/%s[%d]", funcKey(pk, fd), v.Name(), idx), p.Pos(ix.Pos()),
							"indexed only after its length was tested", fmt.Sprintf("%s returns a slice that can be empty (e.g. a directory outside any module) and %s[%d] is read without a length check", full, v.Name(), idx))
						return true
					})
				case "go/types.Scope.Lookup":
					v := usesObj(info, as.Lhs[0])
					if v == nil {
						return true
					}
					n++
					name, _ := constString(info, call.Args[0])
					if !isConstString(info, call.Args[0]) {
						name = exprString(call.Args[0])
						if k, ok := usesObj(info, call.Args[0]).(*types.Const); ok {
							name = constStr(k)
						}
					}
					construct := fmt.Sprintf("%s/Lookup(%s)", funcKey(pk, fd), name)
					if fromNames(info, fd, call) {
						c.ok(rule, construct, p.Pos(as.Pos()), "the name ranges over the same scope's Names(): the lookup cannot fail")
						return true
					}
					// nil-checked before use?
					pos, found := cfgLocate(g, as)
					var deref ast.Node
					var nilBranchPanics bool
					if found {
						cfgForward(g, []cfgPos{pos}, false, func(nn ast.Node) bool {
							if nodeChecksNil(info, nn, v) {
								return true
							}
							if dd := nodeDerefs(info, nn, v); dd != nil && deref == nil {
								deref = dd
								return true
							}
							return false
						}, nil)
					}
					ast.Inspect(fd.Body, func(k ast.Node) bool {
						if ifs, ok := k.(*ast.IfStmt); ok && nodeChecksNil(info, ifs.Cond, v) && clauseHasPanic(info, ifs.Body.List) {
							nilBranchPanics = true
						}
						return true
					})
					if deref != nil {
						c.bad(rule, construct, p.Pos(deref.Pos()), "the looked-up object is used without a nil check: a user package lacking %s makes lox panic", name)
						return true
					}
					if nilBranchPanics {
						// allowed only if the placeholder template itself declares the name
						declared := false
						if ta.Err == nil {
							for _, u := range ta.Set.Alternates {
								if strings.Contains(u.Src, "type "+name+" ") {
									declared = true
								}
							}
						}
						c.check(declared, rule, construct, p.Pos(as.Pos()), "a missing "+name+" panics, but the placeholder overlay lox itself injects always declares it",
							"a missing "+name+" panics and nothing guarantees the name exists in the user's package")
						return true
					}
					c.ok(rule, construct, p.Pos(as.Pos()), "nil result handled with a diagnostic before use")
				}
				return true
			})
		}
	})
	if n < 4 {
		c.unres(rule, "trust-boundary-sites", "", "only %d uses of loader/scope results found", n)
	}
}

func isConstString(info *types.Info, e ast.Expr) bool { _, ok := constString(info, e); return ok }

// ---- CRASH-6: exit discipline ----

func ruleCRASH6(c *Ctx) {
	const rule = "CRASH-6"
	p := c.Prog
	pk, mainFd := p.FuncDecl("cmd/lox", "main")
	_, rm := p.FuncDecl("cmd/lox", "realMain")
	if mainFd == nil || rm == nil {
		c.unres(rule, "cmd/lox.main", "", "main/realMain not found")
		return
	}
	info := pk.TypesInfo
	// main: if err != nil { ...; os.Exit(1) }
	okMain := false
	ast.Inspect(mainFd.Body, func(n ast.Node) bool {
		ifs, ok := n.(*ast.IfStmt)
		if !ok {
			return true
		}
		be, ok := ifs.Cond.(*ast.BinaryExpr)
		if !ok || be.Op != token.NEQ || exprString(be.Y) != "nil" {
			return true
		}
		for _, call := range findCalls(info, ifs.Body, false, func(fn *types.Func, _ *ast.CallExpr) bool { return fullName(fn) == "os.Exit" }) {
			if v, ok := constInt(info, call.Args[0]); ok && v != 0 {
				okMain = true
			}
		}
		return true
	})
	c.check(okMain, rule, "cmd/lox.main/exit-status", p.Pos(mainFd.Pos()), "a non-nil error from realMain ends the process with a non-zero status after printing it", "main does not exit non-zero when realMain reports an error")
	// realMain: `return nil` only after Generate returned true (or after --help)
	g := p.CFG(pk, rm)
	genCalls := findCalls(info, rm.Body, false, func(fn *types.Func, _ *ast.CallExpr) bool {
		return fullName(fn) == modPath+"/internal/codegen.Generate"
	})
	okReal := len(genCalls) == 1
	if okReal {
		var okVar types.Object
		if as, ok := parents(rm)[genCalls[0]].(*ast.AssignStmt); ok {
			okVar = usesObj(info, as.Lhs[0])
		}
		failReturns := false
		ast.Inspect(rm.Body, func(n ast.Node) bool {
			ifs, ok := n.(*ast.IfStmt)
			if !ok {
				return true
			}
			if u, ok := ifs.Cond.(*ast.UnaryExpr); ok && u.Op == token.NOT && usesObj(info, u.X) == okVar && okVar != nil {
				for _, s := range ifs.Body.List {
					if rs, ok := s.(*ast.ReturnStmt); ok && len(rs.Results) == 1 && exprString(rs.Results[0]) != "nil" {
						failReturns = true
					}
				}
			}
			return true
		})
		okReal = failReturns
		// every `return nil` either precedes Generate inside the help branch, or is after the failure test
		inspectNoLit(rm.Body, func(n ast.Node) bool {
			rs, ok := n.(*ast.ReturnStmt)
			if !ok || len(rs.Results) != 1 || exprString(rs.Results[0]) != "nil" {
				return true
			}
			if rs.Pos() > genCalls[0].End() {
				if !mustPassBefore(g, rs, func(nn ast.Node) bool { return containsNode(nn, genCalls[0]) }) {
					okReal = false
				}
			}
			return true
		})
	}
	c.check(okReal, rule, "cmd/lox.realMain/success-iff-generated", p.Pos(rm.Pos()), "realMain returns nil only after Generate reported success (or for --help)", "realMain can return nil although Generate failed")
	// Generate is the conjunction of all stages, in particular the three emitters
	pk2, gen := p.FuncDecl("internal/codegen", "Generate")
	if gen == nil {
		c.unres(rule, "codegen.Generate", "", "function not found")
		return
	}
	info2 := pk2.TypesInfo
	conj := stageSequence(pk2, gen)
	_ = info2
	have := map[string]bool{}
	for _, s := range conj {
		have[s] = true
	}
	c.check(have["EmitBase"] && have["EmitLexer"] && have["EmitParser"] && have["ParseLox"] && have["ParseGo"] && have["AssignActions"], rule, "codegen.Generate/conjunction", p.Pos(gen.Pos()),
		"Generate succeeds only if every stage, including the three emitters, succeeded: "+strings.Join(conj, " && "), "Generate's result is not the conjunction of all stages: success could be reported with missing output ("+strings.Join(conj, " && ")+")")
	// ... and there is no other way to report success: every return of Generate that is not the
	// constant false is the conjunction itself, or follows the fail-fast loop over all stages
	var stageLoop *ast.RangeStmt
	ast.Inspect(gen.Body, func(n ast.Node) bool {
		if rs, ok := n.(*ast.RangeStmt); ok && stageLoop == nil {
			if _, isLit := ast.Unparen(resolveLocalIn(info2, gen, rs.X)).(*ast.CompositeLit); isLit {
				stageLoop = rs
			}
		}
		return true
	})
	genPar := parents(gen)
	inspectNoLit(gen.Body, func(n ast.Node) bool {
		rs, ok := n.(*ast.ReturnStmt)
		if !ok || len(rs.Results) != 1 {
			return true
		}
		if tv, ok := info2.Types[rs.Results[0]]; ok && tv.Value != nil && tv.Value.String() == "false" {
			return true
		}
		okRet := false
		why := ""
		if cj := conjuncts(rs.Results[0]); len(cj) > 1 {
			names := map[string]bool{}
			for _, e := range cj {
				if call, ok := ast.Unparen(e).(*ast.CallExpr); ok {
					if fn := calleeFunc(info2, call); fn != nil {
						names[fn.Name()] = true
					}
				}
			}
			okRet = names["EmitBase"] && names["EmitLexer"] && names["EmitParser"]
			why = "its conjunction does not contain all three emit stages"
		} else if stageLoop != nil && rs.Pos() > stageLoop.End() && genPar[rs] == genPar[stageLoop] {
			okRet = true
		} else {
			why = "it is reached without running the stages (e.g. an up-to-date short cut): lox would exit 0 although output files are missing or stale"
		}
		c.check(okRet, rule, "codegen.Generate/success-only-through-all-stages", p.Pos(rs.Pos()),
			"this return reports success only as the conjunction of all stages", "Generate can return `"+exprString(rs.Results[0])+"` here and "+why)
		return true
	})
	// every `return false` of a stage follows a diagnostic
	for _, st := range conj {
		spk, sfd := p.FuncDecl("internal/codegen", "context."+st)
		if sfd == nil {
			continue
		}
		sinfo := spk.TypesInfo
		sg := p.CFG(spk, sfd)
		okAll, nRet := true, 0
		bad := ""
		inspectNoLit(sfd.Body, func(n ast.Node) bool {
			rs, ok := n.(*ast.ReturnStmt)
			if !ok || len(rs.Results) != 1 || exprString(rs.Results[0]) != "false" {
				return true
			}
			nRet++
			// a logger call, a HasError() test, or a callee that logged must precede it on every path
			if loggedLoopOverNonEmpty(sinfo, sfd, rs) {
				return true
			}
			if !mustPassBefore(sg, rs, func(nn ast.Node) bool {
				logged := false
				ast.Inspect(nn, func(q ast.Node) bool {
					if call, ok := q.(*ast.CallExpr); ok {
						fn := calleeFunc(sinfo, call)
						if isErrLoggerMethod(fn) {
							logged = true // includes HasError(): on the path where it holds, an error was logged
						}
						if fn != nil && (fn.Name() == "logPackageError" || fn.Name() == "getActionMethods" || fn.Name() == "Analyze") {
							logged = true
						}
					}
					return true
				})
				return logged
			}) {
				okAll = false
				bad = p.Pos(rs.Pos())
			}
			return true
		})
		c.check(okAll, rule, "codegen.context."+st+"/failure-has-diagnostic", p.Pos(sfd.Pos()),
			fmt.Sprintf("each of the %d `return false` is reached only after a diagnostic was logged (or errors were already recorded)", nRet),
			"`return false` at "+bad+" can be reached without any diagnostic: lox would fail with nothing but 'errors ocurred'")
	}
}

// fromNames: call is S.Lookup(x) with x the value variable of a range over S.Names() (or a variable
// assigned from it).
func fromNames(info *types.Info, fd *ast.FuncDecl, call *ast.CallExpr) bool {
	sel, ok := call.Fun.(*ast.SelectorExpr)
	if !ok || len(call.Args) != 1 {
		return false
	}
	arg := usesObj(info, call.Args[0])
	found := false
	ast.Inspect(fd.Body, func(n ast.Node) bool {
		rs, ok := n.(*ast.RangeStmt)
		if !ok || rs.Value == nil || usesObj(info, rs.Value) != arg || !containsNode(rs.Body, call) {
			return true
		}
		src := resolveLocalIn(info, fd, rs.X)
		if c2, ok := ast.Unparen(src).(*ast.CallExpr); ok {
			if s2, ok := c2.Fun.(*ast.SelectorExpr); ok && s2.Sel.Name == "Names" && sameExpr(s2.X, sel.X) {
				found = true
			}
		}
		return true
	})
	return found
}

// loggedLoopOverNonEmpty: rs sits in `if len(X) != 0 { for ... range X { <logging call> }; return false }`.
func loggedLoopOverNonEmpty(info *types.Info, fd *ast.FuncDecl, rs *ast.ReturnStmt) bool {
	par := parents(fd)
	ifs, ok := par[par[rs]].(*ast.IfStmt)
	if !ok {
		return false
	}
	be, ok := ifs.Cond.(*ast.BinaryExpr)
	if !ok || be.Op != token.NEQ {
		return false
	}
	lc, ok := be.X.(*ast.CallExpr)
	if !ok || builtinName(info, lc) != "len" {
		return false
	}
	if v, ok := constInt(info, be.Y); !ok || v != 0 {
		return false
	}
	for _, s := range ifs.Body.List {
		if r, ok := s.(*ast.RangeStmt); ok && sameExpr(r.X, lc.Args[0]) && r.Pos() < rs.Pos() {
			logs := false
			ast.Inspect(r.Body, func(n ast.Node) bool {
				if call, ok := n.(*ast.CallExpr); ok {
					if fn := calleeFunc(info, call); fn != nil && (isErrLoggerMethod(fn) || fn.Name() == "logPackageError") {
						logs = true
					}
				}
				return true
			})
			if logs {
				return true
			}
		}
	}
	return false
}

// isStringSet: set.Set[string] (the type of the pending-key worklists).
func isStringSet(t types.Type) bool {
	n, ok := deref(t).(*types.Named)
	if !ok || n.Obj().Name() != "Set" || n.TypeArgs() == nil || n.TypeArgs().Len() != 1 {
		return false
	}
	return isString(n.TypeArgs().At(0))
}

// ---- CRASH-7: a value returned together with an error is used only where the error is nil ----
//
// For every `v, err := f(...)` in the generator's own packages whose last result is an error: each
// use of v must lie on a path where `err == nil` is a known fact (an `if err != nil { leave }`
// earlier in the list, or an enclosing `err == nil` arm). Testing v against nil is not a
// substitute: go/parser, go/packages and os return usable-looking partial values together with an
// error, and the code after the call dereferences them.
func ruleCRASH7(c *Ctx) {
	const rule = "CRASH-7"
	p := c.Prog
	nSites := 0
	p.ProdFiles(func(pk *packages.Package, f *ast.File) {
		if strings.HasSuffix(p.Fset.File(f.Pos()).Name(), ".gen.go") {
			return
		}
		rel := strings.TrimPrefix(pk.PkgPath, modPath+"/")
		if !(strings.HasPrefix(rel, "internal/codegen") || strings.HasPrefix(rel, "cmd/") || strings.HasPrefix(rel, "internal/ast") || strings.HasPrefix(rel, "internal/parser") || strings.HasPrefix(rel, "internal/base/baseline")) {
			return
		}
		info := pk.TypesInfo
		for _, d := range f.Decls {
			fd, ok := d.(*ast.FuncDecl)
			if !ok || fd.Body == nil {
				continue
			}
			par := parents(fd)
			ast.Inspect(fd.Body, func(n ast.Node) bool {
				as, ok := n.(*ast.AssignStmt)
				if !ok || len(as.Rhs) != 1 || len(as.Lhs) < 2 {
					return true
				}
				call, ok := ast.Unparen(as.Rhs[0]).(*ast.CallExpr)
				if !ok {
					return true
				}
				tup, ok := info.TypeOf(call).(*types.Tuple)
				if !ok || tup.Len() != len(as.Lhs) || !isErrorType(tup.At(tup.Len()-1).Type()) {
					return true
				}
				errObj := usesObj(info, as.Lhs[len(as.Lhs)-1])
				if errObj == nil || errObj.Name() == "_" {
					return true // discarded errors are errcheck's subject, not a typestate one
				}
				for i := 0; i < len(as.Lhs)-1; i++ {
					if _, isIdent := ast.Unparen(as.Lhs[i]).(*ast.Ident); !isIdent {
						continue // stored straight into a field: its readers are not local
					}
					vObj := usesObj(info, as.Lhs[i])
					if vObj == nil || vObj.Name() == "_" {
						continue
					}
					nSites++
					construct := funcKey(pk, fd) + "/" + calleeLabel(info, call) + "→" + vObj.Name()
					var badUse ast.Node
					nUses := 0
					ast.Inspect(fd.Body, func(m ast.Node) bool {
						id, ok := m.(*ast.Ident)
						if !ok || info.Uses[id] != vObj || id.Pos() < as.End() || badUse != nil {
							return true
						}
						// reassigned before this use? then it is another value (stop at the
						// first redefinition in source order)
						if redefinedBetween(info, fd, vObj, errObj, as, id) {
							return true
						}
						// being overwritten is not a use
						if w, ok := par[id].(*ast.AssignStmt); ok {
							for _, l := range w.Lhs {
								if l == ast.Expr(id) {
									return true
								}
							}
						}
						// handed back together with the error (or a false ok flag): the caller
						// decides, which is the idiom this rule checks at the caller
						if rs, ok := par[id].(*ast.ReturnStmt); ok && len(rs.Results) >= 2 {
							for _, other := range rs.Results {
								if usesObj(info, other) == errObj || exprString(other) == "false" {
									return true
								}
							}
						}
						// a bare nil test of v itself is harmless
						if be, ok := par[id].(*ast.BinaryExpr); ok && (be.Op == token.EQL || be.Op == token.NEQ) && (exprString(be.X) == "nil" || exprString(be.Y) == "nil") {
							return true
						}
						nUses++
						okFact := holds(pathConds(info, par, id), func(e ast.Expr, pos bool) bool {
							l, op, r, ok := cmpFact(e, pos)
							if !ok || op != token.EQL || e.Pos() < as.End() {
								return false // (a test made before this call is about an earlier error value)
							}
							return (usesObj(info, l) == errObj && exprString(r) == "nil") || (usesObj(info, r) == errObj && exprString(l) == "nil")
						})
						if !okFact {
							badUse = id
						}
						return true
					})
					if badUse != nil {
						c.bad(rule, construct, p.Pos(badUse.Pos()), "`%s` is used at %s on a path where `%s == nil` is not established (the call at %s can return a partial value together with an error)", vObj.Name(), p.Pos(badUse.Pos()), errObj.Name(), p.Pos(call.Pos()))
					} else {
						c.ok(rule, construct, p.Pos(as.Pos()), "all %d uses of `%s` follow a test that `%s` is nil", nUses, vObj.Name(), errObj.Name())
					}
				}
				return true
			})
		}
	})
	c.floor(rule, 8)
	_ = nSites
}

func isErrorType(t types.Type) bool {
	n, ok := t.(*types.Named)
	return ok && n.Obj().Pkg() == nil && n.Obj().Name() == "error"
}

func calleeLabel(info *types.Info, call *ast.CallExpr) string {
	if fn := calleeFunc(info, call); fn != nil {
		return shortName(fn)
	}
	return truncate(exprString(call.Fun), 30)
}

// redefinedBetween: v or err is assigned again (other than by `def`) at a position between def and use.
func redefinedBetween(info *types.Info, fd *ast.FuncDecl, v, errObj types.Object, def *ast.AssignStmt, use *ast.Ident) bool {
	re := false
	ast.Inspect(fd.Body, func(n ast.Node) bool {
		as, ok := n.(*ast.AssignStmt)
		if !ok || as == def || as.Pos() <= def.Pos() || as.End() > use.Pos() {
			return true
		}
		for _, l := range as.Lhs {
			if o := usesObj(info, l); o == v {
				re = true
			}
		}
		return true
	})
	return re
}

// tokenExclusion: the panic (or any node) n is reached only when the Type of one Token-typed
// variable differs from each of a list of constants (path facts: default arm of a switch over
// tok.Type, the tail of an if-chain, guards that returned). Returns the variable and the constants.
func tokenExclusion(info *types.Info, par map[ast.Node]ast.Node, n ast.Node) (types.Object, map[string]bool) {
	var tok types.Object
	handled := map[string]bool{}
	for _, f := range pathConds(info, par, n) {
		l, op, r, ok := cmpFact(f.e, !f.neg)
		if !ok || op != token.NEQ {
			continue
		}
		for _, pr := range [][2]ast.Expr{{l, r}, {r, l}} {
			sel, isSel := ast.Unparen(pr[0]).(*ast.SelectorExpr)
			if !isSel || sel.Sel.Name != "Type" || !typeIs(info.TypeOf(sel.X), "simplelexer", "Token") {
				continue
			}
			k, isK := usesObj(info, pr[1]).(*types.Const)
			o := usesObj(info, sel.X)
			if !isK || o == nil || (tok != nil && tok != o) {
				continue
			}
			tok = o
			handled[k.Name()] = true
		}
	}
	// the table form: `v, ok := T[tok.Type]` with T a constant table, and the node lies where !ok holds:
	// the token types that reach it are those that are not keys of T
	if tok == nil && tableProg != nil {
		root := ast.Node(nil)
		for q := n; q != nil; q = par[q] {
			root = q
		}
		for _, f := range pathConds(info, par, n) {
			id, isId := ast.Unparen(f.e).(*ast.Ident)
			if !isId || !f.neg {
				continue
			}
			okObj := info.Uses[id]
			ast.Inspect(root, func(m ast.Node) bool {
				as, isAs := m.(*ast.AssignStmt)
				if !isAs || len(as.Lhs) != 2 || len(as.Rhs) != 1 || usesObj(info, as.Lhs[1]) != okObj {
					return true
				}
				key, entries, isTbl := constTable(tableProg, tablePkg, as.Rhs[0])
				if !isTbl {
					return true
				}
				sel, isSel := ast.Unparen(key).(*ast.SelectorExpr)
				if !isSel || sel.Sel.Name != "Type" || !typeIs(info.TypeOf(sel.X), "simplelexer", "Token") {
					return true
				}
				if o := usesObj(info, sel.X); o != nil {
					tok = o
					for _, en := range entries {
						if en.Key != nil {
							handled[en.Key.Name()] = true
						}
					}
				}
				return true
			})
		}
	}
	return tok, handled
}

// set by the CRASH rules before they walk internal/parser (constTable needs the package)
var (
	tableProg *Program
	tablePkg  *packages.Package
)

// constWidth computes High - Low of a slice expression when it is a constant: the variable parts
// must cancel, after locals have been replaced by the constant they hold at that point (assigned
// in the enclosing case arm, else the constant they were defined with).
func constWidth(info *types.Info, file *ast.File, sl *ast.SliceExpr) (int64, bool) {
	fn := enclosingFuncNode(file, sl)
	if fn == nil {
		return 0, false
	}
	env := map[string]int64{}
	ast.Inspect(fn, func(n ast.Node) bool {
		if as, ok := n.(*ast.AssignStmt); ok && as.Tok == token.DEFINE && len(as.Lhs) == len(as.Rhs) {
			for i, l := range as.Lhs {
				if v, isC := constInt(info, as.Rhs[i]); isC {
					if o := usesObj(info, l); o != nil {
						env[o.Name()] = v
					}
				}
			}
		}
		return true
	})
	par := parents(fn)
	for q := par[ast.Node(sl)]; q != nil; q = par[q] {
		if cc, ok := q.(*ast.CaseClause); ok {
			for _, st := range cc.Body {
				if as, ok := st.(*ast.AssignStmt); ok && as.Tok == token.ASSIGN && len(as.Lhs) == len(as.Rhs) && as.End() <= sl.Pos() {
					for i, l := range as.Lhs {
						if v, isC := constInt(info, as.Rhs[i]); isC {
							if o := usesObj(info, l); o != nil {
								env[o.Name()] = v
							}
						}
					}
				}
			}
			break
		}
	}
	// a local is only substituted if all its writes are constant assignments
	nonConst := map[string]bool{}
	ast.Inspect(fn, func(n ast.Node) bool {
		switch x := n.(type) {
		case *ast.AssignStmt:
			for i, l := range x.Lhs {
				o := usesObj(info, l)
				if o == nil {
					continue
				}
				if len(x.Lhs) != len(x.Rhs) || x.Tok != token.ASSIGN && x.Tok != token.DEFINE {
					nonConst[o.Name()] = true
					continue
				}
				if _, isC := constInt(info, x.Rhs[i]); !isC {
					nonConst[o.Name()] = true
				}
			}
		case *ast.IncDecStmt:
			if o := usesObj(info, x.X); o != nil {
				nonConst[o.Name()] = true
			}
		}
		return true
	})
	lt, lk := linearForm(info, nil, sl.Low)
	ht, hk := linearForm(info, nil, sl.High)
	w := hk - lk
	for a, co := range lt {
		ht[a] -= co
	}
	for a, co := range ht {
		if co == 0 {
			continue
		}
		v, known := env[a]
		if !known || nonConst[a] {
			return 0, false
		}
		w += co * v
	}
	return w, true
}

// ---- CRASH-8: the "cannot happen" belief of Context.CreateMode holds at every call site ----
//
// CreateMode panics when the mode already exists and relies on its callers: a mode name reaches it
// only after RegisterName accepted it (the single name table rejects a second declaration with a
// diagnostic). Each call site must therefore either pass a constant that no other site passes, or
// sit on a path where RegisterName(<the same name>, …) returned true.
func ruleCRASH8(c *Ctx) {
	const rule = "CRASH-8"
	p := c.Prog
	pk, cm := p.FuncDecl("internal/ast", "Context.CreateMode")
	if cm == nil {
		c.unres(rule, "ast.Context.CreateMode", "", "function not found")
		return
	}
	info := pk.TypesInfo
	// the belief: a panic under "the name is already in the mode table"
	hasBelief := false
	cmPar := parents(cm)
	ast.Inspect(cm.Body, func(n ast.Node) bool {
		call, ok := n.(*ast.CallExpr)
		if !ok || !isPanicCall(info, call) {
			return true
		}
		for _, f := range pathConds(info, cmPar, call) {
			if o := usesObj(info, f.e); o != nil && !f.neg && commaOK(info, cm)[o] == "index" {
				hasBelief = true
			}
			if l, op, r, ok := cmpFact(f.e, !f.neg); ok && op == token.NEQ && (exprString(l) == "nil" || exprString(r) == "nil") {
				hasBelief = true
			}
		}
		return true
	})
	if !hasBelief {
		c.ok(rule, "ast.Context.CreateMode/no-panic", p.Pos(cm.Pos()), "CreateMode does not panic on an existing mode: nothing to discharge at its call sites")
		return
	}
	cmObj, _ := info.Defs[cm.Name].(*types.Func)
	constSites := map[string]int{}
	nSites := 0
	for _, f := range pk.Syntax {
		if isTestFile(p.Fset, f) {
			continue
		}
		for _, d := range f.Decls {
			fd, ok := d.(*ast.FuncDecl)
			if !ok || fd.Body == nil {
				continue
			}
			par := parents(fd)
			ast.Inspect(fd.Body, func(n ast.Node) bool {
				call, ok := n.(*ast.CallExpr)
				if !ok || calleeFunc(info, call) != cmObj || len(call.Args) != 1 {
					return true
				}
				nSites++
				construct := funcKey(pk, fd) + "/CreateMode(" + truncate(exprString(call.Args[0]), 30) + ")"
				if s, isConst := constString(info, call.Args[0]); isConst {
					constSites[s]++
					c.check(constSites[s] == 1, rule, construct, p.Pos(call.Pos()), "the built-in mode name is created at this one site", "the same constant mode name is created at two sites: the second panics")
					return true
				}
				registered := holds(pathConds(info, par, call), func(e ast.Expr, pos bool) bool {
					rc, ok := ast.Unparen(e).(*ast.CallExpr)
					if !ok || !pos || len(rc.Args) < 1 {
						return false
					}
					fn := calleeFunc(info, rc)
					return fn != nil && fn.Name() == "RegisterName" && sameExpr(rc.Args[0], call.Args[0])
				})
				c.check(registered, rule, construct, p.Pos(call.Pos()),
					"reached only after RegisterName accepted the same name: a second declaration was rejected with a diagnostic before",
					"CreateMode is reached before RegisterName accepted the name: declaring the mode twice panics (`mode redefined`) instead of printing `… redefined`")
				return true
			})
		}
	}
	if nSites == 0 {
		c.unres(rule, "ast.Context.CreateMode/call-sites", "", "no call site found")
	}
}

// ---- CRASH-9: no panic on what the environment returned ----
//
// A `panic` whose controlling condition tests the result (value or error) of a call that leaves the
// module - the operating system, go/packages, go/types scope lookups, the formatter - crashes lox
// for reasons that lie in the environment (a directory reached through a symbolic link, an
// unwritable path, a deleted working directory), where the property demands a diagnostic and exit 1.
// Pinned tree: fired four times (ParseGo x3, realMain); repaired by 24a5075. Exceptions are
// conditions on the module's own constant templates.
var crash9Exceptions = map[string]string{
	"codegen.renderTemplate": "the templates are constants of the module: Jet parse/execute errors and go/format failures on their rendering are defects of lox, not of the input (covered by the test suite rendering every template)",
	"parser.hexToRune":       "strconv on at most 8 hex digits validated by the lexer (CRASH-1 / CRASH-3 decide it)",
}

func ruleCRASH9(c *Ctx) {
	const rule = "CRASH-9"
	p := c.Prog
	n := 0
	p.ProdFiles(func(pk *packages.Package, f *ast.File) {
		info := pk.TypesInfo
		for _, d := range f.Decls {
			fd, ok := d.(*ast.FuncDecl)
			if !ok || fd.Body == nil {
				continue
			}
			par := parents(fd)
			defs := localDefs(info, fd)
			ast.Inspect(fd.Body, func(m ast.Node) bool {
				call, ok := m.(*ast.CallExpr)
				if !ok || builtinName(info, call) != "panic" {
					return true
				}
				n++
				// variables mentioned by the conditions that lead here
				var extern *types.Func
				var via string
				for _, fct := range pathConds(info, par, call) {
					ast.Inspect(fct.e, func(k ast.Node) bool {
						id, ok := k.(*ast.Ident)
						if !ok || extern != nil {
							return true
						}
						o := info.Uses[id]
						if o == nil {
							return true
						}
						def := defs[o]
						if def == nil {
							def = multiDefCall(info, fd, o)
						}
						dc, ok := ast.Unparen(def).(*ast.CallExpr)
						if !ok {
							return true
						}
						fn := calleeFunc(info, dc)
						if fn == nil || fn.Pkg() == nil || strings.HasPrefix(fn.Pkg().Path(), modPath) {
							return true
						}
						switch fn.Pkg().Path() {
						case "strings", "unicode/utf8", "unicode", "slices", "maps", "sort", "bytes", "math", "cmp":
							return true // pure functions of their arguments
						}
						extern, via = fn, id.Name
						return true
					})
				}
				if extern == nil {
					return true
				}
				key := funcKey(pk, fd)
				construct := fmt.Sprintf("%s/panic-on(%s)", key, fullName(extern))
				if why, ok := crash9Exceptions[key]; ok {
					c.ok(rule, construct, p.Pos(call.Pos()), "exception: %s", why)
					return true
				}
				c.bad(rule, construct, p.Pos(call.Pos()), "panic under a condition on `%s`, the result of %s: a failure of the environment (file system, loaded package, working directory) crashes lox instead of producing a diagnostic and exit status 1", via, fullName(extern))
				return true
			})
		}
	})
	if n < 10 {
		c.unres(rule, "panics", "", "only %d panic calls found in production code; more than 20 were counted by hand", n)
	}
	c.ok(rule, "panics-scanned", "", "%d panic calls in production code examined: none is conditioned on a result obtained from outside the module, except the listed exceptions", n)
}

// multiDefCall: o is defined by `a, o := f(...)` (a tuple assignment, which localDefs does not
// record); returns the call.
func multiDefCall(info *types.Info, fd *ast.FuncDecl, o types.Object) ast.Expr {
	var out ast.Expr
	ast.Inspect(fd.Body, func(m ast.Node) bool {
		as, ok := m.(*ast.AssignStmt)
		if !ok || len(as.Rhs) != 1 || len(as.Lhs) < 2 {
			return true
		}
		for _, l := range as.Lhs {
			if id, ok := l.(*ast.Ident); ok && (info.Defs[id] == o || info.Uses[id] == o) {
				if call, ok := as.Rhs[0].(*ast.CallExpr); ok && out == nil {
					out = call
				}
			}
		}
		return true
	})
	return out
}

// ---- CRASH-10: nothing logs an error in the Normalize pass ----
//
// ParserTerm.normalize re-runs the earlier passes on the helper rules it creates and then asserts
// that no error has been logged. The assertion is sound only if no diagnostic can be produced
// during the Normalize pass itself (every check belongs to CreateNames/Check, after which Analyze
// stops): an Errorf under `pass == Normalize` anywhere in internal/ast turns a reportable fault
// into an assertion failure as soon as a later statement contains `x*`, `x+`, `x?` or @list.
// (The first version of repair #23 did exactly that and was corrected by fix 2c-"Check pass".)
func ruleCRASH10(c *Ctx) {
	const rule = "CRASH-10"
	p := c.Prog
	pk := p.Pkg("internal/ast")
	if pk == nil {
		c.unres(rule, "internal/ast", "", "package not found")
		return
	}
	info := pk.TypesInfo
	// the assertion exists?
	_, nfd := p.FuncDecl("internal/ast", "ParserTerm.normalize")
	asserts := false
	if nfd != nil {
		scope := []ast.Node{nfd}
		for _, sc := range funcScope(p, pk, nfd, 2) {
			scope = append(scope, sc.node)
		}
		for _, n := range scope {
			ast.Inspect(n, func(m ast.Node) bool {
				if call, ok := m.(*ast.CallExpr); ok && isAssertFunc(calleeFunc(info, call)) && strings.Contains(exprString(call), "HasError") {
					asserts = true
				}
				return true
			})
		}
	}
	if !asserts {
		c.ok(rule, "ast.ParserTerm.normalize/assert", "", "normalize no longer asserts the absence of logged errors: nothing to protect")
		return
	}
	normalizeConst := lookupConst(p, "internal/ast", "Normalize")
	n := 0
	for _, f := range pk.Syntax {
		if isTestFile(p.Fset, f) {
			continue
		}
		for _, d := range f.Decls {
			fd, ok := d.(*ast.FuncDecl)
			if !ok || fd.Body == nil {
				continue
			}
			par := parents(fd)
			ast.Inspect(fd.Body, func(m ast.Node) bool {
				call, ok := m.(*ast.CallExpr)
				if !ok || !isErrLoggerMethod(calleeFunc(info, call)) {
					return true
				}
				n++
				for _, fct := range pathConds(info, par, call) {
					l, op, r, ok := cmpFact(fct.e, !fct.neg)
					if !ok || op != token.EQL {
						continue
					}
					if (normalizeConst != nil && (usesObj(info, l) == types.Object(normalizeConst) || usesObj(info, r) == types.Object(normalizeConst))) {
						c.bad(rule, funcKey(pk, fd)+"/error-in-normalize-pass", p.Pos(call.Pos()),
							"a diagnostic is logged under `pass == Normalize`: ParserTerm.normalize asserts that no error has been logged, so the same fault in a specification with a cardinality term (x*, x+, x?, @list) ends in an assertion failure instead of the diagnostic")
					}
				}
				return true
			})
		}
	}
	c.ok(rule, "internal/ast/diagnostics-before-normalize", "", "%d diagnostic call sites of internal/ast examined: none is conditioned on the Normalize pass, so normalize's no-error assertion cannot be tripped by a reportable fault", n)
	if n < 20 {
		c.unres(rule, "internal/ast/diagnostics", "", "only %d ErrLogger call sites found in internal/ast", n)
	}
}

// ---- CRASH-11: the recursive macro expansion is guarded ----
//
// MacroRule.NFACons expands the macro's expression, which expands the macros it references: a
// reference cycle that reaches it recurses until the stack overflows (no diagnostic, exit 2). The
// in-expansion flag must be set before and cleared after the recursive expansion and a re-entry
// must be reported - or NFACons must not recurse at all. (WF-1 demands the same flag for C17; seed
// C12-F removed it as "redundant" next to a declaration-time search that misses some cycles.)
func ruleCRASH11(c *Ctx) {
	const rule = "CRASH-11"
	p := c.Prog
	pk, fd := p.FuncDecl("internal/ast", "MacroRule.NFACons")
	if fd == nil {
		c.unres(rule, "ast.MacroRule.NFACons", "", "function not found")
		return
	}
	info := pk.TypesInfo
	var rec *ast.CallExpr
	ast.Inspect(fd.Body, func(n ast.Node) bool {
		if call, ok := n.(*ast.CallExpr); ok {
			if sel, ok := call.Fun.(*ast.SelectorExpr); ok && sel.Sel.Name == "NFACons" {
				rec = call
			}
		}
		return true
	})
	if rec == nil {
		c.ok(rule, "ast.MacroRule.NFACons/recursion-guard", p.Pos(fd.Pos()), "NFACons does not expand other nodes recursively")
		return
	}
	// a boolean field of the macro: set true before the recursive call, false after it, and tested on entry
	var flag *types.Var
	var set, clr token.Pos
	ast.Inspect(fd.Body, func(n ast.Node) bool {
		as, ok := n.(*ast.AssignStmt)
		if !ok || len(as.Lhs) != 1 || len(as.Rhs) != 1 {
			return true
		}
		fv, _ := selField(info, as.Lhs[0])
		if fv == nil || !isBool(fv.Type()) || !typeIs(info.TypeOf(as.Lhs[0].(*ast.SelectorExpr).X), "internal/ast", "MacroRule") {
			return true
		}
		switch exprString(as.Rhs[0]) {
		case "true":
			if as.Pos() < rec.Pos() {
				flag, set = fv, as.Pos()
			}
		case "false":
			if as.Pos() > rec.End() {
				clr = as.Pos()
			}
		}
		return true
	})
	tested := false
	if flag != nil {
		par := parents(fd)
		ast.Inspect(fd.Body, func(n ast.Node) bool {
			call, ok := n.(*ast.CallExpr)
			if !ok || !(isErrLoggerMethod(calleeFunc(info, call)) || isPanicCall(info, call)) {
				return true
			}
			for _, fct := range pathConds(info, par, call) {
				if fv, _ := selField(info, fct.e); fv == flag && !fct.neg && isErrLoggerMethod(calleeFunc(info, call)) {
					tested = true
				}
			}
			return true
		})
		// the re-entry branch must not reach the recursive call
		ast.Inspect(fd.Body, func(n ast.Node) bool {
			ifs, ok := n.(*ast.IfStmt)
			if !ok {
				return true
			}
			if fv, _ := selField(info, ifs.Cond); fv == flag && !stmtsTerminate(info, ifs.Body.List) {
				tested = false
			}
			return true
		})
	}
	c.check(flag != nil && set.IsValid() && clr.IsValid() && tested, rule, "ast.MacroRule.NFACons/recursion-guard", p.Pos(fd.Pos()),
		"the recursive expansion runs between `flag = true` and `flag = false`, and entering with the flag set logs an error and returns: a reference cycle cannot recurse for ever",
		"the recursive expansion of a macro is not protected by an in-expansion flag that is tested on entry (with a diagnostic), set before and cleared after the expansion: a reference cycle that reaches NFACons overflows the stack (no diagnostic, exit 2)")
}

// ---- CRASH-12: an action's productions are indexed only where it has some ----
//
// lr1.Action.Prods is empty for the accept action (AddAccept records no production), holds one
// production for a reduce and one or more for a shift. `a.Prods[k]` is therefore safe only where
// the path establishes the action's type (reduce or shift) or the length of the list; in a cell
// with several candidate actions the accept action can be any of them (seed C12-G indexed
// actions[0].Prods[0] while printing a conflict).
func ruleCRASH12(c *Ctx) {
	const rule = "CRASH-12"
	p := c.Prog
	n := 0
	p.ProdFiles(func(pk *packages.Package, f *ast.File) {
		info := pk.TypesInfo
		for _, d := range f.Decls {
			fd, ok := d.(*ast.FuncDecl)
			if !ok || fd.Body == nil {
				continue
			}
			par := parents(fd)
			defs := localDefs(info, fd)
			ast.Inspect(fd.Body, func(m ast.Node) bool {
				ix, ok := m.(*ast.IndexExpr)
				if !ok || !isField(info, ix.X, "parsergen/lr1", "Action", "Prods") {
					return true
				}
				n++
				base := ast.Unparen(ix.X).(*ast.SelectorExpr).X
				baseObj := usesObj(info, base)
				sameBase := func(e ast.Expr) bool {
					if baseObj != nil && usesObj(info, e) == baseObj {
						return true
					}
					return sameExpr(resolveVia(info, defs, e), resolveVia(info, defs, base))
				}
				okFact := false
				facts := expandFacts(info, defs, pathConds(info, par, ix))
				for _, fct := range facts {
					l, op, r, ok := cmpFact(fct.e, !fct.neg)
					if !ok {
						continue
					}
					// a.Type == ActionReduce / ActionShift
					if op == token.EQL && isField(info, l, "parsergen/lr1", "Action", "Type") && sameBase(ast.Unparen(l).(*ast.SelectorExpr).X) {
						if k, isK := usesObj(info, r).(*types.Const); isK && (k.Name() == "ActionReduce" || k.Name() == "ActionShift") {
							okFact = true
						}
					}
					// len(a.Prods) > k, == n (n > k), != 0 …
					for _, side := range [][2]ast.Expr{{l, r}, {r, l}} {
						call, isCall := ast.Unparen(side[0]).(*ast.CallExpr)
						if !isCall || builtinName(info, call) != "len" || len(call.Args) != 1 || !isField(info, call.Args[0], "parsergen/lr1", "Action", "Prods") {
							continue
						}
						if !sameBase(ast.Unparen(call.Args[0]).(*ast.SelectorExpr).X) {
							continue
						}
						if v, isC := constInt(info, side[1]); isC {
							kIdx, _ := constInt(info, ix.Index)
							lenFirst := side[0] == l
							switch {
							case op == token.EQL && v > kIdx:
								okFact = true
							case lenFirst && op == token.GTR && v >= kIdx, lenFirst && op == token.GEQ && v > kIdx, lenFirst && op == token.NEQ && v == 0 && kIdx == 0:
								okFact = true
							case !lenFirst && op == token.LSS && v >= kIdx, !lenFirst && op == token.LEQ && v > kIdx:
								okFact = true
							}
						}
					}
				}
				// an assertion on the length just before (assert.True(len(x.Prods) == 1))
				for q := ast.Node(ix); q != nil && !okFact; q = par[q] {
					if _, isStmt := q.(ast.Stmt); !isStmt {
						continue
					}
					if _, isLit := q.(*ast.BlockStmt); isLit {
						continue
					}
					for _, st := range enclosingList(par, q) {
						if st.End() > ix.Pos() {
							break
						}
						es, isES := st.(*ast.ExprStmt)
						if !isES {
							continue
						}
						call, isCall := es.X.(*ast.CallExpr)
						if !isCall || !isAssertFunc(calleeFunc(info, call)) || len(call.Args) < 1 {
							continue
						}
						if strings.Contains(exprString(call.Args[0]), "len("+exprString(ix.X)+")") {
							okFact = true
						}
					}
				}
				c.check(okFact, rule, fmt.Sprintf("%s/index(%s)", funcKey(pk, fd), exprString(ix)), p.Pos(ix.Pos()),
					"the action's productions are indexed where its type (reduce/shift) or the length of the list is established",
					fmt.Sprintf("`%s` is evaluated without knowing that the action has productions: the accept action has none, and in a conflicting cell it can be any of the candidates (index out of range instead of the conflict diagnostic)", exprString(ix)))
				return true
			})
		}
	})
	if n < 3 {
		c.unres(rule, "lr1.Action.Prods/index-sites", "", "only %d index expressions on Action.Prods found; 5 were confirmed by hand", n)
	}
}

func enclosingStmt(par map[ast.Node]ast.Node, n ast.Node) ast.Node {
	for q := n; q != nil; q = par[q] {
		if _, ok := q.(ast.Stmt); ok {
			if _, isBlock := par[q].(*ast.BlockStmt); isBlock {
				return q
			}
			if _, isCC := par[q].(*ast.CaseClause); isCC {
				return q
			}
		}
	}
	return n
}
