check("C13", "proof",
      "Proof of a sufficient static condition: every construct through which map order, time, environment, addresses, goroutines or stale files could reach the generated files or the --report text is enumerated in the production packages and each instance is discharged by an order-independence idiom (collect-then-sort, set-consumer, commutative body), a confinement argument, or a must-precede check on the generation stages. Right level because determinism is a fact about the shape of the code on every path, not about sampled runs.",
      "Trusted: Jet, go/format, go/types, go/packages, filepath.Glob deterministic; sort comparators listed in evidence are injective on the sorted elements; diagnostics (ErrLogger) are outside the output set; x/tools go/types+go/cfg and the checker's Jet-subset parser.",
      "enumerate-and-discharge dataflow/CFG rules over typed AST (go/packages, go/cfg): map-range idiom classification, who-may-call deny list, stage must-precede, file-write ownership",
      "DESIGN.md 3/C13")

for pid in ["C01","C02","C03","C04","C05","C06","C07","C08","C09","C10","C11","C12","C14","C15","C16","C17","C18","C19"]:
    na(pid, "check under construction in this session; see DESIGN.md section 3 for the planned rules")
