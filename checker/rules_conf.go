package main

// C18 — generated parsers and lexers keep all mutable state in their instances.
// A may-alias taint analysis over SSA: package-level variables are shared locations; a write
// through anything derived from them (or letting it escape to unknown code) is a violation.

import (
	"fmt"
	"go/ast"
	"go/importer"
	"go/parser"
	"go/token"
	"go/types"
	"os"
	"path/filepath"
	"sort"
	"strings"

	"golang.org/x/tools/go/ssa"
	"golang.org/x/tools/go/ssa/ssautil"
)

type confFinding struct {
	pos  token.Pos
	fn   string
	what string
	key  string
}

type confResult struct {
	globals   []string
	funcs     int
	instrs    int
	stores    int
	findings  []confFinding
	taintedFl []string
}

// canCarryRef: values of this type can hold a reference to other memory.
func canCarryRef(t types.Type) bool {
	switch u := t.Underlying().(type) {
	case *types.Pointer, *types.Slice, *types.Map, *types.Chan, *types.Signature, *types.Interface:
		return true
	case *types.Struct:
		for i := 0; i < u.NumFields(); i++ {
			if canCarryRef(u.Field(i).Type()) {
				return true
			}
		}
	case *types.Array:
		return canCarryRef(u.Elem())
	case *types.Tuple:
		for i := 0; i < u.Len(); i++ {
			if canCarryRef(u.At(i).Type()) {
				return true
			}
		}
	case *types.TypeParam:
		return true
	}
	return false
}

// confAnalyse runs the taint analysis over fns. inScope tells whether a function belongs to the
// analysed (generated) code; isShared tells whether a global is a shared location of that code.
func confAnalyse(fns []*ssa.Function, inScope func(*ssa.Function) bool, isShared func(*ssa.Global) bool, fset *token.FileSet) *confResult {
	res := &confResult{}
	taint := map[ssa.Value]bool{}
	fieldContent := map[*types.Var]bool{} // private field may hold a shared reference
	elemContent := map[string]bool{}      // private container slot of this type may hold a shared reference
	retTaint := map[*ssa.Function]bool{}
	changed := true
	set := func(v ssa.Value) {
		if v == nil || taint[v] {
			return
		}
		if !canCarryRef(v.Type()) {
			return
		}
		taint[v] = true
		changed = true
	}
	tkey := func(t types.Type) string { return types.TypeString(t, nil) }
	fieldOfAddr := func(v ssa.Value) *types.Var {
		if fa, ok := v.(*ssa.FieldAddr); ok {
			st := deref(fa.X.Type()).Underlying().(*types.Struct)
			return st.Field(fa.Field)
		}
		return nil
	}
	globalsSeen := map[string]bool{}
	for changed {
		changed = false
		for _, fn := range fns {
			for _, b := range fn.Blocks {
				for _, ins := range b.Instrs {
					// operands that are shared globals
					for _, op := range ins.Operands(nil) {
						if g, ok := (*op).(*ssa.Global); ok && isShared(g) {
							globalsSeen[g.Name()] = true
							if !taint[g] {
								taint[g] = true
								changed = true
							}
						}
					}
					switch x := ins.(type) {
					case *ssa.UnOp:
						if x.Op == token.MUL {
							if taint[x.X] {
								set(x)
							}
							if f := fieldOfAddr(x.X); f != nil && fieldContent[f] {
								set(x)
							}
							if _, ok := x.X.(*ssa.IndexAddr); ok && elemContent[tkey(x.Type())] {
								set(x)
							}
						} else if taint[x.X] {
							set(x)
						}
					case *ssa.FieldAddr:
						if taint[x.X] {
							set(x)
						}
					case *ssa.Field:
						if taint[x.X] {
							set(x)
						}
						st := x.X.Type().Underlying().(*types.Struct)
						if fieldContent[st.Field(x.Field)] {
							set(x)
						}
					case *ssa.IndexAddr:
						if taint[x.X] {
							set(x)
						}
					case *ssa.Index:
						if taint[x.X] || elemContent[tkey(x.Type())] {
							set(x)
						}
					case *ssa.Lookup:
						if taint[x.X] || elemContent[tkey(x.Type())] {
							set(x)
						}
					case *ssa.Slice:
						if taint[x.X] {
							set(x)
						}
					case *ssa.Phi:
						for _, e := range x.Edges {
							if taint[e] {
								set(x)
							}
						}
					case *ssa.ChangeType:
						if taint[x.X] {
							set(x)
						}
					case *ssa.Convert:
						if taint[x.X] {
							set(x)
						}
					case *ssa.ChangeInterface:
						if taint[x.X] {
							set(x)
						}
					case *ssa.MakeInterface:
						if taint[x.X] {
							set(x)
						}
					case *ssa.TypeAssert:
						if taint[x.X] {
							set(x)
						}
					case *ssa.Extract:
						if taint[x.Tuple] {
							set(x)
						}
					case *ssa.SliceToArrayPointer:
						if taint[x.X] {
							set(x)
						}
					case *ssa.MakeClosure:
						if cf, ok := x.Fn.(*ssa.Function); ok {
							for i, bnd := range x.Bindings {
								if taint[bnd] && i < len(cf.FreeVars) {
									set(cf.FreeVars[i])
								}
							}
						}
					case *ssa.Store:
						if taint[x.Val] {
							if f := fieldOfAddr(x.Addr); f != nil && !fieldContent[f] {
								fieldContent[f] = true
								changed = true
							}
							if _, ok := x.Addr.(*ssa.IndexAddr); ok {
								k := tkey(x.Val.Type())
								if !elemContent[k] {
									elemContent[k] = true
									changed = true
								}
							}
							// store of a shared ref into a local variable cell: the cell's loads are tainted
							if al, ok := x.Addr.(*ssa.Alloc); ok {
								// model the cell as tainted content: mark loads via a synthetic field-less rule
								if !taint[al] {
									// we do not taint the address itself (writing the local is fine); instead remember
									// through elemContent keyed by the alloc's element type
									k := "alloc:" + al.Name() + "@" + fn.String()
									if !elemContent[k] {
										elemContent[k] = true
										changed = true
									}
								}
							}
						}
					case *ssa.Return:
						for _, r := range x.Results {
							if taint[r] && !retTaint[fn] {
								retTaint[fn] = true
								changed = true
							}
						}
					case ssa.CallInstruction:
						com := x.Common()
						if callee := com.StaticCallee(); callee != nil && inScope(callee) {
							args := com.Args
							for i, a := range args {
								if taint[a] && i < len(callee.Params) {
									set(callee.Params[i])
								}
							}
							if v, ok := ins.(ssa.Value); ok && retTaint[callee] {
								set(v)
							}
						} else if bi, ok := com.Value.(*ssa.Builtin); ok {
							switch bi.Name() {
							case "append":
								if v, ok := ins.(ssa.Value); ok {
									if taint[com.Args[0]] {
										set(v)
									}
								}
							case "min", "max":
							}
						}
					}
					// loads from local cells holding shared refs
					if u, ok := ins.(*ssa.UnOp); ok && u.Op == token.MUL {
						if al, ok := u.X.(*ssa.Alloc); ok && elemContent["alloc:"+al.Name()+"@"+fn.String()] {
							set(u)
						}
					}
				}
			}
		}
	}
	// sinks
	posOf := func(ins ssa.Instruction) token.Pos {
		if p := ins.Pos(); p.IsValid() {
			return p
		}
		// fall back to nearest instruction with a position in the same block
		for _, i2 := range ins.Block().Instrs {
			if i2.Pos().IsValid() {
				return i2.Pos()
			}
		}
		return ins.Parent().Pos()
	}
	add := func(ins ssa.Instruction, key, what string) {
		res.findings = append(res.findings, confFinding{pos: posOf(ins), fn: ins.Parent().String(), what: what, key: key})
	}
	for _, fn := range fns {
		res.funcs++
		for _, b := range fn.Blocks {
			for _, ins := range b.Instrs {
				res.instrs++
				switch x := ins.(type) {
				case *ssa.Store:
					res.stores++
					if taint[x.Addr] {
						add(ins, "store", fmt.Sprintf("writes through %s, which may point into package-level (shared) storage", describeValue(x.Addr)))
					}
					// handing out shared storage: a reference into package-level memory stored in a field of a
					// type the user's code receives (exported struct types of the generated files, e.g. Error):
					// whoever gets the value can write the shared table through it
					if taint[x.Val] && canCarryRef(x.Val.Type()) {
						if fa, ok := x.Addr.(*ssa.FieldAddr); ok {
							if nt, ok := deref(fa.X.Type()).(*types.Named); ok && nt.Obj().Exported() && nt.Obj().Pkg() != nil && nt.Obj().Pkg().Path() == "tmpl" {
								if st, ok := nt.Underlying().(*types.Struct); ok {
									add(ins, "hands-out", fmt.Sprintf("stores %s, a reference into package-level storage, in field %s of %s, which is handed to user code: an action that modifies it (filters, sorts, appends) writes the table shared by every instance", describeValue(x.Val), st.Field(fa.Field).Name(), nt.Obj().Name()))
								}
							}
						}
					}
				case *ssa.MapUpdate:
					if taint[x.Map] {
						add(ins, "mapupdate", fmt.Sprintf("updates map %s, which is (derived from) a package-level variable", describeValue(x.Map)))
					}
				case *ssa.Send:
					if taint[x.Chan] {
						add(ins, "send", "sends on a package-level channel")
					}
				case *ssa.Go:
					add(ins, "go", "starts a goroutine inside generated code")
				case ssa.CallInstruction:
					com := x.Common()
					if bi, ok := com.Value.(*ssa.Builtin); ok {
						switch bi.Name() {
						case "append", "copy", "clear", "delete", "close":
							if len(com.Args) > 0 && taint[com.Args[0]] {
								add(ins, bi.Name(), fmt.Sprintf("%s on %s, which may alias package-level (shared) storage", bi.Name(), describeValue(com.Args[0])))
							}
						}
						continue
					}
					callee := com.StaticCallee()
					if callee != nil && inScope(callee) {
						continue
					}
					// unknown code: tainted arguments escape
					for _, a := range com.Args {
						if taint[a] {
							name := "dynamic call"
							if callee != nil {
								name = callee.String()
							} else if com.IsInvoke() {
								name = "interface method " + com.Method.Name()
							}
							add(ins, "escape", fmt.Sprintf("passes %s (may alias package-level storage) to %s, which is outside the generated code", describeValue(a), name))
						}
					}
				}
			}
		}
	}
	for g := range globalsSeen {
		res.globals = append(res.globals, g)
	}
	sort.Strings(res.globals)
	for f := range fieldContent {
		res.taintedFl = append(res.taintedFl, f.Name())
	}
	sort.Strings(res.taintedFl)
	return res
}

func describeValue(v ssa.Value) string {
	switch x := v.(type) {
	case *ssa.Global:
		return "global " + x.Name()
	case *ssa.IndexAddr:
		return "element of " + describeValue(x.X)
	case *ssa.FieldAddr:
		return "field of " + describeValue(x.X)
	case *ssa.UnOp:
		if x.Op == token.MUL {
			return "*" + describeValue(x.X)
		}
	case *ssa.Parameter:
		return "parameter " + x.Name()
	case *ssa.Slice:
		return "slice of " + describeValue(x.X)
	case *ssa.Phi:
		return "phi " + x.Comment
	}
	return v.Name() + " (" + v.Type().String() + ")"
}

// functionsOfPackage collects the source functions of pkg, their anonymous functions and the
// generic instances whose origin is in pkg, optionally filtered by file name.
func functionsOfPackage(prog *ssa.Program, pkg *ssa.Package, fileOK func(name string) bool) []*ssa.Function {
	seen := map[*ssa.Function]bool{}
	var out []*ssa.Function
	var work []*ssa.Function
	belongs := func(fn *ssa.Function) bool {
		root := fn
		for root.Parent() != nil {
			root = root.Parent()
		}
		org := root
		if o := root.Origin(); o != nil {
			org = o
		}
		if org.Pkg != pkg {
			return false
		}
		if fileOK != nil {
			pos := org.Pos()
			if !pos.IsValid() || !fileOK(prog.Fset.Position(pos).Filename) {
				return false
			}
		}
		return true
	}
	push := func(fn *ssa.Function) {
		if fn == nil || seen[fn] || !belongs(fn) {
			return
		}
		seen[fn] = true
		work = append(work, fn)
	}
	for _, m := range pkg.Members {
		switch x := m.(type) {
		case *ssa.Function:
			push(x)
		case *ssa.Type:
			for _, t := range []types.Type{x.Type(), types.NewPointer(x.Type())} {
				ms := prog.MethodSets.MethodSet(t)
				for i := 0; i < ms.Len(); i++ {
					if fn := prog.MethodValue(ms.At(i)); fn != nil {
						push(fn)
					}
				}
			}
		}
	}
	for len(work) > 0 {
		fn := work[len(work)-1]
		work = work[:len(work)-1]
		if fn.Blocks == nil || fn.Synthetic == "package initializer" {
			// the initializer runs once, before any instance exists; what it may contain is decided by CONF-3
			continue
		}
		out = append(out, fn)
		for _, a := range fn.AnonFuncs {
			push(a)
		}
		for _, b := range fn.Blocks {
			for _, ins := range b.Instrs {
				if ci, ok := ins.(ssa.CallInstruction); ok {
					push(ci.Common().StaticCallee())
				}
				if mc, ok := ins.(*ssa.MakeClosure); ok {
					if f, ok := mc.Fn.(*ssa.Function); ok {
						push(f)
					}
				}
			}
		}
	}
	sort.Slice(out, func(i, j int) bool { return out[i].String() < out[j].String() })
	return out
}

func ruleCONF12(c *Ctx) {
	const rule = "CONF-2"
	ta := c.tmplOrUnres("CONF-1")
	if ta == nil {
		return
	}
	for _, ti := range ta.Variants {
		pkg := ti.SSA()
		fns := functionsOfPackage(pkg.Prog, pkg, nil)
		set := map[*ssa.Function]bool{}
		for _, f := range fns {
			set[f] = true
		}
		// generic origins count as in scope too (calls resolve to instances, but be safe)
		inScope := func(f *ssa.Function) bool {
			if set[f] {
				return true
			}
			if o := f.Origin(); o != nil && o.Pkg == pkg {
				return true
			}
			return f.Pkg == pkg
		}
		isShared := func(g *ssa.Global) bool { return g.Pkg == pkg && !strings.HasPrefix(g.Name(), "init$") }
		r := confAnalyse(fns, inScope, isShared, ti.Fset)
		variant := "templates[" + ti.FlagString() + "]"
		c.ok("CONF-1", variant+"/sources", "", "%d package-level variables are shared locations: %s; %d functions, %d SSA instructions, %d stores analysed; private fields that may hold references to shared tables: %s",
			len(r.globals), strings.Join(r.globals, ","), r.funcs, r.instrs, r.stores, strings.Join(r.taintedFl, ","))
		if len(r.globals) < 5 {
			c.unres("CONF-1", variant+"/sources-floor", "", "only %d package-level variables found in the instantiated templates; expected the parser and lexer tables", len(r.globals))
		}
		if len(r.findings) == 0 {
			c.ok(rule, variant+"/sinks", "", "no store, map update, append/copy/clear, channel operation or escape to code outside the templates has an operand derived from a package-level variable")
		}
		for _, f := range r.findings {
			c.bad(rule, fmt.Sprintf("%s/%s/%s", variant, shortFn(f.fn), f.key), ti.Pos(f.pos), "%s", f.what)
		}
	}
}

func shortFn(s string) string {
	s = strings.ReplaceAll(s, "tmpl.", "")
	return s
}

// CONF-3: package-level initialisation of the templates.
func ruleCONF3(c *Ctx) {
	const rule = "CONF-3"
	ta := c.tmplOrUnres(rule)
	if ta == nil {
		return
	}
	for _, ti := range ta.Variants {
		variant := "templates[" + ti.FlagString() + "]"
		nvars := 0
		for name, f := range ti.Files {
			if name == "" {
				continue
			}
			for _, imp := range f.Imports {
				path := strings.Trim(imp.Path.Value, `"`)
				switch path {
				case "unsafe", "reflect", "sync", "sync/atomic":
					c.bad(rule, variant+"/"+name+"/import("+path+")", ti.Pos(imp.Pos()), "template imports %s: generated code must not share or reinterpret state", path)
				}
			}
			for _, d := range f.Decls {
				switch x := d.(type) {
				case *ast.FuncDecl:
					if x.Recv == nil && x.Name.Name == "init" {
						c.bad(rule, variant+"/"+name+"/init", ti.Pos(x.Pos()), "template declares an init function: package-level state is computed at run time")
					}
					ast.Inspect(x, func(n ast.Node) bool {
						if g, ok := n.(*ast.GoStmt); ok {
							c.bad(rule, variant+"/"+name+"/go", ti.Pos(g.Pos()), "go statement in generated code")
						}
						return true
					})
				case *ast.GenDecl:
					if x.Tok != token.VAR {
						continue
					}
					for _, sp := range x.Specs {
						vs := sp.(*ast.ValueSpec)
						for i, nm := range vs.Names {
							nvars++
							construct := variant + "/" + name + "/var " + nm.Name
							if i >= len(vs.Values) {
								c.bad(rule, construct, ti.Pos(nm.Pos()), "package-level variable without a constant initialiser: it exists to be written at run time")
								continue
							}
							if why := nonConstInit(ti.Info, vs.Values[i]); why != "" {
								c.bad(rule, construct, ti.Pos(vs.Values[i].Pos()), "initialiser is not a literal of constants and tables: %s", why)
							} else {
								c.ok(rule, construct, ti.Pos(nm.Pos()), "initialised by a composite literal of constants / other tables")
							}
						}
					}
				}
			}
		}
		if nvars < 5 {
			c.unres(rule, variant+"/floor", "", "only %d package-level variables in the instantiated templates", nvars)
		}
	}
}

func nonConstInit(info *types.Info, e ast.Expr) string {
	switch x := ast.Unparen(e).(type) {
	case *ast.CompositeLit:
		switch info.TypeOf(x).Underlying().(type) {
		case *types.Slice, *types.Array:
		default:
			return "composite literal of type " + info.TypeOf(x).String()
		}
		for _, el := range x.Elts {
			if kv, ok := el.(*ast.KeyValueExpr); ok {
				el = kv.Value
			}
			if tv, ok := info.Types[el]; ok && tv.Value != nil {
				continue
			}
			if _, ok := el.(*ast.CompositeLit); ok {
				if why := nonConstInit(info, el); why != "" {
					return why
				}
				continue
			}
			if id, ok := el.(*ast.Ident); ok {
				if v, ok := info.Uses[id].(*types.Var); ok && v.Parent() == v.Pkg().Scope() {
					continue
				}
			}
			return "element `" + exprString(el) + "`"
		}
		return ""
	}
	if tv, ok := info.Types[e]; ok && tv.Value != nil {
		return ""
	}
	return "`" + truncate(exprString(e), 60) + "`"
}

// CONF-4 (thorough): the same analysis on the checked-in generated instances.
var instanceDirs = []string{"internal/parser", "examples/calc", "examples/jsonc", "examples/bolox"}

func ruleCONF4(c *Ctx) {
	const rule = "CONF-4"
	p := c.Prog
	prog := p.SSA()
	for _, dir := range instanceDirs {
		pk := p.Pkg(dir)
		if pk == nil {
			c.unres(rule, dir, "", "package not loaded")
			continue
		}
		sp := p.SSAPkg(pk)
		isGen := func(name string) bool { return strings.HasSuffix(name, ".gen.go") }
		fns := functionsOfPackage(prog, sp, isGen)
		set := map[*ssa.Function]bool{}
		for _, f := range fns {
			set[f] = true
		}
		inScope := func(f *ssa.Function) bool {
			if set[f] {
				return true
			}
			if o := f.Origin(); o != nil {
				return o.Pkg == sp && o.Pos().IsValid() && isGen(prog.Fset.Position(o.Pos()).Filename)
			}
			return false
		}
		isShared := func(g *ssa.Global) bool {
			return g.Pkg == sp && g.Pos().IsValid() && isGen(prog.Fset.Position(g.Pos()).Filename)
		}
		r := confAnalyse(fns, inScope, isShared, p.Fset)
		if len(fns) < 8 || len(r.globals) < 5 {
			c.unres(rule, dir+"/floor", "", "only %d generated functions / %d generated globals found", len(fns), len(r.globals))
		}
		if len(r.findings) == 0 {
			c.ok(rule, dir, "", "%d functions of *.gen.go, %d instructions, globals %s: no write through or escape of anything derived from them", r.funcs, r.instrs, strings.Join(r.globals, ","))
		}
		for _, f := range r.findings {
			c.bad(rule, fmt.Sprintf("%s/%s/%s", dir, f.fn, f.key), p.Pos(f.pos), "%s", f.what)
		}
	}
}

// positive fixture: a tiny generated-looking package with a shared scratch buffer must be flagged.
func ruleCONFFixture(c *Ctx, verif string) {
	const rule = "CONF-FIXTURE"
	dir := filepath.Join(verif, "fixtures", "CONF")
	ents, err := os.ReadDir(dir)
	if err != nil {
		c.unres(rule, "fixtures/CONF", "", "cannot read fixture directory: %v", err)
		return
	}
	for _, e := range ents {
		if !strings.HasSuffix(e.Name(), ".go") {
			continue
		}
		src, err := os.ReadFile(filepath.Join(dir, e.Name()))
		if err != nil {
			c.unres(rule, e.Name(), "", "%v", err)
			continue
		}
		fset := token.NewFileSet()
		f, err := parser.ParseFile(fset, e.Name(), src, 0)
		if err != nil {
			c.unres(rule, e.Name(), "", "fixture does not parse: %v", err)
			continue
		}
		pkg, _, err := ssautil.BuildPackage(&types.Config{Importer: importer.Default()}, fset, types.NewPackage("fixture", "fixture"), []*ast.File{f}, ssa.InstantiateGenerics)
		if err != nil {
			c.unres(rule, e.Name(), "", "fixture does not type-check: %v", err)
			continue
		}
		fns := functionsOfPackage(pkg.Prog, pkg, nil)
		inScope := func(fn *ssa.Function) bool {
			if o := fn.Origin(); o != nil {
				return o.Pkg == pkg
			}
			return fn.Pkg == pkg
		}
		r := confAnalyse(fns, inScope, func(g *ssa.Global) bool { return g.Pkg == pkg && !strings.HasPrefix(g.Name(), "init$") }, fset)
		wantClean := strings.HasPrefix(e.Name(), "ok_")
		switch {
		case wantClean && len(r.findings) == 0:
			c.ok(rule, e.Name(), "", "negative fixture stays silent (%d functions)", r.funcs)
		case wantClean:
			c.bad(rule, e.Name(), "", "negative fixture was flagged: %s (the analysis became imprecise)", r.findings[0].what)
		case len(r.findings) > 0:
			c.ok(rule, e.Name(), "", "positive fixture flagged as required: %s", r.findings[0].what)
		default:
			c.bad(rule, e.Name(), "", "positive fixture (shared mutable state) was NOT flagged: the analysis is disarmed")
		}
	}
	c.floor(rule, 3)
}
