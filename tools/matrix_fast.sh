#!/bin/bash
# usage: tools/matrix_fast.sh <patch-dir> <expect: silent|caught> [props (comma separated)|all]
# Like matrix_job.sh but loads the patched tree once for all properties (loxcheck -props).
d=$(realpath $1); expect=$2; props=${3:-}
id=$(basename $d)
if [ -z "$props" ]; then
  if [ "$expect" = caught ]; then props=$(python3 -c "import json;print(json.load(open('$d/meta.json'))['property'])")
  else props=all; fi
fi
wt=/tmp/mxwt/$id; vd=/tmp/mxv/$id
rm -rf $wt $vd; mkdir -p /tmp/mxwt $vd
git -C /repo worktree add -q --detach $wt HEAD || exit 2
cp -r /verif/fixtures /verif/known_findings.json /verif/properties.jsonl $vd/
if ! git -C $wt apply $d/patch.diff 2>/dev/null; then
  # the repository moved on (fix: commits) since the patch was written: try a three-way merge
  if ! git -C $wt apply --3way $d/patch.diff >/dev/null 2>&1 || git -C $wt diff --name-only --diff-filter=U | grep -q .; then
    echo "$id PATCH-DOES-NOT-APPLY"; git -C /repo worktree remove --force $wt; rm -rf $vd; exit 0; fi
fi
out=$(cd /verif && bin/loxcheck -props $props -tier ${TIER:-quick} -repo $wt -verif $vd 2>&1)
echo "$out" | awk -v id=$id -v expect=$expect '
  /^loxcheck property=/ { viol="" }
  /^  [A-Z]+-?[0-9A-Za-z]* / { last=$0 }
  /^VIOLATION/ { if (viol=="") viol=substr(last,1,260); else if (n[viol]++<1) viol=viol " | " substr(last,1,200) }
  /^checker panic/ { viol=$0 }
  /^== / { split($0,a," "); p=a[2]; rc=a[3];
     if (rc!="rc=0") { if (expect=="silent") print id, p, "FALSE-ALARM:", viol; else print id, p, "CAUGHT:", viol }
     else if (expect=="caught") print id, p, "MISSED";
     viol="" }'
git -C /repo worktree remove --force $wt; rm -rf $vd
echo "$id done"
