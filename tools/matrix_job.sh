#!/bin/bash
# usage: tools/matrix_job.sh <patch-dir> <expect: silent|caught> [props...]
# Applies the patch in its own worktree of /repo (under /tmp), runs the checks there, removes it.
d=$1; expect=$2; shift 2
id=$(basename $d)
props="$*"
if [ -z "$props" ]; then
  if [ "$expect" = caught ]; then props=$(python3 -c "import json;print(json.load(open('$d/meta.json'))['property'])")
  else props=$(python3 -c "import json;print(' '.join(c['property_id'] for c in json.load(open('/verif/MANIFEST.json'))['checks']))"); fi
fi
wt=/tmp/mxwt/$id; vd=/tmp/mxv/$id
rm -rf $wt $vd; mkdir -p /tmp/mxwt $vd
git -C /repo worktree add -q --detach $wt HEAD || exit 2
cp -r /verif/fixtures /verif/known_findings.json /verif/properties.jsonl $vd/
if ! git -C $wt apply $d/patch.diff 2>/dev/null; then echo "$id PATCH-DOES-NOT-APPLY"; git -C /repo worktree remove --force $wt; exit 0; fi
for p in $props; do
  out=$(cd /verif && bin/loxcheck -prop $p -tier ${TIER:-quick} -repo $wt -verif $vd 2>&1); rc=$?
  if [ $rc -ne 0 ]; then
    what=$(echo "$out" | grep -B1 '^VIOLATION' | grep -v '^VIOLATION' | grep -v '^--' | head -3 | cut -c1-220 | tr '\n' '|')
    [ "$expect" = silent ] && echo "$id $p FALSE-ALARM: $what" || echo "$id $p CAUGHT: $what"
  else
    [ "$expect" = caught ] && echo "$id $p MISSED"
  fi
done
git -C /repo worktree remove --force $wt; rm -rf $vd
echo "$id done"
