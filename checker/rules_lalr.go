package main

// C01 / C04 — structural ways in which the LALR(1) construction loses or invents lookaheads.

import (
	"fmt"
	"go/ast"
	"go/token"
	"go/types"
	"strings"

	"golang.org/x/tools/go/packages"
)

// ---- LALR-1: recursion guard that returns a truncated result ----

// recursionGuardFindings scans the given files for value-returning recursive functions with a
// `if seen.Has(x) { return <empty> }; seen.Add(x)` guard on a set that outlives the call.
func recursionGuardFindings(fset *token.FileSet, info *types.Info, files []*ast.File, pos func(token.Pos) string) (found []string, scanned int) {
	for _, f := range files {
		for _, d := range f.Decls {
			fd, ok := d.(*ast.FuncDecl)
			if !ok || fd.Body == nil || fd.Type.Results == nil || len(fd.Type.Results.List) == 0 {
				continue
			}
			self, _ := info.Defs[fd.Name].(*types.Func)
			if self == nil {
				continue
			}
			recursive := false
			ast.Inspect(fd.Body, func(n ast.Node) bool {
				if call, ok := n.(*ast.CallExpr); ok && calleeFunc(info, call) == self {
					recursive = true
				}
				return true
			})
			if !recursive {
				continue
			}
			scanned++
			params := map[types.Object]bool{}
			for _, fld := range fd.Type.Params.List {
				for _, nm := range fld.Names {
					params[info.Defs[nm]] = true
				}
			}
			// guard: if R.Has(x) { return ... } with R a parameter (shared by the whole traversal)
			ast.Inspect(fd.Body, func(n ast.Node) bool {
				ifs, ok := n.(*ast.IfStmt)
				if !ok || len(ifs.Body.List) != 1 {
					return true
				}
				ret, ok := ifs.Body.List[0].(*ast.ReturnStmt)
				if !ok || len(ret.Results) == 0 {
					return true
				}
				call, ok := ast.Unparen(ifs.Cond).(*ast.CallExpr)
				if !ok || len(call.Args) != 1 {
					return true
				}
				sel, ok := call.Fun.(*ast.SelectorExpr)
				if !ok || (sel.Sel.Name != "Has" && sel.Sel.Name != "Contains") {
					return true
				}
				recv := usesObj(info, sel.X)
				if recv == nil || !params[recv] {
					return true
				}
				// followed by R.Add(x) and never removed on exit
				added, removed := false, false
				ast.Inspect(fd.Body, func(m ast.Node) bool {
					c2, ok := m.(*ast.CallExpr)
					if !ok {
						return true
					}
					if s2, ok := c2.Fun.(*ast.SelectorExpr); ok && usesObj(info, s2.X) == recv {
						if s2.Sel.Name == "Add" && c2.Pos() > ifs.End() {
							added = true
						}
						if s2.Sel.Name == "Remove" || s2.Sel.Name == "Delete" {
							removed = true
						}
					}
					return true
				})
				if added && !removed {
					found = append(found, fmt.Sprintf("%s: %s returns `%s` when %s was seen before; the set is shared by the whole traversal, so a second visit yields a truncated result instead of the value computed the first time",
						pos(ifs.Pos()), fd.Name.Name, exprString(ret.Results[0]), exprString(call.Args[0])))
				}
				return true
			})
		}
	}
	return found, scanned
}

func ruleLALR1(c *Ctx) {
	const rule = "LALR-1"
	p := c.Prog
	total := 0
	for _, pk := range p.Prod {
		var files []*ast.File
		for _, f := range pk.Syntax {
			if !isTestFile(p.Fset, f) {
				files = append(files, f)
			}
		}
		found, n := recursionGuardFindings(p.Fset, pk.TypesInfo, files, p.Pos)
		total += n
		for _, f := range found {
			c.bad(rule, pk.Name+"/recursion-guard", strings.SplitN(f, ": ", 2)[0], "%s", f)
		}
	}
	c.ok(rule, "recursion-guards", "", "%d value-returning recursive functions of the production packages scanned: none cuts a result short on a visited-set hit", total)
	// FIRST must be computed to a fixed point: the function feeding Closure's lookaheads
	pk, fd := p.FuncDecl("internal/parsergen/lr1", "First")
	if fd == nil {
		c.unres(rule, "lr1.First", "", "function not found")
		return
	}
	_ = pk
	runFixture(c, rule, "LALR1", func(fset *token.FileSet, info *types.Info, files []*ast.File) []string {
		found, _ := recursionGuardFindings(fset, info, files, func(ps token.Pos) string { return fset.Position(ps).String() })
		return found
	})
}

// ---- LALR-2: change-reporting mutators ----

// changeReporters: methods with pointer receiver and a single bool result that mutate the receiver.
func changeReporters(p *Program) map[*types.Func]bool {
	out := map[*types.Func]bool{}
	for fn, fd := range p.funcDecls {
		if fd.Recv == nil || fd.Body == nil || fn.Pkg() == nil || !strings.HasPrefix(fn.Pkg().Path(), modPath+"/internal") {
			continue
		}
		sig := fn.Type().(*types.Signature)
		if sig.Results().Len() != 1 || !isBool(sig.Results().At(0).Type()) {
			continue
		}
		if _, ptr := sig.Recv().Type().(*types.Pointer); !ptr {
			continue
		}
		switch fn.Name() {
		case "Add", "AddSet", "AddSlice", "Put", "Insert", "Merge":
			out[fn] = true
		}
	}
	return out
}

func ruleLALR2(c *Ctx) {
	const rule = "LALR-2"
	p := c.Prog
	reporters := changeReporters(p)
	if len(reporters) < 4 {
		c.unres(rule, "change-reporting-mutators", "", "only %d change-reporting mutators (Add/AddSet/AddSlice with bool result) found; expected ItemSet.Add/AddSet and set.Set.Add/AddSlice/AddSet", len(reporters))
	}
	isReporter := func(info *types.Info, call *ast.CallExpr) bool {
		fn := calleeFunc(info, call)
		return fn != nil && reporters[fn.Origin()]
	}
	nSites, nAccum := 0, 0
	p.ProdFiles(func(pk *packages.Package, f *ast.File) {
		info := pk.TypesInfo
		for _, d := range f.Decls {
			fd, ok := d.(*ast.FuncDecl)
			if !ok || fd.Body == nil {
				continue
			}
			par := parents(fd)
			ast.Inspect(fd.Body, func(n ast.Node) bool {
				switch x := n.(type) {
				case *ast.BinaryExpr:
					if x.Op != token.LOR && x.Op != token.LAND {
						return true
					}
					// a reporter in the right operand is skipped whenever the left operand decides
					ast.Inspect(x.Y, func(m ast.Node) bool {
						if call, ok := m.(*ast.CallExpr); ok && isReporter(info, call) {
							if _, isConst := info.Types[x.X]; isConst && info.Types[x.X].Value != nil {
								return true
							}
							c.bad(rule, fmt.Sprintf("%s/short-circuit(%s)", funcKey(pk, fd), exprString(call.Fun)), p.Pos(call.Pos()),
								"`%s`: the mutating call %s is the right operand of %s and is skipped once the left operand decides; elements after the first change are never added", truncate(exprString(x), 80), exprString(call.Fun), x.Op)
						}
						return true
					})
					if call, ok := ast.Unparen(x.X).(*ast.CallExpr); ok && isReporter(info, call) && x.Op == token.LOR {
						nAccum++
						c.ok(rule, fmt.Sprintf("%s/accumulate(%s)", funcKey(pk, fd), exprString(call.Fun)), p.Pos(call.Pos()), "`%s`: the mutator is evaluated unconditionally (left operand)", truncate(exprString(x), 80))
					}
				case *ast.CallExpr:
					if isReporter(info, x) {
						nSites++
					}
				case *ast.ForStmt:
					// flag-controlled fixed point: for V { V = false; ... }
					v := usesObj(info, x.Cond)
					if v == nil || x.Cond == nil || len(x.Body.List) == 0 {
						return true
					}
					first, ok := x.Body.List[0].(*ast.AssignStmt)
					if !ok || len(first.Lhs) != 1 || usesObj(info, first.Lhs[0]) != v || exprString(first.Rhs[0]) != "false" {
						return true
					}
					ast.Inspect(x.Body, func(m ast.Node) bool {
						es, ok := m.(*ast.ExprStmt)
						if !ok {
							return true
						}
						call, ok := es.X.(*ast.CallExpr)
						if !ok || !isReporter(info, call) {
							return true
						}
						sel, _ := call.Fun.(*ast.SelectorExpr)
						if sel != nil {
							if ro, ok := usesObj(info, sel.X).(*types.Var); ok && isFreshLocal(info, x.Body, ro) {
								return true // scratch value created inside the iteration
							}
						}
						c.bad(rule, fmt.Sprintf("%s/fixpoint-discard(%s)", funcKey(pk, fd), exprString(call.Fun)), p.Pos(call.Pos()),
							"inside the fixed-point loop `for %s { %s = false ... }` the result of %s is discarded: a change made here does not trigger another pass and the iteration can stop before the fixed point", v.Name(), v.Name(), exprString(call.Fun))
						return true
					})
					c.ok(rule, fmt.Sprintf("%s/fixpoint-loop(%s)", funcKey(pk, fd), v.Name()), p.Pos(x.Pos()), "flag-controlled fixed-point loop scanned for discarded change reports")
				}
				return true
			})
			_ = par
		}
	})
	if nAccum < 3 {
		c.unres(rule, "accumulating-sites", "", "only %d `changed = m(...) || changed` sites found; 3 or more were confirmed by hand", nAccum)
	}
	c.ok(rule, "call-sites", "", "%d call sites of %d change-reporting mutators checked: none sits in a short-circuited operand", nSites, len(reporters))
}

// isFreshLocal: v is declared inside body by `var v T` (zero value), a composite literal or new().
func isFreshLocal(info *types.Info, body ast.Node, v *types.Var) bool {
	fresh := false
	ast.Inspect(body, func(n ast.Node) bool {
		switch x := n.(type) {
		case *ast.ValueSpec:
			for i, nm := range x.Names {
				if info.Defs[nm] == v {
					if len(x.Values) == 0 {
						fresh = true
					} else if _, ok := x.Values[i].(*ast.CompositeLit); ok {
						fresh = true
					}
				}
			}
		case *ast.AssignStmt:
			if x.Tok == token.DEFINE {
				for i, l := range x.Lhs {
					if id, ok := l.(*ast.Ident); ok && info.Defs[id] == v && i < len(x.Rhs) {
						switch r := ast.Unparen(x.Rhs[i]).(type) {
						case *ast.CompositeLit:
							fresh = true
						case *ast.CallExpr:
							if builtinName(info, r) == "new" {
								fresh = true
							}
						}
					}
				}
			}
		}
		return true
	})
	return fresh
}

// ---- LALR-3: re-queue on growth ----

func ruleLALR3(c *Ctx) {
	const rule = "LALR-3"
	p := c.Prog
	pk, fd := p.FuncDecl("internal/parsergen/lr1", "ConstructLALR")
	if fd == nil {
		c.unres(rule, "lr1.ConstructLALR", "", "function not found")
		return
	}
	info := pk.TypesInfo
	reporters := changeReporters(p)
	scope := funcScope(p, pk, fd, 2)
	declOf := func(n ast.Node) *ast.FuncDecl { d, _ := n.(*ast.FuncDecl); return d }
	isPendingAdd := func(call *ast.CallExpr) bool {
		sel, ok := call.Fun.(*ast.SelectorExpr)
		return ok && sel.Sel.Name == "Add" && len(call.Args) == 1 && isStringSet(info.TypeOf(sel.X))
	}
	// requeued reports whether, in function fn, the truth of flag (alone) leads to
	// pending.Add(key) for a key accepted by isKey; when fn hands flag and key back to its
	// caller instead, the question is asked there.
	var requeued func(fn *ast.FuncDecl, flag types.Object, isKey func(ast.Expr) bool, depth int) (bool, string)
	requeued = func(fn *ast.FuncDecl, flag types.Object, isKey func(ast.Expr) bool, depth int) (bool, string) {
		par := parents(fn)
		why := "no `pending.Add(key)` is reached under `" + flag.Name() + "`"
		ok := false
		ast.Inspect(fn.Body, func(m ast.Node) bool {
			call, isCall := m.(*ast.CallExpr)
			if !isCall || !isPendingAdd(call) || !isKey(call.Args[0]) {
				return true
			}
			onlyFlag, hasFlag := true, false
			for _, f := range pathConds(info, par, call) {
				if usesObj(info, f.e) == flag {
					if !f.neg {
						hasFlag = true
					}
					continue
				}
				// any other condition established after the flag came into existence narrows
				// the re-queue
				if mentionsObj(info, f.e, flag) || f.e.Pos() >= flag.Pos() {
					onlyFlag = false
					why = fmt.Sprintf("the re-queue is guarded by `%s`, not by the change flag alone: some grown states are never re-expanded", exprString(f.e))
				}
			}
			if hasFlag && onlyFlag {
				ok = true
			}
			return true
		})
		if ok {
			return true, ""
		}
		if depth >= 2 || fn.Type.Results == nil {
			return false, why
		}
		// handed back to the caller: every return passes the flag (or true) at one position and a
		// key at another
		flagPos, keyPos := -1, -1
		nRes := 0
		for _, f := range fn.Type.Results.List {
			if len(f.Names) == 0 {
				nRes++
				continue
			}
			for _, nm := range f.Names {
				if info.Defs[nm] == flag {
					flagPos = nRes
				}
				nRes++
			}
		}
		okRet := true
		nRet := 0
		inspectNoLit(fn.Body, func(m ast.Node) bool {
			rs, isRet := m.(*ast.ReturnStmt)
			if !isRet {
				return true
			}
			nRet++
			if len(rs.Results) == 0 {
				okRet = okRet && flagPos >= 0
				return true
			}
			for i, r := range rs.Results {
				if usesObj(info, r) == flag || (exprString(r) == "true" && (flagPos == i || flagPos < 0)) {
					if flagPos >= 0 && flagPos != i {
						okRet = false
					}
					flagPos = i
				}
				if isKey(r) {
					keyPos = i
				}
			}
			if flagPos < 0 || flagPos >= len(rs.Results) || !(usesObj(info, rs.Results[flagPos]) == flag || exprString(rs.Results[flagPos]) == "true") {
				okRet = false
			}
			return true
		})
		if !okRet || nRet == 0 || flagPos < 0 || keyPos < 0 {
			return false, why
		}
		fnObj, _ := info.Defs[fn.Name].(*types.Func)
		found, allOK := false, true
		for _, sc := range scope {
			caller := declOf(sc.node)
			if caller == nil || caller == fn {
				continue
			}
			ast.Inspect(caller.Body, func(m ast.Node) bool {
				as, isAs := m.(*ast.AssignStmt)
				if !isAs || len(as.Rhs) != 1 {
					return true
				}
				call, isCall := ast.Unparen(as.Rhs[0]).(*ast.CallExpr)
				if !isCall || calleeFunc(info, call) != fnObj || len(as.Lhs) <= flagPos || len(as.Lhs) <= keyPos {
					return true
				}
				found = true
				f2 := usesObj(info, as.Lhs[flagPos])
				k2 := usesObj(info, as.Lhs[keyPos])
				if f2 == nil || k2 == nil {
					allOK = false
					why = "the caller discards the change flag or the key returned by " + fn.Name.Name
					return true
				}
				ok2, why2 := requeued(caller, f2, func(e ast.Expr) bool { return usesObj(info, e) == k2 }, depth+1)
				if !ok2 {
					allOK = false
					why = why2
				}
				return true
			})
		}
		if !found {
			return false, "the change flag is returned by " + fn.Name.Name + " but no caller receives it"
		}
		return allOK, why
	}

	checked := 0
	for _, sc := range scope {
		fn := declOf(sc.node)
		if fn == nil {
			continue
		}
		par := parents(fn)
		// existing := t.GetStateByKey(K)
		type lookup struct {
			state types.Object
			key   ast.Expr
		}
		var lookups []lookup
		ast.Inspect(fn.Body, func(n ast.Node) bool {
			as, ok := n.(*ast.AssignStmt)
			if !ok || len(as.Lhs) != 1 || len(as.Rhs) != 1 {
				return true
			}
			call, ok := as.Rhs[0].(*ast.CallExpr)
			if ok && len(call.Args) == 1 {
				if f := calleeFunc(info, call); f != nil && f.Name() == "GetStateByKey" {
					lookups = append(lookups, lookup{usesObj(info, as.Lhs[0]), call.Args[0]})
				}
			}
			return true
		})
		ast.Inspect(fn.Body, func(n ast.Node) bool {
			call, ok := n.(*ast.CallExpr)
			if !ok {
				return true
			}
			f := calleeFunc(info, call)
			if f == nil || !reporters[f.Origin()] {
				return true
			}
			sel, ok := call.Fun.(*ast.SelectorExpr)
			if !ok {
				return true
			}
			var lk *lookup
			for i := range lookups {
				if usesObj(info, sel.X) == lookups[i].state {
					lk = &lookups[i]
				}
			}
			if lk == nil {
				return true
			}
			checked++
			construct := fmt.Sprintf("lr1.ConstructLALR/merge(%s.%s)", exprString(sel.X), sel.Sel.Name)
			// the result must reach a flag variable
			var flag types.Object
			for q := par[call]; q != nil; q = par[q] {
				if as, ok := q.(*ast.AssignStmt); ok && len(as.Lhs) == 1 {
					flag = usesObj(info, as.Lhs[0])
					break
				}
				if ifs, ok := q.(*ast.IfStmt); ok && containsNode(ifs.Cond, call) {
					// if X.Add(..) { changed = true }
					for _, s := range ifs.Body.List {
						if as, ok := s.(*ast.AssignStmt); ok && len(as.Lhs) == 1 && exprString(as.Rhs[0]) == "true" {
							flag = usesObj(info, as.Lhs[0])
						}
					}
					break
				}
				if _, ok := q.(*ast.ExprStmt); ok {
					break
				}
			}
			if flag == nil {
				c.bad(rule, construct, p.Pos(call.Pos()), "lookaheads are merged into an existing state but the 'changed' result is not recorded: the state is never re-expanded with its new lookaheads")
				return true
			}
			keyObj := usesObj(info, lk.key)
			okReq, why := requeued(fn, flag, func(e ast.Expr) bool {
				return sameExpr(e, lk.key) || (keyObj != nil && usesObj(info, e) == keyObj)
			}, 0)
			c.check(okReq, rule, construct, p.Pos(call.Pos()),
				fmt.Sprintf("every lookahead merged into an existing state sets %s, and the truth of %s alone re-queues the state's key", flag.Name(), flag.Name()), why)
			// the flag is fresh for each target state: a result or local of a helper called per
			// (state, symbol) pair, or declared false inside the loop over the symbols
			freshFlag := fn != fd
			if v, isVar := flag.(*types.Var); isVar && fn == fd {
				for q := par[call]; q != nil; q = par[q] {
					blk, ok := q.(*ast.BlockStmt)
					if !ok {
						continue
					}
					for _, s := range blk.List {
						declares := false
						switch x := s.(type) {
						case *ast.AssignStmt:
							if x.Tok == token.DEFINE && len(x.Lhs) == 1 && usesObj(info, x.Lhs[0]) == types.Object(v) && exprString(x.Rhs[0]) == "false" {
								declares = true
							}
						case *ast.DeclStmt:
							ast.Inspect(x, func(k ast.Node) bool {
								if vs, ok := k.(*ast.ValueSpec); ok && len(vs.Values) == 0 {
									for _, nm := range vs.Names {
										if info.Defs[nm] == types.Object(v) {
											declares = true
										}
									}
								}
								return true
							})
						}
						if declares {
							switch par[blk].(type) {
							case *ast.RangeStmt, *ast.ForStmt:
								freshFlag = true
							}
						}
					}
				}
			}
			c.check(freshFlag, rule, construct+"/flag-scope", p.Pos(call.Pos()), "the change flag starts false for every (state, symbol) pair", "the change flag is not reset per target state")
			return true
		})
	}
	if checked == 0 {
		c.unres(rule, "lr1.ConstructLALR/merge", p.Pos(fd.Pos()), "no merge of lookaheads into a state obtained from GetStateByKey was found")
	}
	// new states are always queued: the block that creates the state sets the flag, returns true
	// in its place, or adds the key itself
	okNew := false
	for _, sc := range scope {
		ast.Inspect(sc.node, func(n ast.Node) bool {
			blk, ok := n.(*ast.BlockStmt)
			if !ok {
				return true
			}
			hasAddState, setsFlag := false, false
			for _, s := range blk.List {
				switch x := s.(type) {
				case *ast.ExprStmt:
					if call, ok := x.X.(*ast.CallExpr); ok {
						if f := calleeFunc(info, call); f != nil && f.Name() == "AddState" {
							hasAddState = true
						}
						if hasAddState && isPendingAdd(call) {
							setsFlag = true
						}
					}
				case *ast.AssignStmt:
					if hasAddState && len(x.Rhs) == 1 && exprString(x.Rhs[0]) == "true" {
						setsFlag = true
					}
				case *ast.ReturnStmt:
					for _, r := range x.Results {
						if hasAddState && exprString(r) == "true" {
							setsFlag = true
						}
					}
				}
			}
			if hasAddState && setsFlag {
				okNew = true
			}
			return true
		})
	}
	c.check(okNew, rule, "lr1.ConstructLALR/new-state-queued", p.Pos(fd.Pos()), "a newly created state is always queued for expansion", "a newly created state is not queued for expansion")
	// loop runs until the pending set is empty
	okLoop := false
	ast.Inspect(fd.Body, func(n ast.Node) bool {
		if fs, ok := n.(*ast.ForStmt); ok && fs.Cond != nil {
			if un, ok := fs.Cond.(*ast.UnaryExpr); ok && un.Op == token.NOT {
				if call, ok := un.X.(*ast.CallExpr); ok {
					if s2, ok := call.Fun.(*ast.SelectorExpr); ok && s2.Sel.Name == "Empty" {
						okLoop = true
					}
				}
			}
		}
		return true
	})
	c.check(okLoop, rule, "lr1.ConstructLALR/until-empty", p.Pos(fd.Pos()), "construction iterates until the pending set is empty", "construction does not iterate until the pending set is empty")
}

func mentionsObj(info *types.Info, n ast.Node, o types.Object) bool {
	found := false
	ast.Inspect(n, func(m ast.Node) bool {
		if id, ok := m.(*ast.Ident); ok && info.Uses[id] == o {
			found = true
		}
		return !found
	})
	return found
}

// ---- LALR-4: item-set cache coherence ----

func ruleLALR4(c *Ctx) {
	const rule = "LALR-4"
	p := c.Prog
	pk := p.Pkg("internal/parsergen/lr1")
	if pk == nil {
		c.unres(rule, "lr1.ItemSet", "", "package not found")
		return
	}
	info := pk.TypesInfo
	n := 0
	for _, f := range pk.Syntax {
		if isTestFile(p.Fset, f) {
			continue
		}
		for _, d := range f.Decls {
			fd, ok := d.(*ast.FuncDecl)
			if !ok || fd.Body == nil || recvTypeName(fd) != "ItemSet" {
				continue
			}
			mutates := false
			var mutCall *ast.CallExpr
			ast.Inspect(fd.Body, func(m ast.Node) bool {
				call, ok := m.(*ast.CallExpr)
				if !ok {
					return true
				}
				sel, ok := call.Fun.(*ast.SelectorExpr)
				if !ok || !isField(info, sel.X, "parsergen/lr1", "ItemSet", "set") {
					return true
				}
				switch sel.Sel.Name {
				case "Add", "AddSlice", "AddSet", "Remove", "Clear", "Put":
					// only when the receiver is the method's own receiver
					mutates = true
					mutCall = call
				}
				return true
			})
			if !mutates {
				continue
			}
			n++
			construct := "lr1.ItemSet." + fd.Name.Name + "/cache-reset"
			resets := false
			ast.Inspect(fd.Body, func(m ast.Node) bool {
				if as, ok := m.(*ast.AssignStmt); ok && len(as.Lhs) == 1 && isField(info, as.Lhs[0], "parsergen/lr1", "ItemSet", "cachedItems") && exprString(as.Rhs[0]) == "nil" {
					resets = true
				}
				return true
			})
			if resets {
				isReset := func(nn ast.Node) bool {
					r := false
					ast.Inspect(nn, func(m ast.Node) bool {
						if as, ok := m.(*ast.AssignStmt); ok && len(as.Lhs) == 1 && isField(info, as.Lhs[0], "parsergen/lr1", "ItemSet", "cachedItems") {
							r = true
						}
						return true
					})
					return r
				}
				g := p.CFG(pk, fd)
				okPath := false
				if mp, found := cfgLocate(g, mutCall); found {
					starts, incl := []cfgPos{mp}, false
					// `if [!]s.set.Add(x) {…}`: the set changed only on the edge where the
					// change-reporting call returned true; the other edge needs no reset
					if blk := mp.b; len(blk.Nodes) > 0 && len(blk.Succs) == 2 {
						if cond, isExpr := blk.Nodes[len(blk.Nodes)-1].(ast.Expr); isExpr && containsNode(cond, mutCall) {
							if fnc := calleeFunc(info, mutCall); fnc != nil && changeReporters(p)[fnc.Origin()] {
								ce := ast.Unparen(cond)
								if u, isNot := ce.(*ast.UnaryExpr); isNot && u.Op == token.NOT && ast.Unparen(u.X) == ast.Expr(mutCall) {
									starts, incl = []cfgPos{{blk.Succs[1], 0}}, true
								} else if ce == ast.Expr(mutCall) {
									starts, incl = []cfgPos{{blk.Succs[0], 0}}, true
								}
							}
						}
					}
					escaped := cfgForward(g, starts, incl, isReset, nil)
					okPath = !escaped || mustPassBefore(g, mutCall, isReset)
				}
				c.check(okPath, rule, construct, p.Pos(fd.Pos()), "the memoised Items() slice is dropped whenever the set is mutated", "the set can be mutated on a path that keeps the memoised Items() slice")
				continue
			}
			// exception: only ever called on fresh local sets before Items() was used
			fnObj, _ := info.Defs[fd.Name].(*types.Func)
			okExc, why := cacheExceptionHolds(p, fnObj)
			c.check(okExc, rule, construct, p.Pos(fd.Pos()),
				"mutates the set without dropping the cache, but is only called on function-local sets before Items()/LR0Key()/ToString() is used on them: "+why,
				"mutates the set without dropping the memoised Items(): "+why)
		}
	}
	if n < 2 {
		c.unres(rule, "lr1.ItemSet/mutators", "", "only %d mutating ItemSet methods found", n)
	}
}

func cacheExceptionHolds(p *Program, fn *types.Func) (bool, string) {
	sites := 0
	bad := ""
	p.ProdFiles(func(pk *packages.Package, f *ast.File) {
		info := pk.TypesInfo
		for _, d := range f.Decls {
			fd, ok := d.(*ast.FuncDecl)
			if !ok || fd.Body == nil {
				continue
			}
			ast.Inspect(fd.Body, func(n ast.Node) bool {
				call, ok := n.(*ast.CallExpr)
				if !ok || calleeFunc(info, call) != fn {
					return true
				}
				sites++
				sel := call.Fun.(*ast.SelectorExpr)
				rv, ok := usesObj(info, sel.X).(*types.Var)
				if !ok || rv.IsField() || !isFreshLocal(info, fd.Body, rv) {
					bad = fmt.Sprintf("%s: called on %s, which is not a fresh function-local set", p.Pos(call.Pos()), exprString(sel.X))
					return true
				}
				// no cache-filling call on the same receiver before this call
				ast.Inspect(fd.Body, func(m ast.Node) bool {
					c2, ok := m.(*ast.CallExpr)
					if !ok || c2.Pos() >= call.Pos() {
						return true
					}
					if s2, ok := c2.Fun.(*ast.SelectorExpr); ok && usesObj(info, s2.X) == types.Object(rv) {
						switch s2.Sel.Name {
						case "Items", "LR0Key", "ToString":
							bad = fmt.Sprintf("%s: %s() fills the cache before %s is called", p.Pos(c2.Pos()), s2.Sel.Name, fn.Name())
						}
					}
					return true
				})
				// and not inside a loop in which the cache is filled
				return true
			})
		}
	})
	if bad != "" {
		return false, bad
	}
	if sites == 0 {
		return true, "no call sites"
	}
	return true, fmt.Sprintf("%d call sites, all on fresh locals", sites)
}

// ---- LALR-5: merge key ----

func ruleLALR5(c *Ctx) {
	const rule = "LALR-5"
	p := c.Prog
	pk, fd := p.FuncDecl("internal/parsergen/lr1", "ItemSet.LR0Key")
	if fd == nil {
		c.unres(rule, "lr1.ItemSet.LR0Key", "", "function not found")
		return
	}
	info := pk.TypesInfo
	fields := map[string]bool{}
	ast.Inspect(fd.Body, func(n ast.Node) bool {
		if sel, ok := n.(*ast.SelectorExpr); ok {
			if s := info.Selections[sel]; s != nil && s.Kind() == types.FieldVal && typeIs(s.Recv(), "parsergen/lr1", "Item") {
				fields[sel.Sel.Name] = true
			}
		}
		return true
	})
	c.check(fields["Prod"] && fields["Dot"] && !fields["Lookahead"] && len(fields) == 2, rule, "lr1.ItemSet.LR0Key/fields", p.Pos(fd.Pos()),
		"the merge key reads exactly Item.Prod and Item.Dot (the LR(0) core), never the lookahead",
		fmt.Sprintf("the merge key reads Item fields %v; it must be exactly the LR(0) core (Prod, Dot)", keysOfS(fields)))
	// iterates the sorted Items(), skipping non-kernel items
	sorted, kernel := false, false
	ast.Inspect(fd.Body, func(n ast.Node) bool {
		if rs, ok := n.(*ast.RangeStmt); ok {
			if call, ok := rs.X.(*ast.CallExpr); ok {
				if fn := calleeFunc(info, call); fn != nil && fn.Name() == "Items" {
					sorted = true
				}
			}
			for _, s := range rs.Body.List {
				if ifs, ok := s.(*ast.IfStmt); ok {
					if un, ok := ifs.Cond.(*ast.UnaryExpr); ok && un.Op == token.NOT {
						if call, ok := un.X.(*ast.CallExpr); ok {
							if fn := calleeFunc(info, call); fn != nil && fn.Name() == "IsKernel" && len(ifs.Body.List) == 1 {
								if br, ok := ifs.Body.List[0].(*ast.BranchStmt); ok && br.Tok == token.CONTINUE {
									kernel = true
								}
							}
						}
					}
				}
			}
		}
		return true
	})
	c.check(sorted && kernel, rule, "lr1.ItemSet.LR0Key/iteration", p.Pos(fd.Pos()), "the key is built from the sorted Items(), kernel items only", "the key is not built from the sorted kernel items")
	// fixed-width encoding of both fields
	enc := 0
	ast.Inspect(fd.Body, func(n ast.Node) bool {
		if call, ok := n.(*ast.CallExpr); ok {
			full := fullName(calleeFunc(info, call))
			if strings.HasPrefix(full, "encoding/binary.") && strings.Contains(full, "AppendUint") {
				enc++
			}
		}
		return true
	})
	c.check(enc == 2, rule, "lr1.ItemSet.LR0Key/encoding", p.Pos(fd.Pos()), "both fields are appended at fixed width: distinct cores give distinct keys", fmt.Sprintf("%d fixed-width appends instead of 2", enc))
	// sort order used by Items()
	_, si := p.FuncDecl("internal/parsergen/lr1", "ItemSet.Items")
	okSort := false
	if si != nil {
		ast.Inspect(si.Body, func(n ast.Node) bool {
			if call, ok := n.(*ast.CallExpr); ok {
				if fn := calleeFunc(info, call); fn != nil && (fn.Name() == "SortItems" || sortFuncs[fullName(fn)]) {
					okSort = true
				}
			}
			return true
		})
	}
	c.check(okSort, rule, "lr1.ItemSet.Items/sorted", "", "Items() sorts the elements before caching them", "Items() no longer sorts: keys of equal cores could differ")
	// IsKernel
	_, ik := p.FuncDecl("internal/parsergen/lr1", "Item.IsKernel")
	okK := false
	if ik != nil {
		// the conditions under which IsKernel returns true: `return A || B`, or
		// `if A { return true }; return B`
		var trueWhen []ast.Expr
		shapeOK := true
		for i, st := range ik.Body.List {
			switch x := st.(type) {
			case *ast.ReturnStmt:
				if i != len(ik.Body.List)-1 || len(x.Results) != 1 {
					shapeOK = false
				} else if exprString(x.Results[0]) != "false" {
					trueWhen = append(trueWhen, disjuncts(x.Results[0])...)
				}
			case *ast.IfStmt:
				if x.Init == nil && x.Else == nil && len(x.Body.List) == 1 {
					if rs, ok := x.Body.List[0].(*ast.ReturnStmt); ok && len(rs.Results) == 1 && exprString(rs.Results[0]) == "true" {
						trueWhen = append(trueWhen, disjuncts(x.Cond)...)
						continue
					}
				}
				shapeOK = false
			default:
				shapeOK = false
			}
		}
		sawStart, sawDot := false, false
		for _, e := range trueWhen {
			l, op, r, ok := cmpFact(e, true)
			if !ok {
				shapeOK = false
				continue
			}
			for _, pr := range [][2]ast.Expr{{l, r}, {r, l}} {
				if isField(info, pr[0], "parsergen/lr1", "Item", "Prod") && op == token.EQL {
					if o := usesObj(info, pr[1]); o != nil && o.Name() == "sPrimeProdIndex" {
						sawStart = true
					}
				}
				if isField(info, pr[0], "parsergen/lr1", "Item", "Dot") {
					if v, isC := constInt(info, pr[1]); isC && ((v == 0 && (op == token.NEQ || (op == token.GTR && pr[0] == l) || (op == token.LSS && pr[0] == r))) || (v == 1 && ((op == token.GEQ && pr[0] == l) || (op == token.LEQ && pr[0] == r)))) {
						sawDot = true
					}
				}
			}
		}
		okK = shapeOK && sawStart && sawDot && len(trueWhen) == 2
	}
	c.check(okK, rule, "lr1.Item.IsKernel", "", "kernel = start item or dot not at the beginning", "IsKernel is not `Prod == sPrime || Dot != 0`")
}

func keysOfS(m map[string]bool) []string {
	var ks []string
	for k := range m {
		ks = append(ks, k)
	}
	return sortedStrings(ks)
}

// ---- LALR-6: closure / goto skeleton ----

func ruleLALR6(c *Ctx) {
	const rule = "LALR-6"
	p := c.Prog
	pk, fd := p.FuncDecl("internal/parsergen/lr1", "Closure")
	if fd == nil {
		c.unres(rule, "lr1.Closure", "", "function not found")
		return
	}
	info := pk.TypesInfo
	// First(g, append(beta, a)) with beta = prod.Terms[item.Dot+1:], a = g.Terminals[item.Lookahead]
	var firstCall *ast.CallExpr
	ast.Inspect(fd.Body, func(n ast.Node) bool {
		if call, ok := n.(*ast.CallExpr); ok {
			if fn := calleeFunc(info, call); fn != nil && fn.Name() == "First" && fn.Pkg() == pk.Types {
				firstCall = call
			}
		}
		return true
	})
	okFirst := false
	why := "Closure does not call First"
	if firstCall != nil && len(firstCall.Args) == 2 {
		why = "First is not applied to beta followed by the item's own lookahead"
		if app, ok := firstCall.Args[1].(*ast.CallExpr); ok && builtinName(info, app) == "append" && len(app.Args) == 2 {
			beta := resolveLocal(info, fd, app.Args[0])
			a := resolveLocal(info, fd, app.Args[1])
			betaOK := false
			if sl, ok := ast.Unparen(beta).(*ast.SliceExpr); ok && sl.High == nil && isField(info, sl.X, "parsergen/lr1", "Prod", "Terms") {
				if b, k, ok := addConst(info, sl.Low); ok && k == 1 && strings.HasSuffix(b, ".Dot") {
					betaOK = true
				}
			}
			aOK := false
			if ix, ok := ast.Unparen(a).(*ast.IndexExpr); ok && isField(info, ix.X, "parsergen/lr1", "Grammar", "Terminals") && isField(info, ix.Index, "parsergen/lr1", "Item", "Lookahead") {
				aOK = true
			}
			okFirst = betaOK && aOK
			if !betaOK {
				why = "beta is `" + exprString(beta) + "`, not prod.Terms[item.Dot+1:]"
			} else if !aOK {
				why = "the symbol appended to beta is `" + exprString(a) + "`, not the item's lookahead terminal"
			}
		}
	}
	c.check(okFirst, rule, "lr1.Closure/first-of-beta-a", p.Pos(fd.Pos()), "lookaheads of new items are FIRST(beta a): beta = prod.Terms[Dot+1:], a = the item's lookahead", why)
	checkLookaheadSources(c, rule, pk, fd, firstCall)
	// new items: Item{Prod: prodB.Index, Dot: 0, Lookahead: t.Index}
	okItem := false
	ast.Inspect(fd.Body, func(n ast.Node) bool {
		cl, ok := n.(*ast.CompositeLit)
		if !ok || !typeIs(info.TypeOf(cl), "parsergen/lr1", "Item") {
			return true
		}
		m := map[string]ast.Expr{}
		for _, el := range cl.Elts {
			if kv, ok := el.(*ast.KeyValueExpr); ok {
				m[exprString(kv.Key)] = kv.Value
			}
		}
		dot, dok := constInt(info, m["Dot"])
		if m["Prod"] != nil && isField(info, m["Prod"], "parsergen/lr1", "Prod", "Index") && dok && dot == 0 && m["Lookahead"] != nil && isField(info, m["Lookahead"], "parsergen/lr1", "Terminal", "Index") {
			okItem = true
		}
		return true
	})
	c.check(okItem, rule, "lr1.Closure/new-item", p.Pos(fd.Pos()), "closure items are [B -> .gamma, x] with x ranging over the FIRST set", "closure items are not built as {Prod: prodB.Index, Dot: 0, Lookahead: t.Index}")
	// if result.Add(newItem) { pending.Add(newItem) }
	okPush := false
	ast.Inspect(fd.Body, func(n ast.Node) bool {
		ifs, ok := n.(*ast.IfStmt)
		if !ok {
			return true
		}
		call, ok := ifs.Cond.(*ast.CallExpr)
		if !ok || len(call.Args) != 1 {
			return true
		}
		if fn := calleeFunc(info, call); fn == nil || fn.Name() != "Add" {
			return true
		}
		for _, s := range ifs.Body.List {
			if es, ok := s.(*ast.ExprStmt); ok {
				if c2, ok := es.X.(*ast.CallExpr); ok && len(c2.Args) == 1 && sameExpr(c2.Args[0], call.Args[0]) {
					if fn := calleeFunc(info, c2); fn != nil && fn.Name() == "Add" {
						okPush = true
					}
				}
			}
		}
		return true
	})
	c.check(okPush, rule, "lr1.Closure/worklist", p.Pos(fd.Pos()), "exactly the items the result set reports as new are queued for expansion", "new closure items are not queued exactly when result.Add reports them new")
	// iterate all productions of the rule after the dot
	okProds := false
	ast.Inspect(fd.Body, func(n ast.Node) bool {
		if rs, ok := n.(*ast.RangeStmt); ok && isField(info, rs.X, "parsergen/lr1", "Rule", "Prods") {
			okProds = true
		}
		return true
	})
	c.check(okProds, rule, "lr1.Closure/all-productions", p.Pos(fd.Pos()), "every production of the rule after the dot is expanded", "Closure does not range over all productions of the rule after the dot")

	// Goto
	pk2, gd := p.FuncDecl("internal/parsergen/lr1", "Goto")
	if gd == nil {
		c.unres(rule, "lr1.Goto", "", "function not found")
		return
	}
	info2 := pk2.TypesInfo
	inc, cmp, clo := false, false, false
	ast.Inspect(gd.Body, func(n ast.Node) bool {
		switch x := n.(type) {
		case *ast.IncDecStmt:
			if x.Tok == token.INC && isField(info2, x.X, "parsergen/lr1", "Item", "Dot") {
				inc = true
			}
		case *ast.BinaryExpr:
			if x.Op == token.NEQ {
				if ix, ok := ast.Unparen(x.X).(*ast.IndexExpr); ok && isField(info2, ix.X, "parsergen/lr1", "Prod", "Terms") && isField(info2, ix.Index, "parsergen/lr1", "Item", "Dot") {
					if usesObj(info2, x.Y) == paramObj(info2, gd, 2) {
						cmp = true
					}
				}
			}
		case *ast.ReturnStmt:
			if len(x.Results) == 1 {
				if call, ok := x.Results[0].(*ast.CallExpr); ok {
					if fn := calleeFunc(info2, call); fn != nil && fn.Name() == "Closure" {
						clo = true
					}
				}
			}
		}
		return true
	})
	c.check(inc && cmp && clo, rule, "lr1.Goto/skeleton", p.Pos(gd.Pos()), "Goto advances the dot by one for exactly the items whose next symbol is the given one and returns the closure",
		fmt.Sprintf("Goto skeleton broken (dot++: %v, next-symbol test: %v, closure of result: %v)", inc, cmp, clo))
}

// resolveLocal follows an identifier to its single defining expression in fd.
func resolveLocal(info *types.Info, fd *ast.FuncDecl, e ast.Expr) ast.Expr {
	id, ok := ast.Unparen(e).(*ast.Ident)
	if !ok {
		return e
	}
	obj := info.Uses[id]
	var def ast.Expr
	n := 0
	ast.Inspect(fd.Body, func(m ast.Node) bool {
		if as, ok := m.(*ast.AssignStmt); ok && len(as.Lhs) == len(as.Rhs) {
			for i, l := range as.Lhs {
				if li, ok := l.(*ast.Ident); ok && (info.Defs[li] == obj || info.Uses[li] == obj) {
					def = as.Rhs[i]
					n++
				}
			}
		}
		return true
	})
	if n == 1 {
		return def
	}
	return e
}

// ---- LALR-7: one action per item ----

func ruleLALR7(c *Ctx) {
	const rule = "LALR-7"
	p := c.Prog
	pk, fd := p.FuncDecl("internal/parsergen/lr1", "createActions")
	if fd == nil {
		c.unres(rule, "lr1.createActions", "", "function not found")
		return
	}
	info := pk.TypesInfo
	find := func(name string) *ast.CallExpr {
		var out *ast.CallExpr
		ast.Inspect(fd.Body, func(n ast.Node) bool {
			if call, ok := n.(*ast.CallExpr); ok {
				if fn := calleeFunc(info, call); fn != nil && fn.Name() == name {
					out = call
				}
			}
			return true
		})
		return out
	}
	isLookaheadTerminal := func(e ast.Expr) bool {
		ix, ok := ast.Unparen(resolveLocal(info, fd, e)).(*ast.IndexExpr)
		return ok && isField(info, ix.X, "parsergen/lr1", "Grammar", "Terminals") && isField(info, ix.Index, "parsergen/lr1", "Item", "Lookahead")
	}
	isItemProd := func(e ast.Expr) bool {
		ix, ok := ast.Unparen(resolveLocal(info, fd, e)).(*ast.IndexExpr)
		return ok && isField(info, ix.X, "parsergen/lr1", "Grammar", "Prods") && isField(info, ix.Index, "parsergen/lr1", "Item", "Prod")
	}
	par := parents(fd)
	// path facts, classified by the resolved fields they compare
	type factKind int
	const (
		fComplete factKind = iota + 1
		fNotComplete
		fStart
		fNotStart
	)
	classify := func(e ast.Expr, pos bool) factKind {
		l, op, r, ok := cmpFact(e, pos)
		if !ok {
			return 0
		}
		isLenTerms := func(x ast.Expr) bool {
			call, ok := ast.Unparen(x).(*ast.CallExpr)
			return ok && builtinName(info, call) == "len" && len(call.Args) == 1 && isField(info, call.Args[0], "parsergen/lr1", "Prod", "Terms")
		}
		for _, pr := range [][2]ast.Expr{{l, r}, {r, l}} {
			dotFirst := pr[0] == l
			if isField(info, pr[0], "parsergen/lr1", "Item", "Dot") && isLenTerms(pr[1]) {
				switch {
				case op == token.EQL, op == token.GEQ && dotFirst, op == token.LEQ && !dotFirst:
					return fComplete
				case op == token.NEQ, op == token.LSS && dotFirst, op == token.GTR && !dotFirst:
					return fNotComplete
				}
			}
			if isField(info, pr[0], "parsergen/lr1", "Item", "Prod") {
				if o := usesObj(info, pr[1]); o != nil && o.Name() == "sPrimeProdIndex" {
					switch op {
					case token.EQL:
						return fStart
					case token.NEQ:
						return fNotStart
					}
				}
			}
		}
		return 0
	}
	factsOf := func(n ast.Node) map[factKind]bool {
		out := map[factKind]bool{}
		for _, f := range expandFacts(info, localDefs(info, fd), pathConds(info, par, n)) {
			ff := flattenNot(f)
			if k := classify(ff.e, !ff.neg); k != 0 {
				out[k] = true
			}
		}
		return out
	}
	acc, red, sh := find("AddAccept"), find("AddReduce"), find("AddShift")
	if acc == nil || red == nil || sh == nil {
		c.unres(rule, "lr1.createActions", p.Pos(fd.Pos()), "AddAccept/AddReduce/AddShift calls not found")
		return
	}
	ac := factsOf(acc)
	c.check(ac[fComplete] && ac[fStart] && len(acc.Args) == 1 && isLookaheadTerminal(acc.Args[0]), rule, "lr1.createActions/accept", p.Pos(acc.Pos()),
		"complete item of the start production => accept on its lookahead", "accept is not created exactly for the complete start item on its own lookahead")
	rc := factsOf(red)
	c.check(rc[fComplete] && rc[fNotStart] && len(red.Args) == 2 && isLookaheadTerminal(red.Args[0]) && isItemProd(red.Args[1]), rule, "lr1.createActions/reduce", p.Pos(red.Pos()),
		"other complete item => reduce by that production on that item's lookahead", "reduce is not created for the item's own production on the item's own lookahead")
	// shift: terminal after the dot, target = Transitions(state).Get(terminal)
	okShift := len(sh.Args) == 3 && isItemProd(sh.Args[2])
	if okShift {
		tgt := resolveLocal(info, fd, sh.Args[1])
		if call, ok := ast.Unparen(tgt).(*ast.CallExpr); ok && len(call.Args) == 1 && sameExpr(call.Args[0], sh.Args[0]) {
			if fn := calleeFunc(info, call); fn == nil || fn.Name() != "Get" {
				okShift = false
			}
		} else {
			okShift = false
		}
	}
	// the shifted terminal is the symbol after the dot (which implies the item is not complete)
	notComplete := factsOf(sh)[fNotComplete]
	afterDot := false
	if len(sh.Args) == 3 {
		termObj := usesObj(info, sh.Args[0])
		ast.Inspect(fd.Body, func(n ast.Node) bool {
			as, ok := n.(*ast.AssignStmt)
			if !ok || len(as.Rhs) != 1 || termObj == nil || usesObj(info, as.Lhs[0]) != termObj {
				return true
			}
			if ta, ok := ast.Unparen(as.Rhs[0]).(*ast.TypeAssertExpr); ok {
				src := resolveLocal(info, fd, ta.X)
				if ix, ok := ast.Unparen(src).(*ast.IndexExpr); ok && isField(info, ix.X, "parsergen/lr1", "Prod", "Terms") && isField(info, ix.Index, "parsergen/lr1", "Item", "Dot") {
					afterDot = true
				}
			}
			return true
		})
	}
	notComplete = notComplete || afterDot
	okShift = okShift && afterDot
	c.check(okShift && notComplete, rule, "lr1.createActions/shift", p.Pos(sh.Pos()),
		"item with a terminal after the dot => shift to Transitions(state).Get(that terminal), remembering the production", "shift is not created to the transition target of the terminal after the dot")
	// every item of every state is visited
	okAll := false
	ast.Inspect(fd.Body, func(n ast.Node) bool {
		if rs, ok := n.(*ast.RangeStmt); ok {
			if call, ok := rs.X.(*ast.CallExpr); ok {
				if fn := calleeFunc(info, call); fn != nil && fn.Name() == "Items" {
					if outer, ok := par[par[rs]].(*ast.RangeStmt); ok && isField(info, outer.X, "parsergen/lr1", "ParserTable", "States") {
						okAll = true
					}
				}
			}
		}
		return true
	})
	c.check(okAll, rule, "lr1.createActions/all-items", p.Pos(fd.Pos()), "every item of every state contributes its action", "createActions does not visit every item of every state")
}

// checkLookaheadSources: the set the new closure items' lookaheads range over must be FIRST(beta a)
// of the item being expanded on every path. Accepted sources of that set:
//   - the (already checked) First(g, append(beta, a)) call,
//   - Add(a) under the path fact len(beta) == 0 (FIRST(a) = {a}),
//   - a memo lookup whose key contains the item's lookahead (beta is fixed by (Prod, Dot), a by
//     Lookahead: a key without Lookahead returns another item's set whenever beta is nullable).
//
// Any other source is reported.
func checkLookaheadSources(c *Ctx, rule string, pk *packages.Package, fd *ast.FuncDecl, firstCall *ast.CallExpr) {
	p := c.Prog
	info := pk.TypesInfo
	const construct = "lr1.Closure/lookahead-sources"
	par := parents(fd)
	// the variable t in Item{..., Lookahead: t.Index}
	var tObj types.Object
	ast.Inspect(fd.Body, func(n ast.Node) bool {
		cl, ok := n.(*ast.CompositeLit)
		if !ok || !typeIs(info.TypeOf(cl), "parsergen/lr1", "Item") {
			return true
		}
		for _, el := range cl.Elts {
			if kv, ok := el.(*ast.KeyValueExpr); ok && exprString(kv.Key) == "Lookahead" {
				if sel, ok := ast.Unparen(kv.Value).(*ast.SelectorExpr); ok && isField(info, sel, "parsergen/lr1", "Terminal", "Index") {
					tObj = usesObj(info, sel.X)
				}
			}
		}
		return true
	})
	if tObj == nil {
		c.unres(rule, construct, p.Pos(fd.Pos()), "the lookahead variable of the new items was not found")
		return
	}
	// the set it ranges over
	var setExpr ast.Expr
	ast.Inspect(fd.Body, func(n ast.Node) bool {
		switch x := n.(type) {
		case *ast.FuncLit:
			for _, f := range x.Type.Params.List {
				for _, nm := range f.Names {
					if info.Defs[nm] == tObj {
						if call, ok := par[x].(*ast.CallExpr); ok {
							if sel, ok := call.Fun.(*ast.SelectorExpr); ok {
								setExpr = sel.X
							}
						}
					}
				}
			}
		case *ast.RangeStmt:
			for _, e := range []ast.Expr{x.Key, x.Value} {
				if id, ok := e.(*ast.Ident); ok && (info.Defs[id] == tObj || info.Uses[id] == tObj) {
					setExpr = x.X
					if call, ok := ast.Unparen(x.X).(*ast.CallExpr); ok {
						if sel, ok := call.Fun.(*ast.SelectorExpr); ok {
							setExpr = sel.X
						}
					}
				}
			}
		}
		return true
	})
	setObj := usesObj(info, setExpr)
	if _, isSel := ast.Unparen(setExpr).(*ast.SelectorExpr); setExpr == nil || setObj == nil || isSel {
		// iterating the call's result directly
		if call, ok := ast.Unparen(setExpr).(*ast.CallExpr); ok && call == firstCall {
			c.ok(rule, construct, p.Pos(fd.Pos()), "the new items' lookaheads range directly over the First call's result")
			return
		}
		c.unres(rule, construct, p.Pos(fd.Pos()), "the set the new items' lookaheads range over was not identified")
		return
	}
	isLookaheadTerminal := func(e ast.Expr) bool {
		ix, ok := ast.Unparen(resolveLocal(info, fd, e)).(*ast.IndexExpr)
		return ok && isField(info, ix.X, "parsergen/lr1", "Grammar", "Terminals") && isField(info, ix.Index, "parsergen/lr1", "Item", "Lookahead")
	}
	keyHasLookahead := func(key ast.Expr) bool {
		found := false
		ast.Inspect(key, func(n ast.Node) bool {
			e, ok := n.(ast.Expr)
			if !ok {
				return true
			}
			if isField(info, e, "parsergen/lr1", "Item", "Lookahead") || isLookaheadTerminal(e) {
				found = true
			}
			if sel, ok := e.(*ast.SelectorExpr); ok {
				if _, isVar := info.Uses[sel.Sel].(*types.Var); isVar {
					return false // item.Prod mentions only that field, not the whole item
				}
			}
			if id, ok := e.(*ast.Ident); ok {
				if t := info.TypeOf(id); t != nil && typeIs(t, "parsergen/lr1", "Item") {
					found = true
				}
			}
			return true
		})
		return found
	}
	betaEmptyAt := func(n ast.Node) bool {
		return holds(pathConds(info, par, n), func(e ast.Expr, pos bool) bool {
			l, op, r, ok := cmpFact(e, pos)
			if !ok || op != token.EQL {
				return false
			}
			for _, pr := range [][2]ast.Expr{{l, r}, {r, l}} {
				if v, isC := constInt(info, pr[1]); isC && v == 0 {
					if call, ok := pr[0].(*ast.CallExpr); ok && builtinName(info, call) == "len" && len(call.Args) == 1 {
						if sl, ok := ast.Unparen(resolveLocal(info, fd, call.Args[0])).(*ast.SliceExpr); ok && sl.High == nil && isField(info, sl.X, "parsergen/lr1", "Prod", "Terms") {
							if b, k, ok := addConst(info, sl.Low); ok && k == 1 && strings.HasSuffix(b, ".Dot") {
								return true
							}
						}
					}
				}
			}
			return false
		})
	}
	var problems []string
	nSources := 0
	seen := map[types.Object]bool{}
	var classify func(e ast.Expr, at ast.Node)
	var sourcesOf func(o types.Object)
	memo := func(ix *ast.IndexExpr) {
		if t := info.TypeOf(ix.X); t != nil {
			if _, isMap := t.Underlying().(*types.Map); isMap {
				nSources++
				if !keyHasLookahead(ix.Index) {
					problems = append(problems, fmt.Sprintf("%s: memoised set looked up by `%s`, which omits the item's lookahead: when beta is nullable FIRST(beta a) depends on a", p.Pos(ix.Pos()), exprString(ix.Index)))
				}
				return
			}
		}
		problems = append(problems, fmt.Sprintf("%s: lookahead set read from `%s`", p.Pos(ix.Pos()), exprString(ix)))
	}
	classify = func(e ast.Expr, at ast.Node) {
		e = ast.Unparen(e)
		switch x := e.(type) {
		case *ast.CallExpr:
			if x == firstCall {
				nSources++
				return
			}
			if fn := calleeFunc(info, x); fn != nil && (fn.Name() == "Clone" || fn.Name() == "Copy") {
				if sel, ok := x.Fun.(*ast.SelectorExpr); ok {
					classify(sel.X, at)
					return
				}
			}
			problems = append(problems, fmt.Sprintf("%s: lookahead set comes from `%s`, not from the checked First(beta a) call", p.Pos(x.Pos()), truncate(exprString(x), 60)))
		case *ast.IndexExpr:
			memo(x)
		case *ast.Ident:
			if o := usesObj(info, x); o != nil {
				sourcesOf(o)
			}
		default:
			problems = append(problems, fmt.Sprintf("%s: lookahead set comes from `%s`", p.Pos(e.Pos()), truncate(exprString(e), 60)))
		}
	}
	sourcesOf = func(o types.Object) {
		if seen[o] {
			return
		}
		seen[o] = true
		ast.Inspect(fd.Body, func(n ast.Node) bool {
			switch x := n.(type) {
			case *ast.AssignStmt:
				for i, l := range x.Lhs {
					if usesObj(info, l) != o {
						continue
					}
					if _, isSel := ast.Unparen(l).(*ast.SelectorExpr); isSel {
						continue
					}
					switch {
					case len(x.Lhs) == len(x.Rhs):
						classify(x.Rhs[i], x)
					case len(x.Rhs) == 1 && i == 0:
						classify(x.Rhs[0], x) // v, ok := m[k]
					}
				}
			case *ast.ValueSpec:
				for i, nm := range x.Names {
					if info.Defs[nm] == o && i < len(x.Values) {
						classify(x.Values[i], x)
					}
				}
			case *ast.CallExpr:
				sel, ok := x.Fun.(*ast.SelectorExpr)
				if !ok || usesObj(info, sel.X) != o {
					return true
				}
				if _, isSel := ast.Unparen(sel.X).(*ast.SelectorExpr); isSel {
					return true
				}
				switch sel.Sel.Name {
				case "Add":
					nSources++
					if !(len(x.Args) == 1 && isLookaheadTerminal(x.Args[0]) && betaEmptyAt(x)) {
						problems = append(problems, fmt.Sprintf("%s: `%s` adds a lookahead that is not the item's own under len(beta) == 0", p.Pos(x.Pos()), exprString(x)))
					}
				case "AddSet", "AddSlice":
					if len(x.Args) == 1 {
						classify(x.Args[0], x)
					}
				}
			}
			return true
		})
	}
	sourcesOf(setObj)
	switch {
	case len(problems) > 0:
		c.bad(rule, construct, p.Pos(fd.Pos()), "%s", strings.Join(sortedStrings(problems), "; "))
	case nSources == 0:
		c.unres(rule, construct, p.Pos(fd.Pos()), "no source of the lookahead set found")
	default:
		c.ok(rule, construct, p.Pos(fd.Pos()), "every source of the set the new items' lookaheads range over is FIRST(beta a) of the item being expanded (%d source(s))", nSources)
	}
}

// ---- LALR-6 (skips): every pending item with a nonterminal after the dot is expanded ----
//
// In Closure, an item may be skipped only because it has nothing to expand (the dot is at the end,
// or the symbol after it is a terminal). A `continue` (or an enclosing condition around the
// expansion) that depends on a memo - a set or map consulted with Add/Has/Get/an index - drops the
// lookaheads that item would have contributed: which of them matter depends on the item's own
// lookahead and on the nullability of what follows, not on what was expanded before.
func ruleLALR6skips(c *Ctx, rule string) {
	p := c.Prog
	pk, fd := p.FuncDecl("internal/parsergen/lr1", "Closure")
	if fd == nil {
		c.unres(rule, "lr1.Closure/no-memo-skips", "", "function not found")
		return
	}
	info := pk.TypesInfo
	par := parents(fd)
	// the expansion: the call that adds new items to the result (Add on an ItemSet) inside the loops
	var sites []ast.Node
	ast.Inspect(fd.Body, func(n ast.Node) bool {
		switch x := n.(type) {
		case *ast.BranchStmt:
			if x.Tok == token.CONTINUE {
				sites = append(sites, x)
			}
		case *ast.CallExpr:
			if fn := calleeFunc(info, x); fn != nil && fn.Name() == "Add" && strings.HasSuffix(fullName(fn), "ItemSet.Add") {
				sites = append(sites, x)
			}
		}
		return true
	})
	memoIn := func(e ast.Expr) string {
		why := ""
		ast.Inspect(e, func(m ast.Node) bool {
			switch y := m.(type) {
			case *ast.CallExpr:
				if sel, ok := y.Fun.(*ast.SelectorExpr); ok {
					switch sel.Sel.Name {
					case "Add", "Has", "Contains", "Get", "Put", "LoadOrStore":
						// result.Add(newItem) deciding whether the new item is queued is the algorithm itself
						if fn := calleeFunc(info, y); fn != nil && strings.HasSuffix(fullName(fn), "ItemSet.Add") {
							return true
						}
						why = exprString(y)
					}
				}
			case *ast.IndexExpr:
				if _, isMap := info.TypeOf(y.X).Underlying().(*types.Map); isMap {
					why = exprString(y)
				}
			}
			return true
		})
		return why
	}
	n := 0
	for _, s := range sites {
		for _, fct := range pathConds(info, par, s) {
			n++
			if why := memoIn(fct.e); why != "" {
				c.bad(rule, "lr1.Closure/no-memo-skips", p.Pos(s.Pos()), "whether an item is expanded depends on `%s`, a memo of earlier expansions: the lookaheads this item contributes (FIRST of what follows the nonterminal, then the item's own lookahead) are lost when an earlier item with a different continuation was expanded first", truncate(why, 80))
				return
			}
		}
	}
	c.ok(rule, "lr1.Closure/no-memo-skips", p.Pos(fd.Pos()), "items are skipped only for having nothing to expand (%d conditions examined): no skip depends on a memo of earlier expansions", n)
}
