package main

// C10 — emitted tables are faithful: the encoder (Go code of internal/codegen) and the decoder
// (runtime code inside the templates) agree on the table format, and the row compression is
// structurally lossless.

import (
	"fmt"
	"go/ast"
	"go/constant"
	"go/token"
	"go/types"
	"sort"
	"strings"

	"golang.org/x/tools/go/packages"
)

// ---------- writer side extraction ----------

type writerArm struct {
	constName string
	constVal  int64
	call      *ast.CallExpr // the append call
	code      ast.Expr
	param     ast.Expr
}

type lexWriter struct {
	pk        *packages.Package
	fn        ast.Node // function literal / decl containing the switch
	sw        *ast.SwitchStmt
	arms      map[string]*writerArm
	rowObj    types.Object
	appends   []*ast.CallExpr // all `row = append(row, ...)` in source order
	transCall *ast.CallExpr   // the arity-3 append inside the transitions loop
	transLoop *ast.RangeStmt
	header    []ast.Expr // the words put into the row before the transitions loop
	headerPos token.Pos
	armFn     ast.Node // where the switch lives (== fn, or a helper returning (code, param))
	actNode   ast.Node // the node inside fn that emits the action pair (the switch or the shared append)
}

// enclosingFuncNode returns the innermost FuncLit/FuncDecl containing n within root.
func enclosingFuncNode(root ast.Node, n ast.Node) ast.Node {
	var best ast.Node
	ast.Inspect(root, func(m ast.Node) bool {
		if m == nil {
			return true
		}
		switch m.(type) {
		case *ast.FuncLit, *ast.FuncDecl:
			if containsNode(m, n) {
				best = m
			}
		}
		return containsNode(m, n)
	})
	return best
}

func rowAppends(info *types.Info, fn ast.Node) (types.Object, []*ast.CallExpr) {
	var rowObj types.Object
	var apps []*ast.CallExpr
	counts := map[types.Object]int{}
	inspectNoLit(fn, func(n ast.Node) bool {
		as, ok := n.(*ast.AssignStmt)
		if !ok || len(as.Lhs) != 1 || len(as.Rhs) != 1 {
			return true
		}
		call, ok := as.Rhs[0].(*ast.CallExpr)
		if !ok || builtinName(info, call) != "append" || len(call.Args) < 2 || !sameExpr(call.Args[0], as.Lhs[0]) {
			return true
		}
		if o := usesObj(info, as.Lhs[0]); o != nil {
			counts[o]++
		}
		return true
	})
	best := 0
	for o, n := range counts {
		if n > best {
			best, rowObj = n, o
		}
	}
	inspectNoLit(fn, func(n ast.Node) bool {
		as, ok := n.(*ast.AssignStmt)
		if !ok || len(as.Lhs) != 1 || len(as.Rhs) != 1 {
			return true
		}
		call, ok := as.Rhs[0].(*ast.CallExpr)
		if ok && builtinName(info, call) == "append" && usesObj(info, as.Lhs[0]) == rowObj && sameExpr(call.Args[0], as.Lhs[0]) {
			apps = append(apps, call)
		}
		return true
	})
	sort.Slice(apps, func(i, j int) bool { return apps[i].Pos() < apps[j].Pos() })
	return rowObj, apps
}

func findLexerWriter(c *Ctx) *lexWriter {
	if c.lexW != nil {
		return c.lexW
	}
	p := c.Prog
	pk := p.Pkg("internal/codegen")
	if pk == nil {
		return nil
	}
	info := pk.TypesInfo
	var w *lexWriter
	for _, f := range pk.Syntax {
		if isTestFile(p.Fset, f) {
			continue
		}
		ast.Inspect(f, func(n ast.Node) bool {
			sw, ok := n.(*ast.SwitchStmt)
			if !ok || sw.Tag == nil || !isField(info, sw.Tag, "lexergen/mode", "Action", "Type") {
				return true
			}
			w = &lexWriter{pk: pk, sw: sw, arms: map[string]*writerArm{}}
			w.fn = enclosingFuncNode(f, sw)
			return false
		})
	}
	if w == nil || w.fn == nil {
		return nil
	}
	w.armFn = w.fn
	w.actNode = w.sw
	w.rowObj, w.appends = rowAppends(info, w.fn)
	armHasAppend := false
	for _, app := range w.appends {
		if containsNode(w.sw, app) {
			armHasAppend = true
		}
	}
	// helper form: the switch lives in a function whose arms `return code, param`, and the single
	// call site appends both results to the row
	var helperAppend *ast.CallExpr
	var resultOrder []int // append word k (0-based after the row) is helper result resultOrder[k]
	if !armHasAppend {
		if hd, isDecl := w.fn.(*ast.FuncDecl); isDecl {
			hfn, _ := info.Defs[hd.Name].(*types.Func)
			var sites []*ast.CallExpr
			for _, f := range pk.Syntax {
				if isTestFile(p.Fset, f) {
					continue
				}
				ast.Inspect(f, func(n ast.Node) bool {
					if call, ok := n.(*ast.CallExpr); ok && hfn != nil && calleeFunc(info, call) == hfn {
						sites = append(sites, call)
					}
					return true
				})
			}
			if len(sites) == 1 {
				var file *ast.File
				for _, f := range pk.Syntax {
					if f.Pos() <= sites[0].Pos() && sites[0].End() <= f.End() {
						file = f
					}
				}
				outer := enclosingFuncNode(file, sites[0])
				var resObjs []types.Object
				ast.Inspect(outer, func(n ast.Node) bool {
					if as, ok := n.(*ast.AssignStmt); ok && len(as.Rhs) == 1 && ast.Unparen(as.Rhs[0]) == ast.Expr(sites[0]) {
						for _, l := range as.Lhs {
							resObjs = append(resObjs, usesObj(info, l))
						}
					}
					return true
				})
				w.fn = outer
				w.rowObj, w.appends = rowAppends(info, outer)
				for _, app := range w.appends {
					var order []int
					for _, a := range app.Args[1:] {
						o := usesObj(info, stripConv(info, a))
						for ri, ro := range resObjs {
							if o != nil && o == ro {
								order = append(order, ri)
							}
						}
					}
					if len(order) == len(app.Args)-1 && len(order) == len(resObjs) && len(order) > 0 {
						helperAppend, resultOrder = app, order
					}
				}
				// direct form: row = append(row, helper(action)...) is not valid Go for two results
			}
		}
		if helperAppend == nil {
			return nil
		}
		w.actNode = helperAppend
	}
	for _, cl := range w.sw.Body.List {
		cc := cl.(*ast.CaseClause)
		for _, lbl := range cc.List {
			k, ok := usesObj(info, lbl).(*types.Const)
			if !ok {
				continue
			}
			arm := &writerArm{constName: k.Name()}
			arm.constVal, _ = constant.Int64Val(k.Val())
			if helperAppend == nil {
				for _, app := range w.appends {
					if containsNode(cc, app) {
						arm.call = app
						if len(app.Args) == 3 {
							arm.code, arm.param = app.Args[1], app.Args[2]
						}
					}
				}
			} else {
				// the arm's return statement (exactly one, at its end)
				var rets []*ast.ReturnStmt
				for _, st := range cc.Body {
					inspectNoLit(st, func(n ast.Node) bool {
						if rs, ok := n.(*ast.ReturnStmt); ok {
							rets = append(rets, rs)
						}
						return true
					})
				}
				if len(rets) == 1 && len(rets[0].Results) == len(resultOrder) {
					arm.call = helperAppend
					if len(resultOrder) == 2 {
						arm.code, arm.param = rets[0].Results[resultOrder[0]], rets[0].Results[resultOrder[1]]
					}
				}
			}
			w.arms[k.Name()] = arm
		}
	}
	// transitions loop: the range statement containing an append of arity 3 (+row)
	inspectNoLit(w.fn, func(n ast.Node) bool {
		rs, ok := n.(*ast.RangeStmt)
		if !ok {
			return true
		}
		if containsNode(rs, w.actNode) {
			return true
		}
		for _, app := range w.appends {
			if containsNode(rs.Body, app) && w.transCall == nil {
				w.transCall, w.transLoop = app, rs
			}
		}
		return true
	})
	if w.transLoop != nil {
		// the row's initial value counts as header words
		inspectNoLit(w.fn, func(n ast.Node) bool {
			switch x := n.(type) {
			case *ast.AssignStmt:
				if x.Tok == token.DEFINE && len(x.Lhs) == 1 && len(x.Rhs) == 1 && usesObj(info, x.Lhs[0]) == w.rowObj && x.End() <= w.transLoop.Pos() {
					if cl, ok := ast.Unparen(x.Rhs[0]).(*ast.CompositeLit); ok {
						w.header = append(w.header, cl.Elts...)
						w.headerPos = cl.Pos()
					}
				}
			case *ast.ValueSpec:
				for i, nm := range x.Names {
					if info.Defs[nm] == w.rowObj && i < len(x.Values) {
						if cl, ok := ast.Unparen(x.Values[i]).(*ast.CompositeLit); ok {
							w.header = append(w.header, cl.Elts...)
							w.headerPos = cl.Pos()
						}
					}
				}
			}
			return true
		})
		for _, app := range w.appends {
			if app.End() <= w.transLoop.Pos() && !containsNode(w.actNode, app) {
				w.header = append(w.header, app.Args[1:]...)
				if w.headerPos == token.NoPos {
					w.headerPos = app.Pos()
				}
			}
		}
	}
	c.lexW = w
	return w
}

type lexReader struct {
	fd      *ast.FuncDecl
	sw      *ast.SwitchStmt
	arms    map[int64]*ast.CaseClause
	idxVar  string
	modeVar types.Object
	loop    *ast.ForStmt
}

func findLexerReader(ti *TmplInstance) *lexReader {
	fd, _ := ti.FuncDecl("_LexerStateMachine.PushRune")
	if fd == nil {
		return nil
	}
	var r *lexReader
	par := parents(fd)
	ast.Inspect(fd.Body, func(n ast.Node) bool {
		sw, ok := n.(*ast.SwitchStmt)
		if !ok || sw.Tag == nil || r != nil {
			return true
		}
		ix, ok := ast.Unparen(sw.Tag).(*ast.IndexExpr)
		if !ok {
			return true
		}
		id, ok := ast.Unparen(ix.Index).(*ast.Ident)
		if !ok {
			return true
		}
		r = &lexReader{fd: fd, sw: sw, arms: map[int64]*ast.CaseClause{}, idxVar: id.Name, modeVar: usesObj(ti.Info, ix.X)}
		for _, cl := range sw.Body.List {
			cc := cl.(*ast.CaseClause)
			for _, lbl := range cc.List {
				if v, ok := constInt(ti.Info, lbl); ok {
					r.arms[v] = cc
				}
			}
		}
		for q := par[sw]; q != nil; q = par[q] {
			if fs, ok := q.(*ast.ForStmt); ok {
				r.loop = fs
				break
			}
		}
		return true
	})
	return r
}

type parserWriter struct {
	pk         *packages.Package
	fd         *ast.FuncDecl
	closures   map[string]*ast.FuncLit // template var (global name in the template) => closure
	bindNames  map[string]string       // global name => binding name
	actionsKey ast.Expr
	actionsSw  *ast.SwitchStmt
	actionArms map[string]ast.Expr // lr1.ActionType const name => appended value
}

// findParserWriter maps each table variable of the parser template to the Go closure computing it.
func findParserWriter(c *Ctx) *parserWriter {
	if c.parW != nil {
		return c.parW
	}
	ta := c.Templates()
	if ta.Err != nil {
		return nil
	}
	ti := ta.Variants[0]
	w := &parserWriter{closures: map[string]*ast.FuncLit{}, bindNames: map[string]string{}, actionArms: map[string]ast.Expr{}}
	w.pk = ta.Set.Pkg
	info := w.pk.TypesInfo
	for name, f := range ti.Files {
		if name == "" {
			continue
		}
		var use *TemplateUse
		for _, u := range ta.Set.Uses {
			if u.Name == name {
				use = u
			}
		}
		for _, d := range f.Decls {
			gd, ok := d.(*ast.GenDecl)
			if !ok || gd.Tok != token.VAR {
				continue
			}
			for _, sp := range gd.Specs {
				vs := sp.(*ast.ValueSpec)
				if len(vs.Names) != 1 || len(vs.Values) != 1 {
					continue
				}
				for _, h := range ti.holesIn(vs.Values[0]) {
					gt, ok := h.Value.(jGoText)
					if !ok || gt.Cat != "array" {
						continue
					}
					// hole is f() | array  => eCall{array,[eCall{f}]}
					if outer, ok := h.Expr.(*eCall); ok && len(outer.Args) == 1 {
						if inner, ok := outer.Args[0].(*eCall); ok {
							if id, ok := inner.Fun.(*eIdent); ok && use != nil {
								if fl := funcLitOf(c.Prog, info, use.Binds[id.Name]); fl != nil {
									w.closures[vs.Names[0].Name] = fl
									w.bindNames[vs.Names[0].Name] = id.Name
									w.fd = use.Func
								}
							}
						}
					}
				}
			}
		}
	}
	if fl := w.closures["_actions"]; fl != nil {
		_, apps := rowAppends(info, fl)
		// the switch over the action type: in the closure itself, or in a helper it calls whose
		// arms return the encoded value
		var helperCall *ast.CallExpr
		for _, sc := range funcScope(c.Prog, w.pk, fl, 2) {
			ast.Inspect(sc.node, func(n ast.Node) bool {
				if sw, ok := n.(*ast.SwitchStmt); ok && sw.Tag != nil && isField(info, sw.Tag, "parsergen/lr1", "Action", "Type") && w.actionsSw == nil {
					w.actionsSw = sw
					if sc.node != ast.Node(fl) {
						if hd, ok := sc.node.(*ast.FuncDecl); ok {
							hfn := info.Defs[hd.Name]
							ast.Inspect(fl, func(m ast.Node) bool {
								if call, ok := m.(*ast.CallExpr); ok && calleeFunc(info, call) != nil && types.Object(calleeFunc(info, call)) == hfn {
									helperCall = call
								}
								return true
							})
						}
					}
				}
				return true
			})
		}
		if w.actionsSw != nil && helperCall == nil {
			for _, app := range apps {
				if app.End() <= w.actionsSw.Pos() && len(app.Args) == 2 {
					w.actionsKey = app.Args[1]
				}
			}
			for _, cl := range w.actionsSw.Body.List {
				cc := cl.(*ast.CaseClause)
				for _, lbl := range cc.List {
					if k, ok := usesObj(info, lbl).(*types.Const); ok {
						for _, app := range apps {
							if containsNode(cc, app) && len(app.Args) == 2 {
								w.actionArms[k.Name()] = app.Args[1]
							}
						}
					}
				}
			}
		}
		if w.actionsSw != nil && helperCall != nil {
			// row = append(row, key, helper(action)) (or two appends: key, then the helper's value)
			for _, app := range apps {
				for i, a := range app.Args[1:] {
					if ast.Unparen(stripConv(info, a)) == ast.Expr(helperCall) {
						if i == 1 && len(app.Args) == 3 {
							w.actionsKey = app.Args[1]
						}
						if i == 0 && len(app.Args) == 2 {
							for _, prev := range apps {
								if prev.End() <= app.Pos() && len(prev.Args) == 2 {
									w.actionsKey = prev.Args[1]
								}
							}
						}
					}
				}
			}
			for _, cl := range w.actionsSw.Body.List {
				cc := cl.(*ast.CaseClause)
				for _, lbl := range cc.List {
					if k, ok := usesObj(info, lbl).(*types.Const); ok {
						var rets []*ast.ReturnStmt
						for _, st := range cc.Body {
							inspectNoLit(st, func(n ast.Node) bool {
								if rs, ok := n.(*ast.ReturnStmt); ok {
									rets = append(rets, rs)
								}
								return true
							})
						}
						if len(rets) == 1 && len(rets[0].Results) == 1 {
							w.actionArms[k.Name()] = rets[0].Results[0]
						}
					}
				}
			}
		}
	}
	c.parW = w
	return w
}

// ---------- small symbolic helpers over the reader code ----------

// intLit returns the value of an integer literal / constant expression.
func intLit(info *types.Info, e ast.Expr) (int64, bool) { return constInt(info, e) }

// addConst: e is `x + k` or `x`; returns printed x and k.
func addConst(info *types.Info, e ast.Expr) (string, int64, bool) {
	e = ast.Unparen(e)
	if be, ok := e.(*ast.BinaryExpr); ok && be.Op == token.ADD {
		if k, ok := intLit(info, be.Y); ok {
			return exprString(ast.Unparen(be.X)), k, true
		}
		if k, ok := intLit(info, be.X); ok {
			return exprString(ast.Unparen(be.Y)), k, true
		}
		return "", 0, false
	}
	return exprString(e), 0, true
}

// indexUse describes one read `tbl[base+off]`.
type indexUse struct {
	node *ast.IndexExpr
	base string
	off  int64
}

func indexUses(info *types.Info, root ast.Node, tbl types.Object) []indexUse {
	var out []indexUse
	ast.Inspect(root, func(n ast.Node) bool {
		ix, ok := n.(*ast.IndexExpr)
		if !ok || usesObj(info, ix.X) != tbl {
			return true
		}
		if b, k, ok := addConst(info, stripConv(info, ix.Index)); ok {
			out = append(out, indexUse{ix, b, k})
		}
		return true
	})
	return out
}

// rowHeaderPattern recognises, in function body fd, the shared row-lookup prologue
//
//	i := int(T[int(Y)]); count := int(T[i]); i++; end := i + count
//
// and returns the names (i, count, end) and the table object.
type rowPrologue struct {
	tbl            types.Object
	idx, cnt, end  string
	tblName, yExpr string
	pos            token.Pos
}

func findRowPrologue(info *types.Info, body *ast.BlockStmt) *rowPrologue {
	var stmts []ast.Stmt
	stmts = body.List
	for i := 0; i+3 < len(stmts); i++ {
		a1, ok1 := stmts[i].(*ast.AssignStmt)
		a2, ok2 := stmts[i+1].(*ast.AssignStmt)
		inc, ok3 := stmts[i+2].(*ast.IncDecStmt)
		a4, ok4 := stmts[i+3].(*ast.AssignStmt)
		if !ok1 || !ok2 || !ok3 || !ok4 || len(a1.Lhs) != 1 || len(a2.Lhs) != 1 || len(a4.Lhs) != 1 {
			continue
		}
		ix1, ok := stripConv(info, a1.Rhs[0]).(*ast.IndexExpr)
		if !ok {
			continue
		}
		ix2, ok := stripConv(info, a2.Rhs[0]).(*ast.IndexExpr)
		if !ok {
			continue
		}
		iName := exprString(a1.Lhs[0])
		if usesObj(info, ix1.X) == nil || usesObj(info, ix1.X) != usesObj(info, ix2.X) {
			continue
		}
		if exprString(stripConv(info, ix2.Index)) != iName || inc.Tok != token.INC || exprString(inc.X) != iName {
			continue
		}
		be, ok := ast.Unparen(a4.Rhs[0]).(*ast.BinaryExpr)
		if !ok || be.Op != token.ADD {
			continue
		}
		cName := exprString(a2.Lhs[0])
		ops := []string{exprString(ast.Unparen(be.X)), exprString(ast.Unparen(be.Y))}
		sort.Strings(ops)
		want := []string{iName, cName}
		sort.Strings(want)
		if ops[0] != want[0] || ops[1] != want[1] {
			continue
		}
		return &rowPrologue{tbl: usesObj(info, ix1.X), idx: iName, cnt: cName, end: exprString(a4.Lhs[0]), tblName: exprString(ix1.X),
			yExpr: exprString(stripConv(info, ix1.Index)), pos: a1.Pos()}
	}
	return nil
}

// ---------- FMT-1 / FMT-2 / FMT-3 / FMT-4: lexer tables ----------

func ruleFMT1(c *Ctx) {
	const rule = "FMT-1"
	p := c.Prog
	w := findLexerWriter(c)
	if w == nil || w.transCall == nil {
		c.unres(rule, "codegen.EmitLexer/row-writer", "", "the lexer row writer (switch over mode.Action.Type with row appends) was not found")
		return
	}
	info := w.pk.TypesInfo
	// writer: header words
	headerWords := len(w.header)
	var flagsExpr, countExpr ast.Expr
	if headerWords == 2 {
		flagsExpr, countExpr = w.header[0], w.header[1]
	}
	// count word must be len(<ranged inputs>)
	countOK := false
	if countExpr != nil {
		if call, ok := stripConv(info, countExpr).(*ast.CallExpr); ok && builtinName(info, call) == "len" && sameExpr(call.Args[0], w.transLoop.X) {
			countOK = true
		}
	}
	c.check(headerWords == 2 && countOK, rule, "codegen.EmitLexer/header", p.Pos(w.transLoop.Pos()),
		"row header is [flags][len(inputs)]: two words, the second the number of transitions emitted next",
		fmt.Sprintf("row header has %d words / second word is not len(%s): reader expects [flags][count]", headerWords, exprString(w.transLoop.X)))
	// writer: transition triple
	tri := w.transCall.Args[1:]
	triOK := len(tri) == 3 &&
		isField(info, stripConv(info, tri[0]), "lexergen/rang3", "Range", "B") &&
		isField(info, stripConv(info, tri[1]), "lexergen/rang3", "Range", "E") &&
		isField(info, stripConv(info, tri[2]), "lexergen/dfa", "State", "ID")
	var triS []string
	for _, t := range tri {
		triS = append(triS, exprString(t))
	}
	c.check(triOK, rule, "codegen.EmitLexer/transition-triple", p.Pos(w.transCall.Pos()),
		"each transition is appended as (Range.B, Range.E, target State.ID)",
		fmt.Sprintf("transition is appended as (%s): the reader takes word 0 as lower bound, 1 as upper bound, 2 as next state", strings.Join(triS, ", ")))
	// the target must be the state reached on that very input
	if triOK {
		okTarget := false
		if id, ok := selRoot(tri[2]).(*ast.Ident); ok {
			obj := usesObj(info, id)
			ast.Inspect(w.transLoop.Body, func(n ast.Node) bool {
				as, ok := n.(*ast.AssignStmt)
				if !ok || len(as.Rhs) != 1 {
					return true
				}
				call, ok := as.Rhs[0].(*ast.CallExpr)
				if ok && len(as.Lhs) >= 1 && usesObj(info, as.Lhs[0]) == obj && len(call.Args) == 1 {
					if fn := calleeFunc(info, call); fn != nil && fn.Name() == "Get" && sameExpr(call.Args[0], selRoot(tri[0])) {
						okTarget = true
					}
				}
				return true
			})
		}
		c.check(okTarget, rule, "codegen.EmitLexer/transition-target", p.Pos(w.transCall.Pos()),
			"the emitted target is Transitions.Get(input) for the same input whose bounds are emitted",
			"the emitted target state is not looked up with the input whose bounds are emitted")
	}
	actionArity := -1
	for name, arm := range w.arms {
		if arm.call == nil {
			c.bad(rule, "codegen.EmitLexer/action-arm("+name+")", p.Pos(w.sw.Pos()), "arm for %s appends nothing to the row", name)
			continue
		}
		n := len(arm.call.Args) - 1
		if actionArity == -1 {
			actionArity = n
		} else if n != actionArity {
			c.bad(rule, "codegen.EmitLexer/action-arm("+name+")", p.Pos(arm.call.Pos()), "arm for %s appends %d words, other arms %d", name, n, actionArity)
		}
	}
	// every action of every state is written: the only condition on the way to the action
	// emission is that the state has an action list at all (and, in an arm, which action it is)
	{
		wpar := parents(w.fn)
		wdefs := localDefs(info, w.fn)
		var extra []string
		for _, f := range pathConds(info, wpar, w.actNode) {
			// `X != nil` where X is the state's *mode.Actions
			if l, op, r, ok := cmpFact(f.e, !f.neg); ok && op == token.NEQ {
				okNil := false
				for _, pr := range [][2]ast.Expr{{l, r}, {r, l}} {
					if exprString(pr[1]) == "nil" {
						if t := info.TypeOf(pr[0]); t != nil && typeIs(t, "lexergen/mode", "Actions") {
							okNil = true
						}
					}
				}
				if okNil {
					continue
				}
			}
			extra = append(extra, exprString(f.e))
		}
		_ = wdefs
		c.check(len(extra) == 0, rule, "codegen.EmitLexer/actions-of-every-state", p.Pos(w.actNode.Pos()),
			"the action section is written for every state that has actions (the reader runs a state's actions whenever input was consumed, whatever the state's number)",
			fmt.Sprintf("the action section is written only under %v: some states lose their actions in the table although the reader would run them", extra))
		var extraT []string
		for _, f := range pathConds(info, wpar, w.transCall) {
			extraT = append(extraT, exprString(f.e))
		}
		c.check(len(extraT) == 0, rule, "codegen.EmitLexer/transitions-of-every-state", p.Pos(w.transCall.Pos()),
			"every transition of every state is written", fmt.Sprintf("transitions are written only under %v", extraT))
		// one row per state, stored under the state's ID
		okRow := false
		inspectNoLit(w.fn, func(n ast.Node) bool {
			call, ok := n.(*ast.CallExpr)
			if !ok || len(call.Args) != 2 {
				return true
			}
			if fn := calleeFunc(info, call); fn != nil && fn.Name() == "AddRow" && isField(info, stripConv(info, call.Args[0]), "lexergen/dfa", "State", "ID") && usesObj(info, call.Args[1]) == w.rowObj {
				if len(pathConds(info, wpar, call)) == 0 {
					okRow = true
				}
			}
			return true
		})
		c.check(okRow, rule, "codegen.EmitLexer/row-per-state", p.Pos(w.transLoop.Pos()), "every DFA state's row is added unconditionally under the state's own ID", "a state's row is not added unconditionally under State.ID")
	}
	checkWriterActionOrder(c, rule, w)
	// order: header, transitions, actions
	c.check(w.transLoop.End() <= w.actNode.Pos(), rule, "codegen.EmitLexer/section-order", p.Pos(w.actNode.Pos()),
		"transitions are appended before actions", "actions are appended before the transitions: the reader skips gotoN*3 words to find the actions")

	// reader
	ta := c.tmplOrUnres(rule)
	if ta == nil {
		return
	}
	ti := ta.Variants[0]
	r := findLexerReader(ti)
	if r == nil {
		c.unres(rule, "template/PushRune", "", "the reader's action switch was not found")
		return
	}
	tinfo := ti.Info
	modeName := r.modeVar.Name()
	if !rowReaderOK(tinfo, r.fd.Body, modeName) {
		c.bad(rule, "template/PushRune/row-prologue", ti.Pos(r.fd.Pos()), "PushRune does not locate its row through the index vector (offset = t[state], then a length-prefixed row at t[offset])")
		return
	}
	defs := localDefs(tinfo, r.fd.Body)
	// header: two reads t[c+0], t[c+1] assigned to locals before the action loop, with the same
	// cursor c, followed by c += H
	type hdrRead struct {
		v    string
		base string
		off  int64
		pos  token.Pos
	}
	var hdr []hdrRead
	var flagConstUse string
	ast.Inspect(r.fd.Body, func(n ast.Node) bool {
		as, ok := n.(*ast.AssignStmt)
		if !ok || as.Tok != token.DEFINE || len(as.Lhs) != len(as.Rhs) || (r.loop != nil && as.Pos() > r.loop.Pos()) {
			return true
		}
		for k, rhs := range as.Rhs {
			ix, ok := stripConv(tinfo, rhs).(*ast.IndexExpr)
			if !ok || usesObj(tinfo, ix.X) != r.modeVar {
				continue
			}
			if b, off, ok := addConst(tinfo, stripConv(tinfo, ix.Index)); ok {
				hdr = append(hdr, hdrRead{exprString(as.Lhs[k]), b, off, as.Pos()})
			}
		}
		return true
	})
	// the flags variable is the one tested with `& const`
	ast.Inspect(r.fd.Body, func(n ast.Node) bool {
		if be, ok := n.(*ast.BinaryExpr); ok && be.Op == token.AND {
			if _, isConst := usesObj(tinfo, be.Y).(*types.Const); isConst {
				flagConstUse = exprString(ast.Unparen(be.X))
			}
		}
		return true
	})
	var flagsVar, cntVar, cursor string
	for _, h := range hdr {
		if h.v == flagConstUse && h.off == 0 {
			flagsVar, cursor = h.v, h.base
		}
	}
	if flagsVar == "" {
		// the flags word is tested where it is read: T[c+0] & K
		ast.Inspect(r.fd.Body, func(n ast.Node) bool {
			be, ok := n.(*ast.BinaryExpr)
			if !ok || be.Op != token.AND {
				return true
			}
			for _, pr := range [][2]ast.Expr{{be.X, be.Y}, {be.Y, be.X}} {
				if _, isConst := usesObj(tinfo, pr[1]).(*types.Const); !isConst {
					continue
				}
				if ix, ok := stripConv(tinfo, pr[0]).(*ast.IndexExpr); ok && usesObj(tinfo, ix.X) == r.modeVar {
					if b, off, ok := addConst(tinfo, stripConv(tinfo, ix.Index)); ok && off == 0 {
						flagsVar, cursor = exprString(ix), b
					}
				}
			}
			return true
		})
	}
	for _, h := range hdr {
		if h.base == cursor && h.off == 1 && cursor != "" {
			cntVar = h.v
		}
	}
	headerSkip := int64(-1)
	stride1, stride2 := int64(-1), int64(-1)
	var stride2Var string
	// where the action section starts: `cursor += count*K` before the action loop, or the action
	// loop's own index defined as `cursor + count*K`
	ast.Inspect(r.fd.Body, func(n ast.Node) bool {
		as, ok := n.(*ast.AssignStmt)
		if !ok || len(as.Lhs) != 1 || len(as.Rhs) != 1 {
			return true
		}
		lhs := exprString(as.Lhs[0])
		if as.Tok == token.ADD_ASSIGN && lhs == cursor {
			if k, ok := intLit(tinfo, as.Rhs[0]); ok && (r.loop == nil || as.Pos() < r.loop.Pos()) && headerSkip == -1 {
				headerSkip = k
				return true
			}
			terms, k := linearForm(tinfo, nil, as.Rhs[0])
			if k == 0 && len(terms) == 1 {
				for a, co := range terms {
					stride2, stride2Var = co, a
				}
			}
		}
		if as.Tok == token.DEFINE && lhs == r.idxVar {
			terms, k := linearForm(tinfo, nil, as.Rhs[0])
			if k == 0 && len(terms) == 2 && terms[cursor] == 1 {
				for a, co := range terms {
					if a != cursor {
						stride2, stride2Var = co, a
					}
				}
			}
		}
		return true
	})
	// the transition words read by the search: T[cursor + j*K + off], T being the table or a
	// sub-slice of it starting at the cursor; K is the search stride, off the word's position
	type searchRead struct {
		off, stride int64
	}
	readOf := func(e ast.Expr) (searchRead, bool) {
		ix, ok := stripConv(tinfo, resolveVia(tinfo, defs, e)).(*ast.IndexExpr)
		if !ok {
			return searchRead{}, false
		}
		var low ast.Expr
		if usesObj(tinfo, ix.X) != r.modeVar {
			sl, isSl := ast.Unparen(resolveVia(tinfo, defs, ix.X)).(*ast.SliceExpr)
			if !isSl || usesObj(tinfo, sl.X) != r.modeVar {
				return searchRead{}, false
			}
			low = sl.Low
		}
		terms, k := linearForm(tinfo, defs, ix.Index)
		if low != nil {
			t2, k2 := linearForm(tinfo, defs, low)
			for a, co := range t2 {
				terms[a] += co
			}
			k += k2
		}
		if len(terms) < 2 || terms[cursor] != 1 {
			return searchRead{}, false
		}
		// everything besides the cursor is the probe index scaled by the stride
		stride := int64(0)
		for a, co := range terms {
			if a == cursor {
				continue
			}
			if stride != 0 && co != stride {
				return searchRead{}, false
			}
			stride = co
		}
		return searchRead{k, stride}, true
	}
	runeParam := paramObj(tinfo, r.fd, 0)
	roles := map[int64]string{}
	nReads := 0
	addRole := func(rd searchRead, role string) {
		nReads++
		if stride1 == -1 {
			stride1 = rd.stride
		} else if stride1 != rd.stride {
			stride1 = -2 // inconsistent
		}
		if prev, ok := roles[rd.off]; ok && prev != role {
			role = prev + "|" + role
		}
		roles[rd.off] = role
	}
	ast.Inspect(r.fd.Body, func(n ast.Node) bool {
		switch x := n.(type) {
		case *ast.BinaryExpr:
			var other ast.Expr
			op := x.Op
			if usesObj(tinfo, ast.Unparen(x.X)) == runeParam {
				other = x.Y
			} else if usesObj(tinfo, ast.Unparen(x.Y)) == runeParam {
				other = x.X
				switch op { // normalise to r OP other
				case token.LSS:
					op = token.GTR
				case token.GTR:
					op = token.LSS
				case token.LEQ:
					op = token.GEQ
				case token.GEQ:
					op = token.LEQ
				}
			} else {
				return true
			}
			rd, ok := readOf(other)
			if !ok {
				return true
			}
			switch op {
			case token.GEQ, token.LSS: // r >= X, r < X : X is the lower bound
				addRole(rd, "lower")
			case token.LEQ, token.GTR: // r <= X, r > X : X is the upper bound
				addRole(rd, "upper")
			}
		case *ast.AssignStmt:
			for k, rhs := range x.Rhs {
				if k < len(x.Lhs) && len(x.Lhs) == len(x.Rhs) {
					if fv, _ := selField(tinfo, x.Lhs[k]); fv != nil {
						if rd, ok := readOf(rhs); ok {
							addRole(rd, "store:"+fv.Name())
						}
					}
				}
			}
		}
		return true
	})
	c.check(flagsVar != "" && cntVar != "" && headerSkip == int64(headerWords), rule, "template/PushRune/header", ti.Pos(r.fd.Pos()),
		fmt.Sprintf("reader takes flags at +0, transition count at +1 and skips %d header words, as written", headerSkip),
		fmt.Sprintf("reader header (flags var %q at +0, count var %q at +1, skip %d) disagrees with the %d header words written", flagsVar, cntVar, headerSkip, headerWords))
	transArity := int64(len(tri))
	c.check(stride1 == transArity && stride2 == transArity && stride2Var == cntVar, rule, "template/PushRune/transition-stride", ti.Pos(r.fd.Pos()),
		fmt.Sprintf("binary search steps by %d words and the action section starts %s*%d words later: equal to the %d words written per transition", stride1, stride2Var, stride2, transArity),
		fmt.Sprintf("strides: search %d, skip %s*%d; writer emits %d words per transition and the count is %q", stride1, stride2Var, stride2, transArity, cntVar))
	if nReads > 0 {
		okRoles := roles[0] == "lower" && roles[1] == "upper" && strings.HasPrefix(roles[2], "store:state")
		c.check(okRoles, rule, "template/PushRune/transition-roles", ti.Pos(r.fd.Pos()),
			"word +0 is compared as the lower bound, +1 as the upper bound, +2 is stored as the next state",
			fmt.Sprintf("roles of the transition words in the reader are %v; the writer emits (lower, upper, next)", roles))
	} else {
		c.bad(rule, "template/PushRune/transition-roles", ti.Pos(r.fd.Pos()), "no read of the form T[cursor + j*stride + k] in the transition search")
	}
	// action loop
	actStride := int64(-1)
	if r.loop != nil {
		if as, ok := r.loop.Post.(*ast.AssignStmt); ok && as.Tok == token.ADD_ASSIGN && exprString(as.Lhs[0]) == r.idxVar {
			actStride, _ = intLit(tinfo, as.Rhs[0])
		}
	}
	paramOff := map[int64]bool{}
	for _, u := range indexUses(tinfo, r.sw, r.modeVar) {
		if u.base == r.idxVar {
			paramOff[u.off] = true
		}
	}
	delete(paramOff, 0)
	c.check(actStride == int64(actionArity) && (len(paramOff) == 0 || (len(paramOff) == 1 && paramOff[1])), rule, "template/PushRune/action-stride", ti.Pos(r.sw.Pos()),
		fmt.Sprintf("actions are read as %d-word records: code at +0, parameter at +1", actStride),
		fmt.Sprintf("action loop steps by %d and reads offsets %v; the writer emits %d words per action (code, parameter)", actStride, keysOf(paramOff), actionArity))
	_ = flagsExpr
}

func keysOf(m map[int64]bool) []int64 {
	var ks []int64
	for k := range m {
		ks = append(ks, k)
	}
	sort.Slice(ks, func(i, j int) bool { return ks[i] < ks[j] })
	return ks
}

func selRoot(e ast.Expr) ast.Expr {
	e = ast.Unparen(e)
	for {
		switch x := e.(type) {
		case *ast.SelectorExpr:
			e = ast.Unparen(x.X)
			continue
		case *ast.CallExpr:
			if len(x.Args) == 1 {
				e = ast.Unparen(x.Args[0])
				continue
			}
		}
		return e
	}
}

func ruleFMT2(c *Ctx) {
	const rule = "FMT-2"
	p := c.Prog
	w := findLexerWriter(c)
	if w == nil || w.transLoop == nil {
		c.unres(rule, "codegen.EmitLexer/sort-before-emit", "", "lexer row writer not found")
		return
	}
	info := w.pk.TypesInfo
	var sortCall *ast.CallExpr
	inspectNoLit(w.fn, func(n ast.Node) bool {
		call, ok := n.(*ast.CallExpr)
		if !ok || !sortFuncs[fullName(calleeFunc(info, call))] || len(call.Args) < 1 || !sameExpr(call.Args[0], w.transLoop.X) {
			return true
		}
		sortCall = call
		return true
	})
	if sortCall == nil {
		c.bad(rule, "codegen.EmitLexer/sort-before-emit", p.Pos(w.transLoop.Pos()), "the transition ranges (%s) are emitted without being sorted: the reader binary-searches them", exprString(w.transLoop.X))
		return
	}
	cmpOK := false
	if len(sortCall.Args) == 2 {
		if fn, ok := usesObj(info, sortCall.Args[1]).(*types.Func); ok && fullName(fn) == modPath+"/internal/lexergen/rang3.Compare" {
			cmpOK = true
		}
	}
	g := p.CFG(w.pk, w.fn)
	dom := g != nil && mustPassBefore(g, w.transCall, func(n ast.Node) bool { return containsNode(n, sortCall) })
	c.check(cmpOK && dom, rule, "codegen.EmitLexer/sort-before-emit", p.Pos(sortCall.Pos()),
		"slices.SortFunc(inputs, rang3.Compare) dominates the loop that emits the transitions (ascending by lower bound)",
		"the sort of the transition ranges does not use rang3.Compare or does not dominate the emitting loop")
	// Compare orders by B first
	pk, fd := p.FuncDecl("internal/lexergen/rang3", "Compare")
	if fd == nil {
		c.unres(rule, "rang3.Compare", "", "function not found")
		return
	}
	firstCase := ""
	ast.Inspect(fd.Body, func(n ast.Node) bool {
		if cc, ok := n.(*ast.CaseClause); ok && firstCase == "" && len(cc.List) == 1 {
			firstCase = exprString(cc.List[0])
			if len(cc.Body) == 1 {
				if rs, ok := cc.Body[0].(*ast.ReturnStmt); ok {
					firstCase += " => " + exprString(rs.Results[0])
				}
			}
		}
		return true
	})
	_ = pk
	c.check(firstCase == "a.B < b.B => -1", rule, "rang3.Compare/primary-key", p.Pos(fd.Pos()),
		"Compare orders by the lower bound first (ascending)", "Compare's first test is `"+firstCase+"`, not `a.B < b.B => -1`")
}

func ruleFMT3(c *Ctx) {
	const rule = "FMT-3"
	p := c.Prog
	w := findLexerWriter(c)
	if w == nil {
		c.unres(rule, "codegen.EmitLexer/action-codes", "", "lexer row writer not found")
		return
	}
	info := w.pk.TypesInfo
	// constants that can occur in mode.Action literals
	used := map[string]int64{}
	p.ProdFiles(func(pk *packages.Package, f *ast.File) {
		ast.Inspect(f, func(n ast.Node) bool {
			cl, ok := n.(*ast.CompositeLit)
			if !ok || !typeIs(pk.TypesInfo.TypeOf(cl), "lexergen/mode", "Action") {
				return true
			}
			for _, el := range cl.Elts {
				if kv, ok := el.(*ast.KeyValueExpr); ok {
					if id, ok := kv.Key.(*ast.Ident); ok && id.Name == "Type" {
						if k, ok := usesObj(pk.TypesInfo, kv.Value).(*types.Const); ok {
							v, _ := constant.Int64Val(k.Val())
							used[k.Name()] = v
						} else {
							c.bad(rule, "mode.Action-literal/Type", p.Pos(kv.Pos()), "action type `%s` is not one of the declared constants", exprString(kv.Value))
						}
					}
				}
			}
			return true
		})
	})
	if len(used) < 5 {
		c.unres(rule, "mode.Action-literals", "", "only %d distinct action types are constructed in the repository; expected 5", len(used))
	}
	for name, val := range used {
		arm := w.arms[name]
		construct := "codegen.EmitLexer/code(" + name + ")"
		if arm == nil || arm.code == nil {
			c.bad(rule, construct, p.Pos(w.sw.Pos()), "the writer has no arm emitting a (code, parameter) pair for %s, which the front end can produce", name)
			continue
		}
		code, ok := intLit(info, arm.code)
		c.check(ok && code == val, rule, construct, p.Pos(arm.call.Pos()),
			fmt.Sprintf("%s (=%d) is written as code %d", name, val, code),
			fmt.Sprintf("%s has value %d but is written as code `%s`", name, val, exprString(arm.code)))
	}
	// default arm of the writer must not silently drop unknown actions
	hasDefaultPanic := false
	for _, cl := range w.sw.Body.List {
		cc := cl.(*ast.CaseClause)
		if cc.List == nil {
			for _, s := range cc.Body {
				if es, ok := s.(*ast.ExprStmt); ok {
					if call, ok := es.X.(*ast.CallExpr); ok && (builtinName(info, call) == "panic" || isAssertFunc(calleeFunc(info, call))) {
						hasDefaultPanic = true
					}
				}
			}
		}
	}
	c.check(hasDefaultPanic, rule, "codegen.EmitLexer/default-arm", p.Pos(w.sw.Pos()), "an action type without an arm aborts generation", "an action type without an arm is silently dropped from the table")

	ta := c.tmplOrUnres(rule)
	if ta == nil {
		return
	}
	ti := ta.Variants[0]
	r := findLexerReader(ti)
	if r == nil {
		c.unres(rule, "template/PushRune/action-switch", "", "reader switch not found")
		return
	}
	// classify reader arms by effect
	effect := func(cc *ast.CaseClause) string {
		var effs []string
		ast.Inspect(cc, func(n ast.Node) bool {
			switch x := n.(type) {
			case *ast.CallExpr:
				if sel, ok := x.Fun.(*ast.SelectorExpr); ok {
					if fv, _ := selField(ti.Info, sel.X); fv != nil && typeIs(fv.Type(), "", "_Stack") {
						effs = append(effs, strings.ToLower(sel.Sel.Name))
					}
				}
			case *ast.AssignStmt:
				// the stack operations spelled on the slice itself
				if len(x.Lhs) == 1 && len(x.Rhs) == 1 {
					if fv, _ := selField(ti.Info, x.Lhs[0]); fv != nil && typeIs(fv.Type(), "", "_Stack") {
						switch y := ast.Unparen(x.Rhs[0]).(type) {
						case *ast.CallExpr:
							if builtinName(ti.Info, y) == "append" && len(y.Args) >= 2 && sameExpr(y.Args[0], x.Lhs[0]) {
								effs = append(effs, "push")
							}
						case *ast.SliceExpr:
							if sameExpr(y.X, x.Lhs[0]) && y.Low == nil && y.High != nil {
								effs = append(effs, "pop")
							}
						}
					}
				}
			case *ast.ReturnStmt:
				if len(x.Results) == 1 {
					if k, ok := usesObj(ti.Info, x.Results[0]).(*types.Const); ok {
						effs = append(effs, "return "+k.Name())
					}
				}
			}
			return true
		})
		return strings.Join(dedupe(effs), ",")
	}
	want := map[string]func(string) bool{
		"ActionPushMode": func(e string) bool {
			return strings.Contains(e, "push") && !strings.Contains(e, "return _lexerAccept") && !strings.Contains(e, "pop")
		},
		"ActionPopMode": func(e string) bool { return strings.Contains(e, "pop") && !strings.Contains(e, "push") },
		"ActionAccept":  func(e string) bool { return e == "return _lexerAccept" },
		"ActionDiscard": func(e string) bool { return e == "return _lexerDiscard" },
		"ActionAccum":   func(e string) bool { return e == "return _lexerTryAgain" },
	}
	seenCodes := map[int64]bool{}
	for name, val := range used {
		seenCodes[val] = true
		cc := r.arms[val]
		construct := "template/PushRune/arm(" + name + ")"
		if cc == nil {
			c.bad(rule, construct, ti.Pos(r.sw.Pos()), "the reader has no case %d for %s: the action would be skipped silently", val, name)
			continue
		}
		e := effect(cc)
		chk := want[name]
		if chk == nil {
			c.unres(rule, construct, ti.Pos(cc.Pos()), "action type %s is unknown to the checker (effect of its arm: %s)", name, e)
			continue
		}
		c.check(chk(e), rule, construct, ti.Pos(cc.Pos()), fmt.Sprintf("case %d has the effect of %s (%s)", val, name, e),
			fmt.Sprintf("case %d is the arm for %s but its effect is `%s`", val, name, e))
	}
	for code := range r.arms {
		if !seenCodes[code] {
			c.bad(rule, fmt.Sprintf("template/PushRune/arm(%d)", code), ti.Pos(r.arms[code].Pos()), "the reader has a case %d that the writer never emits", code)
		}
	}
	// result codes agree with the reference driver
	sl := p.ByID["github.com/dcaiafa/loxlex/simplelexer"]
	if sl == nil {
		c.unres(rule, "simplelexer/action-codes", "", "simplelexer not loaded")
		return
	}
	pairs := [][2]string{{"_lexerConsume", "actionConsume"}, {"_lexerAccept", "actionAccept"}, {"_lexerDiscard", "actionDiscard"}, {"_lexerTryAgain", "actionTryAgain"}, {"_lexerEOF", "actionEOF"}}
	driverVals := map[int64]bool{}
	for _, pr := range pairs {
		tk, ok1 := ti.Pkg.Scope().Lookup(pr[0]).(*types.Const)
		dk, ok2 := sl.Types.Scope().Lookup(pr[1]).(*types.Const)
		if !ok1 || !ok2 {
			c.unres(rule, "result-code("+pr[0]+")", "", "constant %s or simplelexer.%s not found", pr[0], pr[1])
			continue
		}
		tv, _ := constant.Int64Val(tk.Val())
		dv, _ := constant.Int64Val(dk.Val())
		driverVals[dv] = true
		c.check(tv == dv, rule, "result-code("+pr[0]+")", "", fmt.Sprintf("%s = %d = simplelexer.%s", pr[0], tv, pr[1]),
			fmt.Sprintf("%s = %d but the reference driver's %s = %d", pr[0], tv, pr[1], dv))
	}
	if ek, ok := ti.Pkg.Scope().Lookup("_lexerError").(*types.Const); ok {
		ev, _ := constant.Int64Val(ek.Val())
		c.check(!driverVals[ev], rule, "result-code(_lexerError)", "", fmt.Sprintf("_lexerError = %d falls into the driver's default (error) arm", ev),
			fmt.Sprintf("_lexerError = %d collides with one of the driver's action codes", ev))
	} else {
		c.unres(rule, "result-code(_lexerError)", "", "constant not found")
	}
}

func ruleFMT4(c *Ctx) {
	const rule = "FMT-4"
	p := c.Prog
	w := findLexerWriter(c)
	ta := c.tmplOrUnres(rule)
	if w == nil || ta == nil || len(w.header) == 0 {
		c.unres(rule, "non-greedy-flag", "", "lexer row writer not found")
		return
	}
	info := w.pk.TypesInfo
	ti := ta.Variants[0]
	// the flags word is the first header word; find the variable and its conditional assignment
	flagsObj := usesObj(info, stripConv(info, w.header[0]))
	if flagsObj == nil {
		c.bad(rule, "codegen.EmitLexer/flags-word", p.Pos(w.headerPos), "the first header word is not a flags variable")
		return
	}
	var setVal *types.Const
	var cond ast.Expr
	nAssign := 0
	par := parents(w.fn)
	inspectNoLit(w.fn, func(n ast.Node) bool {
		as, ok := n.(*ast.AssignStmt)
		if !ok || len(as.Lhs) != 1 || usesObj(info, as.Lhs[0]) != flagsObj || as.Tok == token.DEFINE {
			return true
		}
		nAssign++
		setVal, _ = usesObj(info, as.Rhs[0]).(*types.Const)
		for q := par[as]; q != nil; q = par[q] {
			if ifs, ok := q.(*ast.IfStmt); ok && containsNode(ifs.Body, as) {
				cond = ifs.Cond
				break
			}
		}
		return true
	})
	condOK := false
	if be, ok := ast.Unparen(cond).(*ast.BinaryExpr); ok && be.Op == token.LAND {
		a := isField(info, be.X, "lexergen/dfa", "State", "Accept") && isField(info, be.Y, "lexergen/dfa", "State", "NonGreedy")
		b := isField(info, be.Y, "lexergen/dfa", "State", "Accept") && isField(info, be.X, "lexergen/dfa", "State", "NonGreedy")
		condOK = a || b
	}
	c.check(nAssign == 1 && setVal != nil && condOK, rule, "codegen.EmitLexer/flags-word", p.Pos(w.headerPos),
		"the flags word is set to the non-greedy flag under exactly `state.Accept && state.NonGreedy`",
		fmt.Sprintf("the flags word is not set exactly under `state.Accept && state.NonGreedy` (condition: %s, %d assignments)", exprStringOrNil(cond), nAssign))
	// reader's tested constant
	r := findLexerReader(ti)
	if r == nil {
		c.unres(rule, "template/PushRune/flag-test", "", "reader not found")
		return
	}
	var tested *types.Const
	var testNode ast.Node
	rdefs := localDefs(ti.Info, r.fd)
	ast.Inspect(r.fd.Body, func(n ast.Node) bool {
		be, ok := n.(*ast.BinaryExpr)
		if !ok || be.Op != token.AND {
			return true
		}
		for _, pr := range [][2]ast.Expr{{be.X, be.Y}, {be.Y, be.X}} {
			k, isK := usesObj(ti.Info, pr[1]).(*types.Const)
			if !isK {
				continue
			}
			// the other operand is a word read from the mode table (the flags word)
			if ix, isIx := stripConv(ti.Info, resolveVia(ti.Info, rdefs, pr[0])).(*ast.IndexExpr); isIx && usesObj(ti.Info, ix.X) == r.modeVar {
				tested, testNode = k, be
			}
		}
		return true
	})
	if tested == nil || setVal == nil {
		c.bad(rule, "template/PushRune/flag-test", ti.Pos(r.fd.Pos()), "the reader does not test a flag bit of the row's flags word")
		return
	}
	c.check(constant.Compare(tested.Val(), token.EQL, setVal.Val()), rule, "flag-value", ti.Pos(testNode.Pos()),
		fmt.Sprintf("writer constant %s = %s equals reader constant %s", setVal.Name(), setVal.Val(), tested.Name()),
		fmt.Sprintf("writer sets %s = %s but the reader tests %s = %s", setVal.Name(), setVal.Val(), tested.Name(), tested.Val()))
}

func exprStringOrNil(e ast.Expr) string {
	if e == nil {
		return "<none>"
	}
	return exprString(e)
}

// ---------- FMT-5: row compression ----------

var keyEncoders = map[string]bool{
	"encoding/binary.AppendVarint": true, "encoding/binary.AppendUvarint": true,
	"encoding/binary.bigEndian.AppendUint32": true, "encoding/binary.bigEndian.AppendUint64": true,
	"encoding/binary.littleEndian.AppendUint32": true, "encoding/binary.littleEndian.AppendUint64": true,
}

func ruleFMT5(c *Ctx) {
	const rule = "FMT-5"
	p := c.Prog
	pk := p.Pkg("internal/codegen")
	info := pk.TypesInfo
	// rowKey
	_, rk := p.FuncDecl("internal/codegen", "table.rowKey")
	if rk == nil {
		c.unres(rule, "codegen.table.rowKey", "", "function not found")
	} else {
		param := paramObj(info, rk, 0)
		var rng *ast.RangeStmt
		ast.Inspect(rk.Body, func(n ast.Node) bool {
			if rs, ok := n.(*ast.RangeStmt); ok && usesObj(info, rs.X) == param {
				rng = rs
			}
			return true
		})
		okKey := false
		why := "no loop over the whole row"
		if rng != nil {
			why = "loop body is not a single unconditional append of an allow-listed self-delimiting encoding of the element"
			if len(rng.Body.List) == 1 {
				if as, ok := rng.Body.List[0].(*ast.AssignStmt); ok && len(as.Rhs) == 1 {
					if call, ok := as.Rhs[0].(*ast.CallExpr); ok && len(call.Args) == 2 && sameExpr(as.Lhs[0], call.Args[0]) {
						full := fullName(calleeFunc(info, call))
						valObj := usesObj(info, rng.Value)
						if keyEncoders[full] && valObj != nil && usesObj(info, stripConv(info, call.Args[1])) == valObj {
							okKey = true
							why = full
						} else {
							why = fmt.Sprintf("element is encoded with %s(%s)", full, exprString(call.Args[1]))
						}
					}
				}
			}
			// result must be the whole key
		}
		c.check(okKey, rule, "codegen.table.rowKey", p.Pos(rk.Pos()),
			"the dedup key encodes every element of the row with a self-delimiting encoding ("+why+"): equal keys imply equal rows",
			"row dedup key may identify different rows: "+why)
	}
	// field roles of the row store, by type (names are free): the slice of stored rows, the map
	// index -> offset, the map key -> offset, the last index
	var rowsF, idxF, keyF, lastF *types.Var
	if tn, ok := pk.Types.Scope().Lookup("table").(*types.TypeName); ok {
		if st, ok := tn.Type().Underlying().(*types.Struct); ok {
			for k := 0; k < st.NumFields(); k++ {
				f := st.Field(k)
				switch u := f.Type().Underlying().(type) {
				case *types.Slice:
					rowsF = f
				case *types.Map:
					if isString(u.Key()) {
						keyF = f
					} else {
						idxF = f
					}
				case *types.Basic:
					if u.Info()&types.IsInteger != 0 {
						lastF = f
					}
				}
			}
		}
	}
	isF := func(e ast.Expr, f *types.Var) bool {
		fv, _ := selField(info, e)
		return fv != nil && (fv == f || fv.Origin() == f)
	}
	if rowsF == nil || idxF == nil || keyF == nil || lastF == nil {
		c.unres(rule, "codegen.table/fields", "", "the row store does not have the expected fields (rows slice, index map, key map, last index)")
		return
	}
	// AddRow
	_, ar := p.FuncDecl("internal/codegen", "table.AddRow")
	if ar == nil {
		c.unres(rule, "codegen.table.AddRow", "", "function not found")
	} else {
		rowParam := paramObj(info, ar, 1)
		idxParam := paramObj(info, ar, 0)
		defs := localDefs(info, ar.Body)
		var lenApp, rowApp *ast.CallExpr
		var idxNew, idxOld *ast.AssignStmt
		isLenRows := func(e ast.Expr) bool {
			e = resolveVia(info, defs, e)
			call, ok := e.(*ast.CallExpr)
			return ok && builtinName(info, call) == "len" && isF(call.Args[0], rowsF)
		}
		ast.Inspect(ar.Body, func(n ast.Node) bool {
			as, ok := n.(*ast.AssignStmt)
			if !ok || len(as.Lhs) != 1 || len(as.Rhs) != 1 {
				return true
			}
			if call, ok := as.Rhs[0].(*ast.CallExpr); ok && builtinName(info, call) == "append" && isF(as.Lhs[0], rowsF) {
				if call.Ellipsis.IsValid() && usesObj(info, call.Args[1]) == rowParam {
					rowApp = call
				} else if len(call.Args) == 2 {
					if inner, ok := stripConv(info, call.Args[1]).(*ast.CallExpr); ok && builtinName(info, inner) == "len" && usesObj(info, inner.Args[0]) == rowParam {
						lenApp = call
					}
				}
			}
			if ix, ok := as.Lhs[0].(*ast.IndexExpr); ok && isF(ix.X, idxF) && usesObj(info, ix.Index) == idxParam {
				if isLenRows(as.Rhs[0]) {
					idxNew = as
				} else {
					idxOld = as
				}
			}
			return true
		})
		okAdd := lenApp != nil && rowApp != nil && idxNew != nil && lenApp.Pos() < rowApp.Pos()
		if okAdd {
			// the offset must be len(rows) as it was BEFORE the appends: either the assignment or the
			// local it reads is evaluated first
			at := idxNew.Pos()
			if id, ok := ast.Unparen(idxNew.Rhs[0]).(*ast.Ident); ok {
				ast.Inspect(ar.Body, func(n ast.Node) bool {
					if as, ok := n.(*ast.AssignStmt); ok && len(as.Lhs) == 1 && usesObj(info, as.Lhs[0]) == info.Uses[id] {
						at = as.Pos()
					}
					return true
				})
			}
			okAdd = at < lenApp.Pos()
		}
		c.check(okAdd, rule, "codegen.table.AddRow", p.Pos(ar.Pos()),
			"a new row is stored as [len(row)] ++ row and indexed by the offset of its length word",
			"AddRow does not store [len(row)] ++ row with the index pointing at the length word")
		okDup := false
		if idxOld != nil {
			if v := usesObj(info, idxOld.Rhs[0]); v != nil {
				ast.Inspect(ar.Body, func(n ast.Node) bool {
					as, ok := n.(*ast.AssignStmt)
					if !ok || len(as.Lhs) != 2 || len(as.Rhs) != 1 || usesObj(info, as.Lhs[0]) != v {
						return true
					}
					if ix, ok := as.Rhs[0].(*ast.IndexExpr); ok && isF(ix.X, keyF) {
						okDup = true
					}
					return true
				})
			}
		}
		// and the key map records the same offset as the index map for a new row
		okKey := false
		ast.Inspect(ar.Body, func(n ast.Node) bool {
			as, ok := n.(*ast.AssignStmt)
			if ok && len(as.Lhs) == 1 {
				if ix, ok := as.Lhs[0].(*ast.IndexExpr); ok && isF(ix.X, keyF) && isLenRows(as.Rhs[0]) {
					okKey = true
				}
			}
			return true
		})
		c.check(okDup && okKey, rule, "codegen.table.AddRow/dedup", p.Pos(ar.Pos()), "a duplicate row's index is the offset recorded for the same key, which is the offset its first copy was stored at",
			"a duplicate row's index is not the offset recorded in the key map for its first copy")
	}
	// Array
	_, arr := p.FuncDecl("internal/codegen", "table.Array")
	if arr == nil {
		c.unres(rule, "codegen.table.Array", "", "function not found")
	} else {
		defs := localDefs(info, arr.Body)
		recv := arr.Recv.List[0].Names[0].Name
		lastAtom := recv + "." + lastF.Name()
		var loop *ast.ForStmt
		ast.Inspect(arr.Body, func(n ast.Node) bool {
			if fs, ok := n.(*ast.ForStmt); ok && loop == nil {
				loop = fs
			}
			return true
		})
		okArr := false
		why := "no index loop"
		if loop != nil && loop.Cond != nil {
			// number of index entries: i from 0 while i < N  (or i <= N-1)
			var nT map[string]int64
			var nK int64
			startOK := false
			if as, ok := loop.Init.(*ast.AssignStmt); ok && len(as.Rhs) == 1 {
				if v, ok := intLit(info, as.Rhs[0]); ok && v == 0 {
					startOK = true
				}
			}
			if be, ok := loop.Cond.(*ast.BinaryExpr); ok {
				nT, nK = linearForm(info, defs, be.Y)
				if be.Op == token.LEQ {
					nK++
				} else if be.Op != token.LSS {
					nT = nil
				}
			}
			countOK := startOK && sameLinear(nT, nK, map[string]int64{lastAtom: 1}, 1)
			// the value appended per index
			var valObj types.Object
			ast.Inspect(loop.Body, func(n ast.Node) bool {
				if call, ok := n.(*ast.CallExpr); ok && builtinName(info, call) == "append" && len(call.Args) == 2 {
					valObj = usesObj(info, stripConv(info, call.Args[1]))
				}
				return true
			})
			rebaseOK, missOK := false, false
			ast.Inspect(loop.Body, func(n ast.Node) bool {
				as, ok := n.(*ast.AssignStmt)
				if !ok || len(as.Rhs) < 1 || len(as.Lhs) < 1 || usesObj(info, as.Lhs[0]) != valObj || valObj == nil {
					return true
				}
				rhs := as.Rhs[0]
				if v, ok := intLit(info, rhs); ok && v == -1 {
					missOK = true
					return true
				}
				switch as.Tok {
				case token.ADD_ASSIGN:
					t, k := linearForm(info, defs, rhs)
					if sameLinear(t, k, map[string]int64{lastAtom: 1}, 1) {
						rebaseOK = true
					}
				case token.ASSIGN, token.DEFINE:
					t, k := linearForm(info, defs, rhs)
					// offset + N, where offset is a value read from the index map
					rest := map[string]int64{}
					offs := 0
					for a, cf := range t {
						if a == lastAtom {
							rest[a] = cf
						} else {
							offs++
							if cf != 1 {
								offs = 99
							}
						}
					}
					if offs == 1 && sameLinear(rest, k, map[string]int64{lastAtom: 1}, 1) {
						rebaseOK = true
					}
				}
				return true
			})
			tailOK := false
			ast.Inspect(arr.Body, func(n ast.Node) bool {
				if call, ok := n.(*ast.CallExpr); ok && builtinName(info, call) == "append" && call.Ellipsis.IsValid() && call.Pos() > loop.End() && isF(call.Args[1], rowsF) {
					tailOK = true
				}
				return true
			})
			okArr = countOK && rebaseOK && missOK && tailOK
			why = fmt.Sprintf("index vector has last+1 entries: %v, stored offsets rebased by last+1: %v, -1 for missing: %v, rows appended after the index: %v", countOK, rebaseOK, missOK, tailOK)
		}
		c.check(okArr, rule, "codegen.table.Array", p.Pos(arr.Pos()),
			"the index vector has last+1 entries, each stored offset is rebased by exactly last+1 (missing rows are -1), and the row store follows",
			"index vector / rebase mismatch: "+why)
	}
	// readers: same prologue everywhere
	ta := c.tmplOrUnres(rule)
	if ta == nil {
		return
	}
	ti := ta.Variants[0]
	for _, name := range []string{"_LexerStateMachine.PushRune", "_Find", "_P._makeError"} {
		fd, _ := ti.FuncDecl(name)
		construct := "template/" + name + "/row-prologue"
		if fd == nil {
			c.unres(rule, construct, "", "function not found in the instantiated templates")
			continue
		}
		tblName := ""
		ast.Inspect(fd.Body, func(n ast.Node) bool {
			if ix, ok := n.(*ast.IndexExpr); ok && tblName == "" {
				if t, ok := ti.Info.TypeOf(ix.X).Underlying().(*types.Slice); ok {
					if b, ok := t.Elem().Underlying().(*types.Basic); ok && b.Info()&types.IsInteger != 0 {
						tblName = exprString(ix.X)
					}
				}
			}
			return true
		})
		c.check(tblName != "" && rowReaderOK(ti.Info, fd.Body, tblName), rule, construct, ti.Pos(fd.Pos()),
			"row located as i := t[y]; count := t[i]; i++; end := i+count (offset in the index vector, then a length-prefixed row)",
			"the function does not locate its row with the index-vector / length-prefix prologue the writer produces")
	}
}

// ---------- FMT-6: parser rows ----------

func ruleFMT6(c *Ctx) {
	const rule = "FMT-6"
	p := c.Prog
	var writerAccept *types.Const
	w := findParserWriter(c)
	if w == nil || w.closures["_actions"] == nil {
		c.unres(rule, "codegen.EmitParser/writers", "", "the closures computing the parser tables were not found")
		return
	}
	info := w.pk.TypesInfo
	for _, g := range []string{"_rules", "_termCounts", "_actions", "_goto"} {
		if w.closures[g] == nil {
			c.unres(rule, "codegen.EmitParser/"+g, "", "no closure is bound to the table %s", g)
		}
	}
	// action values
	if w.actionsSw == nil {
		c.bad(rule, "codegen.EmitParser/actions", p.Pos(w.closures["_actions"].Pos()), "no switch over lr1.Action.Type in the action-row writer")
	} else {
		sh := w.actionArms["ActionShift"]
		rd := w.actionArms["ActionReduce"]
		ac := w.actionArms["ActionAccept"]
		okShift := sh != nil && isChain(info, stripConv(info, sh), [][3]string{{"parsergen/lr1", "ItemSet", "Index"}, {"parsergen/lr1", "Action", "ShiftState"}})
		c.check(okShift, rule, "codegen.EmitParser/actions/shift", p.Pos(w.actionsSw.Pos()), "shift is written as ShiftState.Index (>= 0)",
			fmt.Sprintf("shift is written as `%s`, not ShiftState.Index", exprStringOrNil(sh)))
		okReduce := false
		if rd != nil {
			neg, inner := negated(info, rd)
			if neg {
				inner = stripConv(info, inner)
				if isField(info, inner, "parsergen/lr1", "Prod", "Index") {
					okReduce = true
				}
			}
		}
		c.check(okReduce, rule, "codegen.EmitParser/actions/reduce", p.Pos(w.actionsSw.Pos()), "reduce is written as -(Prod.Index) (< 0; production 0 is never reduced)",
			fmt.Sprintf("reduce is written as `%s`, not the negated production index", exprStringOrNil(rd)))
		var acceptConst *types.Const
		if ac != nil {
			acceptConst, _ = usesObj(info, ac).(*types.Const)
		}
		writerAccept = acceptConst
		// the same constant object is bound to the template
		bound := false
		var boundName string
		for _, u := range c.Templates().Set.Uses {
			for name, e := range u.Binds {
				if k, ok := usesObj(info, e).(*types.Const); ok && acceptConst != nil && k == acceptConst {
					bound, boundName = true, name
				}
			}
		}
		okVal := false
		if acceptConst != nil {
			v, _ := constant.Int64Val(acceptConst.Val())
			okVal = v > 1<<30 // cannot collide with a state index or a negated production index
		}
		c.check(acceptConst != nil && bound && okVal, rule, "codegen.EmitParser/actions/accept", p.Pos(w.actionsSw.Pos()),
			fmt.Sprintf("accept is written as the constant bound to the template variable %q, a value no state index can take", boundName),
			"accept is not written as the very constant handed to the template (or its value could collide with a state index)")
	}
	// goto pairs
	if fl := w.closures["_goto"]; fl != nil {
		_, apps := rowAppends(info, fl)
		okGoto := false
		for _, app := range apps {
			if len(app.Args) == 3 && isField(info, stripConv(info, app.Args[1]), "parsergen/lr1", "Rule", "Index") && isField(info, stripConv(info, app.Args[2]), "parsergen/lr1", "ItemSet", "Index") {
				okGoto = true
			}
		}
		c.check(okGoto, rule, "codegen.EmitParser/goto", p.Pos(fl.Pos()), "goto rows are (Rule.Index, target ItemSet.Index) pairs", "goto rows are not (Rule.Index, target state index) pairs")
	}
	// rows are keyed by the state's own index
	for _, g := range []string{"_actions", "_goto"} {
		fl := w.closures[g]
		if fl == nil {
			continue
		}
		okRow := false
		whyRow := "rows are not stored under ItemSet.Index"
		flPar := parents(fl)
		ast.Inspect(fl, func(n ast.Node) bool {
			call, ok := n.(*ast.CallExpr)
			if ok && len(call.Args) == 2 {
				if fn := calleeFunc(info, call); fn != nil && fn.Name() == "AddRow" && isField(info, stripConv(info, call.Args[0]), "parsergen/lr1", "ItemSet", "Index") {
					// every state gets its row: the reader indexes the table by state number
					if facts := pathConds(info, flPar, call); len(facts) == 0 {
						okRow = true
					} else {
						whyRow = fmt.Sprintf("a state's row is added only under `%s`: the index vector of the table then has holes (or is too short) for states the reader can look up", exprString(facts[0].e))
					}
				}
			}
			return true
		})
		c.check(okRow, rule, "codegen.EmitParser/"+g+"/row-key", p.Pos(fl.Pos()), "every state's row is stored, unconditionally, under the state's Index", whyRow)
	}
	// lhs / term counts: position = production index
	checkPosTable := func(g, what string, valOK func(e ast.Expr) bool) {
		fl := w.closures[g]
		if fl == nil {
			return
		}
		ok := false
		ast.Inspect(fl, func(n ast.Node) bool {
			rs, isR := n.(*ast.RangeStmt)
			if !isR || !isField(info, rs.X, "parsergen/lr1", "Grammar", "Prods") {
				return true
			}
			for _, s := range rs.Body.List {
				as, isA := s.(*ast.AssignStmt)
				if !isA || len(as.Lhs) != 1 || len(as.Rhs) != 1 {
					continue
				}
				// tbl[i] = v with i the range key
				if ix, isI := as.Lhs[0].(*ast.IndexExpr); isI && rs.Key != nil && sameExpr(ix.Index, rs.Key) && valOK(stripConv(info, as.Rhs[0])) {
					ok = true
				}
				// tbl = append(tbl, v) as an unconditional statement of the loop over all
				// productions, tbl starting empty: position = production index as well
				if call, isC := as.Rhs[0].(*ast.CallExpr); isC && builtinName(info, call) == "append" && len(call.Args) == 2 && sameExpr(call.Args[0], as.Lhs[0]) && valOK(stripConv(info, call.Args[1])) {
					if startsEmpty(info, fl, usesObj(info, as.Lhs[0])) && !hasBranchOut(rs.Body) {
						ok = true
					}
				}
			}
			return true
		})
		c.check(ok, rule, "codegen.EmitParser/"+g, p.Pos(fl.Pos()), g+"[i] is "+what+" of Grammar.Prods[i]", g+" is not filled with "+what+" at the production's position")
	}
	checkPosTable("_rules", "Prod.Rule.Index", func(e ast.Expr) bool {
		return isChain(info, e, [][3]string{{"parsergen/lr1", "Rule", "Index"}, {"parsergen/lr1", "Prod", "Rule"}})
	})
	checkPosTable("_termCounts", "len(Prod.Terms)", func(e ast.Expr) bool {
		call, ok := e.(*ast.CallExpr)
		return ok && builtinName(info, call) == "len" && isField(info, call.Args[0], "parsergen/lr1", "Prod", "Terms")
	})
	// index = position for productions, rules and states
	checkIndexIsPosition(c, rule, "Grammar.AddProd", "parsergen/lr1", "Prod", "Index", "Grammar", "Prods")
	checkIndexIsPosition(c, rule, "Grammar.AddRule", "parsergen/lr1", "Rule", "Index", "Grammar", "Rules")

	// reader
	ta := c.tmplOrUnres(rule)
	if ta == nil {
		return
	}
	for _, ti := range ta.Variants {
		variant := "template[" + ti.FlagString() + "]"
		fd, _ := ti.FuncDecl("_P.parse")
		if fd == nil {
			c.unres(rule, variant+"/parse", "", "parse not found")
			continue
		}
		// the arms that decode the action value (if-chain or tagless switch)
		_, shiftArm, reduceArm, actVar := parseArms(ti)
		if shiftArm == nil || reduceArm == nil {
			c.bad(rule, variant+"/parse/decode", ti.Pos(fd.Pos()), "parse does not decode action values as `== accept` / `>= 0` (shift) / otherwise (reduce)")
			continue
		}
		okShift, okReduce := false, false
		ast.Inspect(shiftArm, func(n ast.Node) bool {
			if kv, ok := n.(*ast.KeyValueExpr); ok && exprString(kv.Key) == "State" && exprString(kv.Value) == actVar {
				okShift = true
			}
			return true
		})
		ast.Inspect(reduceArm, func(n ast.Node) bool {
			if un, ok := n.(*ast.UnaryExpr); ok && un.Op == token.SUB && exprString(un.X) == actVar {
				okReduce = true
			}
			return true
		})
		c.check(okShift && okReduce, rule, variant+"/parse/decode", ti.Pos(shiftArm.Pos()),
			"`== accept` is tested first, then `>= 0` pushes the value as the next state, else the production is `-action`",
			"the reader does not decode action values as accept / shift (>= 0, next state) / reduce (-action)")
		// accept value in the reader comes from the bound constant
		acceptOK := false
		ast.Inspect(fd.Body, func(n ast.Node) bool {
			vs, ok := n.(*ast.ValueSpec)
			if ok && len(vs.Names) == 1 && vs.Names[0].Name == "accept" && len(vs.Values) == 1 {
				if h := ti.exactHole(vs.Values[0]); h != nil {
					if id, ok := h.Expr.(*eIdent); ok && id.Name == "accept" {
						acceptOK = true
					}
				}
				if ti.Holes == nil && writerAccept != nil {
					// concrete instance: the literal must equal the writer's constant
					if v, ok := constInt(ti.Info, vs.Values[0]); ok {
						if wv, ok2 := constant.Int64Val(writerAccept.Val()); ok2 && wv == v {
							acceptOK = true
						}
					}
				}
			}
			return true
		})
		c.check(acceptOK, rule, variant+"/parse/accept-const", ti.Pos(fd.Pos()), "the reader's accept is the template variable bound to the writer's constant",
			"the reader's accept value is not the template variable bound to the writer's constant")
	}
	ti := ta.Variants[0]
	// _Find: pair stride
	if fd, _ := ti.FuncDecl("_Find"); fd != nil {
		okFind := false
		keyParam := paramObj(ti.Info, fd, 2)
		tblParam := paramObj(ti.Info, fd, 0)
		ast.Inspect(fd.Body, func(n ast.Node) bool {
			fs, ok := n.(*ast.ForStmt)
			if !ok || fs.Post == nil {
				return true
			}
			as, ok := fs.Post.(*ast.AssignStmt)
			if !ok || as.Tok != token.ADD_ASSIGN {
				return true
			}
			if v, ok := intLit(ti.Info, as.Rhs[0]); !ok || v != 2 {
				return true
			}
			cur := exprString(as.Lhs[0])
			keyAt0, valAt1 := false, false
			ast.Inspect(fs.Body, func(m ast.Node) bool {
				switch x := m.(type) {
				case *ast.BinaryExpr:
					if x.Op == token.EQL {
						for _, pr := range [][2]ast.Expr{{x.X, x.Y}, {x.Y, x.X}} {
							if ix, ok := stripConv(ti.Info, pr[0]).(*ast.IndexExpr); ok && usesObj(ti.Info, ix.X) == tblParam && exprString(stripConv(ti.Info, ix.Index)) == cur && usesObj(ti.Info, stripConv(ti.Info, pr[1])) == keyParam {
								keyAt0 = true
							}
						}
					}
				case *ast.ReturnStmt:
					if len(x.Results) >= 1 {
						if ix, ok := stripConv(ti.Info, x.Results[0]).(*ast.IndexExpr); ok && usesObj(ti.Info, ix.X) == tblParam {
							if b, off, ok := addConst(ti.Info, ix.Index); ok && b == cur && off == 1 {
								valAt1 = true
							}
						}
					}
				}
				return true
			})
			if keyAt0 && valAt1 {
				okFind = true
			}
			return true
		})
		c.check(okFind, rule, "template/_Find/pairs", ti.Pos(fd.Pos()), "rows are read as (key, value) pairs: key at +0 compared with the searched key, value at +1 returned, stride 2",
			"_Find does not read (key, value) pairs with stride 2")
		// order assumptions: a reader that compares a table key with the searched key by an ordering
		// operator (bisection, early exit) depends on the order of the pairs in a row; every writer of
		// rows read through it must then sort its pairs by the very key it emits
		var ordCmp *ast.BinaryExpr
		ast.Inspect(fd.Body, func(n ast.Node) bool {
			be, ok := n.(*ast.BinaryExpr)
			if !ok || ordCmp != nil {
				return true
			}
			switch be.Op {
			case token.LSS, token.LEQ, token.GTR, token.GEQ:
			default:
				return true
			}
			for _, pr := range [][2]ast.Expr{{be.X, be.Y}, {be.Y, be.X}} {
				if ix, ok := stripConv(ti.Info, pr[0]).(*ast.IndexExpr); ok && usesObj(ti.Info, ix.X) == tblParam && usesObj(ti.Info, stripConv(ti.Info, pr[1])) == keyParam {
					ordCmp = be
				}
			}
			return true
		})
		if ordCmp == nil {
			c.ok(rule, "template/_Find/order-independent", ti.Pos(fd.Pos()), "_Find compares table keys with the searched key by == only: no order of the pairs inside a row is assumed")
		} else if w := findParserWriter(c); w == nil {
			c.unres(rule, "template/_Find/order-assumed", ti.Pos(ordCmp.Pos()), "_Find assumes ordered rows but the row writers were not found")
		} else {
			winfo := w.pk.TypesInfo
			for _, g := range []string{"_actions", "_goto"} {
				fl := w.closures[g]
				if fl == nil {
					continue
				}
				// the key field emitted (…​.Index of what) and a sort whose comparator reads the same field of the same type
				var keyField *types.Var
				ast.Inspect(fl.Body, func(n ast.Node) bool {
					call, ok := n.(*ast.CallExpr)
					if !ok || builtinName(winfo, call) != "append" || len(call.Args) < 2 || keyField != nil {
						return true
					}
					if fv, _ := selField(winfo, stripConv(winfo, call.Args[1])); fv != nil && fv.Name() == "Index" {
						keyField = fv
					}
					return true
				})
				sorted := false
				ast.Inspect(fl.Body, func(n ast.Node) bool {
					call, ok := n.(*ast.CallExpr)
					if !ok || len(call.Args) != 2 {
						return true
					}
					full := fullName(calleeFunc(winfo, call))
					if !sortFuncs[full] && full != "slices.SortedFunc" {
						return true
					}
					cmpLit, ok := call.Args[1].(*ast.FuncLit)
					if !ok {
						return true
					}
					nKey := 0
					ast.Inspect(cmpLit.Body, func(k ast.Node) bool {
						if e, ok := k.(ast.Expr); ok {
							if fv, _ := selField(winfo, e); fv != nil && fv == keyField {
								nKey++
							}
						}
						return true
					})
					if nKey >= 2 {
						sorted = true
					}
					return true
				})
				c.check(sorted && keyField != nil, rule, "codegen.EmitParser/"+g+"/rows-sorted-for-reader", c.Prog.Pos(fl.Pos()),
					"_Find assumes ordered rows and the writer of "+g+" sorts its pairs by the key it emits",
					fmt.Sprintf("_Find compares keys with `%s` (%s), i.e. assumes the pairs of a row are ordered by key, but the writer of %s does not sort its pairs by the key field it emits: lookups in long rows miss existing entries", exprString(ordCmp), ti.Pos(ordCmp.Pos()), g))
			}
		}
	}
}

func negated(info *types.Info, e ast.Expr) (bool, ast.Expr) {
	e = ast.Unparen(e)
	if un, ok := e.(*ast.UnaryExpr); ok && un.Op == token.SUB {
		return true, un.X
	}
	if be, ok := e.(*ast.BinaryExpr); ok && be.Op == token.MUL {
		if v, ok := constInt(info, be.Y); ok && v == -1 {
			return true, be.X
		}
		if v, ok := constInt(info, be.X); ok && v == -1 {
			return true, be.Y
		}
	}
	return false, nil
}

// isChain: e is a selector chain whose fields, from the outermost, are chain[0], chain[1], ...
// (each {pkg, type, field}); index expressions in between are skipped.
func isChain(info *types.Info, e ast.Expr, chain [][3]string) bool {
	for _, link := range chain {
		e = ast.Unparen(e)
		for {
			if ix, ok := e.(*ast.IndexExpr); ok {
				e = ast.Unparen(ix.X)
				continue
			}
			break
		}
		if !isField(info, e, link[0], link[1], link[2]) {
			return false
		}
		e = e.(*ast.SelectorExpr).X
	}
	return true
}

// checkIndexIsPosition: in lr1.<fn>, the composite literal of <typ> has Index: len(g.<list>) and is
// appended to g.<list> afterwards; nothing else writes <typ>.Index.
func checkIndexIsPosition(c *Ctx, rule, fn, pkg, typ, field, owner, list string) {
	p := c.Prog
	pk, fd := p.FuncDecl("internal/parsergen/lr1", fn)
	construct := "lr1." + fn + "/" + typ + ".Index=position"
	if fd == nil {
		c.unres(rule, construct, "", "function not found")
		return
	}
	info := pk.TypesInfo
	okLit := false
	ast.Inspect(fd.Body, func(n ast.Node) bool {
		cl, ok := n.(*ast.CompositeLit)
		if !ok || !typeIs(info.TypeOf(cl), pkg, typ) {
			return true
		}
		for _, el := range cl.Elts {
			if kv, ok := el.(*ast.KeyValueExpr); ok && exprString(kv.Key) == field {
				if call, ok := kv.Value.(*ast.CallExpr); ok && builtinName(info, call) == "len" && isField(info, call.Args[0], pkg, owner, list) {
					okLit = true
				}
			}
		}
		return true
	})
	// other writers
	others := 0
	p.ProdFiles(func(pk2 *packages.Package, f *ast.File) {
		for _, d := range f.Decls {
			fd2, ok := d.(*ast.FuncDecl)
			if !ok || fd2.Body == nil || fd2 == fd {
				continue
			}
			ast.Inspect(fd2.Body, func(n ast.Node) bool {
				switch x := n.(type) {
				case *ast.AssignStmt:
					for _, l := range x.Lhs {
						if isField(pk2.TypesInfo, l, pkg, typ, field) {
							others++
						}
					}
				case *ast.CompositeLit:
					if typeIs(pk2.TypesInfo.TypeOf(x), pkg, typ) {
						for _, el := range x.Elts {
							if kv, ok := el.(*ast.KeyValueExpr); ok && exprString(kv.Key) == field {
								others++
							}
						}
					}
				}
				return true
			})
		}
	})
	c.check(okLit && others == 0, rule, construct, p.Pos(fd.Pos()), fmt.Sprintf("%s.%s is len(%s.%s) at creation and is written nowhere else: index = position in the list the tables are emitted from", typ, field, owner, list),
		fmt.Sprintf("%s.%s is not (only) the position in %s.%s (%d other writers)", typ, field, owner, list, others))
}

// startsEmpty: the slice variable o is declared in fn without elements (var, nil, make(T, 0, ...),
// empty literal) and is only ever extended by append.
func startsEmpty(info *types.Info, fn ast.Node, o types.Object) bool {
	if o == nil {
		return false
	}
	okDecl, bad := false, false
	ast.Inspect(fn, func(n ast.Node) bool {
		switch x := n.(type) {
		case *ast.ValueSpec:
			for i, nm := range x.Names {
				if info.Defs[nm] == o {
					okDecl = i >= len(x.Values) || emptySliceExpr(info, x.Values[i])
				}
			}
		case *ast.AssignStmt:
			for i, l := range x.Lhs {
				if usesObj(info, l) != o {
					continue
				}
				if _, isId := ast.Unparen(l).(*ast.Ident); !isId {
					continue
				}
				if x.Tok == token.DEFINE && len(x.Lhs) == len(x.Rhs) {
					okDecl = emptySliceExpr(info, x.Rhs[i])
					continue
				}
				// later assignments must be self-appends
				if len(x.Lhs) == len(x.Rhs) {
					if call, ok := ast.Unparen(x.Rhs[i]).(*ast.CallExpr); ok && builtinName(info, call) == "append" && sameExpr(call.Args[0], l) {
						continue
					}
				}
				bad = true
			}
		}
		return true
	})
	return okDecl && !bad
}

func emptySliceExpr(info *types.Info, e ast.Expr) bool {
	e = ast.Unparen(e)
	if exprString(e) == "nil" {
		return true
	}
	if cl, ok := e.(*ast.CompositeLit); ok {
		return len(cl.Elts) == 0
	}
	if call, ok := e.(*ast.CallExpr); ok && builtinName(info, call) == "make" && len(call.Args) >= 2 {
		v, isC := constInt(info, call.Args[1])
		return isC && v == 0
	}
	return false
}

// hasBranchOut: the loop body contains continue/break/goto/return (an iteration could be skipped).
func hasBranchOut(body *ast.BlockStmt) bool {
	found := false
	inspectNoLit(body, func(n ast.Node) bool {
		switch n.(type) {
		case *ast.BranchStmt, *ast.ReturnStmt:
			found = true
		}
		return true
	})
	return found
}

// checkWriterActionOrder: the actions are written in the order of the rule's action list: the loop
// that emits them ranges over Actions.Actions itself, not over a re-ordered or filtered copy.
func checkWriterActionOrder(c *Ctx, rule string, w *lexWriter) {
	p := c.Prog
	info := w.pk.TypesInfo
	wpar := parents(w.fn)
	var loopX ast.Expr
	for q := wpar[w.actNode]; q != nil; q = wpar[q] {
		if rs, ok := q.(*ast.RangeStmt); ok {
			loopX = rs.X
			break
		}
	}
	okOrder := false
	whyOrder := "the loop emitting the actions was not found"
	if loopX != nil {
		src := resolveVia(info, localDefs(info, w.fn), loopX)
		switch {
		case isField(info, src, "lexergen/mode", "Actions", "Actions"):
			okOrder = true
		default:
			whyOrder = fmt.Sprintf("the actions are emitted from `%s`, not from the rule's action list itself: their order in the table can differ from the order the front end established (the reader stops at the first accept/discard/accum and runs push/pop in list order)", exprString(loopX))
		}
		// and nothing in the writer sorts that list in place
		inspectNoLit(w.fn, func(n ast.Node) bool {
			if call, ok := n.(*ast.CallExpr); ok && len(call.Args) >= 1 && (sortFuncs[fullName(calleeFunc(info, call))] || fullName(calleeFunc(info, call)) == "slices.Reverse") {
				if isField(info, resolveVia(info, localDefs(info, w.fn), call.Args[0]), "lexergen/mode", "Actions", "Actions") {
					okOrder = false
					whyOrder = "the writer re-orders the rule's action list"
				}
			}
			return true
		})
	}
	c.check(okOrder, rule, "codegen.EmitLexer/action-order", p.Pos(w.actNode.Pos()), "actions are written in the order of the rule's action list", whyOrder)
}
