package main

// A small reader for the parts of .lox grammar sources the rules need: parser rules with their
// alternatives (term lists) and single-literal token spellings. The grammar text is source of the
// repository like any other; it is read, never executed.

import (
	"os"
	"path/filepath"
	"strings"

	"golang.org/x/tools/go/packages"
)

func loxSources(pk *packages.Package) []string {
	if len(pk.GoFiles) == 0 {
		return nil
	}
	matches, _ := filepath.Glob(filepath.Join(filepath.Dir(pk.GoFiles[0]), "*.lox"))
	var out []string
	for _, m := range matches {
		if b, err := os.ReadFile(m); err == nil {
			out = append(out, string(b))
		}
	}
	return out
}

// stripLoxComments removes // comments that are outside quotes and character classes.
func stripLoxComments(src string) string {
	var out strings.Builder
	inQuote, inClass := false, false
	for i := 0; i < len(src); i++ {
		ch := src[i]
		switch {
		case inQuote:
			out.WriteByte(ch)
			if ch == '\\' && i+1 < len(src) {
				i++
				out.WriteByte(src[i])
			} else if ch == '\'' {
				inQuote = false
			}
		case inClass:
			out.WriteByte(ch)
			if ch == '\\' && i+1 < len(src) {
				i++
				out.WriteByte(src[i])
			} else if ch == ']' {
				inClass = false
			}
		case ch == '\'':
			inQuote = true
			out.WriteByte(ch)
		case ch == '[':
			inClass = true
			out.WriteByte(ch)
		case ch == '/' && i+1 < len(src) && src[i+1] == '/':
			for i < len(src) && src[i] != '\n' {
				i++
			}
			out.WriteByte('\n')
		default:
			out.WriteByte(ch)
		}
	}
	return out.String()
}

// splitLoxTerms splits an alternative into terms, keeping quotes, classes and @list(...) together.
func splitLoxTerms(s string) []string {
	var terms []string
	var cur strings.Builder
	depth := 0
	inQuote, inClass := false, false
	flush := func() {
		if cur.Len() > 0 {
			terms = append(terms, cur.String())
			cur.Reset()
		}
	}
	for i := 0; i < len(s); i++ {
		ch := s[i]
		switch {
		case inQuote:
			cur.WriteByte(ch)
			if ch == '\\' && i+1 < len(s) {
				i++
				cur.WriteByte(s[i])
			} else if ch == '\'' {
				inQuote = false
			}
		case inClass:
			cur.WriteByte(ch)
			if ch == '\\' && i+1 < len(s) {
				i++
				cur.WriteByte(s[i])
			} else if ch == ']' {
				inClass = false
			}
		case ch == '\'':
			inQuote = true
			cur.WriteByte(ch)
		case ch == '[':
			inClass = true
			cur.WriteByte(ch)
		case ch == '(':
			depth++
			cur.WriteByte(ch)
		case ch == ')':
			depth--
			cur.WriteByte(ch)
		case (ch == ' ' || ch == '\t') && depth == 0:
			flush()
		default:
			cur.WriteByte(ch)
		}
	}
	flush()
	return terms
}

// splitAlternatives splits on | outside quotes/classes/parentheses.
func splitAlternatives(s string) []string {
	var alts []string
	var cur strings.Builder
	depth := 0
	inQuote, inClass := false, false
	for i := 0; i < len(s); i++ {
		ch := s[i]
		switch {
		case inQuote:
			cur.WriteByte(ch)
			if ch == '\\' && i+1 < len(s) {
				i++
				cur.WriteByte(s[i])
			} else if ch == '\'' {
				inQuote = false
			}
		case inClass:
			cur.WriteByte(ch)
			if ch == '\\' && i+1 < len(s) {
				i++
				cur.WriteByte(s[i])
			} else if ch == ']' {
				inClass = false
			}
		case ch == '\'':
			inQuote = true
			cur.WriteByte(ch)
		case ch == '[':
			inClass = true
			cur.WriteByte(ch)
		case ch == '(':
			depth++
			cur.WriteByte(ch)
		case ch == ')':
			depth--
			cur.WriteByte(ch)
		case ch == '|' && depth == 0:
			alts = append(alts, cur.String())
			cur.Reset()
		default:
			cur.WriteByte(ch)
		}
	}
	alts = append(alts, cur.String())
	return alts
}

// loxParserRules returns rule name => alternatives (term lists) of the @parser sections.
func loxParserRules(src string) map[string][][]string {
	out := map[string][][]string{}
	src = stripLoxComments(src)
	lines := strings.Split(src, "\n")
	inParser := false
	var logical []string
	for _, ln := range lines {
		t := strings.TrimSpace(ln)
		if t == "@parser" {
			inParser = true
			continue
		}
		if t == "@lexer" {
			inParser = false
			continue
		}
		if !inParser || t == "" {
			continue
		}
		if strings.HasPrefix(t, "|") && len(logical) > 0 {
			logical[len(logical)-1] += " " + t
			continue
		}
		logical = append(logical, t)
	}
	for _, l := range logical {
		l = strings.TrimPrefix(l, "@start ")
		eq := strings.Index(l, "=")
		if eq < 0 {
			continue
		}
		name := strings.TrimSpace(l[:eq])
		for _, alt := range splitAlternatives(l[eq+1:]) {
			terms := splitLoxTerms(strings.TrimSpace(alt))
			// drop the production qualifier
			var ts []string
			for _, tm := range terms {
				if strings.HasPrefix(tm, "@left") || strings.HasPrefix(tm, "@right") {
					continue
				}
				ts = append(ts, tm)
			}
			if len(ts) == 1 && ts[0] == "@empty" {
				ts = nil
			}
			out[name] = append(out[name], ts)
		}
	}
	return out
}

// loxTermToken: if a parser term is a token (ID in upper case or 'literal', without cardinality),
// returns (token constant name or literal spelling, isLiteral, true).
func loxTermToken(term string) (string, bool, bool) {
	if strings.HasPrefix(term, "'") && strings.HasSuffix(term, "'") && len(term) >= 2 {
		return term[1 : len(term)-1], true, true
	}
	if term == "@error" {
		return "@error", true, true
	}
	if term != "" && term[0] >= 'A' && term[0] <= 'Z' {
		for _, r := range term {
			if !(r == '_' || (r >= 'A' && r <= 'Z') || (r >= '0' && r <= '9')) {
				return "", false, false
			}
		}
		return term, false, true
	}
	return "", false, false
}
