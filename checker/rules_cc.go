package main

// C15 — character classes and literals denote exact code-point sets.
//
// The interval arithmetic itself (Flatten / Subtract / Normalize, the split/merge re-labelling)
// computes on run-time range bounds and is NOT decided. Decided are the places where a class or
// literal of the grammar text is turned into ranges: each is a necessary condition of the property,
// because a slip there changes the denoted set for every grammar that uses the construct.
//
//   CC-1  every escape denotes its documented code point (\n \r \t \' \\ \- by value, \x \u \U by
//         2 / 4 / 8 hexadecimal digits parsed in base 16)
//   CC-2  a class item is [c, c] for a single character and [a, b] for `a-b`, both ends decoded
//         through unescape
//   CC-3  A - B is Subtract(ranges(A), ranges(B)) in that order; the other operator is the union
//   CC-4  every range of a class becomes one edge labelled with that very range
// plus, run from their own files: the universe constants and the negation (LEX-4), the literal
// chain (LEX-1), the re-queue / merge-end / owner-accumulation shapes of the splitter (LEX-7,
// LEX-8).

import (
	"fmt"
	"go/ast"
	"go/token"
	"go/types"
	"golang.org/x/tools/go/packages"
	"sort"
	"strings"
)

// escapeSwitchOf finds the switch over the character after the backslash in unescape, the
// statements that follow it in its block together with the loop's post statement, and the index
// variable.
func escapeSwitchOf(c *Ctx) (fd *ast.FuncDecl, esw *ast.SwitchStmt, info *types.Info) {
	p := c.Prog
	pk, ue := p.FuncDecl("internal/parser", "unescape")
	if ue == nil {
		return nil, nil, nil
	}
	info = pk.TypesInfo
	ast.Inspect(ue.Body, func(n ast.Node) bool {
		if sw, ok := n.(*ast.SwitchStmt); ok && sw.Tag != nil && isEscapeSwitchIn(info, ue, sw) {
			esw = sw
		}
		return true
	})
	return ue, esw, info
}

func ruleCC1(c *Ctx) {
	const rule = "CC-1"
	p := c.Prog
	ue, esw, info := escapeSwitchOf(c)
	if ue == nil || esw == nil {
		c.unres(rule, "parser.unescape/escape-switch", "", "unescape or its escape switch not found")
		return
	}
	pk := p.Pkg("internal/parser")
	defs := localDefs(info, ue)
	want := map[int64]int64{'n': '\n', 'r': '\r', 't': '\t', '\'': '\'', '\\': '\\', '-': '-'}
	hexWidth := map[int64]int64{'x': 2, 'u': 4, 'U': 8}
	got := map[int64]int64{}
	gotHex := map[int64]int64{}
	tagIsSelector := func(e ast.Expr) bool {
		return sameExpr(resolveVia(info, defs, e), resolveVia(info, defs, esw.Tag)) || (usesObj(info, e) != nil && usesObj(info, e) == usesObj(info, esw.Tag))
	}
	// what an arm writes: a constant, the selector itself, or a hex conversion of a window
	for _, cl := range esw.Body.List {
		cc := cl.(*ast.CaseClause)
		var labels []int64
		for _, l := range cc.List {
			if v, ok := constInt(info, l); ok {
				labels = append(labels, v)
			}
		}
		for _, st := range cc.Body {
			ast.Inspect(st, func(n ast.Node) bool {
				call, ok := n.(*ast.CallExpr)
				if !ok || len(call.Args) != 1 {
					return true
				}
				sel, ok := call.Fun.(*ast.SelectorExpr)
				if !ok || (sel.Sel.Name != "WriteRune" && sel.Sel.Name != "WriteByte") {
					return true
				}
				arg := stripConv(info, call.Args[0])
				if v, isC := constInt(info, arg); isC {
					for _, l := range labels {
						got[l] = v
					}
					return true
				}
				if tagIsSelector(arg) {
					for _, l := range labels {
						got[l] = l
					}
					return true
				}
				// hexToRune(window)
				if hc, isCall := arg.(*ast.CallExpr); isCall && len(hc.Args) == 1 {
					var sl *ast.SliceExpr
					ast.Inspect(hc.Args[0], func(m ast.Node) bool {
						if s, ok := m.(*ast.SliceExpr); ok {
							sl = s
						}
						return true
					})
					if sl != nil {
						for _, f := range pk.Syntax {
							if f.Pos() <= sl.Pos() && sl.End() <= f.End() {
								if w, ok := constWidth(info, f, sl); ok && hexConversionBase16(c, info, hc) {
									for _, l := range labels {
										gotHex[l] = w
									}
								}
							}
						}
					}
				}
				return true
			})
		}
		// default arm: table lookup `v, ok := table[selector]`, then the looked-up value is written
		if cc.List == nil {
			for _, st := range cc.Body {
				as, ok := st.(*ast.AssignStmt)
				if !ok || len(as.Lhs) != 2 || len(as.Rhs) != 1 {
					continue
				}
				ix, ok := ast.Unparen(as.Rhs[0]).(*ast.IndexExpr)
				if !ok || !tagIsSelector(ix.Index) {
					continue
				}
				valObj := usesObj(info, as.Lhs[0])
				written := false
				for _, st2 := range cc.Body {
					ast.Inspect(st2, func(n ast.Node) bool {
						if call, ok := n.(*ast.CallExpr); ok && len(call.Args) == 1 {
							if sel, ok := call.Fun.(*ast.SelectorExpr); ok && (sel.Sel.Name == "WriteRune" || sel.Sel.Name == "WriteByte") && usesObj(info, stripConv(info, call.Args[0])) == valObj {
								written = true
							}
						}
						return true
					})
				}
				if cl, ok := ast.Unparen(pkgVarInit(p, pk, usesObj(info, ix.X))).(*ast.CompositeLit); ok && written {
					for _, el := range cl.Elts {
						if kv, ok := el.(*ast.KeyValueExpr); ok {
							k, ok1 := constInt(info, kv.Key)
							v, ok2 := constInt(info, kv.Value)
							if ok1 && ok2 {
								got[k] = v
							}
						}
					}
				}
			}
		}
	}
	// single-character escapes looked up in a constant table before the switch:
	//   if v, ok := table[selector]; ok { write(v); …; continue }
	ast.Inspect(ue.Body, func(n ast.Node) bool {
		ifs, ok := n.(*ast.IfStmt)
		if !ok || ifs.Init == nil || containsNode(esw, ifs) {
			return true
		}
		as, ok := ifs.Init.(*ast.AssignStmt)
		if !ok || len(as.Lhs) != 2 || len(as.Rhs) != 1 || usesObj(info, ifs.Cond) == nil || usesObj(info, ifs.Cond) != usesObj(info, as.Lhs[1]) {
			return true
		}
		key, entries, isTbl := constTable(p, pk, as.Rhs[0])
		if !isTbl || !tagIsSelector(key) {
			return true
		}
		valObj := usesObj(info, as.Lhs[0])
		written := false
		ast.Inspect(ifs.Body, func(m ast.Node) bool {
			if call, ok := m.(*ast.CallExpr); ok && len(call.Args) == 1 {
				if sel, ok := call.Fun.(*ast.SelectorExpr); ok && (sel.Sel.Name == "WriteRune" || sel.Sel.Name == "WriteByte") && usesObj(info, stripConv(info, call.Args[0])) == valObj {
					written = true
				}
			}
			return true
		})
		if !written {
			return true
		}
		for _, en := range entries {
			var k int64
			if _, err := fmt.Sscan(en.KeyVal, &k); err != nil {
				continue
			}
			if v, ok := constInt(info, en.Val); ok {
				got[k] = v
			}
		}
		return true
	})
	// single-character escapes delegated to a helper `v, ok := h(selector)` whose result is written
	for _, sc := range funcScope(p, pk, ue, 1) {
		hd, ok := sc.node.(*ast.FuncDecl)
		if !ok || hd == ue || hd.Type.Params == nil || len(hd.Type.Params.List) == 0 {
			continue
		}
		hparam := paramObj(info, hd, 0)
		// the call site: the helper is applied to the selector and its first result is written
		applied := false
		ast.Inspect(ue.Body, func(n ast.Node) bool {
			as, isAs := n.(*ast.AssignStmt)
			if !isAs || len(as.Rhs) != 1 || len(as.Lhs) < 1 {
				return true
			}
			call, isCall := ast.Unparen(as.Rhs[0]).(*ast.CallExpr)
			if !isCall || len(call.Args) != 1 || !tagIsSelector(call.Args[0]) {
				return true
			}
			if fn := calleeFunc(info, call); fn == nil || types.Object(fn) != info.Defs[hd.Name] {
				return true
			}
			res := usesObj(info, as.Lhs[0])
			ast.Inspect(ue.Body, func(m ast.Node) bool {
				if wc, ok := m.(*ast.CallExpr); ok && len(wc.Args) == 1 {
					if sel, ok := wc.Fun.(*ast.SelectorExpr); ok && (sel.Sel.Name == "WriteRune" || sel.Sel.Name == "WriteByte") && usesObj(info, stripConv(info, wc.Args[0])) == res && res != nil {
						applied = true
					}
				}
				return true
			})
			return true
		})
		if !applied {
			continue
		}
		ast.Inspect(hd.Body, func(n ast.Node) bool {
			sw, isSw := n.(*ast.SwitchStmt)
			if !isSw || sw.Tag == nil || usesObj(info, sw.Tag) != hparam {
				return true
			}
			for _, cl := range sw.Body.List {
				cc := cl.(*ast.CaseClause)
				var labels []int64
				for _, l := range cc.List {
					if v, ok := constInt(info, l); ok {
						labels = append(labels, v)
					}
				}
				for _, st := range cc.Body {
					rs, isRet := st.(*ast.ReturnStmt)
					if !isRet || len(rs.Results) == 0 {
						continue
					}
					r0 := stripConv(info, rs.Results[0])
					if v, isC := constInt(info, r0); isC {
						for _, l := range labels {
							got[l] = v
						}
					} else if usesObj(info, r0) == hparam {
						for _, l := range labels {
							got[l] = l
						}
					}
				}
			}
			return true
		})
	}
	var letters []int64
	for l := range want {
		letters = append(letters, l)
	}
	sort.Slice(letters, func(i, j int) bool { return letters[i] < letters[j] })
	for _, l := range letters {
		v, handled := got[l]
		construct := fmt.Sprintf("parser.unescape/escape(%q)", rune(l))
		switch {
		case !handled:
			c.bad(rule, construct, p.Pos(esw.Pos()), "the escape \\%c is not decoded to a constant code point", rune(l))
		default:
			c.check(v == want[l], rule, construct, p.Pos(esw.Pos()), fmt.Sprintf("\\%c denotes U+%04X", rune(l), want[l]),
				fmt.Sprintf("\\%c is decoded to U+%04X, not U+%04X: every class or literal using it denotes another code point", rune(l), v, want[l]))
		}
	}
	for _, l := range []int64{'x', 'u', 'U'} {
		w, handled := gotHex[l]
		construct := fmt.Sprintf("parser.unescape/escape(%q)", rune(l))
		c.check(handled && w == hexWidth[l], rule, construct, p.Pos(esw.Pos()),
			fmt.Sprintf("\\%c denotes the code point written by the next %d hexadecimal digits", rune(l), hexWidth[l]),
			fmt.Sprintf("\\%c is not decoded from exactly %d hexadecimal digits in base 16 (found width %d, recognised: %v)", rune(l), hexWidth[l], w, handled))
	}
}

// hexConversionBase16: the call converts its argument with strconv.ParseUint/ParseInt(s, 16, …),
// directly or inside the module function it calls.
func hexConversionBase16(c *Ctx, info *types.Info, call *ast.CallExpr) bool {
	isHexParse := func(pc *ast.CallExpr) bool {
		full := fullName(calleeFunc(info, pc))
		if (full == "strconv.ParseUint" || full == "strconv.ParseInt") && len(pc.Args) == 3 {
			b, ok := constInt(info, pc.Args[1])
			return ok && b == 16
		}
		return false
	}
	if isHexParse(call) {
		return true
	}
	fn := calleeFunc(info, call)
	if fn == nil {
		return false
	}
	hd := c.Prog.funcDecls[fn.Origin()]
	if hd == nil || hd.Body == nil {
		return false
	}
	found := false
	ast.Inspect(hd.Body, func(n ast.Node) bool {
		if pc, ok := n.(*ast.CallExpr); ok && isHexParse(pc) {
			// applied to the helper's own parameter
			if usesObj(info, selRootIdent(stripConv(info, pc.Args[0]))) == paramObj(info, hd, 0) {
				found = true
			}
		}
		return true
	})
	return found
}

// ---- CC-2: class items ----

func ruleCC2(c *Ctx) {
	const rule = "CC-2"
	p := c.Prog
	pk, fd := p.FuncDecl("internal/parser", "parser.on_char_class")
	if fd == nil {
		c.unres(rule, "parser.on_char_class", "", "function not found")
		return
	}
	info := pk.TypesInfo
	charsObj := paramObj(info, fd, 2)
	if charsObj == nil {
		c.unres(rule, "parser.on_char_class/chars", p.Pos(fd.Pos()), "the parameter holding the class characters was not found")
		return
	}
	// resolve an expression to `chars[<index>]`, looking through the conversion helper
	// (closure or function) that turns a token into a rune, and through single-assignment locals
	fdefs := localDefs(info, fd)
	var usesUnescape func(n ast.Node, depth int) bool
	usesUnescape = func(n ast.Node, depth int) bool {
		found := false
		ast.Inspect(n, func(m ast.Node) bool {
			if call, ok := m.(*ast.CallExpr); ok {
				if fn := calleeFunc(info, call); fn != nil && fn.Name() == "unescape" {
					found = true
				}
			}
			return !found
		})
		return found
	}
	type bodyOf struct {
		params []types.Object
		body   ast.Node
	}
	helperOf := func(call *ast.CallExpr) *bodyOf {
		if id, ok := ast.Unparen(call.Fun).(*ast.Ident); ok {
			if o := usesObj(info, id); o != nil {
				if fl, ok := ast.Unparen(fdefs[o]).(*ast.FuncLit); ok {
					b := &bodyOf{body: fl.Body}
					for _, f := range fl.Type.Params.List {
						for _, nm := range f.Names {
							b.params = append(b.params, info.Defs[nm])
						}
					}
					return b
				}
			}
		}
		if fn := calleeFunc(info, call); fn != nil && fn.Pkg() == pk.Types {
			if hd := p.funcDecls[fn.Origin()]; hd != nil && hd.Body != nil {
				b := &bodyOf{body: hd.Body}
				for _, f := range hd.Type.Params.List {
					for _, nm := range f.Names {
						b.params = append(b.params, info.Defs[nm])
					}
				}
				return b
			}
		}
		return nil
	}
	// tokensOf: the class-character tokens an end of an item can be decoded from, as indexes into
	// chars, each with the node where that choice is made (the item itself, or the assignment of a
	// local that reaches it); env binds helper parameters to the caller's argument expressions
	type tokRead struct {
		idx ast.Expr
		at  ast.Node
	}
	allDefs := func(o types.Object) []tokRead {
		var out []tokRead
		ast.Inspect(fd.Body, func(n ast.Node) bool {
			as, ok := n.(*ast.AssignStmt)
			if !ok || len(as.Lhs) != len(as.Rhs) {
				return true
			}
			for i, l := range as.Lhs {
				if id, isId := ast.Unparen(l).(*ast.Ident); isId && usesObj(info, id) == o {
					out = append(out, tokRead{as.Rhs[i], as})
				}
			}
			return true
		})
		return out
	}
	var isCharsLikeFn func(e ast.Expr) bool
	var idxOfFn func(x *ast.IndexExpr) ast.Expr
	var tokensOf func(e ast.Expr, at ast.Node, env map[types.Object]ast.Expr, depth int) []tokRead
	tokensOf = func(e ast.Expr, at ast.Node, env map[types.Object]ast.Expr, depth int) []tokRead {
		if depth > 5 {
			return nil
		}
		e = stripConv(info, ast.Unparen(e))
		switch x := e.(type) {
		case *ast.Ident:
			o := usesObj(info, x)
			if a, ok := env[o]; ok {
				return tokensOf(a, at, nil, depth+1)
			}
			var out []tokRead
			for _, d := range allDefs(o) {
				out = append(out, tokensOf(d.idx, d.at, env, depth+1)...)
			}
			return out
		case *ast.IndexExpr:
			if isCharsLikeFn(x.X) {
				return []tokRead{{idxOfFn(x), at}}
			}
		case *ast.SelectorExpr:
			return tokensOf(x.X, at, env, depth+1) // tok.Str
		case *ast.CallExpr:
			if len(x.Args) >= 1 {
				return tokensOf(x.Args[0], at, env, depth+1)
			}
		}
		return nil
	}
	// windows: locals that only ever hold a suffix of chars (w := chars, w = w[k:], w = chars[k:]);
	// w[c] is then the class character at (start of w) + c, the start being one symbolic atom
	windows := map[types.Object]bool{}
	{
		cand := map[types.Object]bool{}
		bad := map[types.Object]bool{}
		ast.Inspect(fd.Body, func(n ast.Node) bool {
			as, ok := n.(*ast.AssignStmt)
			if !ok || len(as.Lhs) != len(as.Rhs) {
				return true
			}
			for i, l := range as.Lhs {
				id, isId := ast.Unparen(l).(*ast.Ident)
				if !isId {
					continue
				}
				o := usesObj(info, id)
				if o == nil || o == charsObj || !types.Identical(o.Type(), charsObj.Type()) {
					continue
				}
				r := ast.Unparen(as.Rhs[i])
				okRhs := false
				if usesObj(info, r) == charsObj {
					okRhs = true
				}
				if sl, isSl := r.(*ast.SliceExpr); isSl && sl.High == nil && sl.Max == nil {
					if b := usesObj(info, sl.X); b == charsObj || b == o {
						okRhs = true
					}
				}
				if okRhs {
					cand[o] = true
				} else {
					bad[o] = true
				}
			}
			return true
		})
		for o := range cand {
			if !bad[o] {
				windows[o] = true
			}
		}
	}
	isCharsLike := func(e ast.Expr) bool {
		o := usesObj(info, e)
		return o != nil && (o == charsObj || windows[o])
	}
	// idxOf: the position of X[i] in the list as an expression the linear forms can compare: for a
	// window w it is w + i (w stands for the window's start), for chars itself i
	idxOf := func(x *ast.IndexExpr) ast.Expr {
		if o := usesObj(info, x.X); o != nil && windows[o] {
			return &ast.BinaryExpr{X: x.X, Op: token.ADD, Y: x.Index}
		}
		return x.Index
	}
	// a window must not move between two reads that are compared
	windowMovedBetween := func(a, b token.Pos) bool {
		if a > b {
			a, b = b, a
		}
		moved := false
		ast.Inspect(fd.Body, func(n ast.Node) bool {
			if as, ok := n.(*ast.AssignStmt); ok && as.Pos() > a && as.Pos() < b {
				for _, l := range as.Lhs {
					if o := usesObj(info, l); o != nil && windows[o] {
						moved = true
					}
				}
			}
			return true
		})
		return moved
	}
	type item struct {
		from, to []tokRead
		at       ast.Node
		facts    []condFact
	}
	isCharsLikeFn, idxOfFn = isCharsLike, idxOf
	var items []item
	decoded := true
	par := parents(fd)
	var scan func(root ast.Node, env map[types.Object]ast.Expr, site ast.Node, depth int)
	scan = func(root ast.Node, env map[types.Object]ast.Expr, site ast.Node, depth int) {
		ast.Inspect(root, func(n ast.Node) bool {
			switch x := n.(type) {
			case *ast.CompositeLit:
				if !typeIs(info.TypeOf(x), "internal/ast", "CharClassItem") {
					return true
				}
				f, t := kvOf(x, "From"), kvOf(x, "To")
				if f == nil || t == nil {
					return true
				}
				at := ast.Node(x)
				if site != nil {
					at = site
				}
				fi, ti := tokensOf(f, at, env, 0), tokensOf(t, at, env, 0)
				if len(fi) > 0 && len(ti) > 0 {
					items = append(items, item{fi, ti, at, expandFacts(info, fdefs, pathConds(info, par, at))})
				}
				// both ends go through unescape (directly or in the decoding helper)
				for _, end := range []ast.Expr{f, t} {
					okDec := usesUnescape(end, 0)
					ast.Inspect(end, func(m ast.Node) bool {
						if call, ok := m.(*ast.CallExpr); ok {
							if h := helperOf(call); h != nil && usesUnescape(h.body, 0) {
								okDec = true
							}
						}
						return true
					})
					if !okDec {
						decoded = false
					}
				}
			case *ast.CallExpr:
				if depth >= 2 {
					return true
				}
				// a helper that builds the item from two tokens
				h := helperOf(x)
				if h == nil || len(h.params) != len(x.Args) {
					return true
				}
				builds := false
				ast.Inspect(h.body, func(m ast.Node) bool {
					if cl, ok := m.(*ast.CompositeLit); ok && typeIs(info.TypeOf(cl), "internal/ast", "CharClassItem") {
						builds = true
					}
					return true
				})
				if !builds {
					return true
				}
				env2 := map[types.Object]ast.Expr{}
				for i, po := range h.params {
					env2[po] = x.Args[i]
				}
				scan(h.body, env2, x, depth+1)
				return false
			}
			return true
		})
	}
	scan(fd.Body, nil, nil, 0)
	isDashFact := func(facts []condFact, fromTerms map[string]int64, fromK int64) bool {
		return holds(facts, func(e ast.Expr, pos bool) bool {
			l, op, r, ok := cmpFact(e, pos)
			if !ok || op != token.EQL {
				return false
			}
			for _, pr := range [][2]ast.Expr{{l, r}, {r, l}} {
				k, isK := usesObj(info, pr[1]).(*types.Const)
				sel, isSel := ast.Unparen(pr[0]).(*ast.SelectorExpr)
				if !isK || !isSel || k.Name() != "CLASS_DASH" || sel.Sel.Name != "Type" {
					continue
				}
				if ix, ok := ast.Unparen(sel.X).(*ast.IndexExpr); ok && isCharsLike(ix.X) {
					mt, mk := linearForm(info, nil, idxOf(ix))
					if fmt.Sprint(mt) == fmt.Sprint(fromTerms) && mk-fromK == 1 {
						return true
					}
				}
			}
			return false
		})
	}
	single, pair := false, false
	var why []string
	for _, it := range items {
		for _, fr := range it.from {
			ft, fk := linearForm(info, nil, fr.idx)
			for _, tr := range it.to {
				tt, tk := linearForm(info, nil, tr.idx)
				same := fmt.Sprint(ft) == fmt.Sprint(tt)
				if same && len(windows) > 0 && windowMovedBetween(fr.at.Pos(), tr.at.End()) {
					same = false // the two reads are relative to different window positions
				}
				switch {
				case same && tk-fk == 0:
					single = true
				case same && tk-fk == 2:
					// only where the token in between is the dash: known where the item is
					// built, or where the far end was chosen
					facts := append(append([]condFact{}, it.facts...), expandFacts(info, fdefs, pathConds(info, par, tr.at))...)
					if isDashFact(facts, ft, fk) {
						pair = true
					} else {
						why = append(why, fmt.Sprintf("%s: a range item is built without the fact that the character in between is the dash", p.Pos(it.at.Pos())))
					}
				default:
					why = append(why, fmt.Sprintf("%s: item built from characters %s and %s", p.Pos(it.at.Pos()), exprString(fr.idx), exprString(tr.idx)))
				}
			}
		}
	}
	if len(items) == 0 {
		c.unres(rule, "parser.on_char_class/items", p.Pos(fd.Pos()), "no CharClassItem built from the class characters was found")
		return
	}
	c.check(single && pair && len(why) == 0, rule, "parser.on_char_class/items", p.Pos(fd.Pos()),
		"a single character c becomes [c, c]; `a-b` (dash in between) becomes [a, b]",
		fmt.Sprintf("class items are not exactly [c, c] and, for a-b, [a, b] (single: %v, pair: %v) %s", single, pair, strings.Join(why, "; ")))
	c.check(decoded, rule, "parser.on_char_class/decoded", p.Pos(fd.Pos()), "both ends of an item are decoded through unescape", "an end of a class item is not decoded through unescape: escapes inside classes denote the backslash")
}

// ---- CC-3: class difference and union ----

func ruleCC3(c *Ctx) {
	const rule = "CC-3"
	p := c.Prog
	pk, fd := p.FuncDecl("internal/ast", "CharClassBinaryExpr.GetRanges")
	if fd == nil {
		c.unres(rule, "ast.CharClassBinaryExpr.GetRanges", "", "function not found")
		return
	}
	info := pk.TypesInfo
	defs := localDefs(info, fd)
	par := parents(fd)
	side := func(e ast.Expr) string {
		call, ok := ast.Unparen(resolveVia(info, defs, e)).(*ast.CallExpr)
		if !ok {
			return ""
		}
		if fn := calleeFunc(info, call); fn == nil || fn.Name() != "GetRanges" {
			return ""
		}
		sel, ok := call.Fun.(*ast.SelectorExpr)
		if !ok {
			return ""
		}
		switch {
		case isField(info, sel.X, "internal/ast", "CharClassBinaryExpr", "Left"):
			return "left"
		case isField(info, sel.X, "internal/ast", "CharClassBinaryExpr", "Right"):
			return "right"
		}
		return ""
	}
	opFact := func(n ast.Node) string {
		for _, f := range pathConds(info, par, n) {
			l, op, r, ok := cmpFact(f.e, !f.neg)
			if !ok || op != token.EQL {
				continue
			}
			for _, pr := range [][2]ast.Expr{{l, r}, {r, l}} {
				if isField(info, pr[0], "internal/ast", "CharClassBinaryExpr", "Op") {
					if k, ok := usesObj(info, pr[1]).(*types.Const); ok {
						return k.Name()
					}
				}
			}
		}
		return ""
	}
	okSub, okAdd := false, false
	whySub := "no Subtract under Op == CharClassBinaryExprSub"
	ast.Inspect(fd.Body, func(n ast.Node) bool {
		call, ok := n.(*ast.CallExpr)
		if !ok {
			return true
		}
		switch fullName(calleeFunc(info, call)) {
		case modPath + "/internal/lexergen/rang3.Subtract":
			if len(call.Args) == 2 && opFact(call) == "CharClassBinaryExprSub" {
				if side(call.Args[0]) == "left" && side(call.Args[1]) == "right" {
					okSub = true
				} else {
					whySub = fmt.Sprintf("Subtract(%s, %s): the operands are not (ranges of Left, ranges of Right)", exprString(call.Args[0]), exprString(call.Args[1]))
				}
			}
		case modPath + "/internal/lexergen/rang3.Flatten":
			if len(call.Args) >= 1 && opFact(call) == "CharClassBinaryExprAdd" {
				if app, ok := ast.Unparen(call.Args[0]).(*ast.CallExpr); ok && builtinName(info, app) == "append" && len(app.Args) == 2 {
					a, b := side(app.Args[0]), side(app.Args[1])
					if (a == "left" && b == "right") || (a == "right" && b == "left") {
						okAdd = true
					}
				}
			}
		}
		return true
	})
	c.check(okSub, rule, "ast.CharClassBinaryExpr.GetRanges/difference", p.Pos(fd.Pos()), "A - B is rang3.Subtract(ranges(A), ranges(B))", "class difference is wrong: "+whySub)
	c.check(okAdd, rule, "ast.CharClassBinaryExpr.GetRanges/union", p.Pos(fd.Pos()), "the other operator is the flattened union of both sides", "the union of two classes is not Flatten(ranges(Left) ++ ranges(Right)) under Op == CharClassBinaryExprAdd")
	// the front end builds the difference node with Left/Right in source order
	pk2, fb := p.FuncDecl("internal/parser", "parser.on_char_class_expr__binary")
	if fb == nil {
		c.unres(rule, "parser.on_char_class_expr__binary", "", "function not found")
		return
	}
	info2 := pk2.TypesInfo
	okNode := false
	ast.Inspect(fb.Body, func(n ast.Node) bool {
		cl, ok := n.(*ast.CompositeLit)
		if !ok || !typeIs(info2.TypeOf(cl), "internal/ast", "CharClassBinaryExpr") {
			return true
		}
		l, r, op := kvOf(cl, "Left"), kvOf(cl, "Right"), kvOf(cl, "Op")
		if l != nil && r != nil && op != nil && usesObj(info2, l) == paramObj(info2, fb, 0) && usesObj(info2, r) == paramObj(info2, fb, 2) {
			if k, ok := usesObj(info2, op).(*types.Const); ok && k.Name() == "CharClassBinaryExprSub" {
				okNode = true
			}
		}
		return true
	})
	c.check(okNode, rule, "parser.on_char_class_expr__binary/operands", p.Pos(fb.Pos()), "`A - B` builds {Op: Sub, Left: A, Right: B}", "`A - B` does not build the difference node with Left = A and Right = B")
}

// ---- CC-4: one edge per range of the class ----

func ruleCC4(c *Ctx) {
	const rule = "CC-4"
	p := c.Prog
	pk, fd := p.FuncDecl("internal/ast", "LexerTermCharClass.NFACons")
	if fd == nil {
		c.unres(rule, "ast.LexerTermCharClass.NFACons", "", "function not found")
		return
	}
	info := pk.TypesInfo
	defs := localDefs(info, fd)
	par := parents(fd)
	ok := false
	why := "no loop over the class's ranges adds an edge labelled with the range"
	for _, sc := range funcScope(p, pk, fd, 1) {
		ast.Inspect(sc.node, func(n ast.Node) bool {
			rs, isR := n.(*ast.RangeStmt)
			if !isR || rs.Value == nil {
				return true
			}
			src, isCall := ast.Unparen(resolveVia(info, defs, rs.X)).(*ast.CallExpr)
			if !isCall {
				return true
			}
			if fn := calleeFunc(info, src); fn == nil || fn.Name() != "GetRanges" {
				return true
			}
			rObj := usesObj(info, rs.Value)
			inspectScope(p, pk, rs.Body, 1, func(_ ast.Node, m ast.Node) bool {
				call, isC := m.(*ast.CallExpr)
				if !isC || len(call.Args) != 2 {
					return true
				}
				if f := calleeFunc(info, call); f == nil || f.Name() != "AddTransition" {
					return true
				}
				if usesObj(info, call.Args[1]) == rObj {
					// unconditional within the loop body
					cond := false
					for q := par[ast.Node(call)]; q != nil && q != ast.Node(rs); q = par[q] {
						switch q.(type) {
						case *ast.IfStmt, *ast.SwitchStmt:
							cond = true
						}
					}
					if cond {
						why = "the edge for a range is added only conditionally"
					} else {
						ok = true
					}
				}
				return true
			})
			if hasBranchOut(rs.Body) {
				ok = false
				why = "the loop over the ranges can skip a range"
			}
			return true
		})
	}
	c.check(ok, rule, "ast.LexerTermCharClass.NFACons/edge-per-range", p.Pos(fd.Pos()), "every range of the class expression becomes one edge labelled with that range", why)
}

// ---- CC-5: every bound of a range that reaches the automaton is a decoded code point ----
//
// The runtime compares the input rune with table words converted back to rune, and the driver feeds
// -1 as the end-of-input marker. A class or literal bound is safe only if it is a valid code point
// (0..U+10FFFF): the result of UTF-8 decoding (utf8.DecodeRune*, range over a string), or a constant
// in that interval. A bound taken straight from a numeric conversion (hexToRune of 8 hex digits can
// be any 32-bit value, \UFFFFFFFF is rune -1) puts -1 into a range: PushRune(-1) then answers
// "consume" and the lexer never reaches EOF; above U+10FFFF it denotes no code point at all.
func ruleCC5(c *Ctx, rule string) {
	p := c.Prog
	n := 0
	// classify an expression that yields a rune: "" if it is a decoded code point, else why not
	var classify func(pk *packages.Package, fn ast.Node, e ast.Expr, depth int) string
	classify = func(pk *packages.Package, fn ast.Node, e ast.Expr, depth int) string {
		info := pk.TypesInfo
		if depth > 4 {
			return "cannot trace `" + exprString(e) + "`"
		}
		e = ast.Unparen(e)
		if tv, ok := info.Types[e]; ok && tv.Value != nil {
			if v, ok := constInt(info, e); ok && v >= 0 && v <= 0x10FFFF {
				return ""
			}
			return "constant " + exprString(e) + " outside 0..U+10FFFF"
		}
		switch x := e.(type) {
		case *ast.Ident:
			o := usesObj(info, x)
			if o == nil {
				return "cannot resolve " + x.Name
			}
			// every definition of the variable
			var why string
			found := false
			ast.Inspect(fn, func(m ast.Node) bool {
				switch y := m.(type) {
				case *ast.AssignStmt:
					for i, l := range y.Lhs {
						if usesObj(info, l) != o {
							continue
						}
						found = true
						if len(y.Rhs) == 1 && len(y.Lhs) >= 1 {
							if call, ok := ast.Unparen(y.Rhs[0]).(*ast.CallExpr); ok && len(y.Lhs) > 1 {
								full := fullName(calleeFunc(info, call))
								if i == 0 && strings.HasPrefix(full, "unicode/utf8.Decode") {
									continue
								}
								why = "`" + x.Name + "` is a result of " + full
								continue
							}
						}
						if i < len(y.Rhs) {
							if w := classify(pk, fn, y.Rhs[i], depth+1); w != "" {
								why = w
							}
						}
					}
				case *ast.RangeStmt:
					if y.Value != nil && usesObj(info, y.Value) == o {
						found = true
						if b, ok := info.TypeOf(y.X).Underlying().(*types.Basic); !ok || b.Info()&types.IsString == 0 {
							if _, isRunes := info.TypeOf(y.X).Underlying().(*types.Slice); !isRunes {
								why = "`" + x.Name + "` ranges over " + exprString(y.X) + ", which is not a string"
							} else if w := classify(pk, fn, y.X, depth+1); w != "" {
								why = w
							}
						}
					}
				}
				return true
			})
			if !found {
				// a parameter: not traceable here
				return "`" + x.Name + "` is not defined from a decoding in this function"
			}
			return why
		case *ast.CallExpr:
			if tv, ok := info.Types[x.Fun]; ok && tv.IsType() && len(x.Args) == 1 {
				// conversion: []rune(string) and rune(<decoded>) keep the property
				if b, ok := info.TypeOf(x.Args[0]).Underlying().(*types.Basic); ok && b.Info()&types.IsString != 0 {
					return ""
				}
				return classify(pk, fn, x.Args[0], depth+1)
			}
			// a local closure or package function returning the rune
			var body ast.Node
			if id, ok := ast.Unparen(x.Fun).(*ast.Ident); ok {
				if o := usesObj(info, id); o != nil {
					if d := localDefs(info, fn)[o]; d != nil {
						if fl, ok := ast.Unparen(d).(*ast.FuncLit); ok {
							body = fl
						}
					}
				}
			}
			if body == nil {
				if cf := calleeFunc(info, x); cf != nil && cf.Pkg() == pk.Types {
					if hd := p.funcDecls[cf.Origin()]; hd != nil && hd.Body != nil {
						body = hd
					}
				}
			}
			if body == nil {
				return "`" + truncate(exprString(x), 50) + "` is not a UTF-8 decoding"
			}
			why := ""
			nRet := 0
			var walk func(m ast.Node) bool
			walk = func(m ast.Node) bool {
				if fl, ok := m.(*ast.FuncLit); ok && ast.Node(fl) != body {
					return false
				}
				if rs, ok := m.(*ast.ReturnStmt); ok && len(rs.Results) >= 1 {
					nRet++
					if w := classify(pk, body, rs.Results[0], depth+1); w != "" {
						why = w
					}
				}
				return true
			}
			ast.Inspect(body, walk)
			if nRet == 0 {
				return "helper returns nothing traceable"
			}
			return why
		case *ast.IndexExpr:
			return classify(pk, fn, x.X, depth+1) // element of []rune(string)
		}
		return "`" + truncate(exprString(e), 50) + "` is not a UTF-8 decoding"
	}
	// (a) class items built by the front end, wherever in the package the literal is written
	if pk := p.Pkg("internal/parser"); pk != nil {
		info := pk.TypesInfo
		for _, f := range pk.Syntax {
			if isGenFile(p, f) || isTestFile(p.Fset, f) {
				continue
			}
			for _, d := range f.Decls {
				fd, ok := d.(*ast.FuncDecl)
				if !ok || fd.Body == nil {
					continue
				}
				ast.Inspect(fd.Body, func(m ast.Node) bool {
					cl, ok := m.(*ast.CompositeLit)
					if !ok || !typeIs(info.TypeOf(cl), "internal/ast", "CharClassItem") {
						return true
					}
					for _, fld := range []string{"From", "To"} {
						v := kvOf(cl, fld)
						if v == nil {
							continue
						}
						n++
						why := classify(pk, fd, v, 0)
						c.check(why == "", rule, "parser."+fd.Name.Name+"/bound("+fld+")", p.Pos(v.Pos()),
							"the bound is the result of UTF-8 decoding: a code point in 0..U+10FFFF",
							"a class bound is not a decoded code point ("+why+"): it can be -1 (\\UFFFFFFFF), which is the end-of-input marker the lexer must never consume, or lie above U+10FFFF")
					}
					return true
				})
			}
		}
	} else {
		c.unres(rule, "internal/parser", "", "package not found")
	}
	// (b) literals
	if pk, fd := p.FuncDecl("internal/ast", "LexerTermLiteral.NFACons"); fd != nil {
		info := pk.TypesInfo
		ast.Inspect(fd.Body, func(m ast.Node) bool {
			cl, ok := m.(*ast.CompositeLit)
			if !ok || !typeIs(info.TypeOf(cl), "lexergen/rang3", "Range") {
				return true
			}
			for _, fld := range []string{"B", "E"} {
				v := kvOf(cl, fld)
				if v == nil {
					continue
				}
				n++
				why := classify(pk, fd, v, 0)
				c.check(why == "", rule, "ast.LexerTermLiteral.NFACons/bound("+fld+")", p.Pos(v.Pos()),
					"the edge label is a decoded code point of the literal", "a literal's edge label is not a decoded code point ("+why+")")
			}
			return true
		})
	} else {
		c.unres(rule, "ast.LexerTermLiteral.NFACons", "", "function not found")
	}
	if n < 4 {
		c.unres(rule, "range-bounds", "", "only %d range bounds built from grammar text were found (4 expected: class From/To, literal B/E)", n)
	}
}

// ---- CC-6: Subtract never discards a range of the minuend unexamined ----
//
// rang3.Subtract walks the minuend `a` and the subtrahend `b`; ranges of `a` are moved onto the
// result stack, where they are trimmed, split or removed by comparing them with `b`. A range may
// therefore leave `a` only by being pushed onto the result in the same step. A statement that
// shortens `a` without pushing what it removes drops code points that were never compared with
// anything (seed C15-H skipped every a-range that merely *starts* inside the current b-range).
// Decided structurally; what the five geometric cases then compute is not (declined part of C15).
func ruleCC6(c *Ctx) {
	const rule = "CC-6"
	p := c.Prog
	pk, fd := p.FuncDecl("internal/lexergen/rang3", "Subtract")
	if fd == nil {
		c.unres(rule, "rang3.Subtract", "", "function not found")
		return
	}
	info := pk.TypesInfo
	aObj := paramObj(info, fd, 0)
	if aObj == nil {
		c.unres(rule, "rang3.Subtract/minuend", p.Pos(fd.Pos()), "first parameter not found")
		return
	}
	par := parents(fd)
	n := 0
	ast.Inspect(fd.Body, func(m ast.Node) bool {
		as, ok := m.(*ast.AssignStmt)
		if !ok || len(as.Lhs) != 1 || len(as.Rhs) != 1 || usesObj(info, as.Lhs[0]) != aObj {
			return true
		}
		sl, ok := ast.Unparen(as.Rhs[0]).(*ast.SliceExpr)
		if !ok || usesObj(info, sl.X) != aObj {
			return true // a = Flatten(a, nil) and the like: not a removal from the front
		}
		n++
		lo, isC := int64(0), sl.Low == nil
		if sl.Low != nil {
			lo, isC = constInt(info, sl.Low)
		}
		construct := fmt.Sprintf("rang3.Subtract/leaves-minuend(%s)", exprString(as.Rhs[0]))
		if !isC || lo != 1 || sl.High != nil {
			c.bad(rule, construct, p.Pos(as.Pos()), "the minuend is shortened by `%s`: more than the one range that was just moved to the result can be dropped", exprString(as.Rhs[0]))
			return true
		}
		// the statement just before, in the same list, pushes a[0] onto the result
		list := enclosingList(par, as)
		pushed := false
		for i, st := range list {
			if st != ast.Stmt(as) || i == 0 {
				continue
			}
			if es, ok := list[i-1].(*ast.ExprStmt); ok {
				if call, ok := es.X.(*ast.CallExpr); ok && len(call.Args) >= 1 {
					if sel, ok := call.Fun.(*ast.SelectorExpr); ok && (sel.Sel.Name == "Push" || sel.Sel.Name == "Add") {
						if ix, ok := ast.Unparen(call.Args[0]).(*ast.IndexExpr); ok && usesObj(info, ix.X) == aObj {
							if v, ok := constInt(info, ix.Index); ok && v == 0 {
								pushed = true
							}
						}
					}
				}
			}
			if as2, ok := list[i-1].(*ast.AssignStmt); ok && len(as2.Rhs) == 1 {
				if call, ok := as2.Rhs[0].(*ast.CallExpr); ok && builtinName(info, call) == "append" && len(call.Args) == 2 {
					if ix, ok := ast.Unparen(call.Args[1]).(*ast.IndexExpr); ok && usesObj(info, ix.X) == aObj {
						if v, ok := constInt(info, ix.Index); ok && v == 0 {
							pushed = true
						}
					}
				}
			}
		}
		c.check(pushed, rule, construct, p.Pos(as.Pos()),
			"the range that leaves the minuend was pushed onto the result in the statement before: it is examined against the subtrahend there",
			"a range of the minuend is dropped without being moved to the result: its code points are lost although no range of the subtrahend was compared with it")
		return true
	})
	// the same walk written with a cursor: `Push(a[next]); next++`
	cursors := map[types.Object]bool{}
	ast.Inspect(fd.Body, func(m ast.Node) bool {
		if ix, ok := m.(*ast.IndexExpr); ok && usesObj(info, ix.X) == aObj {
			if o := usesObj(info, ix.Index); o != nil {
				if _, isVar := o.(*types.Var); isVar {
					cursors[o] = true
				}
			}
		}
		if sl, ok := m.(*ast.SliceExpr); ok && usesObj(info, sl.X) == aObj && sl.Low != nil {
			if o := usesObj(info, sl.Low); o != nil {
				if _, isVar := o.(*types.Var); isVar {
					cursors[o] = true
				}
			}
		}
		return true
	})
	pushesAt := func(st ast.Stmt, cur types.Object) bool {
		es, ok := st.(*ast.ExprStmt)
		if !ok {
			return false
		}
		call, ok := es.X.(*ast.CallExpr)
		if !ok || len(call.Args) < 1 {
			return false
		}
		sel, ok := call.Fun.(*ast.SelectorExpr)
		if !ok || (sel.Sel.Name != "Push" && sel.Sel.Name != "Add") {
			return false
		}
		ix, ok := ast.Unparen(call.Args[0]).(*ast.IndexExpr)
		return ok && usesObj(info, ix.X) == aObj && usesObj(info, ix.Index) == cur
	}
	ast.Inspect(fd.Body, func(m ast.Node) bool {
		var cur types.Object
		var at ast.Stmt
		okStep := false
		switch x := m.(type) {
		case *ast.IncDecStmt:
			if o := usesObj(info, x.X); cursors[o] {
				cur, at, okStep = o, x, x.Tok == token.INC
			}
		case *ast.AssignStmt:
			if len(x.Lhs) == 1 && len(x.Rhs) == 1 && cursors[usesObj(info, x.Lhs[0])] && x.Tok != token.DEFINE {
				cur, at = usesObj(info, x.Lhs[0]), x
				if v, isC := constInt(info, x.Rhs[0]); isC && x.Tok == token.ADD_ASSIGN && v == 1 {
					okStep = true
				}
			}
		}
		if cur == nil {
			return true
		}
		n++
		construct := fmt.Sprintf("rang3.Subtract/leaves-minuend(%s)", nodeText(at))
		list := enclosingList(par, at)
		pushed := false
		for i, st := range list {
			if st == at && i > 0 && pushesAt(list[i-1], cur) {
				pushed = true
			}
		}
		c.check(okStep && pushed, rule, construct, p.Pos(at.Pos()),
			"the cursor into the minuend advances by one directly after the range it leaves behind was pushed onto the result",
			"the cursor into the minuend advances without the range it skips having been moved to the result: those code points are lost unexamined")
		return true
	})
	if n < 1 {
		c.unres(rule, "rang3.Subtract/leaves-minuend", p.Pos(fd.Pos()), "no statement taking ranges off the minuend was found")
	}
}
