package main

// C04 (conflict reporting) and C05 (precedence / associativity).

import (
	"fmt"
	"go/ast"
	"go/token"
	"go/types"
	"os"
	"path/filepath"
	"regexp"
	"strings"

	"golang.org/x/tools/go/packages"
)

// resolver describes the conflict-resolution closure inside lr1.resolveConflicts.
type resolver struct {
	pk        *packages.Package
	outer     *ast.FuncDecl
	lit       *ast.FuncLit // resolveConflict
	removeObj types.Object // the local `remove` helper
	shiftObj  types.Object
	reduceObj types.Object
	shiftPrec types.Object
	redPrec   types.Object // may be nil when reduceProd.Precedence is used directly
	sw        *ast.SwitchStmt
	helpers   []*ast.FuncDecl // same-package helpers the closure delegates guards to
	loserObj  types.Object    // local that the arms set and a single removal after the switch deletes
	prog           *Program
	inHelperLookup bool
}

// removalTarget: call removes one action from the candidate list; returns the variable naming it.
// Forms: remove(x) with the local helper, or X.DeleteFunc(func(a) bool { return a == x }).
func (r *resolver) removalTarget(call *ast.CallExpr) types.Object {
	info := r.pk.TypesInfo
	if r.removeObj != nil && usesObj(info, call.Fun) == r.removeObj && len(call.Args) == 1 {
		return usesObj(info, call.Args[0])
	}
	// a declared helper (function or method of the package) that removes the action it is given:
	// its body contains a removal whose target is one of its parameters
	if fn := calleeFunc(info, call); fn != nil && fn.Pkg() == r.pk.Types && r.prog != nil && !r.inHelperLookup {
		if hd := r.prog.funcDecls[fn.Origin()]; hd != nil && hd.Body != nil && hd != r.outer {
			r.inHelperLookup = true
			var target types.Object
			ast.Inspect(hd.Body, func(m ast.Node) bool {
				if c2, ok := m.(*ast.CallExpr); ok && target == nil {
					if t := r.removalTarget(c2); t != nil {
						target = t
					}
				}
				return true
			})
			r.inHelperLookup = false
			if target != nil {
				k := 0
				for _, fld := range hd.Type.Params.List {
					for _, nm := range fld.Names {
						if info.Defs[nm] == target && k < len(call.Args) {
							return usesObj(info, call.Args[k])
						}
						k++
					}
				}
			}
		}
	}
	if fn := calleeFunc(info, call); fn != nil && fn.Name() == "DeleteFunc" && len(call.Args) == 1 {
		if fl, ok := ast.Unparen(call.Args[0]).(*ast.FuncLit); ok && len(fl.Body.List) == 1 && len(fl.Type.Params.List) == 1 && len(fl.Type.Params.List[0].Names) == 1 {
			prm := info.Defs[fl.Type.Params.List[0].Names[0]]
			if rs, ok := fl.Body.List[0].(*ast.ReturnStmt); ok && len(rs.Results) == 1 {
				if be, ok := ast.Unparen(rs.Results[0]).(*ast.BinaryExpr); ok && be.Op == token.EQL {
					if usesObj(info, be.X) == prm {
						return usesObj(info, be.Y)
					}
					if usesObj(info, be.Y) == prm {
						return usesObj(info, be.X)
					}
				}
			}
		}
	}
	return nil
}

func findResolver(c *Ctx) *resolver {
	p := c.Prog
	pk, fd := p.FuncDecl("internal/parsergen/lr1", "resolveConflicts")
	if fd == nil {
		return nil
	}
	info := pk.TypesInfo
	r := &resolver{pk: pk, outer: fd, prog: p}
	// the function literal that (transitively) calls Array.DeleteFunc through a helper
	ast.Inspect(fd.Body, func(n ast.Node) bool {
		as, ok := n.(*ast.AssignStmt)
		if !ok || len(as.Lhs) != 1 || len(as.Rhs) != 1 {
			return true
		}
		fl, ok := as.Rhs[0].(*ast.FuncLit)
		if !ok {
			return true
		}
		deletes := len(findCalls(info, fl.Body, true, func(fn *types.Func, _ *ast.CallExpr) bool { return fn != nil && fn.Name() == "DeleteFunc" })) > 0
		if !deletes {
			ast.Inspect(fl.Body, func(m ast.Node) bool {
				if c2, ok := m.(*ast.CallExpr); ok && !deletes && r.removalTarget(c2) != nil {
					deletes = true
				}
				return true
			})
		}
		if !deletes {
			return true
		}
		if fl.Type.Results != nil && len(fl.Type.Results.List) == 1 {
			r.lit = fl
		} else if r.removeObj == nil || containsNode(r.lit, fl) {
			r.removeObj = usesObj(info, as.Lhs[0])
		}
		return true
	})
	if r.lit == nil {
		return nil
	}
	// inner helper
	ast.Inspect(r.lit.Body, func(n ast.Node) bool {
		as, ok := n.(*ast.AssignStmt)
		if ok && len(as.Rhs) == 1 {
			if fl, ok := as.Rhs[0].(*ast.FuncLit); ok && fl.Type.Results == nil {
				r.removeObj = usesObj(info, as.Lhs[0])
			}
		}
		return true
	})
	// roles from the type guard: X.Type != ActionShift || Y.Type != ActionReduce
	ast.Inspect(r.lit.Body, func(n ast.Node) bool {
		be, ok := n.(*ast.BinaryExpr)
		if !ok || be.Op != token.NEQ || !isField(info, be.X, "parsergen/lr1", "Action", "Type") {
			return true
		}
		k, _ := usesObj(info, be.Y).(*types.Const)
		base := usesObj(info, be.X.(*ast.SelectorExpr).X)
		if k != nil && k.Name() == "ActionShift" {
			r.shiftObj = base
		}
		if k != nil && k.Name() == "ActionReduce" {
			r.reduceObj = base
		}
		return true
	})
	// roles through a helper: `a, b, ok := pick(actions)` where pick returns variables it compared
	// with ActionShift / ActionReduce at the corresponding result positions
	if r.shiftObj == nil || r.reduceObj == nil {
		ast.Inspect(r.lit.Body, func(n ast.Node) bool {
			as, ok := n.(*ast.AssignStmt)
			if !ok || len(as.Rhs) != 1 || len(as.Lhs) < 2 {
				return true
			}
			call, ok := as.Rhs[0].(*ast.CallExpr)
			if !ok {
				return true
			}
			fn := calleeFunc(info, call)
			if fn == nil || fn.Pkg() != pk.Types {
				return true
			}
			hd := p.funcDecls[fn.Origin()]
			if hd == nil || hd.Body == nil {
				return true
			}
			// role of each local of the helper by the constants its .Type is compared with
			hroles := map[types.Object]map[string]bool{}
			hpar := parents(hd)
			posRoles := map[int]map[string]bool{}
			ast.Inspect(hd.Body, func(m ast.Node) bool {
				rs, ok := m.(*ast.ReturnStmt)
				if !ok {
					return true
				}
				facts := pathConds(info, hpar, rs)
				for i, res := range rs.Results {
					v := usesObj(info, res)
					if v == nil {
						continue
					}
					for _, f := range facts {
						l, op, rr, ok := cmpFact(f.e, !f.neg)
						if !ok || op != token.EQL || !isField(info, l, "parsergen/lr1", "Action", "Type") {
							continue
						}
						if usesObj(info, l.(*ast.SelectorExpr).X) != v {
							continue
						}
						if k, ok := usesObj(info, rr).(*types.Const); ok {
							if posRoles[i] == nil {
								posRoles[i] = map[string]bool{}
							}
							posRoles[i][k.Name()] = true
						}
					}
				}
				return true
			})
			// fallback: a helper variable whose .Type is only ever compared with one of the two
			// constants has that role (the swap idiom keeps the names and exchanges the values)
			ast.Inspect(hd.Body, func(m ast.Node) bool {
				be, ok := m.(*ast.BinaryExpr)
				if !ok || (be.Op != token.NEQ && be.Op != token.EQL) || !isField(info, be.X, "parsergen/lr1", "Action", "Type") {
					return true
				}
				k, _ := usesObj(info, be.Y).(*types.Const)
				v := usesObj(info, be.X.(*ast.SelectorExpr).X)
				if k == nil || v == nil {
					return true
				}
				if hroles[v] == nil {
					hroles[v] = map[string]bool{}
				}
				hroles[v][k.Name()] = true
				return true
			})
			inspectNoLit(hd.Body, func(m ast.Node) bool {
				rs, ok := m.(*ast.ReturnStmt)
				if !ok || len(rs.Results) == 0 || exprString(rs.Results[len(rs.Results)-1]) != "true" {
					return true
				}
				for i, res := range rs.Results {
					if v := usesObj(info, res); v != nil && len(hroles[v]) == 1 && len(posRoles[i]) == 0 {
						posRoles[i] = hroles[v]
					}
				}
				return true
			})
			for i, l := range as.Lhs {
				if rs := posRoles[i]; len(rs) == 1 {
					if rs["ActionShift"] {
						r.shiftObj = usesObj(info, l)
					}
					if rs["ActionReduce"] {
						r.reduceObj = usesObj(info, l)
					}
				}
			}
			return true
		})
	}
	// precedence / rule values obtained through a helper applied to the shift side's productions
	ast.Inspect(r.lit.Body, func(n ast.Node) bool {
		as, ok := n.(*ast.AssignStmt)
		if !ok || len(as.Rhs) != 1 || len(as.Lhs) < 2 {
			return true
		}
		call, ok := as.Rhs[0].(*ast.CallExpr)
		if !ok {
			return true
		}
		fn := calleeFunc(info, call)
		if fn == nil || fn.Pkg() != pk.Types {
			return true
		}
		hd := p.funcDecls[fn.Origin()]
		if hd == nil || hd.Body == nil {
			return true
		}
		side := ""
		for _, a := range call.Args {
			switch usesObj(info, selRootIdent(a)) {
			case r.shiftObj:
				side = "shift"
			case r.reduceObj:
				side = "reduce"
			}
		}
		readsPrec := false
		ast.Inspect(hd.Body, func(m ast.Node) bool {
			if e, ok := m.(ast.Expr); ok && isField(info, e, "parsergen/lr1", "Prod", "Precedence") {
				readsPrec = true
			}
			return true
		})
		if side == "" || !readsPrec {
			return true
		}
		for _, l := range as.Lhs {
			if t := info.TypeOf(l); t != nil && isNumeric(t) {
				if side == "shift" {
					r.shiftPrec = usesObj(info, l)
				} else {
					r.redPrec = usesObj(info, l)
				}
			}
		}
		r.helpers = append(r.helpers, hd)
		return true
	})
	// precedence variables
	ast.Inspect(r.lit.Body, func(n ast.Node) bool {
		as, ok := n.(*ast.AssignStmt)
		if !ok || len(as.Lhs) != len(as.Rhs) {
			return true
		}
		for i, rhs := range as.Rhs {
			if !isField(info, rhs, "parsergen/lr1", "Prod", "Precedence") {
				continue
			}
			lhs := usesObj(info, as.Lhs[i])
			root := usesObj(info, selRootIdent(rhs))
			// value derived from the shift side: ranged over shift.Prods
			if derivedFrom(info, r.lit, root, r.shiftObj) {
				r.shiftPrec = lhs
			} else if derivedFrom(info, r.lit, root, r.reduceObj) {
				r.redPrec = lhs
			}
		}
		return true
	})
	// decision switch: tagless switch whose arms remove a candidate, or name the one that the
	// single removal following the switch deletes
	var removals []*ast.CallExpr
	ast.Inspect(r.lit.Body, func(n ast.Node) bool {
		if call, ok := n.(*ast.CallExpr); ok {
			if fl, isLit := ast.Unparen(call.Fun).(*ast.FuncLit); isLit {
				_ = fl
				return true
			}
			if t := r.removalTarget(call); t != nil {
				// the body of the local remove helper is not a removal site itself
				if r.removeObj == nil || usesObj(info, call.Fun) == r.removeObj || !insideHelper(info, r, call) {
					removals = append(removals, call)
				}
			}
		}
		return true
	})
	ast.Inspect(r.lit.Body, func(n ast.Node) bool {
		sw, ok := n.(*ast.SwitchStmt)
		if !ok || sw.Tag != nil {
			return true
		}
		for _, rm := range removals {
			if containsNode(sw, rm) {
				r.sw = sw
			}
		}
		if r.sw == nil {
			for _, rm := range removals {
				t := r.removalTarget(rm)
				if rm.Pos() < sw.End() || t == nil || t == r.shiftObj || t == r.reduceObj {
					continue
				}
				assigned := false
				for _, cl := range sw.Body.List {
					for _, st := range cl.(*ast.CaseClause).Body {
						if as, ok := st.(*ast.AssignStmt); ok && len(as.Lhs) == 1 && usesObj(info, as.Lhs[0]) == t {
							assigned = true
						}
					}
				}
				if assigned {
					r.sw, r.loserObj = sw, t
				}
			}
		}
		return true
	})
	return r
}

// insideHelper: call lies inside the local remove helper's own body.
func insideHelper(info *types.Info, r *resolver, call *ast.CallExpr) bool {
	in := false
	ast.Inspect(r.outer.Body, func(n ast.Node) bool {
		as, ok := n.(*ast.AssignStmt)
		if ok && len(as.Lhs) == 1 && len(as.Rhs) == 1 && usesObj(info, as.Lhs[0]) == r.removeObj {
			if fl, ok := as.Rhs[0].(*ast.FuncLit); ok && containsNode(fl, call) {
				in = true
			}
		}
		return true
	})
	return in
}

func selRootIdent(e ast.Expr) ast.Expr {
	e = ast.Unparen(e)
	for {
		switch x := e.(type) {
		case *ast.SelectorExpr:
			e = ast.Unparen(x.X)
		case *ast.IndexExpr:
			e = ast.Unparen(x.X)
		default:
			return e
		}
	}
}

// derivedFrom: variable v is (a range variable over, or assigned from an expression rooted at) src.
func derivedFrom(info *types.Info, scope ast.Node, v, src types.Object) bool {
	if v == nil || src == nil {
		return false
	}
	if v == src {
		return true
	}
	found := false
	ast.Inspect(scope, func(n ast.Node) bool {
		switch x := n.(type) {
		case *ast.RangeStmt:
			if x.Value != nil && usesObj(info, x.Value) == v && usesObj(info, selRootIdent(x.X)) == src {
				found = true
			}
		case *ast.AssignStmt:
			for i, l := range x.Lhs {
				if usesObj(info, l) == v && i < len(x.Rhs) && usesObj(info, selRootIdent(x.Rhs[i])) == src {
					found = true
				}
			}
		}
		return !found
	})
	return found
}

// removedRole tells which action (shift/reduce) a case body removes.
func (r *resolver) removedRole(body []ast.Stmt) string {
	info := r.pk.TypesInfo
	role := ""
	n := 0
	classify := func(o types.Object) {
		n++
		switch o {
		case r.shiftObj:
			role = "shift"
		case r.reduceObj:
			role = "reduce"
		default:
			role = "?"
		}
	}
	for _, s := range body {
		ast.Inspect(s, func(m ast.Node) bool {
			switch x := m.(type) {
			case *ast.CallExpr:
				if r.loserObj == nil {
					if t := r.removalTarget(x); t != nil {
						classify(t)
					}
				}
			case *ast.AssignStmt:
				if r.loserObj != nil && len(x.Lhs) == 1 && len(x.Rhs) == 1 && usesObj(info, x.Lhs[0]) == r.loserObj {
					classify(usesObj(info, x.Rhs[0]))
				}
			}
			return true
		})
	}
	if n != 1 {
		return fmt.Sprintf("%d removals", n)
	}
	return role
}

func conjuncts(e ast.Expr) []ast.Expr {
	e = ast.Unparen(e)
	if be, ok := e.(*ast.BinaryExpr); ok && be.Op == token.LAND {
		return append(conjuncts(be.X), conjuncts(be.Y)...)
	}
	return []ast.Expr{e}
}
func disjuncts(e ast.Expr) []ast.Expr {
	e = ast.Unparen(e)
	if be, ok := e.(*ast.BinaryExpr); ok && be.Op == token.LOR {
		return append(disjuncts(be.X), disjuncts(be.Y)...)
	}
	return []ast.Expr{e}
}

// precSide classifies an expression as the precedence of the shift or the reduce side.
func (r *resolver) precSide(e ast.Expr) string {
	info := r.pk.TypesInfo
	e = ast.Unparen(e)
	if o := usesObj(info, e); o != nil {
		if _, isSel := e.(*ast.SelectorExpr); !isSel {
			switch o {
			case r.shiftPrec:
				return "shift"
			case r.redPrec:
				return "reduce"
			}
		}
	}
	if isField(info, e, "parsergen/lr1", "Prod", "Precedence") {
		root := usesObj(info, selRootIdent(e))
		if derivedFrom(info, r.lit, root, r.reduceObj) {
			return "reduce"
		}
		if derivedFrom(info, r.lit, root, r.shiftObj) {
			return "shift"
		}
	}
	return ""
}

func rulePREC1(c *Ctx) {
	const rule = "PREC-1"
	p := c.Prog
	r := findResolver(c)
	if r == nil || r.sw == nil || r.shiftObj == nil || r.reduceObj == nil || r.shiftPrec == nil {
		c.unres(rule, "lr1.resolveConflicts/decision-table", "", "the precedence decision (tagless switch removing the shift or the reduce action) was not found")
		return
	}
	info := r.pk.TypesInfo
	sawLess, sawGreater, sawRight, sawDefault := false, false, false, false
	for _, cl := range r.sw.Body.List {
		cc := cl.(*ast.CaseClause)
		removed := r.removedRole(cc.Body)
		if cc.List == nil {
			sawDefault = true
			c.check(removed == "shift", rule, "lr1.resolveConflicts/equal-level-default", p.Pos(cc.Pos()),
				"equal level, not right-associative => the shift is removed (left-to-right grouping)",
				"equal level, left-associative: removes `"+removed+"` instead of the shift")
			continue
		}
		cond := cc.List[0]
		if be, ok := ast.Unparen(cond).(*ast.BinaryExpr); ok && (be.Op == token.LSS || be.Op == token.GTR) && r.precSide(be.X) != "" && r.precSide(be.Y) != "" && len(cc.List) == 1 {
			l, rr := r.precSide(be.X), r.precSide(be.Y)
			op := be.Op
			if l == "reduce" && rr == "shift" { // normalise to shift OP reduce
				if op == token.LSS {
					op = token.GTR
				} else {
					op = token.LSS
				}
			} else if !(l == "shift" && rr == "reduce") {
				c.bad(rule, "lr1.resolveConflicts/level-arm("+exprString(cond)+")", p.Pos(cc.Pos()), "compares the precedence of one side with itself")
				continue
			}
			if op == token.LSS {
				sawLess = true
				c.check(removed == "shift", rule, "lr1.resolveConflicts/lower-shift-level", p.Pos(cc.Pos()),
					"shift level < reduce level => the shift is removed (the higher level binds tighter)", "shift level < reduce level removes `"+removed+"`: a lower level would bind tighter")
			} else {
				sawGreater = true
				c.check(removed == "reduce", rule, "lr1.resolveConflicts/higher-shift-level", p.Pos(cc.Pos()),
					"shift level > reduce level => the reduce is removed", "shift level > reduce level removes `"+removed+"`: a lower level would bind tighter")
			}
			continue
		}
		// the equal-level, right-associative arm
		var assoc []ast.Expr
		var extra []string
		for _, cj := range conjuncts(cond) {
			be, ok := cj.(*ast.BinaryExpr)
			if ok && be.Op == token.EQL && isField(info, be.X, "parsergen/lr1", "Prod", "Associativity") {
				if k, ok := usesObj(info, be.Y).(*types.Const); ok && k.Name() == "Right" {
					assoc = append(assoc, cj)
					continue
				}
			}
			extra = append(extra, exprString(cj))
		}
		if len(assoc) == 0 {
			c.bad(rule, "lr1.resolveConflicts/arm("+truncate(exprString(cond), 40)+")", p.Pos(cc.Pos()), "an arm of the precedence decision is neither a level comparison nor the associativity test")
			continue
		}
		sawRight = true
		c.check(removed == "reduce", rule, "lr1.resolveConflicts/equal-level-right", p.Pos(cc.Pos()),
			"equal level, right-associative => the reduce is removed", "equal level, right-associative removes `"+removed+"`")
		c.check(len(extra) == 0, rule, "lr1.resolveConflicts/equal-level-arm", p.Pos(cc.Pos()),
			"at equal level the decision depends on the associativity alone",
			fmt.Sprintf("at equal level the right-associative arm additionally requires `%s`; createActions calls AddShift once per item (one per lookahead), so shift.Prods holds the same production many times and the arm is never taken: @right operators group left-to-right (examples/calc evaluates 2^3^2 to 64)", strings.Join(extra, " && ")))
	}
	c.check(sawLess && sawGreater && sawRight && sawDefault, rule, "lr1.resolveConflicts/table-complete", p.Pos(r.sw.Pos()),
		"the decision table has the four documented rows (<, >, =right, =left)", fmt.Sprintf("rows present: <:%v >:%v =right:%v default:%v", sawLess, sawGreater, sawRight, sawDefault))
}

func rulePREC2(c *Ctx) {
	const rule = "PREC-2"
	p := c.Prog
	pk, fd := p.FuncDecl("internal/parser", "parser.on_parser_qualif")
	if fd == nil {
		c.unres(rule, "parser.on_parser_qualif", "", "function not found")
		return
	}
	info := pk.TypesInfo
	spell := tokenSpellings(pk)
	want := map[string]string{"@left": "Left", "@right": "Right"}
	got := map[string]string{}
	// tokTypeFacts: the token-type constants that `tok.Type == K` path facts establish at node n
	tokTypeFacts := func(fn ast.Node, n ast.Node, tok types.Object) []types.Object {
		var out []types.Object
		for _, f := range pathConds(info, parents(fn), n) {
			l, op, r, ok := cmpFact(f.e, !f.neg)
			if !ok || op != token.EQL {
				continue
			}
			for _, pr := range [][2]ast.Expr{{l, r}, {r, l}} {
				sel, isSel := ast.Unparen(pr[0]).(*ast.SelectorExpr)
				if isSel && sel.Sel.Name == "Type" && usesObj(info, sel.X) == tok {
					if k, isK := usesObj(info, pr[1]).(*types.Const); isK {
						out = append(out, k)
					}
				}
			}
		}
		return out
	}
	// values stored into ProdQualifier.<field>: assignments and composite-literal entries
	storesTo := func(field string) []ast.Expr {
		var out []ast.Expr
		ast.Inspect(fd.Body, func(n ast.Node) bool {
			switch x := n.(type) {
			case *ast.AssignStmt:
				for i, l := range x.Lhs {
					if isField(info, l, "internal/ast", "ProdQualifier", field) {
						if len(x.Lhs) == len(x.Rhs) {
							out = append(out, x.Rhs[i])
						} else if len(x.Rhs) == 1 {
							out = append(out, x.Rhs[0])
						}
					}
				}
			case *ast.CompositeLit:
				if typeIs(info.TypeOf(x), "internal/ast", "ProdQualifier") {
					if v := kvOf(x, field); v != nil {
						out = append(out, v)
					}
				}
			}
			return true
		})
		return out
	}
	assocTok := paramObj(info, fd, 0)
	for _, v := range storesTo("Associativity") {
		if k, ok := usesObj(info, v).(*types.Const); ok {
			for _, tk := range tokTypeFacts(fd, v, assocTok) {
				got[spell[tk]] = k.Name()
			}
			continue
		}
		// through a helper applied to the token: its constant returns, by the token type they are
		// reached under
		call, ok := ast.Unparen(v).(*ast.CallExpr)
		if !ok {
			continue
		}
		hf := calleeFunc(info, call)
		if hf == nil || hf.Pkg() != pk.Types {
			continue
		}
		h := p.funcDecls[hf.Origin()]
		if h == nil || h.Body == nil {
			continue
		}
		for i, a := range call.Args {
			if usesObj(info, a) != assocTok {
				continue
			}
			hp := paramObj(info, h, i)
			inspectNoLit(h.Body, func(m ast.Node) bool {
				rs, ok := m.(*ast.ReturnStmt)
				if !ok || len(rs.Results) != 1 {
					return true
				}
				if k, ok := usesObj(info, rs.Results[0]).(*types.Const); ok {
					for _, tk := range tokTypeFacts(h, rs, hp) {
						got[spell[tk]] = k.Name()
					}
				}
				return true
			})
		}
	}
	// the same mapping written as a lookup in a constant table keyed by the token's type
	ast.Inspect(fd.Body, func(n ast.Node) bool {
		as, ok := n.(*ast.AssignStmt)
		if !ok || len(as.Rhs) != 1 || len(as.Lhs) < 1 {
			return true
		}
		key, entries, ok := constTable(p, pk, as.Rhs[0])
		if !ok {
			return true
		}
		sel, isSel := ast.Unparen(key).(*ast.SelectorExpr)
		if !isSel || sel.Sel.Name != "Type" || usesObj(info, sel.X) != assocTok {
			return true
		}
		// stored into the Associativity field directly, or into a local that is
		target := as.Lhs[0]
		isAssoc := isFieldNamed(info, target, "Associativity")
		if o := usesObj(info, target); o != nil && !isAssoc {
			for _, v := range storesTo("Associativity") {
				if usesObj(info, v) == o {
					isAssoc = true
				}
			}
		}
		if !isAssoc {
			return true
		}
		for _, en := range entries {
			if k, isK := usesObj(info, en.Val).(*types.Const); isK && en.Key != nil {
				got[spell[en.Key]] = k.Name()
			}
		}
		return true
	})
	for sp, k := range want {
		c.check(got[sp] == k, rule, "parser.on_parser_qualif/assoc("+sp+")", p.Pos(fd.Pos()), sp+" => ast."+k, fmt.Sprintf("%s is mapped to ast.%s, not ast.%s", sp, got[sp], k))
	}
	// the level comes from the NUM parameter
	okNum := false
	numTok := paramObj(info, fd, 2)
	isDecimalParse := func(call *ast.CallExpr) bool {
		full := fullName(calleeFunc(info, call))
		if full == "strconv.Atoi" {
			return true
		}
		if full == "strconv.ParseInt" && len(call.Args) == 3 {
			if b, ok := constInt(info, call.Args[1]); ok && b == 10 {
				return true
			}
		}
		return false
	}
	for _, v := range storesTo("Precedence") {
		call, ok := ast.Unparen(v).(*ast.CallExpr)
		resPos := 0 // which result of the call the stored value is
		if !ok {
			// a local holding one result of a call: x, ok := h(...)
			if o := usesObj(info, v); o != nil {
				ast.Inspect(fd.Body, func(n ast.Node) bool {
					as, isAs := n.(*ast.AssignStmt)
					if !isAs || len(as.Rhs) != 1 || as.Tok != token.DEFINE {
						return true
					}
					for j, l := range as.Lhs {
						if usesObj(info, l) == o {
							if c2, isCall := ast.Unparen(as.Rhs[0]).(*ast.CallExpr); isCall {
								call, ok, resPos = c2, true, j
							}
						}
					}
					return true
				})
			}
		}
		if !ok {
			continue
		}
		if isDecimalParse(call) {
			if usesObj(info, selRootIdent(stripConv(info, call.Args[0]))) == numTok {
				okNum = true
			}
			continue
		}
		hf := calleeFunc(info, call)
		if hf == nil || hf.Pkg() != pk.Types {
			continue
		}
		h := p.funcDecls[hf.Origin()]
		if h == nil || h.Body == nil {
			continue
		}
		for i, a := range call.Args {
			if usesObj(info, selRootIdent(stripConv(info, a))) != numTok {
				continue
			}
			hp := paramObj(info, h, i)
			// n, err := strconv.Atoi(string(param.Str)) ... return n
			ast.Inspect(h.Body, func(m ast.Node) bool {
				as, ok := m.(*ast.AssignStmt)
				if !ok || len(as.Rhs) != 1 {
					return true
				}
				pc, ok := ast.Unparen(as.Rhs[0]).(*ast.CallExpr)
				if !ok || !isDecimalParse(pc) || usesObj(info, selRootIdent(stripConv(info, pc.Args[0]))) != hp {
					return true
				}
				res := usesObj(info, as.Lhs[0])
				inspectNoLit(h.Body, func(k ast.Node) bool {
					if rs, ok := k.(*ast.ReturnStmt); ok && resPos < len(rs.Results) && usesObj(info, stripConv(info, rs.Results[resPos])) == res && res != nil {
						okNum = true
					}
					return true
				})
				return true
			})
		}
	}
	c.check(okNum, rule, "parser.on_parser_qualif/level", p.Pos(fd.Pos()), "the level is the decimal value of the NUM token", "the level is not parsed as the decimal value of the NUM token (e.g. base 0 reads 010 as octal)")

	// ParserProd.RunPass copies both
	pk2, rp := p.FuncDecl("internal/ast", "ParserProd.RunPass")
	if rp == nil {
		c.unres(rule, "ast.ParserProd.RunPass", "", "function not found")
		return
	}
	info2 := pk2.TypesInfo
	okPrec := false
	arms := map[string]string{}
	ast.Inspect(rp.Body, func(n ast.Node) bool {
		switch x := n.(type) {
		case *ast.AssignStmt:
			if len(x.Lhs) == 1 && isField(info2, x.Lhs[0], "parsergen/lr1", "Prod", "Precedence") && isField(info2, x.Rhs[0], "internal/ast", "ProdQualifier", "Precedence") {
				okPrec = true
			}
		}
		return true
	})
	// every store of a constant into Prod.Associativity happens under the fact
	// `qualifier.Associativity == K` (switch arm, if/else-if chain, guard): K => stored constant
	par2 := parents(rp)
	ast.Inspect(rp.Body, func(n ast.Node) bool {
		as, ok := n.(*ast.AssignStmt)
		if !ok || len(as.Lhs) != 1 || len(as.Rhs) != 1 || !isField(info2, as.Lhs[0], "parsergen/lr1", "Prod", "Associativity") {
			return true
		}
		k2, ok := usesObj(info2, as.Rhs[0]).(*types.Const)
		if !ok {
			// the stored value is looked up in a constant table keyed by the qualifier's associativity
			src := as.Rhs[0]
			if o := usesObj(info2, src); o != nil {
				if d := multiDefCallOrIndex(info2, rp, o); d != nil {
					src = d
				}
			}
			if key, entries, isTbl := constTable(p, pk2, src); isTbl && isField(info2, key, "internal/ast", "ProdQualifier", "Associativity") {
				for _, en := range entries {
					if vk, isK := usesObj(info2, en.Val).(*types.Const); isK && en.Key != nil {
						arms[en.Key.Name()] = vk.Pkg().Name() + "." + vk.Name()
					}
				}
				return true
			}
			arms["(non-constant)"] = exprString(as.Rhs[0])
			return true
		}
		found := false
		for _, f := range pathConds(info2, par2, as) {
			l, op, r, ok := cmpFact(f.e, !f.neg)
			if !ok || op != token.EQL {
				continue
			}
			for _, pr := range [][2]ast.Expr{{l, r}, {r, l}} {
				if isField(info2, pr[0], "internal/ast", "ProdQualifier", "Associativity") {
					if k1, ok := usesObj(info2, pr[1]).(*types.Const); ok {
						arms[k1.Name()] = k2.Pkg().Name() + "." + k2.Name()
						found = true
					}
				}
			}
		}
		if !found {
			arms["(unconditional)"] = k2.Pkg().Name() + "." + k2.Name()
		}
		return true
	})
	c.check(okPrec, rule, "ast.ParserProd.RunPass/precedence", p.Pos(rp.Pos()), "Prod.Precedence = Qualifier.Precedence", "the qualifier's level is not copied to the production")
	c.check(arms["Left"] == "lr1.Left" && arms["Right"] == "lr1.Right" && len(arms) == 2, rule, "ast.ParserProd.RunPass/associativity", p.Pos(rp.Pos()),
		"ast.Left => lr1.Left, ast.Right => lr1.Right (exhaustive)", fmt.Sprintf("associativity is copied as %v", arms))
}

// tokenSpellings maps the token constants of a self-hosted package to the literal their rule
// matches, read from the package's .lox grammar (single-literal token rules only).
func tokenSpellings(pk *packages.Package) map[types.Object]string {
	spell := map[types.Object]string{}
	if len(pk.GoFiles) == 0 {
		return spell
	}
	dir := filepath.Dir(pk.GoFiles[0])
	matches, _ := filepath.Glob(filepath.Join(dir, "*.lox"))
	re := regexp.MustCompile(`(?m)^\s*([A-Z][A-Z0-9_]*)\s*=\s*'((?:[^'\\]|\\.)*)'\s*(?://.*)?$`)
	for _, m := range matches {
		b, err := os.ReadFile(m)
		if err != nil {
			continue
		}
		for _, sm := range re.FindAllStringSubmatch(string(b), -1) {
			if o := pk.Types.Scope().Lookup(sm[1]); o != nil {
				spell[o] = sm[2]
			}
		}
	}
	return spell
}

func rulePREC3(c *Ctx) {
	const rule = "PREC-3"
	p := c.Prog
	pk, fd := p.FuncDecl("internal/parsergen/lr1", "ActionMap.AddShift")
	if fd == nil {
		c.unres(rule, "lr1.ActionMap.AddShift", "", "function not found")
		return
	}
	info := pk.TypesInfo
	prod := paramObj(info, fd, 2)
	inLit, inAppend := false, false
	ast.Inspect(fd.Body, func(n ast.Node) bool {
		switch x := n.(type) {
		case *ast.KeyValueExpr:
			if exprString(x.Key) == "Prods" && mentionsObj(info, x.Value, prod) {
				inLit = true
			}
		case *ast.CallExpr:
			if builtinName(info, x) == "append" && isField(info, x.Args[0], "parsergen/lr1", "Action", "Prods") && len(x.Args) == 2 && usesObj(info, x.Args[1]) == prod {
				inAppend = true
			}
		}
		return true
	})
	c.check(inLit && inAppend, rule, "lr1.ActionMap.AddShift/records-production", p.Pos(fd.Pos()),
		"the shift action remembers every production that wants the shift (new action and merged action)", "AddShift does not record the production on both paths")
}

// ---------- CFL ----------

func ruleCFL1(c *Ctx) {
	const rule = "CFL-1"
	p := c.Prog
	pk, fd := p.FuncDecl("internal/parsergen/lr1", "ActionMap.AddReduce")
	if fd == nil {
		c.unres(rule, "lr1.ActionMap.AddReduce", "", "function not found")
	} else {
		info := pk.TypesInfo
		// unconditional actions.Add(action): the Add call is a top-level statement and no return precedes it
		ok := false
		for _, s := range fd.Body.List {
			if _, isRet := s.(*ast.ReturnStmt); isRet {
				break
			}
			if es, isES := s.(*ast.ExprStmt); isES {
				if call, isCall := es.X.(*ast.CallExpr); isCall {
					if fn := calleeFunc(info, call); fn != nil && fn.Name() == "Add" && strings.Contains(fullName(fn), "array.Array") {
						ok = true
					}
				}
			}
		}
		hasEarlyReturn := false
		ast.Inspect(fd.Body, func(n ast.Node) bool {
			if _, isRet := n.(*ast.ReturnStmt); isRet {
				hasEarlyReturn = true
			}
			return true
		})
		c.check(ok && !hasEarlyReturn, rule, "lr1.ActionMap.AddReduce/always-appends", p.Pos(fd.Pos()),
			"every reduce candidate is appended to the cell: two reduces on one lookahead stay visible as a conflict", "AddReduce can return without appending the candidate action: reduce/reduce conflicts would be hidden")
	}
	pk2, sh := p.FuncDecl("internal/parsergen/lr1", "ActionMap.AddShift")
	if sh == nil {
		c.unres(rule, "lr1.ActionMap.AddShift", "", "function not found")
	} else {
		info := pk2.TypesInfo
		// merging only into an existing *shift* whose target is the same state (else panic)
		okMerge := false
		ast.Inspect(sh.Body, func(n ast.Node) bool {
			ifs, ok := n.(*ast.IfStmt)
			if !ok {
				return true
			}
			be, ok := ifs.Cond.(*ast.BinaryExpr)
			if !ok || be.Op != token.EQL || !isField(info, be.X, "parsergen/lr1", "Action", "Type") {
				return true
			}
			if k, ok := usesObj(info, be.Y).(*types.Const); !ok || k.Name() != "ActionShift" {
				return true
			}
			// inside: if action.ShiftState != toState { panic }
			ast.Inspect(ifs.Body, func(m ast.Node) bool {
				if i2, ok := m.(*ast.IfStmt); ok {
					if b2, ok := i2.Cond.(*ast.BinaryExpr); ok && b2.Op == token.NEQ && isField(info, b2.X, "parsergen/lr1", "Action", "ShiftState") {
						okMerge = true
					}
				}
				return true
			})
			return true
		})
		c.check(okMerge, rule, "lr1.ActionMap.AddShift/merge-same-target", p.Pos(sh.Pos()), "a shift merges only into an existing shift to the same state", "AddShift merges candidates without checking they are shifts to the same state")
	}
	// who may delete from an action list
	nDel := 0
	p.ProdFiles(func(pk *packages.Package, f *ast.File) {
		if pk.PkgPath != lr1Path {
			return
		}
		for _, d := range f.Decls {
			fd, ok := d.(*ast.FuncDecl)
			if !ok || fd.Body == nil {
				continue
			}
			for _, call := range findCalls(pk.TypesInfo, fd.Body, true, func(fn *types.Func, _ *ast.CallExpr) bool {
				return fn != nil && (fn.Name() == "DeleteFunc" || fn.Name() == "Remove" || fn.Name() == "Clear") && strings.Contains(fullName(fn), "array.Array")
			}) {
				nDel++
				inResolver := fd.Name.Name == "resolveConflicts"
				if !inResolver {
					// a helper of the resolver: every static call site of it lies inside resolveConflicts
					if fnObj, ok := pk.TypesInfo.Defs[fd.Name].(*types.Func); ok {
						sites, outside := 0, 0
						p.ProdFiles(func(pk2 *packages.Package, f2 *ast.File) {
							for _, d2 := range f2.Decls {
								fd2, ok := d2.(*ast.FuncDecl)
								if !ok || fd2.Body == nil {
									continue
								}
								ast.Inspect(fd2.Body, func(m ast.Node) bool {
									switch x := m.(type) {
									case *ast.CallExpr:
										if cf := calleeFunc(pk2.TypesInfo, x); cf != nil && cf.Origin() == fnObj {
											sites++
											if !(pk2 == pk && fd2.Name.Name == "resolveConflicts") {
												outside++
											}
										}
									case *ast.Ident:
										// a function value taken without calling it escapes the who-may-call rule
										if pk2.TypesInfo.Uses[x] == fnObj {
											if _, isCall := parents(fd2)[x].(*ast.CallExpr); !isCall {
												if sel, isSel := parents(fd2)[x].(*ast.SelectorExpr); !isSel || sel.Sel != x {
													outside++
												}
											}
										}
									}
									return true
								})
							}
						})
						inResolver = sites > 0 && outside == 0
					}
				}
				c.check(inResolver, rule, "lr1."+fd.Name.Name+"/removes-action", p.Pos(call.Pos()),
					"candidate actions are removed only by the precedence resolution", "candidate actions are removed outside resolveConflicts: a conflict can disappear unreported")
			}
		}
	})
	if nDel == 0 {
		c.unres(rule, "lr1/removes-action", "", "no removal of candidate actions found at all (resolveConflicts moved?)")
	}
	// Get(0) in the emitter is only sound when the cell has one action: emit is reached only if !HasConflicts (CFL-4)
}

func ruleCFL2(c *Ctx) {
	const rule = "CFL-2"
	p := c.Prog
	r := findResolver(c)
	if r == nil {
		c.unres(rule, "lr1.resolveConflicts", "", "conflict resolver not found")
		return
	}
	info := r.pk.TypesInfo
	// every write of HasConflicts in production code
	nSet := 0
	p.ProdFiles(func(pk *packages.Package, f *ast.File) {
		for _, d := range f.Decls {
			fd, ok := d.(*ast.FuncDecl)
			if !ok || fd.Body == nil {
				continue
			}
			par := parents(fd)
			ast.Inspect(fd.Body, func(n ast.Node) bool {
				as, ok := n.(*ast.AssignStmt)
				if !ok || len(as.Lhs) != 1 || !isField(pk.TypesInfo, as.Lhs[0], "parsergen/lr1", "ParserTable", "HasConflicts") {
					return true
				}
				nSet++
				construct := funcKey(pk, fd) + "/HasConflicts-write"
				if exprString(as.Rhs[0]) != "true" {
					c.bad(rule, construct, p.Pos(as.Pos()), "HasConflicts is assigned `%s`: a later cell can clear a conflict recorded for an earlier one (the flag must only ever be set)", exprString(as.Rhs[0]))
					return true
				}
				// path facts: the cell holds more than one action, and the resolver (whatever it
				// is called, closure or function) returned false for it; nothing else
				info2 := pk.TypesInfo
				defs2 := localDefs(info2, fd)
				isResolverCall := func(e ast.Expr) bool {
					call, ok := ast.Unparen(resolveVia(info2, defs2, e)).(*ast.CallExpr)
					if !ok {
						return false
					}
					if id, ok := ast.Unparen(call.Fun).(*ast.Ident); ok && r.lit != nil {
						if o := usesObj(info2, id); o != nil && ast.Unparen(defs2[o]) == ast.Expr(r.lit) {
							return true
						}
					}
					if fn := calleeFunc(info2, call); fn != nil {
						if d := p.funcDecls[fn.Origin()]; d != nil && r.sw != nil && containsNode(d, r.sw) {
							return true
						}
					}
					return false
				}
				okLen, okRes := false, false
				var conds []string
				for _, f := range pathConds(info2, par, as) {
					ff := flattenNot(f)
					conds = append(conds, map[bool]string{false: "", true: "!"}[ff.neg]+exprString(ff.e))
					if l, op, rr, ok := cmpFact(ff.e, !ff.neg); ok {
						if v, isC := constInt(info2, rr); isC {
							if call, isCall := l.(*ast.CallExpr); isCall {
								if fn := calleeFunc(info2, call); fn != nil && fn.Name() == "Len" {
									if (op == token.NEQ && v == 1) || (op == token.GTR && v == 1) || (op == token.GEQ && v == 2) {
										okLen = true
										continue
									}
								}
							}
						}
					}
					if ff.neg && isResolverCall(ff.e) {
						okRes = true
						continue
					}
					okLen, okRes = false, false
					conds = append(conds, "(unexpected)")
					break
				}
				c.check(okLen && okRes, rule, construct, p.Pos(as.Pos()),
					"a cell with more than one action sets HasConflicts unless the precedence rule settled it", fmt.Sprintf("HasConflicts = true is guarded by %v, not exactly by `Len() != 1` and `!resolveConflict(...)`", conds))
				return true
			})
		}
	})
	if nSet == 0 {
		c.bad(rule, "lr1.resolveConflicts/HasConflicts-write", p.Pos(r.outer.Pos()), "HasConflicts is never set: conflicts are never reported")
	}
	// all cells visited
	okAll := false
	ast.Inspect(r.outer.Body, func(n ast.Node) bool {
		if rs, ok := n.(*ast.RangeStmt); ok && isField(info, rs.X, "parsergen/lr1", "ParserTable", "States") {
			ast.Inspect(rs.Body, func(m ast.Node) bool {
				if r2, ok := m.(*ast.RangeStmt); ok {
					if call, ok := r2.X.(*ast.CallExpr); ok {
						if fn := calleeFunc(info, call); fn != nil && fn.Name() == "Terminals" {
							okAll = true
						}
					}
				}
				return true
			})
		}
		return true
	})
	c.check(okAll, rule, "lr1.resolveConflicts/all-cells", p.Pos(r.outer.Pos()), "every (state, terminal) cell is examined", "not every (state, terminal) cell is examined")
	// resolver: only lists of exactly two actions, exactly one removal per `return true`
	okTwo := false
	for _, sc := range funcScope(p, r.pk, r.lit, 2) {
		for _, cb := range condBodiesOf(sc.node) {
			if strings.HasSuffix(exprString(cb.cond), ".Len() != 2") && len(cb.body) == 1 {
				if rs, ok := cb.body[0].(*ast.ReturnStmt); ok && len(rs.Results) > 0 && exprString(rs.Results[len(rs.Results)-1]) == "false" {
					okTwo = true
				}
			}
		}
	}
	if !okTwo && r.sw != nil && r.lit != nil {
		// equivalent form: the decision is only reached under Len() == 2
		okTwo = holds(pathConds(info, parents(r.lit), r.sw), func(e ast.Expr, pos bool) bool {
			l, op, rr, ok := cmpFact(e, pos)
			if !ok || op != token.EQL {
				return false
			}
			v, isC := constInt(info, rr)
			call, isCall := l.(*ast.CallExpr)
			if !isC || v != 2 || !isCall {
				return false
			}
			fn := calleeFunc(info, call)
			return fn != nil && fn.Name() == "Len"
		})
	}
	c.check(okTwo, rule, "lr1.resolveConflicts/two-actions-only", p.Pos(r.lit.Pos()), "only cells with exactly two candidates are ever resolved", "cells with more than two candidates can be 'resolved'")
	if r.sw != nil {
		for _, cl := range r.sw.Body.List {
			cc := cl.(*ast.CaseClause)
			role := r.removedRole(cc.Body)
			if role != "shift" && role != "reduce" {
				c.bad(rule, "lr1.resolveConflicts/one-removal-per-arm", p.Pos(cc.Pos()), "an arm of the decision removes %s", role)
			}
		}
		c.ok(rule, "lr1.resolveConflicts/one-removal-per-arm", p.Pos(r.sw.Pos()), "each arm of the decision removes exactly one of the two candidates")
	}
}

func ruleCFL3(c *Ctx) {
	const rule = "CFL-3"
	p := c.Prog
	r := findResolver(c)
	if r == nil || r.sw == nil {
		c.unres(rule, "lr1.resolveConflicts/guards", "", "conflict resolver not found")
		return
	}
	info := r.pk.TypesInfo
	// every failing condition of the resolver and of the same-package helpers it calls: a branch
	// condition whose body ends by returning failure (false / zero values)
	type guard struct {
		cond  ast.Expr
		owner ast.Node
	}
	var guards []guard
	isFailReturn := func(list []ast.Stmt) bool {
		if len(list) == 0 {
			return false
		}
		rs, ok := list[len(list)-1].(*ast.ReturnStmt)
		if !ok || len(rs.Results) == 0 {
			return false
		}
		return exprString(rs.Results[len(rs.Results)-1]) == "false"
	}
	for _, sc := range funcScope(p, r.pk, r.lit, 2) {
		for _, cb := range condBodiesOf(sc.node) {
			if cb.pos > r.sw.Pos() && containsNode(r.lit, r.sw) && sc.node == ast.Node(r.lit) {
				continue
			}
			if isFailReturn(cb.body) {
				guards = append(guards, guard{cb.cond, sc.node})
			}
		}
		// a `default:` arm returning failure guards everything the other arms do not accept
		ast.Inspect(sc.node, func(n ast.Node) bool {
			sw, ok := n.(*ast.SwitchStmt)
			if !ok || sw.Tag != nil || sw == r.sw {
				return true
			}
			var others []ast.Expr
			failDefault := false
			for _, cl := range sw.Body.List {
				cc := cl.(*ast.CaseClause)
				if cc.List == nil {
					failDefault = isFailReturn(cc.Body)
				} else {
					others = append(others, cc.List...)
				}
			}
			if failDefault {
				for _, o := range others {
					// the accepted shapes: record them as positive requirements
					guards = append(guards, guard{&ast.UnaryExpr{Op: token.NOT, X: o}, sc.node})
				}
			}
			return true
		})
	}
	all := ""
	for _, g := range guards {
		all += exprString(g.cond) + " ;; "
	}
	// (a) types: one shift, one reduce
	typeGuard := strings.Contains(all, "ActionShift") && strings.Contains(all, "ActionReduce") && strings.Contains(all, ".Type")
	c.check(typeGuard, rule, "lr1.resolveConflicts/guard(shift-reduce-only)", p.Pos(r.lit.Pos()),
		"resolution is refused unless one candidate is a shift and the other a reduce (reduce/reduce is never settled)", "no guard refuses pairs other than one shift + one reduce")
	// (b) every shifting production has the same rule and level
	sameRule := false
	for _, g := range guards {
		ruleNE, precNE := false, false
		for _, d := range disjuncts(g.cond) {
			if be, ok := d.(*ast.BinaryExpr); ok && be.Op == token.NEQ {
				if isField(info, be.X, "parsergen/lr1", "Prod", "Rule") || isField(info, be.Y, "parsergen/lr1", "Prod", "Rule") {
					ruleNE = true
				}
				if isField(info, be.X, "parsergen/lr1", "Prod", "Precedence") || isField(info, be.Y, "parsergen/lr1", "Prod", "Precedence") {
					precNE = true
				}
			}
		}
		if ruleNE && precNE {
			sameRule = true
		}
	}
	c.check(sameRule, rule, "lr1.resolveConflicts/guard(all-shifting-prods)", p.Pos(r.lit.Pos()),
		"every production that wants the shift must belong to one rule and carry one level", "the productions wanting the shift are not all required to share rule and level")
	// (c) common rule and explicit levels on both sides
	okC := false
	detail := "no guard of the form `!sameRule || shiftPrec <= 0 || reducePrec <= 0`"
	for _, g := range guards {
		if g.owner != ast.Node(r.lit) {
			continue
		}
		var ruleOK, shOK, rdOK bool
		for _, d := range disjuncts(g.cond) {
			switch x := d.(type) {
			case *ast.UnaryExpr:
				if x.Op == token.NOT {
					def := resolveLocalIn(info, r.lit, x.X)
					if be, ok := ast.Unparen(def).(*ast.BinaryExpr); ok && be.Op == token.EQL && (isField(info, be.X, "parsergen/lr1", "Prod", "Rule") || isField(info, be.Y, "parsergen/lr1", "Prod", "Rule")) {
						ruleOK = true
					}
				}
			case *ast.BinaryExpr:
				if x.Op == token.NEQ && (isField(info, x.X, "parsergen/lr1", "Prod", "Rule") || isField(info, x.Y, "parsergen/lr1", "Prod", "Rule")) {
					ruleOK = true
				}
				side := r.precSide(x.X)
				if side != "" {
					v, isC := constInt(info, x.Y)
					nonPositive := isC && ((x.Op == token.LEQ && v == 0) || (x.Op == token.LSS && v == 1) || (x.Op == token.EQL && v == 0))
					if nonPositive && side == "shift" {
						shOK = true
					}
					if nonPositive && side == "reduce" {
						rdOK = true
					}
					if !nonPositive {
						detail = fmt.Sprintf("`%s` does not exclude level 0 (no explicit qualifier) on the %s side", exprString(x), side)
					}
				}
			}
		}
		if ruleOK && shOK && rdOK {
			okC = true
		}
	}
	c.check(okC, rule, "lr1.resolveConflicts/guard(common-rule-explicit-levels)", p.Pos(r.lit.Pos()),
		"resolution is refused unless shifting and reducing productions belong to the same rule and both carry an explicit level (> 0)", "precedence can settle a conflict it must not: "+detail)
	// the closure's own guards precede the decision on every path
	g := p.CFG(r.pk, r.lit)
	topLevel := map[ast.Node]bool{}
	for _, st := range r.lit.Body.List {
		topLevel[st] = true
	}
	if g != nil {
		ok := true
		n := 0
		ast.Inspect(r.lit.Body, func(m ast.Node) bool {
			ifs, isIf := m.(*ast.IfStmt)
			if !isIf || !topLevel[ifs] || ifs.Pos() > r.sw.Pos() || !isFailReturn(ifs.Body.List) {
				return true
			}
			n++
			cond := ifs.Cond
			if !mustPassBefore(g, r.sw.Body.List[0].(*ast.CaseClause).List[0], func(nn ast.Node) bool { return nn.Pos() <= cond.Pos() && cond.End() <= nn.End() }) {
				ok = false
			}
			return true
		})
		c.check(ok && n > 0, rule, "lr1.resolveConflicts/guards-dominate", p.Pos(r.sw.Pos()), "every guard of the resolver is evaluated before any action is removed", "a guard can be bypassed on some path to the decision")
	}
}

func resolveLocalIn(info *types.Info, scope ast.Node, e ast.Expr) ast.Expr {
	id, ok := ast.Unparen(e).(*ast.Ident)
	if !ok {
		return e
	}
	obj := info.Uses[id]
	var def ast.Expr
	n := 0
	ast.Inspect(scope, func(m ast.Node) bool {
		if as, ok := m.(*ast.AssignStmt); ok && len(as.Lhs) == len(as.Rhs) {
			for i, l := range as.Lhs {
				if li, ok := l.(*ast.Ident); ok && (info.Defs[li] == obj || info.Uses[li] == obj) {
					def = as.Rhs[i]
					n++
				}
			}
		}
		return true
	})
	if n == 1 {
		return def
	}
	return e
}

func ruleCFL4(c *Ctx) {
	const rule = "CFL-4"
	p := c.Prog
	pk, fd := p.FuncDecl("internal/codegen", "context.ParseLox")
	if fd == nil {
		c.unres(rule, "codegen.context.ParseLox", "", "function not found")
		return
	}
	info := pk.TypesInfo
	var test *ast.IfStmt
	ast.Inspect(fd.Body, func(n ast.Node) bool {
		if ifs, ok := n.(*ast.IfStmt); ok && isField(info, ifs.Cond, "parsergen/lr1", "ParserTable", "HasConflicts") {
			test = ifs
		}
		return true
	})
	if test == nil {
		c.bad(rule, "codegen.context.ParseLox/abort-on-conflicts", p.Pos(fd.Pos()), "ParseLox never tests ParserTable.HasConflicts: generation continues with an ambiguous table")
		return
	}
	logs, retFalse := false, false
	for _, s := range test.Body.List {
		if es, ok := s.(*ast.ExprStmt); ok {
			if call, ok := es.X.(*ast.CallExpr); ok && isErrLoggerMethod(calleeFunc(info, call)) {
				logs = true
			}
		}
		if rs, ok := s.(*ast.ReturnStmt); ok && len(rs.Results) == 1 && exprString(rs.Results[0]) == "false" {
			retFalse = true
		}
	}
	c.check(logs && retFalse, rule, "codegen.context.ParseLox/abort-on-conflicts", p.Pos(test.Pos()),
		"conflicts => a diagnostic is logged and ParseLox returns false", "the HasConflicts branch does not both log a diagnostic and return false")
	// every successful return passes the test
	g := p.CFG(pk, fd)
	okDom := true
	inspectNoLit(fd.Body, func(n ast.Node) bool {
		rs, ok := n.(*ast.ReturnStmt)
		if !ok || len(rs.Results) != 1 || exprString(rs.Results[0]) == "false" {
			return true
		}
		if !mustPassBefore(g, rs, func(m ast.Node) bool { return containsNode(m, test.Cond) }) {
			okDom = false
		}
		return true
	})
	c.check(okDom, rule, "codegen.context.ParseLox/test-dominates-success", p.Pos(test.Pos()), "every return that can report success is reached only through the conflict test", "ParseLox can report success without testing HasConflicts")
	// emit stages are only reached after ParseLox succeeded
	pk2, gen := p.FuncDecl("internal/codegen", "Generate")
	if gen != nil {
		for _, st := range []string{"EmitBase", "EmitLexer", "EmitParser"} {
			checkStageOrder(c, rule, pk2, gen, "ParseLox", st, "tables would be emitted for a grammar with conflicts")
		}
	}
	// the table is built by ConstructLALR from the analysed grammar
	okBuild := len(findCalls(info, fd.Body, false, func(fn *types.Func, _ *ast.CallExpr) bool { return fullName(fn) == lr1Path+".ConstructLALR" })) == 1
	c.check(okBuild, rule, "codegen.context.ParseLox/construct", p.Pos(fd.Pos()), "the parser table is built by lr1.ConstructLALR", "ParseLox does not build the table with lr1.ConstructLALR exactly once")
}


func isFieldNamed(info *types.Info, e ast.Expr, name string) bool {
	fv, _ := selField(info, e)
	return fv != nil && fv.Name() == name
}


// multiDefCallOrIndex: o is defined by `o, ok := <expr>` or `o := <expr>`; returns the expression.
func multiDefCallOrIndex(info *types.Info, fd *ast.FuncDecl, o types.Object) ast.Expr {
	var out ast.Expr
	ast.Inspect(fd.Body, func(m ast.Node) bool {
		as, ok := m.(*ast.AssignStmt)
		if !ok || len(as.Rhs) != 1 || out != nil {
			return true
		}
		if id, ok := as.Lhs[0].(*ast.Ident); ok && (info.Defs[id] == o || info.Uses[id] == o) {
			out = as.Rhs[0]
		}
		return true
	})
	return out
}
