package main

// C14 — the checked-in generated files are instances of the current templates and are
// well-formed as a set. (Byte-for-byte regeneration is a run of the generator and is not decided.)

import (
	"fmt"
	"go/ast"
	"go/token"
	"go/types"
	"os"
	"path/filepath"
	"regexp"
	"sort"
	"strings"
	"unicode"

	"golang.org/x/tools/go/packages"
)

func stripSpace(s string) string {
	var b strings.Builder
	for _, r := range s {
		if !unicode.IsSpace(r) {
			b.WriteRune(r)
		}
	}
	return b.String()
}

const (
	reIdent = `[A-Za-z_][A-Za-z0-9_]*`
	reInt   = `-?[0-9]+`
	reArray = `(?:-?[0-9]+,)*`
	reType  = `[A-Za-z0-9_.\[\]\*\(\),{}<\-]+`
	reText  = `[^"]*`
)

// holeCategories: template offset of each hole => category, from the model instantiation.
func holeCategories(ta *TmplAll) map[string]map[int]string {
	out := map[string]map[int]string{}
	for _, ti := range ta.Variants {
		for _, h := range ti.Holes {
			if out[h.Tmpl] == nil {
				out[h.Tmpl] = map[int]string{}
			}
			cat := ""
			switch v := h.Value.(type) {
			case int64:
				cat = "int"
			case jGoText:
				cat = v.Cat
			case string:
				cat = "ident"
			case bool:
				cat = "ident"
			}
			out[h.Tmpl][h.TmplOff] = cat
		}
	}
	return out
}

type matcherBuilder struct {
	cats  map[int]string
	flags map[string]bool
	src   string
	errs  []string
}

func (mb *matcherBuilder) nodes(ns []jNode) string {
	var b strings.Builder
	for i, n := range ns {
		switch x := n.(type) {
		case *jText:
			b.WriteString(regexp.QuoteMeta(stripSpace(x.Text)))
		case *jHole:
			cat := mb.cats[x.Off]
			// a hole between double quotes is string content
			inString := false
			if i > 0 && i+1 < len(ns) {
				if pt, ok := ns[i-1].(*jText); ok {
					if nt, ok := ns[i+1].(*jText); ok {
						ps, nx := strings.TrimRightFunc(pt.Text, unicode.IsSpace), strings.TrimLeftFunc(nt.Text, unicode.IsSpace)
						if strings.HasSuffix(ps, `"`) && strings.HasPrefix(nx, `"`) && strings.Count(lastLine(pt.Text), `"`)%2 == 1 {
							inString = true
						}
					}
				}
			}
			switch {
			case inString:
				b.WriteString(reText)
			case cat == "int":
				b.WriteString(reInt)
			case cat == "type":
				b.WriteString(reType)
			case cat == "array":
				b.WriteString(reArray)
			case cat == "ident":
				b.WriteString(reIdent)
			default:
				mb.errs = append(mb.errs, fmt.Sprintf("hole {{ %s }} has no category", x.Src))
				b.WriteString(`.*?`)
			}
		case *jSet:
		case *jIf:
			// feature switch: decided per directory
			if len(x.Branches) == 1 && !x.HasElse {
				if id, ok := x.Branches[0].Cond.(*eIdent); ok {
					if v, isFlag := mb.flags[id.Name]; isFlag {
						if v {
							b.WriteString(mb.nodes(x.Branches[0].Body))
						}
						continue
					}
				}
			}
			var alts []string
			for _, br := range x.Branches {
				alts = append(alts, mb.nodes(br.Body))
			}
			if x.HasElse {
				alts = append(alts, mb.nodes(x.Else))
			} else {
				alts = append(alts, "")
			}
			b.WriteString("(?:" + strings.Join(alts, "|") + ")")
		case *jRange:
			b.WriteString("(?:" + mb.nodes(x.Body) + ")*")
		}
	}
	return b.String()
}

func lastLine(s string) string {
	if i := strings.LastIndex(s, "\n"); i >= 0 {
		return s[i+1:]
	}
	return s
}

// boundsFeatureOf reports whether the package's parser type (the struct embedding lox) has the
// method the template switch is bound to, and returns the type's name.
func parserTypeOf(pk *packages.Package) (name string, hasOnBounds bool) {
	loxObj := pk.Types.Scope().Lookup("lox")
	if loxObj == nil {
		return "", false
	}
	for _, n := range pk.Types.Scope().Names() {
		tn, ok := pk.Types.Scope().Lookup(n).(*types.TypeName)
		if !ok {
			continue
		}
		st, ok := tn.Type().Underlying().(*types.Struct)
		if !ok {
			continue
		}
		for i := 0; i < st.NumFields(); i++ {
			if st.Field(i).Embedded() && types.Identical(st.Field(i).Type(), loxObj.Type()) {
				name = tn.Name()
				ms := types.NewMethodSet(types.NewPointer(tn.Type()))
				for j := 0; j < ms.Len(); j++ {
					if ms.At(j).Obj().Name() == "_onBounds" {
						hasOnBounds = true
					}
				}
			}
		}
	}
	return
}

func ruleTPL1(c *Ctx) {
	const rule = "TPL-1"
	p := c.Prog
	ta := c.tmplOrUnres(rule)
	if ta == nil {
		return
	}
	cats := holeCategories(ta)
	// which template writes which file: the constant reaching os.WriteFile in the template's function
	fileOfTmpl := map[string]string{}
	info := ta.Set.Pkg.TypesInfo
	for _, u := range ta.Set.Uses {
		// the Emit* function that (transitively) uses this template
		for _, f := range ta.Set.Pkg.Syntax {
			for _, d := range f.Decls {
				fd, ok := d.(*ast.FuncDecl)
				if !ok || fd.Body == nil {
					continue
				}
				var writes []writeSite
				for _, ws := range writeSites(p, ta.Set.Pkg) {
					if ws.fd == fd {
						writes = append(writes, ws)
					}
				}
				if len(writes) != 1 {
					continue
				}
				uses := fd == u.Func
				if !uses {
					// calls the function that renders this template
					if uf, ok := info.Defs[u.Func.Name].(*types.Func); ok {
						uses = len(findCalls(info, fd.Body, false, func(fn *types.Func, _ *ast.CallExpr) bool { return fn == uf })) > 0
					}
				}
				if uses {
					if k := constReaching(info, fd, writes[0].name); k != nil {
						fileOfTmpl[u.Name] = constStr(k)
					}
				}
			}
		}
	}
	if len(fileOfTmpl) < 3 {
		c.unres(rule, "template->file", "", "could not map the three templates to their output files (%v)", fileOfTmpl)
		return
	}
	n := 0
	for _, dir := range instanceDirs {
		pk := p.Pkg(dir)
		if pk == nil {
			c.unres(rule, dir, "", "package not loaded")
			continue
		}
		pname, onBounds := parserTypeOf(pk)
		flags := map[string]bool{}
		for _, f := range ta.Set.Flags {
			flags[f] = onBounds
		}
		for _, u := range ta.Set.Uses {
			file := fileOfTmpl[u.Name]
			construct := dir + "/" + file
			path := filepath.Join(p.Root, dir, file)
			b, err := os.ReadFile(path)
			if err != nil {
				c.bad(rule, construct, "", "checked-in generated file is missing: %v", err)
				continue
			}
			n++
			mb := &matcherBuilder{cats: cats[u.Name], flags: flags, src: u.Src}
			body := mb.nodes(u.Tree)
			if len(mb.errs) > 0 {
				c.unres(rule, construct, "", "cannot build the matcher: %s", strings.Join(mb.errs, "; "))
				continue
			}
			pat := `^package` + reIdent + `(?:import\((?:` + reIdent + `"[^"]*")*\))?` + body + `$`
			re, err := regexp.Compile(pat)
			if err != nil {
				c.unres(rule, construct, "", "matcher does not compile: %v", err)
				continue
			}
			text := stripSpace(string(b))
			if re.MatchString(text) {
				c.ok(rule, construct, "", "is an instance of the current %s (every literal segment, code and comments, in order; feature switch %v as the package's parser type %s requires)", u.Name, onBounds, pname)
				continue
			}
			// locate the first literal segment that cannot be matched
			where := firstMismatch(mb, u.Tree, text)
			c.bad(rule, construct, filepath.Join(dir, file), "the checked-in file is not an instance of the current %s: %s. The template (or the file) was edited without regenerating this directory", u.Name, where)
		}
		// receiver type of the generated methods
		if pname == "" {
			c.bad(rule, dir+"/parser-type", "", "no struct embedding lox in the package")
		}
	}
	if n < 12 {
		c.unres(rule, "generated-files", "", "only %d checked-in generated files examined; 4 directories x 3 files expected", n)
	}
}

// firstMismatch finds, by matching growing prefixes of the template, the first top-level node
// after which the file stops matching.
func firstMismatch(mb *matcherBuilder, tree []jNode, text string) string {
	prefix := `^package` + reIdent + `(?:import\((?:` + reIdent + `"[^"]*")*\))?`
	lastOK := "file header"
	for i := 1; i <= len(tree); i++ {
		pat := prefix + mb.nodes(tree[:i])
		re, err := regexp.Compile(pat)
		if err != nil {
			return "matcher error"
		}
		if re.MatchString(text) {
			lastOK = describeNode(tree[i-1])
			continue
		}
		// refine inside a text node: find the longest matching literal prefix
		if t, ok := tree[i-1].(*jText); ok {
			lit := stripSpace(t.Text)
			lo, hi := 0, len(lit)
			base := prefix + mb.nodes(tree[:i-1])
			for lo < hi {
				mid := (lo + hi + 1) / 2
				re2, err := regexp.Compile(base + regexp.QuoteMeta(lit[:mid]))
				if err == nil && re2.MatchString(text) {
					lo = mid
				} else {
					hi = mid - 1
				}
			}
			from := lo - 40
			if from < 0 {
				from = 0
			}
			to := lo + 60
			if to > len(lit) {
				to = len(lit)
			}
			return fmt.Sprintf("template text `...%s` is followed in the template by `%s...`, which the file does not contain at that place", lit[from:lo], lit[lo:to])
		}
		return fmt.Sprintf("mismatch at template node %s (after %s)", describeNode(tree[i-1]), lastOK)
	}
	return "the file has trailing text the template does not produce"
}

func describeNode(n jNode) string {
	switch x := n.(type) {
	case *jText:
		return "text `" + truncate(stripSpace(x.Text), 40) + "`"
	case *jHole:
		return "{{ " + x.Src + " }}"
	case *jIf:
		return "{{ if " + x.Branches[0].Src + " }}"
	case *jRange:
		return "{{ range " + x.Src + " }}"
	case *jSet:
		return "{{ " + x.Name + " := ... }}"
	}
	return "?"
}

// ---- TPL-2: instance well-formedness ----

func ruleTPL2(c *Ctx) {
	const rule = "TPL-2"
	p := c.Prog
	for _, dir := range instanceDirs {
		gt, err := decodeGenTables(p, dir)
		if err != nil {
			c.unres(rule, dir, "", "%v", err)
			continue
		}
		var problems []string
		addf := func(format string, a ...any) { problems = append(problems, fmt.Sprintf(format, a...)) }
		rules, tcs, acts, gotos := gt.ints["_rules"], gt.ints["_termCounts"], gt.ints["_actions"], gt.ints["_goto"]
		if rules == nil || tcs == nil || acts == nil || gotos == nil {
			c.bad(rule, dir+"/tables", "", "parser tables not found in the generated files")
			continue
		}
		if len(rules) != len(tcs) {
			addf("len(_rules)=%d but len(_termCounts)=%d", len(rules), len(tcs))
		}
		nProds := int64(len(rules))
		nStates := numRows(acts)
		if numRows(gotos) != nStates {
			addf("_actions has %d rows but _goto has %d", nStates, numRows(gotos))
		}
		maxRule := int64(-1)
		for _, r := range rules {
			if r > maxRule {
				maxRule = r
			}
		}
		maxTok := int64(-1)
		for s := 0; s < nStates; s++ {
			row, err := rowOf(acts, int64(s))
			if err != nil {
				addf("_actions: %v", err)
				continue
			}
			if len(row)%2 != 0 {
				addf("_actions row %d has odd length", s)
				continue
			}
			for j := 0; j+1 < len(row); j += 2 {
				tok, a := row[j], row[j+1]
				if tok > maxTok {
					maxTok = tok
				}
				switch {
				case a == 2147483647:
				case a >= 0:
					if int(a) >= nStates {
						addf("_actions row %d: shift to state %d, but there are %d states", s, a, nStates)
					}
				default:
					if -a < 1 || -a >= nProds {
						addf("_actions row %d: reduce by production %d, but productions are 1..%d", s, -a, nProds-1)
					}
				}
			}
			grow, err := rowOf(gotos, int64(s))
			if err != nil {
				addf("_goto: %v", err)
				continue
			}
			for j := 0; j+1 < len(grow); j += 2 {
				if grow[j] < 0 || grow[j] > maxRule {
					addf("_goto row %d: rule %d is not the left-hand side of any production", s, grow[j])
				}
				if grow[j+1] < 0 || int(grow[j+1]) >= nStates {
					addf("_goto row %d: target state %d out of range", s, grow[j+1])
				}
			}
		}
		// _act covers exactly productions 1..n-1
		for k := int64(1); k < nProds; k++ {
			if !gt.actCases[k] {
				addf("_act has no case for production %d", k)
			}
		}
		for k := range gt.actCases {
			if k < 1 || k >= nProds {
				addf("_act has a case for production %d, which does not exist", k)
			}
		}
		// token constants: dense from 0, cover every terminal used by the tables
		vals := map[int64]string{}
		for name, v := range gt.consts {
			if prev, dup := vals[v]; dup {
				addf("token constants %s and %s share the value %d", prev, name, v)
			}
			vals[v] = name
		}
		for v := int64(0); v < int64(len(vals)); v++ {
			if _, ok := vals[v]; !ok {
				addf("token constants are not dense: %d is missing", v)
			}
		}
		if gt.consts["EOF"] != 0 || gt.consts["ERROR"] != 1 {
			addf("EOF=%d, ERROR=%d", gt.consts["EOF"], gt.consts["ERROR"])
		}
		if maxTok >= int64(len(vals)) {
			addf("_actions uses terminal %d but only %d token constants exist", maxTok, len(vals))
		}
		// lexer modes
		for i, mname := range gt.modes {
			if mname != fmt.Sprintf("_lexerMode%d", i) {
				addf("_lexerModes[%d] is %s", i, mname)
			}
			tbl := gt.ints[mname]
			if tbl == nil {
				addf("%s not found", mname)
				continue
			}
			ns := numRows(tbl)
			for s := 0; s < ns; s++ {
				row, err := rowOf(tbl, int64(s))
				if err != nil || row == nil {
					addf("%s state %d: %v", mname, s, err)
					continue
				}
				lr, err := decodeLexRow(row)
				if err != nil {
					addf("%s state %d: %v", mname, s, err)
					continue
				}
				prevHi := int64(-1)
				for _, tr := range lr.trans {
					if tr[0] > tr[1] {
						addf("%s state %d: range %d-%d is reversed", mname, s, tr[0], tr[1])
					}
					if tr[0] <= prevHi {
						addf("%s state %d: ranges are not sorted and disjoint at %d", mname, s, tr[0])
					}
					prevHi = tr[1]
					if tr[1] > 0x10FFFF {
						addf("%s state %d: range end %d beyond U+10FFFF", mname, s, tr[1])
					}
					if tr[2] < 0 || int(tr[2]) >= ns {
						addf("%s state %d: transition to state %d out of range", mname, s, tr[2])
					}
				}
				for _, a := range lr.actions {
					switch a[0] {
					case 1:
						if int(a[1]) >= len(gt.modes) {
							addf("%s state %d: push of mode %d, but there are %d modes", mname, s, a[1], len(gt.modes))
						}
					case 3:
						if a[1] >= int64(len(vals)) {
							addf("%s state %d: accepts terminal %d, but only %d token constants exist", mname, s, a[1], len(vals))
						}
					case 2, 4, 5:
					default:
						addf("%s state %d: unknown action code %d", mname, s, a[0])
					}
				}
			}
		}
		if len(gt.modes) == 0 {
			addf("_lexerModes is empty")
		}
		sort.Strings(problems)
		if len(problems) > 6 {
			problems = append(problems[:6], fmt.Sprintf("... and %d more", len(problems)-6))
		}
		c.check(len(problems) == 0, rule, dir+"/tables", dir, fmt.Sprintf("%d productions, %d parser states, %d token constants, %d lexer modes: every index stays inside its table, _act covers productions 1..%d, lexer rows sorted and disjoint", nProds, nStates, len(vals), len(gt.modes), nProds-1),
			"the three generated files do not belong together: "+strings.Join(problems, "; "))
		// the mode list agrees with the grammar next to it
		want := modeNamesOfGrammar(gt.pk)
		c.check(len(want) == len(gt.modes), rule, dir+"/mode-count", dir, fmt.Sprintf("%d modes in the grammar, %d mode tables", len(want), len(gt.modes)),
			fmt.Sprintf("the grammar declares %d modes (%v) but the checked-in lexer has %d tables", len(want), want, len(gt.modes)))
		// token constants named after the grammar's tokens
		var missing []string
		for _, src := range loxSources(gt.pk) {
			for _, name := range loxTokenNames(src) {
				if _, ok := gt.consts[name]; !ok {
					missing = append(missing, name)
				}
			}
		}
		c.check(len(missing) == 0, rule, dir+"/token-names", dir, "every token declared in the grammar has a constant in base.gen.go", fmt.Sprintf("tokens %v of the grammar have no constant in the checked-in base.gen.go", missing))
	}
}

// loxTokenNames: names of token rules (NAME = ...) and @external names of the @lexer sections.
func loxTokenNames(src string) []string {
	var out []string
	src = stripLoxComments(src)
	inLexer := false
	re := regexp.MustCompile(`^\s*([A-Z][A-Z0-9_]*)\s*=`)
	for _, ln := range strings.Split(src, "\n") {
		t := strings.TrimSpace(ln)
		switch {
		case t == "@lexer":
			inLexer = true
		case t == "@parser":
			inLexer = false
		case inLexer && strings.HasPrefix(t, "@external"):
			out = append(out, strings.Fields(t)[1:]...)
		case inLexer && !strings.HasPrefix(t, "@"):
			if m := re.FindStringSubmatch(ln); m != nil {
				out = append(out, m[1])
			}
		}
	}
	return out
}

// ---- TPL-3 ----

func ruleTPL3(c *Ctx) {
	const rule = "TPL-3"
	p := c.Prog
	found := map[string]bool{}
	filepath.Walk(p.Root, func(path string, fi os.FileInfo, err error) error {
		if err != nil {
			return nil
		}
		if fi.IsDir() && (fi.Name() == ".git" || fi.Name() == "docs" || strings.HasPrefix(fi.Name(), "test_")) {
			return filepath.SkipDir
		}
		if !fi.IsDir() && strings.HasSuffix(path, ".lox") {
			rel, _ := filepath.Rel(p.Root, filepath.Dir(path))
			found[rel] = true
		}
		return nil
	})
	for dir := range found {
		var missing []string
		for _, k := range genFileConsts(p) {
			if _, err := os.Stat(filepath.Join(p.Root, dir, constStr(k))); err != nil {
				missing = append(missing, constStr(k))
			}
		}
		known := false
		for _, d := range instanceDirs {
			if d == dir {
				known = true
			}
		}
		c.check(len(missing) == 0 && known && p.Pkg(dir) != nil, rule, dir, dir, "the grammar directory holds all three generated files and type-checks with them",
			fmt.Sprintf("grammar directory %s: missing generated files %v / not among the directories the checks examine (%v)", dir, missing, instanceDirs))
	}
	if len(found) < 4 {
		c.unres(rule, "grammar-directories", "", "only %d directories with .lox files found", len(found))
	}
}

// ---- TPL-4: row order of the checked-in action tables agrees with the writer's current sort key ----

func ruleTPL4(c *Ctx) {
	const rule = "TPL-4"
	p := c.Prog
	pk, fd := p.FuncDecl("internal/parsergen/lr1", "ActionMap.Terminals")
	if fd == nil {
		c.unres(rule, "lr1.ActionMap.Terminals", "", "function not found")
		return
	}
	info := pk.TypesInfo
	key := ""
	// the field a comparator operand stands for: x.F, or x.M() with M returning its receiver's F
	keyField := func(e ast.Expr) *types.Var {
		if fv, _ := selField(info, e); fv != nil {
			return fv
		}
		call, ok := ast.Unparen(e).(*ast.CallExpr)
		if !ok || len(call.Args) != 0 {
			return nil
		}
		sel, ok := ast.Unparen(call.Fun).(*ast.SelectorExpr)
		if !ok {
			return nil
		}
		// the method may be called through an interface or a type parameter: use the
		// implementation on lr1.Terminal
		name := sel.Sel.Name
		_, md := p.FuncDecl("internal/parsergen/lr1", "Terminal."+name)
		if md == nil || md.Body == nil || len(md.Body.List) != 1 {
			return nil
		}
		if rs, ok := md.Body.List[0].(*ast.ReturnStmt); ok && len(rs.Results) == 1 {
			fv, _ := selField(info, rs.Results[0])
			return fv
		}
		return nil
	}
	inspectScope(p, pk, fd, 2, func(_ ast.Node, n ast.Node) bool {
		if call, ok := n.(*ast.CallExpr); ok && fullName(calleeFunc(info, call)) == "cmp.Compare" && len(call.Args) == 2 {
			fa, fb := keyField(call.Args[0]), keyField(call.Args[1])
			if fa != nil && fa == fb {
				key = fa.Name()
			}
		}
		return true
	})
	if key != "Name" && key != "Index" {
		c.unres(rule, "lr1.ActionMap.Terminals/sort-key", p.Pos(fd.Pos()), "cannot tell by which field the terminals of a row are ordered")
		return
	}
	for _, dir := range instanceDirs {
		gt, err := decodeGenTables(p, dir)
		if err != nil || gt.ints["_actions"] == nil {
			c.unres(rule, dir, "", "tables not decodable")
			continue
		}
		names := map[int64]string{}
		for n, v := range gt.consts {
			names[v] = n
		}
		acts := gt.ints["_actions"]
		bad := ""
		for s := 0; s < numRows(acts) && bad == ""; s++ {
			row, _ := rowOf(acts, int64(s))
			for j := 2; j+1 < len(row); j += 2 {
				a, b := row[j-2], row[j]
				inOrder := a < b
				if key == "Name" {
					inOrder = names[a] < names[b]
				}
				if !inOrder {
					bad = fmt.Sprintf("state %d lists terminal %s before %s", s, names[a], names[b])
					break
				}
			}
		}
		c.check(bad == "", rule, dir+"/_actions/row-order", dir, "every action row lists its terminals in the order the current generator emits them (by "+key+")",
			"the checked-in action table was not produced by the current generator, which orders each row by Terminal."+key+": "+bad)
	}
}

// ---- TPL-5: the token constants of a directory are those the grammar next to it declares ----
//
// The first thing that goes stale when a grammar is edited and the directory is not regenerated is
// the list of terminals. base.gen.go must declare EOF, ERROR and then one constant per token rule
// and @external name of the .lox files of the directory, in file (glob) and declaration order -
// the numbering NUM-1..3 describe. This is read from both sources without running anything; it
// does not decide the automata.
var loxTokenDecl = regexp.MustCompile(`(?m)^[ \t]*(?:@external[ \t]+)?([A-Z][A-Za-z0-9_]*)[ \t]*(=|$)`)

func ruleTPL5(c *Ctx) {
	const rule = "TPL-5"
	p := c.Prog
	n := 0
	for _, dir := range instanceDirs {
		pk := p.Pkg(dir)
		if pk == nil {
			c.unres(rule, dir, dir, "package not loaded")
			continue
		}
		// declared by the grammar
		want := []string{"EOF", "ERROR"}
		for _, src := range loxSources(pk) {
			src = stripLoxComments(src)
			// only the @lexer sections declare tokens; parser rules are lower case and @macro / @frag /
			// @mode / @start lines do not start with an upper-case identifier
			for _, m := range loxTokenDecl.FindAllStringSubmatch(src, -1) {
				want = append(want, m[1])
			}
		}
		// declared by base.gen.go, in value order
		type kv struct {
			name string
			val  int64
		}
		var got []kv
		for _, f := range pk.Syntax {
			if filepath.Base(p.Fset.Position(f.Pos()).Filename) != "base.gen.go" {
				continue
			}
			for _, d := range f.Decls {
				gd, ok := d.(*ast.GenDecl)
				if !ok || gd.Tok != token.CONST {
					continue
				}
				for _, sp := range gd.Specs {
					vs := sp.(*ast.ValueSpec)
					for i, nm := range vs.Names {
						if i < len(vs.Values) {
							if v, ok := constInt(pk.TypesInfo, vs.Values[i]); ok {
								got = append(got, kv{nm.Name, v})
							}
						}
					}
				}
			}
		}
		sort.Slice(got, func(i, j int) bool { return got[i].val < got[j].val })
		var gotNames []string
		for _, g := range got {
			gotNames = append(gotNames, g.name)
		}
		n++
		same := len(want) == len(gotNames)
		for i := 0; same && i < len(want); i++ {
			same = want[i] == gotNames[i]
		}
		c.check(same, rule, dir+"/token-constants", dir+"/base.gen.go",
			fmt.Sprintf("base.gen.go declares EOF, ERROR and the %d tokens of the grammar files of the directory, in declaration order", len(want)-2),
			fmt.Sprintf("the token constants of base.gen.go %v are not the terminals the grammar next to it declares %v: the directory was not regenerated after the grammar changed", gotNames, want))
	}
	if n < 4 {
		c.unres(rule, "grammar-directories", "", "only %d of the 4 directories could be compared", n)
	}
}
