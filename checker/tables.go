package main

// Decoding of the constant tables in checked-in *.gen.go files (DESIGN.md 2.4).

import (
	"fmt"
	"go/ast"
	"go/token"
	"sort"
	"strings"

	"golang.org/x/tools/go/packages"
)

type genTables struct {
	dir      string
	pk       *packages.Package
	ints     map[string][]int64 // _rules, _termCounts, _actions, _goto, _lexerMode<N>
	modes    []string           // names listed in _lexerModes, in order
	consts   map[string]int64   // token constants of base.gen.go (in the terminals const block)
	nTokens  int
	actCases map[int64]bool
	pos      map[string]token.Pos
}

func isGenFile(p *Program, f *ast.File) bool {
	return strings.HasSuffix(p.Fset.Position(f.Pos()).Filename, ".gen.go")
}

func decodeGenTables(p *Program, dir string) (*genTables, error) {
	pk := p.Pkg(dir)
	if pk == nil {
		return nil, fmt.Errorf("package %s not loaded", dir)
	}
	gt := &genTables{dir: dir, pk: pk, ints: map[string][]int64{}, consts: map[string]int64{}, actCases: map[int64]bool{}, pos: map[string]token.Pos{}}
	info := pk.TypesInfo
	for _, f := range pk.Syntax {
		if !isGenFile(p, f) {
			continue
		}
		for _, d := range f.Decls {
			switch x := d.(type) {
			case *ast.GenDecl:
				for _, sp := range x.Specs {
					vs, ok := sp.(*ast.ValueSpec)
					if !ok || len(vs.Names) != 1 || len(vs.Values) != 1 {
						continue
					}
					name := vs.Names[0].Name
					if x.Tok == token.CONST {
						if v, ok := constInt(info, vs.Values[0]); ok && vs.Type != nil && exprString(vs.Type) == "int" && !strings.HasPrefix(name, "_") {
							gt.consts[name] = v
						}
						continue
					}
					cl, ok := vs.Values[0].(*ast.CompositeLit)
					if !ok {
						continue
					}
					gt.pos[name] = vs.Pos()
					if name == "_lexerModes" {
						for _, el := range cl.Elts {
							gt.modes = append(gt.modes, exprString(el))
						}
						continue
					}
					var vals []int64
					okAll := true
					for _, el := range cl.Elts {
						v, ok := constInt(info, el)
						if !ok {
							okAll = false
							break
						}
						vals = append(vals, v)
					}
					if okAll {
						gt.ints[name] = vals
					}
				}
			case *ast.FuncDecl:
				if x.Name.Name == "_act" && x.Body != nil {
					ast.Inspect(x.Body, func(n ast.Node) bool {
						if cc, ok := n.(*ast.CaseClause); ok {
							for _, l := range cc.List {
								if v, ok := constInt(info, l); ok {
									gt.actCases[v] = true
								}
							}
						}
						return true
					})
				}
			}
		}
	}
	gt.nTokens = len(gt.consts)
	return gt, nil
}

// rowOf returns the row of index y in a row-compressed table, or nil.
func rowOf(t []int64, y int64) ([]int64, error) {
	if y < 0 || int(y) >= len(t) {
		return nil, fmt.Errorf("row index %d outside the table (len %d)", y, len(t))
	}
	i := t[y]
	if i < 0 {
		return nil, nil
	}
	if int(i) >= len(t) {
		return nil, fmt.Errorf("row %d: offset %d outside the table", y, i)
	}
	n := t[i]
	if n < 0 || int(i)+1+int(n) > len(t) {
		return nil, fmt.Errorf("row %d: length %d runs past the table", y, n)
	}
	return t[i+1 : i+1+n], nil
}

// numRows: the index vector is the prefix whose entries are -1 or point at/after its end.
func numRows(t []int64) int {
	// the first stored row starts right after the index vector: the smallest non-negative offset
	min := int64(len(t))
	for i := 0; i < len(t) && int64(i) < min; i++ {
		if t[i] >= 0 && t[i] < min {
			min = t[i]
		}
	}
	return int(min)
}

type lexRow struct {
	flags   int64
	trans   [][3]int64 // lo, hi, next
	actions [][2]int64
}

func decodeLexRow(row []int64) (*lexRow, error) {
	if len(row) < 2 {
		return nil, fmt.Errorf("row shorter than its header")
	}
	r := &lexRow{flags: row[0]}
	n := int(row[1])
	if 2+3*n > len(row) {
		return nil, fmt.Errorf("transition count %d runs past the row", n)
	}
	for j := 0; j < n; j++ {
		r.trans = append(r.trans, [3]int64{row[2+3*j], row[3+3*j], row[4+3*j]})
	}
	rest := row[2+3*n:]
	if len(rest)%2 != 0 {
		return nil, fmt.Errorf("action section has odd length %d", len(rest))
	}
	for j := 0; j+1 < len(rest); j += 2 {
		r.actions = append(r.actions, [2]int64{rest[j], rest[j+1]})
	}
	return r, nil
}

// lexStep follows the transition of state s on rune r; ok=false if there is none.
func lexStep(t []int64, s int64, r int64) (int64, bool) {
	row, err := rowOf(t, s)
	if err != nil || row == nil {
		return 0, false
	}
	lr, err := decodeLexRow(row)
	if err != nil {
		return 0, false
	}
	for _, tr := range lr.trans {
		if r >= tr[0] && r <= tr[1] {
			return tr[2], true
		}
	}
	return 0, false
}

func lexRowOf(t []int64, s int64) *lexRow {
	row, err := rowOf(t, s)
	if err != nil || row == nil {
		return nil
	}
	lr, _ := decodeLexRow(row)
	return lr
}

// modeNamesOfGrammar lists the lexer mode names of the .lox files next to the package, sorted the
// way Spec.RunPass numbers them ("$default" first).
func modeNamesOfGrammar(pk *packages.Package) []string {
	names := []string{"$default"}
	for _, src := range loxSources(pk) {
		for _, line := range strings.Split(src, "\n") {
			f := strings.Fields(line)
			if len(f) >= 2 && f[0] == "@mode" {
				names = append(names, strings.TrimSuffix(f[1], "{"))
			}
		}
	}
	sort.Strings(names)
	return names
}
