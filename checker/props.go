package main

func init() {
	register(&PropSpec{
		ID:    "C13",
		Level: "proof",
		Explanation: "Order, time, environment and history can reach the generated files and the --report text only through a finite list of language/library constructs. " +
			"Every such construct in the production packages (ranges over built-in maps, maps.*/reflect map iteration, time/rand/env/address sources, goroutines, file writes, the stage order that decides whether stale files are read) is enumerated from the type-checked source and each instance is shown harmless by one of the idioms listed in DESIGN.md 3/C13. " +
			"This is a proof of a sufficient static condition under the trusted base, not an observation of runs.",
		Trusted: []string{
			"Jet, go/format, go/types, go/packages and filepath.Glob are deterministic functions of their inputs",
			"the comparators of the sort calls listed in the DET-1 obligations are injective on the sorted elements (names are unique by Context.RegisterName, indices by construction)",
			"container/heap pops a deduplicated set in an order that depends only on the set (total order rang3.Compare)",
			"go/types, go/cfg of golang.org/x/tools v0.29.0; the checker's own Jet-subset parser",
		},
		Assumptions: []string{"diagnostics written through ErrLogger are outside the property's output set (the property names *.gen.go and --report)"},
		Run: func(c *Ctx) {
			ruleDET1(c)
			ruleDET2(c)
			ruleDET3(c)
			ruleDET4(c)
		},
	})

	register(&PropSpec{
		ID:    "C18",
		Level: "proof",
		Explanation: "All mutable state lives in the instances: proved as an effects property of the template code. The three templates are instantiated abstractly (both emit_bounds variants, every _act branch), compiled to SSA, and a may-alias taint analysis shows that nothing derived from a package-level variable is ever written through, appended to, copied into, cleared, sent on or handed to code outside the templates; package-level variables are initialised by constant literals only. " +
			"Thorough tier repeats the analysis on the four checked-in generated packages. With no shared mutable location, any interleaving of instances equals some sequential run.",
		Trusted: []string{
			"go/ssa of golang.org/x/tools v0.29.0 (SSA construction, generic instantiation)",
			"the checker's abstract instantiation of the Jet templates (DESIGN.md 2.3) covers every template branch: one model production per helper-rule kind and arity",
			"user action methods, the user's _Lexer and the simplelexer driver are outside lox's generated code and outside this claim",
			"Go memory model: goroutines that share no written location do not race",
		},
		Assumptions: []string{"the taint abstraction is type/field keyed and flow-insensitive: it may over-approximate aliasing (reported as a violation), never under-approximate writes through derived references"},
		Run: func(c *Ctx) {
			ruleCONF12(c)
			ruleCONF3(c)
			ruleCONFFixture(c, c.Verif)
		},
		Thorough: func(c *Ctx) { ruleCONF4(c) },
	})

	register(&PropSpec{
		ID:    "C19",
		Level: "other",
		Explanation: "Structural necessary conditions of the numbering chain, each a writer/reader agreement visible in source: the constant block and _TokenToString are generated from one range over Grammar.Terminals with value = range key (NUM-1); Terminal.Index is the position in Grammar.Terminals and nothing reorders that list (NUM-2); EOF and ERROR are created first, unconditionally, and equal the reference driver's constants (NUM-3); accept actions carry Terminal.Index through the lexer table into Token() (NUM-4); parser action rows are keyed by Terminal.Index and looked up by the id ReadToken returned (NUM-5); only token and @external declarations create terminals, once, after a successful name registration (NUM-6). " +
			"NOT decided: the actual numbers emitted for a concrete specification, density across several .lox files (depends on filepath.Glob order).",
		Assumptions: []string{"simplelexer v0.5.0 in the module cache is the reference driver"},
		Run: func(c *Ctx) {
			ruleNUM1(c)
			ruleNUM2(c)
			ruleNUM2alias(c)
			ruleNUM8(c, "NUM-8")
			ruleFMT5(c) // rows that carry token numbers are shared only when they are equal (lossless row store)
			ruleNUM3(c)
			ruleNUM4(c)
			ruleNUM5(c)
			ruleNUM6(c)
			ruleEMIT1(c, "NUM-7")
		},
		Thorough: func(c *Ctx) {
			onInstances(c, func(c *Ctx) {
				ruleNUM4(c)
				ruleNUM5(c)
			})
		},
	})
	register(&PropSpec{
		ID:    "C10",
		Level: "other",
		Explanation: "Decides that the table encoder (Go code in internal/codegen) and the decoder (runtime code inside the templates) agree on the format, and that row compression is structurally lossless: lexer row layout and strides (FMT-1), ranges sorted by the comparator the binary search assumes (FMT-2), action codes equal on both sides and equal to the reference driver's result codes (FMT-3), non-greedy flag bit (FMT-4), row dedup key / index rebase / row prologue shared by all readers (FMT-5), parser action/goto encoding and index=position of productions, rules and states (FMT-6); of the state-merging step its structural obligations: groups start split by Accept, refinement runs until stable, transition and accepting-rule differences split a group (LEX-6), and the new states are wired by group number before the start group is moved to index 0 and IDs are renumbered (LEX-9). " +
			"NOT decided: that subset construction, partition refinement and range merging preserve the language of a mode (behavioural; needs exploring automata), nor disjointness of emitted ranges.",
		Run: func(c *Ctx) {
			ruleFMT1(c)
			ruleFMT2(c)
			ruleFMT3(c)
			ruleFMT4(c)
			ruleFMT5(c)
			ruleFMT6(c)
			ruleLEX5(c) // the automaton that is encoded is the subset construction of all NFA states (closures complete, states identified canonically)
			ruleLEX6(c)
			ruleLEX7(c)
			ruleLEX8(c)
			ruleLEX9(c)
			ruleMODE3(c) // the push parameter and the position in _lexerModes are the same numbering
		},
		Thorough: func(c *Ctx) {
			onInstances(c, func(c *Ctx) {
				ruleFMT1(c)
				ruleFMT3(c)
				ruleFMT4(c)
				ruleFMT5(c)
				ruleFMT6(c)
			})
		},
	})

	register(&PropSpec{
		ID:    "C08",
		Level: "other",
		Explanation: "Decides the three mechanisms that carry the non-greedy mark from the grammar to the runtime, each a necessary condition: the loop exit state is marked for exactly the cardinalities the front end produces for '*?' and '+?' (NG-1, with a repo-wide contradiction rule: a comparison of a switch tag with a constant outside the enclosing case list is constantly false); wherever a DFA state's Accept is accumulated from constituent states NonGreedy is accumulated from the same state (NG-2); the flag reaches the table and the runtime consumes input only when it is clear (FMT-4, NG-3); DFA minimisation never merges a greedy accepting state with a non-greedy one (LEX-6 non-greedy-difference); the mark of a subset is taken only from loops of the rule that accepts there (NG-4; the pinned tree violates it, known finding). " +
			"NOT decided: that marking the loop exit yields 'first occurrence of the terminator' for every body/terminator pair; interaction of the mark with state merging in optimize.",
		Run: func(c *Ctx) {
			ruleNG1(c)
			ruleNG2(c)
			ruleNG2b(c)
			ruleFMT4(c)
			ruleNG3(c)
			ruleLEX1(c)
			ruleLEX1fresh(c, "LEX-1")
			ruleLEX6(c) // the mark survives minimisation only if greedy and non-greedy states stay apart
			ruleNG4(c)
		},
		Thorough: func(c *Ctx) {
			onInstances(c, func(c *Ctx) {
				ruleNG3(c)
				ruleFMT4(c)
			})
		},
	})
	register(&PropSpec{
		ID:    "C05",
		Level: "other",
		Explanation: "The precedence decision of resolveConflicts is abstracted to a table (condition => removed action) and compared with the documented one (PREC-1); the qualifier's transport from grammar text to lr1.Prod is checked arm by arm (PREC-2); shift actions remember their productions (PREC-3); the guards that confine precedence to one rule with explicit levels are present (CFL-3). " +
			"NOT decided: the grouping of concrete operator chains (needs running generated parsers).",
		Run: func(c *Ctx) {
			rulePREC1(c)
			rulePREC2(c)
			rulePREC3(c)
			ruleNUM8(c, "NUM-8") // the level and the production numbers reach resolveConflicts unnarrowed
			ruleCFL3(c)
		},
	})
	register(&PropSpec{
		ID:    "C01",
		Level: "other",
		Explanation: "Language equality for all grammars is not a static fact about lox's source. Decided are the structural ways in which a worklist LALR construction loses lookaheads (hence reduce actions, hence sentences): recursion guards that truncate FIRST (LALR-1), change-reporting mutators skipped by short-circuit evaluation or discarded inside fixed-point loops (LALR-2), states not re-queued when a merge adds lookaheads (LALR-3), stale memoised item lists (LALR-4), merge key = LR(0) kernel (LALR-5), closure/goto skeleton (LALR-6), one action per item (LALR-7), plus the table encoding (row compression FMT-5, action/goto encoding FMT-6) and the reduce sequence / sugar shapes of the runtime (ACT-1, ACT-3); and, because a conflict that goes unreported is emitted as its first candidate and loses the sentences needing the other, that every candidate action is kept, every cell with more than one action is reported and generation aborts (CFL-1, CFL-2, CFL-4). " +
			"NOT decided: that these pieces compute the LALR(1) automaton of every grammar.",
		Run: func(c *Ctx) {
			ruleLALR1(c)
			ruleLALR2(c)
			ruleLALR3(c)
			ruleLALR4(c)
			ruleLALR5(c)
			ruleLALR6(c)
			ruleLALR6skips(c, "LALR-6")
			ruleLALR7(c)
			ruleNUM8(c, "NUM-8")
			ruleFMT5(c)
			ruleFMT6(c)
			ruleACT1(c)
			ruleACT3(c)
			// an undetected conflict is emitted as its first candidate: the parser then rejects the sentences
			// that needed the other one, so "every candidate kept / every multi-action cell reported / abort"
			// are necessary conditions of language equality too
			ruleCFL1(c)
			ruleCFL2(c)
			ruleCFL4(c)
		},
	})
	register(&PropSpec{
		ID:    "C04",
		Level: "other",
		Explanation: "A missing lookahead hides a conflict and a spurious one invents it, so LALR-1..7 apply; in addition: every candidate action is kept (CFL-1), a cell with more than one action sets HasConflicts unless the precedence rule settled it and the flag is only ever set (CFL-2), precedence is confined to shift/reduce pairs of one rule with explicit levels (CFL-3), and generation aborts with a diagnostic (CFL-4). " +
			"NOT decided: the iff over all grammars; isomorphism with a reference LALR(1) automaton.",
		Run: func(c *Ctx) {
			ruleLALR1(c)
			ruleLALR2(c)
			ruleLALR3(c)
			ruleLALR4(c)
			ruleLALR5(c)
			ruleLALR6(c)
			ruleLALR6skips(c, "LALR-6")
			ruleLALR7(c)
			ruleNUM8(c, "NUM-8")
			ruleCFL1(c)
			ruleCFL2(c)
			ruleCFL3(c)
			ruleCFL4(c)
		},
	})

	register(&PropSpec{
		ID:          "C02",
		Level:       "other",
		Explanation: "The automaton algebra (subset construction, refinement, range splitting) computes on run-time values and is NOT decided. Decided are the construction shapes and the selection mechanisms, each a necessary condition: Thompson shape of every NFACons (LEX-1), earliest declared rule wins in pickAction (LEX-2), the runtime acts only when the transition search is exhausted (LEX-3), universe constants (LEX-4), the Build/NFAToDFA pipeline skeleton (LEX-5), accepting states of different rules are kept apart by optimize (LEX-6) and its new states are wired before they are permuted and renumbered (LEX-9), plus the table format agreement FMT-1..3.",
		Run: func(c *Ctx) {
			ruleLEX1(c)
			ruleLEX1fresh(c, "LEX-1")
			ruleLEX2(c)
			ruleLEX3(c)
			ruleLEX3offsets(c, "LEX-3")
			ruleLEX4(c)
			ruleLEX5(c)
			ruleLEX6(c)
			ruleLEX9(c)
			ruleLEX7(c)
			ruleLEX8(c)
			ruleFMT1(c)
			ruleFMT2(c)
			ruleFMT3(c)
		},
		Thorough: func(c *Ctx) {
			onInstances(c, func(c *Ctx) {
				ruleLEX3(c)
			ruleLEX3offsets(c, "LEX-3")
				ruleFMT1(c)
				ruleFMT3(c)
			})
		},
	})

	register(&PropSpec{
		ID:          "C07",
		Level:       "other",
		Explanation: "Decides the mechanisms behind mode switching and action lists, each a necessary condition: the reader's push/pop arms obey a stack discipline on the instance's mode stack and _Stack has stack semantics (MODE-1); no action list can hold an interpretation-ending action (accept/discard/accumulate) before a falling-through one (push/pop), derived from which reader arms return (MODE-2); Mode.Index = position in the sorted name list with no gaps, the default mode sorts first, the writer emits the Index of the named mode and _lexerModes is positional in Index order (MODE-3); implicit last actions (MODE-4); plus the action code agreement FMT-3.",
		Run: func(c *Ctx) {
			ruleMODE1(c)
			ruleMODE2(c)
			ruleMODE3(c)
			ruleMODE4(c)
			ruleFMT3(c)
			ruleLEX6(c) // a rule's actions run only if its accepting state is not merged into another rule's
		},
		Thorough: func(c *Ctx) {
			onInstances(c, func(c *Ctx) {
				ruleMODE1(c)
				ruleFMT3(c)
			})
		},
	})
	register(&PropSpec{
		ID:    "C11",
		Level: "other",
		Explanation: "Termination and conservation of input are properties of template + external driver on every input: NOT decidable here. Decided is the consumption accounting the runtime relies on: EOF is reported only for the end-of-input rune, after the pending actions, and only when an explicit per-instance flag says nothing was consumed since the last token boundary; every consume sets that flag, every boundary arm and Reset clear it and return to state 0 (EOFL-1, EOFL-3); actions are unreachable while nothing was consumed, so an empty match is never a token (EOFL-2); plus FMT-3 (result codes agree with the driver). " +
			"Known limitation (not a check): text accumulated by action-less fragments is dropped without error when the input ends; the driver is external.",
		Run: func(c *Ctx) {
			ruleCC5(c, "CC-5") // -1 (end of input) can never be a range bound
			ruleEOFL(c)
			ruleFMT3(c)
			ruleLEX3(c)
			ruleLEX3offsets(c, "LEX-3")
		},
		Thorough: func(c *Ctx) {
			onInstances(c, func(c *Ctx) {
				ruleEOFL(c)
				ruleLEX3(c)
			ruleLEX3offsets(c, "LEX-3")
			})
		},
	})

	register(&PropSpec{
		ID:    "C03",
		Level: "other",
		Explanation: "Decided on the abstractly instantiated parser template (one model production per helper-rule kind and arity): the reduce sequence act -> pop(termCount) -> goto -> push with the data flow between them, the action call unconditional (ACT-1); argument j of a user action reads stack slot Peek(n-1-j) for arities 0, 1, 3 (ACT-2); the sugar shapes agree across the three siblings normalize() / RuleGenerated / template branches and getReduceTypeForGeneratedRule (ACT-3); stack values are asserted to the type they were pushed with (BIND-3). " +
			"NOT decided: uniqueness of the derivation and left-to-right order on concrete inputs (follow from LR parsing given correct tables: C01/C04).",
		Run: func(c *Ctx) {
			ruleACT1(c)
			ruleACT2(c)
			ruleACT3(c)
			ruleBIND3(c)
			ruleBIND2(c) // a rule has one Go type only if all its actions return identical types: the type every _cast of that rule's value uses
			ruleFMT6(c) // the reduce sequence pops _termCounts[prod] entries and takes the goto of _rules[prod]: both must be written at the production's position
		},
		Thorough: func(c *Ctx) {
			onInstances(c, func(c *Ctx) {
				ruleACT1(c)
			})
		},
	})
	register(&PropSpec{
		ID:    "C06",
		Level: "other",
		Explanation: "Decides the binding mechanism's structural conditions: the only go/types predicate deciding a parameter match is AssignableTo(type of term i, type of parameter i) after an arity test, over all candidate methods (BIND-1); each of the seven failure conditions is tested and reported with Errorf at the method/production concerned, and success is returned only without logged errors (BIND-2); every _cast of a stack slot uses the type that slot was pushed with, never the parameter type (BIND-3); stage order, go_type spelling types as given with the qualifier \"\" exactly for the own package, every import alias written (BIND-4); the types of generated helper rules are inferred to a fixed point - the store of an inferred type sets a flag and the pass repeats while it is set (BIND-5). " +
			"NOT decided: that the output compiles for every Go type shape (unexported or internal types of other packages, type parameters, vendoring).",
		Run: func(c *Ctx) {
			ruleBIND1(c)
			ruleBIND2(c)
			ruleBIND3(c)
			ruleBIND4(c)
			ruleBIND5(c)
			ruleBIND6(c)
			ruleBIND7(c)
			ruleBIND8(c)
		},
	})
	register(&PropSpec{
		ID:    "C09",
		Level: "other",
		Explanation: "Decided on the parser template instances (both variants): lookahead typestate - every store to the lookahead symbol is a Token or an Error, so the unchecked assertions are reached only with the asserted dynamic type, checked per call site of _makeError (REC-1); parse returns true only through the accept branch, _recover succeeds only after installing (ERROR, Error) and queuing the real lookahead and fails only at EOF (REC-2); the Error is built from the offending lookahead before any token is skipped (REC-3); the recovery loops save/restore the stack around each attempt, pop one state per search step, skip lexer errors and consume a token per retry (REC-4); the goto of a simulated reduction starts from the simulated state, or from a stack the same arm keeps in step, never from the untouched parse stack (REC-5). " +
			"NOT decided: termination of reduce sequences and of the reduce-simulation loop (depends on the tables), correctness of that simulation, 'first token at which the input stops being a viable prefix', and progress ACROSS successive recoveries (see DESIGN.md: concrete non-terminating grammar found by a seeded-change author).",
		Run: func(c *Ctx) {
			ruleREC1(c)
			ruleREC234(c)
			ruleNUM3(c)
		},
		Thorough: func(c *Ctx) {
			onInstances(c, func(c *Ctx) {
				ruleREC1(c)
				ruleREC234(c)
			})
		},
	})
	register(&PropSpec{
		ID:    "C16",
		Level: "other",
		Explanation: "Decided on the template instance with the feature switch on: the switch is bound to 'parser type has a method named _onBounds' and the called name is the same constant (BND-1); in the reduce arm the children's bounds are taken before the pop, empty children trimmed at both ends, Begin/End from the first/last survivor, Empty iff none survives, _onBounds(res, Begin, End) called exactly once after the action under !Empty, the pushed item carries the bounds; a shifted symbol's bounds are its own token (BND-2); the feature-switched blocks only write what they declare, call only len/PeekSlice/_onBounds, contain no control transfer, and nothing outside reads their variables (BND-3). " +
			"NOT decided: the spans reported on concrete inputs.",
		Run: func(c *Ctx) {
			ruleBND1(c)
			ruleBND2(c)
			ruleBND3(c)
			ruleACT1(c)
		},
		Thorough: func(c *Ctx) {
			onInstances(c, func(c *Ctx) {
				ruleACT1(c)
				ruleBND2(c)
			})
		},
	})

	register(&PropSpec{
		ID:    "C12",
		Level: "other",
		Explanation: "Absence of every panic and hang for all byte strings is out of reach of a static argument. Decided are eight families of crash / silent failure that are visible in code shape, each exact: panics of front-end actions whose condition depends on grammar text (CRASH-1), results of functions with an explicit `return nil` dereferenced without a check (CRASH-2), the front end's 'validated by the lexer' beliefs checked against the grammar source and the checked-in lexer tables: token-type switches with panicking defaults, escape letters and digit counts (CRASH-3), closed enum and type switches with panicking defaults (CRASH-4), results crossing the trust boundary (packages.Load, Scope.Lookup) used only under a dominating check (CRASH-5), exit discipline: non-zero exit iff error, success only after all three emitters wrote their files, every failing return preceded by a diagnostic (CRASH-6, EMIT-1), a value returned together with an error used only where a test made after the call establishes that the error is nil (CRASH-7), the \"cannot happen\" belief behind CreateMode's panic discharged at every call site - a mode name reaches it only after RegisterName accepted it (CRASH-8), and the binding verdicts whose omission ends in an assert (BIND-2). " +
			"NOT decided: hangs, stack/heap exhaustion, panics inside Jet / go/format / go/packages, index arithmetic in rang3 and on_char_class.",
		Run: func(c *Ctx) {
			ruleCRASH1(c)
			ruleCRASH2(c)
			ruleCRASH3(c)
			ruleCRASH4(c)
			ruleCRASH5(c)
			ruleCRASH6(c)
			ruleCRASH7(c)
			ruleCRASH8(c)
			ruleCRASH9(c)
			ruleCRASH10(c)
			ruleCRASH11(c)
			ruleCRASH12(c)
			ruleEMIT1(c, "CRASH-6")
			ruleBIND2(c)
		},
	})

	register(&PropSpec{
		ID:    "C17",
		Level: "other",
		Explanation: "Every constraint listed in the statement has an enforcing site that is found semantically (an error logged under the condition that detects the fault, in the function responsible), 33 sites in all: uniqueness through the single name table from all five declaring node types, naming rules before registration, undefined / wrong-kind references, unknown / ambiguous / empty literals, the alias condition (single literal without cardinality), macro cycles, exactly one @start, @discard/@emit placement, class range order, @list parameter shape (WF-1); every Errorf of internal/ast and internal/parser is positioned at the declaration under check (receiver, parameter or token), whose type some front-end action returns so that it has bounds (WF-2); analysis stops after a failing pass / file (WF-3). " +
			"NOT decided: that well-formed specifications are never rejected (only the alias condition and reserved names are checked from that side); exact line:column values.",
		Run: func(c *Ctx) {
			ruleWF1(c)
			ruleWF2(c)
			ruleWF3(c)
		},
	})

	register(&PropSpec{
		ID:    "C14",
		Level: "other",
		Explanation: "Byte-for-byte regeneration is a run of the generator; static analysis cannot replace it. Decided is whether each checked-in generated file is an instance of the CURRENT templates and whether the three files of each directory agree with each other and with the grammar next to them: TPL-1 matches each of the 12 files (whitespace-insensitively, every literal segment of code and comments in order, holes constrained by category, the feature switch decided by the package's own parser type) against a matcher derived from the template text; TPL-2 decodes the constant tables and checks every index, the _act case set, token constants (dense, EOF=0, ERROR=1, one per grammar token), mode count, sorted disjoint ranges; TPL-3 every grammar directory holds the three files and type-checks. " +
			"NOT decided: that the NUMBERS in the tables are those the current automaton construction would produce; a change to LALR/DFA construction or table layout code that is not followed by regeneration is invisible here.",
		Run: func(c *Ctx) {
			ruleTPL1(c)
			ruleTPL2(c)
			ruleTPL3(c)
			ruleTPL4(c)
			ruleTPL5(c)
		},
	})
	register(&PropSpec{
		ID:          "C15",
		Level:       "other",
		Explanation: "The interval arithmetic (rang3.Flatten / Subtract / Normalize and the split/merge re-labelling in mode.go) computes on run-time range bounds and is NOT decided: that every class is the exact union of its pieces for all range lists needs enumeration or a solver. Decided are the places where a class or literal of the grammar text becomes ranges, each a necessary condition of exact denotation because a slip there changes the set for every grammar using the construct: every escape denotes its documented code point, \\x \\u \\U read exactly 2 / 4 / 8 digits in base 16 (CC-1); a class item is [c, c] for a single character and [a, b] for a-b with the dash in between, both ends decoded through unescape (CC-2); A - B is Subtract(ranges(A), ranges(B)) in that order and the front end builds the node with Left = A, Right = B (CC-3); every range of a class becomes one edge labelled with that range (CC-4); '.' is [0, 0x10FFFF], MaxRune = 0x10FFFF and negation subtracts the set from exactly [0, MaxRune] (LEX-4); a literal is one [r, r] edge per decoded rune (LEX-1); of the splitter its shapes: every piece of a split is re-queued, a merged range ends at the larger end (LEX-7), owners of split pieces accumulate (LEX-8).",
		Run: func(c *Ctx) {
			ruleCC1(c)
			ruleCC2(c)
			ruleCC3(c)
			ruleCC4(c)
			ruleCC5(c, "CC-5")
			ruleCC6(c)
			ruleLEX4(c)
			ruleLEX1(c)
			ruleLEX1fresh(c, "LEX-1")
			ruleLEX7(c)
			ruleLEX8(c)
		},
	})
}
