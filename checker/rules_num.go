package main

// C19 — token constants: one per terminal, EOF=0, ERROR=1, same numbers in all tables.

import (
	"fmt"
	"go/ast"
	"go/constant"
	"go/token"
	"go/types"
	"strings"

	"golang.org/x/tools/go/packages"
)

const lr1Path = modPath + "/internal/parsergen/lr1"
const modePath = modPath + "/internal/lexergen/mode"

// exactHole returns the hole whose rendered text is exactly node n.
func (ti *TmplInstance) exactHole(n ast.Node) *RenderedHole {
	tmpl := ti.TmplOf(n.Pos())
	f := ti.Files[tmpl]
	if f == nil {
		return nil
	}
	base := ti.Fset.File(f.Pos()).Base()
	s, e := int(n.Pos())-base, int(n.End())-base
	for _, h := range ti.Holes {
		if h.Tmpl == tmpl && h.Start == s && h.End == e {
			return h
		}
	}
	return nil
}

// holesIn returns all holes rendered inside node n.
func (ti *TmplInstance) holesIn(n ast.Node) []*RenderedHole {
	tmpl := ti.TmplOf(n.Pos())
	f := ti.Files[tmpl]
	if f == nil {
		return nil
	}
	base := ti.Fset.File(f.Pos()).Base()
	s, e := int(n.Pos())-base, int(n.End())-base
	var out []*RenderedHole
	for _, h := range ti.Holes {
		if h.Tmpl == tmpl && h.Start >= s && h.End <= e {
			out = append(out, h)
		}
	}
	return out
}

func isFieldOfRangeVal(h *RenderedHole, field string) bool {
	if h == nil || h.Range == nil {
		return false
	}
	f, ok := h.Expr.(*eField)
	if !ok || f.Name != field {
		return false
	}
	id, ok := f.X.(*eIdent)
	return ok && id.Name == h.Range.Val
}

func isRangeKey(h *RenderedHole) bool {
	if h == nil || h.Range == nil {
		return false
	}
	id, ok := h.Expr.(*eIdent)
	return ok && id.Name == h.Range.Key && h.Range.Key != "" && h.Range.Key != "_"
}

func ruleNUM1(c *Ctx) {
	const rule = "NUM-1"
	ta := c.tmplOrUnres(rule)
	if ta == nil {
		return
	}
	ti := ta.Variants[0]
	// the const block: every spec rendered by a range must be `{{v.Name}} int = {{k}}`
	var constRange *jRange
	nconst := 0
	var baseTmpl string
	for name, f := range ti.Files {
		if name == "" {
			continue
		}
		for _, d := range f.Decls {
			gd, ok := d.(*ast.GenDecl)
			if !ok || gd.Tok != token.CONST {
				continue
			}
			for _, sp := range gd.Specs {
				vs := sp.(*ast.ValueSpec)
				if len(vs.Names) != 1 || len(vs.Values) != 1 {
					continue
				}
				nh := ti.exactHole(vs.Names[0])
				if nh == nil {
					continue // a constant written literally in the template (e.g. _lexerAccept)
				}
				nconst++
				baseTmpl = name
				construct := fmt.Sprintf("template:%s/const-block/spec(%s)", name, nh.Src)
				vh := ti.exactHole(vs.Values[0])
				switch {
				case !isFieldOfRangeVal(nh, "Name"):
					c.bad(rule, construct, ti.Pos(vs.Pos()), "constant name is {{ %s }}, not the Name of the ranged terminal", nh.Src)
				case vh == nil:
					c.bad(rule, construct, ti.Pos(vs.Pos()), "constant value `%s` is not exactly the range key", exprString(vs.Values[0]))
				case !isRangeKey(vh) || vh.Range != nh.Range:
					c.bad(rule, construct, ti.Pos(vs.Pos()), "constant value is {{ %s }}, not the key of the range that yields the name (position in the terminal list)", vh.Src)
				default:
					constRange = nh.Range
					if nh.Iter == 0 {
						c.ok(rule, construct, ti.Pos(vs.Pos()), "const {{%s}} int = {{%s}} with %s, %s := range %s", nh.Src, vh.Src, nh.Range.Key, nh.Range.Val, nh.Range.Src)
					}
				}
				if t := ti.Info.TypeOf(vs.Names[0]); t != nil && t.String() != "int" {
					c.bad(rule, construct+"/type", ti.Pos(vs.Pos()), "token constant has type %s, not int", t)
				}
			}
		}
	}
	if nconst == 0 || constRange == nil {
		c.unres(rule, "template/const-block", "", "no constant block generated from a range over the terminals was found in the templates")
		return
	}
	// _TokenToString: switch over the same range, default "???"
	fd, tn := ti.FuncDecl("_TokenToString")
	if fd == nil {
		c.unres(rule, "template/_TokenToString", "", "function not found in the instantiated templates")
		return
	}
	var sw *ast.SwitchStmt
	ast.Inspect(fd.Body, func(n ast.Node) bool {
		if s, ok := n.(*ast.SwitchStmt); ok && sw == nil {
			sw = s
		}
		return true
	})
	construct := fmt.Sprintf("template:%s/_TokenToString", tn)
	if sw == nil || len(fd.Type.Params.List) != 1 || !sameExpr(sw.Tag, fd.Type.Params.List[0].Names[0]) {
		c.bad(rule, construct, ti.Pos(fd.Pos()), "_TokenToString is not a switch over its parameter")
		return
	}
	hasDefault := false
	ncase := 0
	for _, cl := range sw.Body.List {
		cc := cl.(*ast.CaseClause)
		if cc.List == nil {
			if len(cc.Body) == 1 {
				if rs, ok := cc.Body[0].(*ast.ReturnStmt); ok && len(rs.Results) == 1 {
					if s, ok := constString(ti.Info, rs.Results[0]); ok && s == "???" {
						hasDefault = true
					}
				}
			}
			continue
		}
		ncase++
		lh := ti.exactHole(cc.List[0])
		if len(cc.List) != 1 || !isFieldOfRangeVal(lh, "Name") {
			c.bad(rule, construct+"/case", ti.Pos(cc.Pos()), "case label is not the Name of the ranged terminal")
			continue
		}
		if lh.Range.Src != constRange.Src {
			c.bad(rule, construct+"/case", ti.Pos(cc.Pos()), "cases range over %s but the constants over %s: the two lists can disagree", lh.Range.Src, constRange.Src)
			continue
		}
		// the returned string must be built from the same terminal
		okRet := false
		if len(cc.Body) == 1 {
			if rs, ok := cc.Body[0].(*ast.ReturnStmt); ok && len(rs.Results) == 1 {
				for _, h := range ti.holesIn(rs.Results[0]) {
					if h.Range == lh.Range && exprMentions(h.Expr, lh.Range.Val) {
						okRet = true
					}
				}
			}
		}
		if !okRet {
			c.bad(rule, construct+"/case", ti.Pos(cc.Pos()), "the string returned for a constant is not derived from the same terminal")
		}
	}
	if ncase != nconst {
		c.bad(rule, construct+"/coverage", ti.Pos(sw.Pos()), "%d constants but %d cases", nconst, ncase)
	}
	c.check(hasDefault, rule, construct+"/default", ti.Pos(sw.Pos()), `default arm returns "???"`, `no default arm returning "???" for values that are not token constants`)
	if ncase == nconst {
		c.ok(rule, construct+"/cases", ti.Pos(sw.Pos()), "one case per constant, generated by a range over the same variable (%s), returning a string derived from the same terminal", constRange.Src)
	}
	// the ranged variable is Grammar.Terminals, unreordered
	var use *TemplateUse
	for _, u := range ta.Set.Uses {
		if u.Name == baseTmpl {
			use = u
		}
	}
	id, ok := constRange.Expr.(*eIdent)
	if use == nil || !ok || use.Binds[id.Name] == nil {
		c.unres(rule, "template/terminals-binding", "", "the ranged expression %s is not a bound variable", constRange.Src)
		return
	}
	if why := tracesToGrammarTerminals(c, ta.Set.Pkg, use.Binds[id.Name]); why != "" {
		c.bad(rule, "binding("+id.Name+")", c.Prog.Pos(use.Binds[id.Name].Pos()), "%s", why)
	} else {
		c.ok(rule, "binding("+id.Name+")", c.Prog.Pos(use.Binds[id.Name].Pos()), "template variable %s is lr1.Grammar.Terminals itself (field reads only, no copy, sort or filter in between)", id.Name)
	}
}

// tracesToGrammarTerminals: e must be (a struct-field alias of) a selection of lr1.Grammar.Terminals.
func tracesToGrammarTerminals(c *Ctx, pk *packages.Package, e ast.Expr) string {
	info := pk.TypesInfo
	isGT := func(x ast.Expr) bool { return isField(info, x, "parsergen/lr1", "Grammar", "Terminals") }
	if isGT(e) {
		return ""
	}
	v, _ := selField(info, e)
	if v == nil {
		return fmt.Sprintf("bound value `%s` is not a field read of Grammar.Terminals", exprString(e))
	}
	// alias through a local struct: every composite literal / assignment setting that field must be Grammar.Terminals
	n := 0
	bad := ""
	for _, f := range pk.Syntax {
		ast.Inspect(f, func(m ast.Node) bool {
			switch x := m.(type) {
			case *ast.KeyValueExpr:
				if id, ok := x.Key.(*ast.Ident); ok && info.Uses[id] == v {
					n++
					if !isGT(x.Value) {
						bad = fmt.Sprintf("%s: field %s is set to `%s`, not to Grammar.Terminals", c.Prog.Pos(x.Pos()), v.Name(), exprString(x.Value))
					}
				}
			case *ast.AssignStmt:
				for i, l := range x.Lhs {
					if fv, _ := selField(info, l); fv == v && i < len(x.Rhs) {
						n++
						if !isGT(x.Rhs[i]) {
							bad = fmt.Sprintf("%s: field %s is assigned `%s`", c.Prog.Pos(x.Pos()), v.Name(), exprString(x.Rhs[i]))
						}
					}
				}
			}
			return true
		})
	}
	if bad != "" {
		return bad
	}
	if n == 0 {
		return fmt.Sprintf("no initialisation of field %s found", v.Name())
	}
	return ""
}

func ruleNUM2(c *Ctx) {
	const rule = "NUM-2"
	p := c.Prog
	nIdx, nTerm := 0, 0
	p.ProdFiles(func(pk *packages.Package, f *ast.File) {
		info := pk.TypesInfo
		for _, d := range f.Decls {
			fd, ok := d.(*ast.FuncDecl)
			if !ok || fd.Body == nil {
				continue
			}
			inAdd := pk.PkgPath == lr1Path && recvTypeName(fd) == "Grammar" && fd.Name.Name == "AddTerminal"
			par := parents(fd)
			ast.Inspect(fd.Body, func(n ast.Node) bool {
				switch x := n.(type) {
				case *ast.AssignStmt:
					for _, l := range x.Lhs {
						if isField(info, l, "parsergen/lr1", "Terminal", "Index") {
							nIdx++
							c.check(inAdd, rule, funcKey(pk, fd)+"/store(Terminal.Index)", p.Pos(x.Pos()),
								"Terminal.Index written in AddTerminal", "Terminal.Index is written outside Grammar.AddTerminal: the number no longer is the position in Grammar.Terminals")
						}
						if isField(info, l, "parsergen/lr1", "Grammar", "Terminals") {
							nTerm++
							c.check(inAdd, rule, funcKey(pk, fd)+"/store(Grammar.Terminals)", p.Pos(x.Pos()),
								"Grammar.Terminals extended in AddTerminal", "Grammar.Terminals is assigned outside Grammar.AddTerminal")
						}
						if ix, ok := ast.Unparen(l).(*ast.IndexExpr); ok && isField(info, ix.X, "parsergen/lr1", "Grammar", "Terminals") {
							c.bad(rule, funcKey(pk, fd)+"/store(Grammar.Terminals[i])", p.Pos(x.Pos()), "an element of Grammar.Terminals is overwritten: positions and Index values can diverge")
						}
					}
				case *ast.IncDecStmt:
					if isField(info, x.X, "parsergen/lr1", "Terminal", "Index") {
						c.bad(rule, funcKey(pk, fd)+"/store(Terminal.Index)", p.Pos(x.Pos()), "Terminal.Index is modified in place")
					}
				case *ast.CompositeLit:
					if typeIs(info.TypeOf(x), "parsergen/lr1", "Terminal") {
						for _, el := range x.Elts {
							kv, ok := el.(*ast.KeyValueExpr)
							if !ok {
								continue
							}
							if id, ok := kv.Key.(*ast.Ident); ok && id.Name == "Index" {
								nIdx++
								if !inAdd {
									c.bad(rule, funcKey(pk, fd)+"/literal(Terminal.Index)", p.Pos(kv.Pos()), "a Terminal with an explicit Index is built outside Grammar.AddTerminal")
									continue
								}
								// value must be len(<recv>.Terminals)
								call, ok := kv.Value.(*ast.CallExpr)
								if ok && builtinName(info, call) == "len" && len(call.Args) == 1 && isField(info, call.Args[0], "parsergen/lr1", "Grammar", "Terminals") {
									c.ok(rule, funcKey(pk, fd)+"/Index=len(Terminals)", p.Pos(kv.Pos()), "Index: len(g.Terminals), evaluated when the Terminal value is built")
								} else {
									c.bad(rule, funcKey(pk, fd)+"/Index=len(Terminals)", p.Pos(kv.Pos()), "Index is `%s`, not len(g.Terminals): numbering is no longer dense from 0", exprString(kv.Value))
								}
							}
						}
					}
					if typeIs(info.TypeOf(x), "parsergen/lr1", "Grammar") {
						for _, el := range x.Elts {
							if kv, ok := el.(*ast.KeyValueExpr); ok {
								if id, ok := kv.Key.(*ast.Ident); ok && id.Name == "Terminals" {
									c.bad(rule, funcKey(pk, fd)+"/literal(Grammar.Terminals)", p.Pos(kv.Pos()), "a Grammar is built with a pre-filled Terminals list")
								}
							}
						}
					}
				case *ast.CallExpr:
					// Grammar.Terminals handed to a function that could reorder it
					for ai, a := range x.Args {
						if !isField(info, a, "parsergen/lr1", "Grammar", "Terminals") {
							continue
						}
						b := builtinName(info, x)
						fn := calleeFunc(info, x)
						switch {
						case b == "len" || b == "cap":
						case b == "append" && ai == 0 && inAdd:
						case fn != nil && fn.Pkg() != nil && fn.Pkg().Path() == jetPath && fn.Name() == "Set":
						default:
							c.bad(rule, funcKey(pk, fd)+"/pass(Grammar.Terminals)", p.Pos(x.Pos()), "Grammar.Terminals is passed to %s, which may reorder or mutate it", exprString(x.Fun))
						}
					}
				}
				_ = par
				return true
			})
			if inAdd {
				// the append must add exactly the terminal whose Index was computed, after it was computed
				var lit *ast.CompositeLit
				var app *ast.CallExpr
				ast.Inspect(fd.Body, func(n ast.Node) bool {
					if cl, ok := n.(*ast.CompositeLit); ok && typeIs(info.TypeOf(cl), "parsergen/lr1", "Terminal") {
						lit = cl
					}
					if call, ok := n.(*ast.CallExpr); ok && builtinName(info, call) == "append" && len(call.Args) == 2 && isField(info, call.Args[0], "parsergen/lr1", "Grammar", "Terminals") {
						app = call
					}
					return true
				})
				if lit == nil || app == nil {
					c.unres(rule, funcKey(pk, fd)+"/append-after-index", p.Pos(fd.Pos()), "AddTerminal does not have the expected literal + append shape")
				} else {
					c.check(lit.End() <= app.Pos(), rule, funcKey(pk, fd)+"/append-after-index", p.Pos(app.Pos()),
						"len(g.Terminals) is read before the terminal is appended (Index = position)", "the terminal is appended before its Index is computed: Index = position + 1")
				}
			}
		}
	})
	if nIdx == 0 || nTerm == 0 {
		c.unres(rule, "lr1.Grammar.AddTerminal", "", "no write of Terminal.Index / Grammar.Terminals found: anchor moved")
	}
}

func ruleNUM3(c *Ctx) {
	const rule = "NUM-3"
	p := c.Prog
	// the only constructor of lr1.Grammar
	nLit := 0
	p.ProdFiles(func(pk *packages.Package, f *ast.File) {
		info := pk.TypesInfo
		for _, d := range f.Decls {
			fd, ok := d.(*ast.FuncDecl)
			if !ok || fd.Body == nil {
				continue
			}
			ast.Inspect(fd.Body, func(n ast.Node) bool {
				isNew := false
				switch x := n.(type) {
				case *ast.CompositeLit:
					isNew = typeIs(info.TypeOf(x), "parsergen/lr1", "Grammar") && !isPointer(info.TypeOf(x))
				case *ast.CallExpr:
					if builtinName(info, x) == "new" && len(x.Args) == 1 && typeIs(info.TypeOf(x.Args[0]), "parsergen/lr1", "Grammar") {
						isNew = true
					}
				}
				if isNew {
					nLit++
					inNew := pk.PkgPath == lr1Path && fd.Recv == nil && fd.Name.Name == "NewGrammar"
					c.check(inNew, rule, funcKey(pk, fd)+"/construct(Grammar)", p.Pos(n.Pos()), "Grammar value constructed in NewGrammar",
						"a Grammar is constructed outside NewGrammar: it would lack the reserved EOF and ERROR terminals")
				}
				return true
			})
		}
	})
	pk, fd := p.FuncDecl("internal/parsergen/lr1", "NewGrammar")
	if fd == nil || nLit == 0 {
		c.unres(rule, "lr1.NewGrammar", "", "constructor not found")
		return
	}
	info := pk.TypesInfo
	calls := findCalls(info, fd.Body, true, func(fn *types.Func, _ *ast.CallExpr) bool {
		return fullName(fn) == lr1Path+".Grammar.AddTerminal"
	})
	var names []string
	for _, call := range calls {
		s, ok := constString(info, call.Args[0])
		if !ok {
			s = "<non-constant>"
		}
		names = append(names, s)
	}
	okOrder := len(names) >= 2 && names[0] == "EOF" && names[1] == "ERROR"
	// they must be on the straight-line entry path (not conditional)
	g := p.CFG(pk, fd)
	if okOrder {
		for _, call := range calls[:2] {
			if pos, found := cfgLocate(g, call); !found || pos.b != g.Blocks[0] {
				okOrder = false
			}
		}
	}
	c.check(okOrder, rule, "lr1.NewGrammar/reserved-terminals", p.Pos(fd.Pos()),
		`the first two AddTerminal calls are unconditional with constant names "EOF" then "ERROR": indices 0 and 1`,
		fmt.Sprintf("the first terminals created by NewGrammar are %v, not EOF then ERROR (unconditionally)", names))
	// the values the reference driver hard-wires
	sl := p.ByID["github.com/dcaiafa/loxlex/simplelexer"]
	if sl == nil {
		c.unres(rule, "simplelexer/EOF,ERROR", "", "package github.com/dcaiafa/loxlex/simplelexer is not among the loaded dependencies")
		return
	}
	for name, want := range map[string]int64{"EOF": 0, "ERROR": 1} {
		k, ok := sl.Types.Scope().Lookup(name).(*types.Const)
		if !ok {
			c.unres(rule, "simplelexer."+name, "", "constant not found")
			continue
		}
		v, _ := constant.Int64Val(k.Val())
		c.check(v == want, rule, "simplelexer."+name, "", fmt.Sprintf("reference driver constant %s = %d equals the index NewGrammar gives it", name, v),
			fmt.Sprintf("reference driver has %s = %d but NewGrammar numbers it %d", name, v, want))
	}
	// reserved names cannot be redeclared by the user
	pka, vfd := p.FuncDecl("internal/ast", "validateTokenName")
	if vfd != nil {
		reserved := false
		ast.Inspect(vfd.Body, func(n ast.Node) bool {
			if ix, ok := n.(*ast.IndexExpr); ok {
				if v, ok := usesObj(pka.TypesInfo, ix.X).(*types.Var); ok {
					reserved = reserved || reservedMapHas(pka, v, "EOF", "ERROR")
				}
			}
			return true
		})
		c.check(reserved, rule, "ast.validateTokenName/reserved", p.Pos(vfd.Pos()), "EOF and ERROR are rejected as user token names",
			"validateTokenName no longer rejects EOF/ERROR: a user token could shadow a reserved constant")
	}
}

func isPointer(t types.Type) bool { _, ok := t.Underlying().(*types.Pointer); return ok }

func reservedMapHas(pk *packages.Package, v *types.Var, names ...string) bool {
	found := map[string]bool{}
	for _, f := range pk.Syntax {
		ast.Inspect(f, func(n ast.Node) bool {
			vs, ok := n.(*ast.ValueSpec)
			if !ok {
				return true
			}
			for i, nm := range vs.Names {
				if pk.TypesInfo.Defs[nm] == v && i < len(vs.Values) {
					if cl, ok := vs.Values[i].(*ast.CompositeLit); ok {
						for _, el := range cl.Elts {
							if kv, ok := el.(*ast.KeyValueExpr); ok {
								if s, ok := constString(pk.TypesInfo, kv.Key); ok {
									found[s] = true
								}
							}
						}
					}
				}
			}
			return true
		})
	}
	for _, n := range names {
		if !found[n] {
			return false
		}
	}
	return true
}

// isTerminalIndex: e is `X.Index` with X of type *lr1.Terminal.
func isTerminalIndex(info *types.Info, e ast.Expr) bool {
	e = ast.Unparen(e)
	// strip conversions
	for {
		call, ok := e.(*ast.CallExpr)
		if !ok || len(call.Args) != 1 {
			break
		}
		if tv, ok := info.Types[call.Fun]; !ok || !tv.IsType() {
			break
		}
		e = ast.Unparen(call.Args[0])
	}
	return isField(info, e, "parsergen/lr1", "Terminal", "Index")
}

func stripConv(info *types.Info, e ast.Expr) ast.Expr {
	e = ast.Unparen(e)
	for {
		call, ok := e.(*ast.CallExpr)
		if !ok || len(call.Args) != 1 {
			return e
		}
		if tv, ok := info.Types[call.Fun]; !ok || !tv.IsType() {
			return e
		}
		e = ast.Unparen(call.Args[0])
	}
}

func ruleNUM4(c *Ctx) {
	const rule = "NUM-4"
	p := c.Prog
	c.floor(rule, 4)
	acceptConst := lookupConst(p, "internal/lexergen/mode", "ActionAccept")
	if acceptConst == nil {
		c.unres(rule, "mode.ActionAccept", "", "constant not found")
		return
	}
	// (a) every accept action literal carries a Terminal.Index
	p.ProdFiles(func(pk *packages.Package, f *ast.File) {
		info := pk.TypesInfo
		for _, d := range f.Decls {
			fd, ok := d.(*ast.FuncDecl)
			if !ok || fd.Body == nil {
				continue
			}
			ast.Inspect(fd.Body, func(n ast.Node) bool {
				cl, ok := n.(*ast.CompositeLit)
				if !ok || !typeIs(info.TypeOf(cl), "lexergen/mode", "Action") {
					return true
				}
				var typ, term ast.Expr
				for _, el := range cl.Elts {
					if kv, ok := el.(*ast.KeyValueExpr); ok {
						if id, ok := kv.Key.(*ast.Ident); ok {
							switch id.Name {
							case "Type":
								typ = kv.Value
							case "Terminal":
								term = kv.Value
							}
						}
					}
				}
				if typ == nil || usesObj(info, typ) != types.Object(acceptConst) {
					if term != nil {
						c.bad(rule, funcKey(pk, fd)+"/Action-literal", p.Pos(cl.Pos()), "a non-accept action carries a Terminal")
					}
					return true
				}
				construct := funcKey(pk, fd) + "/accept-action"
				if term != nil && isTerminalIndex(info, term) {
					c.ok(rule, construct, p.Pos(cl.Pos()), "accept action carries %s", exprString(term))
				} else {
					ts := "<missing>"
					if term != nil {
						ts = exprString(term)
					}
					c.bad(rule, construct, p.Pos(cl.Pos()), "accept action's Terminal is `%s`, not the Index of an *lr1.Terminal: lexer and parser tables would number tokens differently", ts)
				}
				return true
			})
		}
	})
	// (b) writer: the accept arm of EmitLexer emits action.Terminal as the parameter
	w := findLexerWriter(c)
	if w == nil {
		c.unres(rule, "codegen.EmitLexer/accept-arm", "", "lexer table writer not found")
	} else {
		arm := w.arms[acceptConst.Name()]
		if arm == nil {
			c.bad(rule, "codegen.EmitLexer/accept-arm", p.Pos(w.sw.Pos()), "the action switch has no arm for ActionAccept")
		} else {
			okp := arm.param != nil && isField(w.pk.TypesInfo, stripConv(w.pk.TypesInfo, arm.param), "lexergen/mode", "Action", "Terminal")
			ps := "<none>"
			if arm.param != nil {
				ps = exprString(arm.param)
			}
			c.check(okp, rule, "codegen.EmitLexer/accept-arm", p.Pos(arm.call.Pos()), "accept arm writes action.Terminal as the action parameter",
				fmt.Sprintf("accept arm writes `%s` as the parameter, not action.Terminal", ps))
		}
	}
	// (c) reader: the accept arm stores the parameter in the field Token() returns
	ta := c.tmplOrUnres(rule)
	if ta == nil {
		return
	}
	ti := ta.Variants[0]
	r := findLexerReader(ti)
	if r == nil {
		c.unres(rule, "template/PushRune/accept-arm", "", "action dispatch switch not found in PushRune")
		return
	}
	code, _ := constant.Int64Val(acceptConst.Val())
	arm := r.arms[code]
	if arm == nil {
		c.bad(rule, "template/PushRune/accept-arm", ti.Pos(r.sw.Pos()), "no case %d (ActionAccept) in the reader's action switch", code)
		return
	}
	var tokField *types.Var
	for _, s := range arm.Body {
		as, ok := s.(*ast.AssignStmt)
		if !ok || len(as.Lhs) != 1 {
			continue
		}
		fv, _ := selField(ti.Info, as.Lhs[0])
		if fv == nil {
			continue
		}
		rhs := stripConv(ti.Info, as.Rhs[0])
		if ix, ok := rhs.(*ast.IndexExpr); ok && isIndexPlus(ix.Index, r.idxVar, 1) {
			tokField = fv
		}
	}
	if tokField == nil {
		c.bad(rule, "template/PushRune/accept-arm", ti.Pos(arm.Pos()), "the accept arm does not store the action parameter (mode[i+1]) into a field")
		return
	}
	tfd, _ := ti.FuncDecl("_LexerStateMachine.Token")
	okTok := false
	if tfd != nil && len(tfd.Body.List) == 1 {
		if rs, ok := tfd.Body.List[0].(*ast.ReturnStmt); ok && len(rs.Results) == 1 {
			fv, _ := selField(ti.Info, rs.Results[0])
			okTok = fv == tokField
		}
	}
	c.check(okTok, rule, "template/PushRune/accept-arm", ti.Pos(arm.Pos()), fmt.Sprintf("case %d stores the parameter in field %s, which Token() returns", code, tokField.Name()),
		fmt.Sprintf("case %d stores the parameter in field %s but Token() does not return that field", code, tokField.Name()))
}

func lookupConst(p *Program, pkgRel, name string) *types.Const {
	pk := p.Pkg(pkgRel)
	if pk == nil {
		return nil
	}
	k, _ := pk.Types.Scope().Lookup(name).(*types.Const)
	return k
}

// isIndexPlus: e is `v + k` (or v when k == 0).
func isIndexPlus(e ast.Expr, v string, k int64) bool {
	e = ast.Unparen(e)
	if k == 0 {
		id, ok := e.(*ast.Ident)
		return ok && id.Name == v
	}
	be, ok := e.(*ast.BinaryExpr)
	if !ok || be.Op != token.ADD {
		return false
	}
	id, ok := ast.Unparen(be.X).(*ast.Ident)
	lit, ok2 := ast.Unparen(be.Y).(*ast.BasicLit)
	return ok && ok2 && id.Name == v && lit.Value == fmt.Sprint(k)
}

func ruleNUM5(c *Ctx) {
	const rule = "NUM-5"
	p := c.Prog
	w := findParserWriter(c)
	if w == nil || w.actionsKey == nil {
		c.unres(rule, "codegen.EmitParser/actions-key", "", "the action-row writer was not found")
	} else {
		c.check(isTerminalIndex(w.pk.TypesInfo, w.actionsKey), rule, "codegen.EmitParser/actions-key", p.Pos(w.actionsKey.Pos()),
			"action rows are keyed by terminal.Index", fmt.Sprintf("action rows are keyed by `%s`, not by Terminal.Index", exprString(w.actionsKey)))
	}
	ta := c.tmplOrUnres(rule)
	if ta == nil {
		return
	}
	for _, ti := range ta.Variants {
		variant := "template[" + ti.FlagString() + "]"
		fd, _ := ti.FuncDecl("_P.parse")
		rt, _ := ti.FuncDecl("_P._readToken")
		if fd == nil || rt == nil {
			c.unres(rule, variant+"/parse", "", "parse/_readToken not found in the instantiated parser template")
			continue
		}
		// the field that receives ReadToken's int result
		var laField *types.Var
		ast.Inspect(rt.Body, func(n ast.Node) bool {
			as, ok := n.(*ast.AssignStmt)
			if !ok || len(as.Lhs) != 2 || len(as.Rhs) != 1 {
				return true
			}
			call, ok := as.Rhs[0].(*ast.CallExpr)
			if !ok {
				return true
			}
			if sel, ok := call.Fun.(*ast.SelectorExpr); ok && sel.Sel.Name == "ReadToken" {
				laField, _ = selField(ti.Info, as.Lhs[1])
			}
			return true
		})
		if laField == nil {
			c.bad(rule, variant+"/_readToken", ti.Pos(rt.Pos()), "_readToken does not store the token id returned by ReadToken in a field")
			continue
		}
		// every _Find(_actions, state, X) in parse: X is that field
		n := 0
		for _, call := range findCalls(ti.Info, fd.Body, false, func(fn *types.Func, call *ast.CallExpr) bool {
			return fn != nil && fn.Name() == "_Find" && len(call.Args) == 3 && exprString(call.Args[0]) == "_actions"
		}) {
			n++
			fv, _ := selField(ti.Info, stripConv(ti.Info, call.Args[2]))
			c.check(fv == laField, rule, variant+"/parse/_Find(_actions)", ti.Pos(call.Pos()),
				fmt.Sprintf("the action lookup key is field %s, the int returned by ReadToken", laField.Name()),
				fmt.Sprintf("the action lookup key is `%s`, not the token id returned by ReadToken", exprString(call.Args[2])))
		}
		if n == 0 {
			c.unres(rule, variant+"/parse/_Find(_actions)", ti.Pos(fd.Pos()), "no _Find(_actions, ...) lookup in parse")
		}
	}
}

func ruleNUM6(c *Ctx) {
	const rule = "NUM-6"
	p := c.Prog
	allowed := map[string]bool{"lr1.NewGrammar": true, "ast.TokenRule.RunPass": true, "ast.ExternalName.RunPass": true}
	seen := map[string]int{}
	p.ProdFiles(func(pk *packages.Package, f *ast.File) {
		info := pk.TypesInfo
		for _, d := range f.Decls {
			fd, ok := d.(*ast.FuncDecl)
			if !ok || fd.Body == nil {
				continue
			}
			calls := findCalls(info, fd.Body, true, func(fn *types.Func, _ *ast.CallExpr) bool {
				return fullName(fn) == lr1Path+".Grammar.AddTerminal"
			})
			if len(calls) == 0 {
				continue
			}
			key := funcKey(pk, fd)
			seen[key] = len(calls)
			if !allowed[key] {
				c.bad(rule, key+"/AddTerminal", p.Pos(calls[0].Pos()), "terminals are created in %s, which is not a token or @external declaration: extra constants would appear", key)
				continue
			}
			if key == "lr1.NewGrammar" {
				continue
			}
			if len(calls) != 1 {
				c.bad(rule, key+"/AddTerminal", p.Pos(calls[0].Pos()), "%d AddTerminal calls for one declaration", len(calls))
				continue
			}
			call := calls[0]
			// guarded by a successful RegisterName
			regs := findCalls(info, fd.Body, false, func(fn *types.Func, _ *ast.CallExpr) bool {
				return fn != nil && fn.Name() == "RegisterName" && strings.HasSuffix(fullName(fn), "ast.Context.RegisterName")
			})
			guarded := false
			par := parents(fd)
			for _, reg := range regs {
				// form 1: if !ctx.RegisterName(..) { return }  ... AddTerminal
				if un, ok := par[reg].(*ast.UnaryExpr); ok && un.Op == token.NOT {
					if ifs, ok := par[un].(*ast.IfStmt); ok && ifs.Cond == ast.Expr(un) && endsInReturn(ifs.Body) && ifs.End() <= call.Pos() && sameBlockSeq(par, ifs, call) {
						guarded = true
					}
				}
				// form 2: if ctx.RegisterName(..) { ... AddTerminal ... }
				if ifs, ok := par[reg].(*ast.IfStmt); ok && ifs.Cond == ast.Expr(reg) && containsNode(ifs.Body, call) {
					guarded = true
				}
			}
			// executed in the CreateNames pass only
			inCreate := false
			for q := par[call]; q != nil; q = par[q] {
				if cc, ok := q.(*ast.CaseClause); ok {
					for _, e := range cc.List {
						if o := usesObj(info, e); o != nil && o.Name() == "CreateNames" {
							inCreate = true
						}
					}
				}
			}
			c.check(guarded && inCreate, rule, key+"/AddTerminal", p.Pos(call.Pos()),
				"exactly one AddTerminal, in the CreateNames arm, reached only after RegisterName succeeded",
				"AddTerminal is not guarded by a successful RegisterName in the CreateNames arm: a duplicate or invalid declaration would still get a constant, or a pass would add it twice")
		}
	})
	for k := range allowed {
		if seen[k] == 0 {
			c.unres(rule, k+"/AddTerminal", "", "expected terminal-creating site not found")
		}
	}
}

func endsInReturn(b *ast.BlockStmt) bool {
	if len(b.List) == 0 {
		return false
	}
	_, ok := b.List[len(b.List)-1].(*ast.ReturnStmt)
	return ok
}

// sameBlockSeq: a is a statement of a block that (transitively) contains b after a.
func sameBlockSeq(par map[ast.Node]ast.Node, a ast.Stmt, b ast.Node) bool {
	blk := par[a]
	var list []ast.Stmt
	switch x := blk.(type) {
	case *ast.BlockStmt:
		list = x.List
	case *ast.CaseClause:
		list = x.Body
	default:
		return false
	}
	after := false
	for _, s := range list {
		if s == a {
			after = true
			continue
		}
		if after && containsNode(s, b) {
			return true
		}
	}
	return false
}
