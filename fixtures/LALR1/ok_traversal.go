package fixture

// negative fixture for LALR-1: a traversal that only accumulates into a shared result returns
// nothing on a hit; a guard whose mark is removed on exit detects cycles only.
type set2 map[string]bool

func (s set2) Has(k string) bool { return s[k] }
func (s set2) Add(k string)      { s[k] = true }
func (s set2) Remove(k string)   { delete(s, k) }

type node struct {
	name string
	next []*node
}

func walk(seen set2, n *node, out *[]string) {
	if seen.Has(n.name) {
		return
	}
	seen.Add(n.name)
	*out = append(*out, n.name)
	for _, m := range n.next {
		walk(seen, m, out)
	}
}

func depth(onPath set2, n *node) int {
	if onPath.Has(n.name) {
		return 0
	}
	onPath.Add(n.name)
	d := 0
	for _, m := range n.next {
		if x := depth(onPath, m); x > d {
			d = x
		}
	}
	onPath.Remove(n.name)
	return d + 1
}
